#!/bin/bash
# usage: ./run.sh Cnn quick|thorough|replay [file]
# Rebuilds the checker (so that /repo edits seen through the module `replace` are compiled in)
# and decides property Cnn from /repo's current working tree by static analysis only.
set -u
cd "$(dirname "$0")"
export GOFLAGS=-mod=mod GOPROXY=off GOSUMDB=off GOTOOLCHAIN=local GOWORK=off
export VERIF_DIR="$(pwd)"
ID="$1"; TIER="${2:-quick}"
mkdir -p bin evidence
# The checker imports the repository's own Wa parser (front end for .wa sources). If an edit under
# /repo stops that from compiling the checker cannot be rebuilt: that is an infrastructure failure (exit 2).
(cd wacheck && flock ../bin/.build.lock go build -o ../bin/wacheck . ) 2> bin/build.$ID.log || { cat bin/build.$ID.log >&2; echo "INFRASTRUCTURE FAILURE: checker does not build against /repo" >&2; exit 2; }
if [ "$TIER" = replay ]; then
  exec ./bin/wacheck replay "$ID" "${3:-evidence/$ID.violations.json}"
fi
exec ./bin/wacheck check "$ID" --tier "$TIER" --seed "${VERIF_SEED:-0}"
