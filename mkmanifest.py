#!/usr/bin/env python3
"""Regenerates MANIFEST.json from the table below (claimed checks) and NA (not applicable)."""
import json, os
HERE = os.path.dirname(os.path.abspath(__file__))
ids = [json.loads(l)["id"] for l in open(os.path.join(HERE, "properties.jsonl"))]

# id -> (technique, level text, level note, DESIGN section)
CLAIMED = {}
NA = {}
exec(open(os.path.join(HERE, "manifest_table.py")).read())

checks = []
for i in ids:
    if i in CLAIMED:
        tech, text, note = CLAIMED[i]
        checks.append({
            "property_id": i,
            "quick_cmd": f"./run.sh {i} quick",
            "thorough_cmd": f"./run.sh {i} thorough",
            "evidence_file": f"/verif/evidence/{i}.json",
            "replay_cmd_template": f"./run.sh {i} replay {{path}}",
            "engine": "wacheck",
            "level_claimed": {"category": "other", "text": text, "design_ref": f"DESIGN.md section 4, {i}"},
            "level_note": note,
            "technique": tech,
        })
na = [{"property_id": i, "reason": NA.get(i, "not built yet: no validated static rule exists for this property at this commit")} for i in ids if i not in CLAIMED]
m = {
    "version": 1,
    "setup_cmd": "cd /verif/wacheck && GOFLAGS=-mod=mod GOPROXY=off GOSUMDB=off GOTOOLCHAIN=local GOWORK=off go build -o ../bin/wacheck .",
    "hooks": {"guard": "verif", "enable": "none: static analysis needs no instrumentation; no hook commits exist", "baseline_off_cmd": "cd /repo && GOFLAGS=-mod=mod go test -vet=off -count=1 -timeout 25m ./...", "source_commits": [], "add_only": True},
    "engines": [{"name": "wacheck", "path": "/verif/wacheck", "serves_properties": sorted(CLAIMED), "kind_free_text": "repository-specific static analyser (go/packages + go/types + go/ssa + VTA call graph, plus readers for the .wa/.wat sources the compiler embeds); analyses /repo's current source on every run, executes none of it"}],
    "checks": checks,
    "not_applicable": na,
    "notes": "Technique family: static analysis only. Every claimed property is claimed at level 'other': the rules decide necessary structural clauses of the property (named in each evidence file's coverage.explanation), not the behaviour. Known findings: /verif/known_findings.json.",
}
json.dump(m, open(os.path.join(HERE, "MANIFEST.json"), "w"), indent=1, ensure_ascii=False)
print("claimed:", sorted(CLAIMED), "na:", len(na))
