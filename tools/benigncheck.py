#!/usr/bin/env python3
"""Runs the checks against behaviour-preserving changes (they must stay silent).

usage: tools/benigncheck.py each  <dir-with-Cnn-k.diff ...>   # every diff alone, the check of its own property
       tools/benigncheck.py sweep <dir-with-Cnn-k.diff ...>   # all diffs of a directory that apply together, every check

Patches are applied in ONE scratch worktree of /repo (never in /repo itself); the checker is pointed at it with
VERIF_REPO and writes no evidence. Results are appended to /verif/benign/results.json.
"""
import glob, json, os, re, subprocess, sys

VERIF = "/verif"
WT = "/tmp/benigncheck_wt"
env = dict(os.environ, GOFLAGS="-mod=mod", GOPROXY="off", GOSUMDB="off", GOTOOLCHAIN="local", GOWORK="off",
           VERIF_REPO=WT, VERIF_NO_EVIDENCE="1", VERIF_DIR=VERIF)


def sh(*a, **k):
    return subprocess.run(a, capture_output=True, text=True, **k)


def check(pid):
    r = sh(os.environ.get("BENIGN_BIN", f"{VERIF}/bin/wacheck"), "check", pid, "--tier", "quick", cwd=VERIF, env=env)
    out = r.stdout + r.stderr
    rules = sorted(set(re.findall(r"^\s+(?:VIOLATION|UNDECIDED): \[([^\]]+)\]", out, re.M)))
    first = [l.strip()[:500] for l in out.splitlines() if l.strip().startswith(("VIOLATION:", "UNDECIDED:"))][:4]
    return r.returncode, rules, first, out


mode, dirs = sys.argv[1], sys.argv[2:]
claimed = [c["property_id"] for c in json.load(open(f"{VERIF}/MANIFEST.json"))["checks"]]
sh("git", "-C", "/repo", "worktree", "remove", "--force", WT)
r = sh("git", "-C", "/repo", "worktree", "add", "--detach", WT, "HEAD")
if r.returncode != 0:
    sys.exit("cannot create worktree: " + r.stderr)
results = []
try:
    for d in dirs:
        diffs = sorted(glob.glob(d + "/*C[0-9][0-9]-[0-9]*.diff"))
        if mode == "each":
            for f in diffs:
                pid = re.search(r"C\d\d", os.path.basename(f)).group(0)
                a = sh("git", "-C", WT, "apply", f)
                if a.returncode != 0:
                    print(os.path.basename(f), "DOES NOT APPLY", a.stderr.strip()[:120]); continue
                b = sh("go", "build", "./...", cwd=WT, env=env)
                if pid in claimed:
                    rc, rules, first, _ = check(pid)
                else:
                    rc, rules, first = 0, [], []
                res = {"patch": f, "property": pid, "build": b.returncode, "exit": rc, "rules": rules, "report": first}
                results.append(res)
                print(os.path.basename(f), "build=%d" % b.returncode, "silent" if rc == 0 else "ALARM " + ",".join(rules), flush=True)
                sh("git", "-C", WT, "checkout", "--", "."); sh("git", "-C", WT, "clean", "-fdq")
        else:
            applied = []
            for f in diffs:
                if sh("git", "-C", WT, "apply", f).returncode == 0:
                    applied.append(os.path.basename(f))
            b = sh("go", "build", "./...", cwd=WT, env=env)
            print(d, "applied together:", len(applied), "of", len(diffs), "build=%d" % b.returncode, flush=True)
            for pid in claimed:
                rc, rules, first, _ = check(pid)
                results.append({"sweep": d, "applied": applied, "property": pid, "exit": rc, "rules": rules, "report": first})
                print(" ", pid, "silent" if rc == 0 else "ALARM " + ",".join(rules), flush=True)
            sh("git", "-C", WT, "checkout", "--", "."); sh("git", "-C", WT, "clean", "-fdq")
finally:
    sh("git", "-C", "/repo", "worktree", "remove", "--force", WT)
os.makedirs(f"{VERIF}/benign", exist_ok=True)
p = f"{VERIF}/benign/results.json"
old = json.load(open(p)) if os.path.exists(p) else []
json.dump(old + results, open(p, "w"), indent=1, ensure_ascii=False)
n = sum(1 for r in results if r["exit"] != 0)
print(f"{n} alarms in {len(results)} runs")
