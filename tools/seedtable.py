#!/usr/bin/env python3
"""Rewrites the table of section 11 of DESIGN.md (between the SEEDTABLE markers) from seeded/*/meta.json."""
import glob, json, os, re
rows = []
for d in sorted(glob.glob('/verif/seeded/C*-*')):
    key = os.path.basename(d)
    m = json.load(open(d + '/meta.json'))
    brk = re.sub(r'\s+', ' ', m['breaks']).replace('|', '/')
    if len(brk) > 230:
        brk = brk[:227] + '…'
    first = m.get('first_run', {})
    a = m.get('after_strengthening', {})
    f = 'caught' if first.get('caught') else 'missed'
    if a.get('caught'):
        now = 'caught: `' + '`, `'.join(a.get('rules', [])) + '`'
        if m.get('caught_by_property'):
            now += ' (a rule of ' + m['caught_by_property'] + ')'
    elif a.get('caught') is None and a:
        now = 'not re-run: ' + a.get('reason', '')
    else:
        now = 'missed' + ((': ' + m['missed_reason']) if m.get('missed_reason') else '')
    rows.append(f'| {key} | {brk} | {f} | {now} |')
tbl = '| seed | change | first run | current checker |\n|---|---|---|---|\n' + '\n'.join(rows)
p = '/verif/DESIGN.md'
s = open(p).read()
a, b = '<!-- SEEDTABLE:BEGIN -->', '<!-- SEEDTABLE:END -->'
s = s[:s.index(a) + len(a)] + '\n' + tbl + '\n' + s[s.index(b):]
open(p, 'w').write(s)
print(len(rows), 'rows')
