module gotokens

go 1.21
