// gotokens prints, as JSON lines, the mutable tokens of a Go source file: byte offset, length, kind, text and the
// enclosing function. Used by tools/mutcampaign.py to build one-token mutants.
package main

import (
	"encoding/json"
	"fmt"
	"go/ast"
	"go/parser"
	"go/scanner"
	"go/token"
	"os"
)

type tok struct {
	Off  int    `json:"off"`
	Len  int    `json:"len"`
	Kind string `json:"kind"`
	Text string `json:"text"`
	Func string `json:"func"`
	Line int    `json:"line"`
	End  int    `json:"end,omitempty"`
}

func main() {
	path := os.Args[1]
	src, err := os.ReadFile(path)
	if err != nil {
		fmt.Fprintln(os.Stderr, err)
		os.Exit(2)
	}
	fset := token.NewFileSet()
	f, err := parser.ParseFile(fset, path, src, 0)
	if err != nil {
		fmt.Fprintln(os.Stderr, err)
		os.Exit(2)
	}
	type rng struct {
		lo, hi int
		name   string
	}
	var funcs []rng
	for _, d := range f.Decls {
		if fd, ok := d.(*ast.FuncDecl); ok && fd.Body != nil {
			name := fd.Name.Name
			if fd.Recv != nil && len(fd.Recv.List) == 1 {
				t := fd.Recv.List[0].Type
				if st, ok := t.(*ast.StarExpr); ok {
					t = st.X
				}
				if id, ok := t.(*ast.Ident); ok {
					name = id.Name + "." + name
				}
			}
			funcs = append(funcs, rng{fset.Position(fd.Body.Pos()).Offset, fset.Position(fd.Body.End()).Offset, name})
		}
	}
	enc0 := json.NewEncoder(os.Stdout)
	for _, d := range f.Decls {
		if fd, ok := d.(*ast.FuncDecl); ok && fd.Body != nil {
			for _, r := range funcs {
				if r.lo == fset.Position(fd.Body.Pos()).Offset {
					enc0.Encode(tok{Kind: "func", Func: r.name, Line: fset.Position(fd.Pos()).Line, End: fset.Position(fd.End()).Line})
				}
			}
		}
	}
	var s scanner.Scanner
	fs2 := token.NewFileSet()
	file := fs2.AddFile(path, fs2.Base(), len(src))
	s.Init(file, src, nil, 0)
	enc := json.NewEncoder(os.Stdout)
	for {
		pos, t, lit := s.Scan()
		if t == token.EOF {
			break
		}
		off := file.Offset(pos)
		fn := ""
		for _, r := range funcs {
			if off >= r.lo && off < r.hi {
				fn = r.name
			}
		}
		if fn == "" {
			continue
		}
		kind := ""
		text := t.String()
		switch t {
		case token.LSS, token.LEQ, token.GTR, token.GEQ, token.EQL, token.NEQ:
			kind = "rel"
		case token.ADD, token.SUB:
			kind = "arith"
		case token.LAND, token.LOR:
			kind = "logic"
		case token.NOT:
			kind = "not"
		case token.INT:
			kind = "int"
			text = lit
		case token.IDENT:
			if lit == "true" || lit == "false" {
				kind = "bool"
			}
			text = lit
		case token.SHL, token.SHR, token.AND, token.OR:
			kind = "bit"
		case token.INC, token.DEC:
			kind = "incdec"
		case token.BREAK, token.CONTINUE:
			kind = "jump"
		}
		if kind == "" {
			continue
		}
		enc.Encode(tok{Off: off, Len: len(text), Kind: kind, Text: text, Func: fn, Line: file.Line(pos)})
	}
}
