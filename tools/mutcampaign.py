#!/usr/bin/env python3
"""One-token mutation campaign: how often does a check notice a small change in the code it reads?

usage: tools/mutcampaign.py <Cnn> [N per property, default 40] [seed]

1. runs the check once with VERIF_OBLIGATIONS to learn which functions (file + enclosing function of every obligation's
   location) the check reads;
2. lists the mutable tokens of those functions (bin/gotokens: relational, arithmetic, logical operators, !, small integer
   literals, true/false, ++/--, break/continue);
3. samples N one-token mutants, applies each in a scratch worktree, requires `go build` of the package to pass, and runs
   the quick check with VERIF_REPO pointing at the worktree;
4. writes /verif/mutation/<Cnn>.json: per mutant file, function, line, change, caught (rules) or silent.

A silent mutant is not necessarily a gap: it may leave behaviour unchanged (equivalent mutant) or change behaviour the
property does not speak about. Silent mutants are triaged by hand (see DESIGN.md section 13).
"""
import json, os, random, re, subprocess, sys

VERIF = "/verif"
pid = sys.argv[1]
N = int(sys.argv[2]) if len(sys.argv) > 2 else 40
seed = int(sys.argv[3]) if len(sys.argv) > 3 else 1
WT = f"/tmp/mutcampaign_{pid}"
BIN = os.environ.get("MUT_BIN", f"{VERIF}/bin/wacheck")
env = dict(os.environ, GOFLAGS="-mod=mod", GOPROXY="off", GOSUMDB="off", GOTOOLCHAIN="local", GOWORK="off", VERIF_DIR=VERIF, VERIF_NO_EVIDENCE="1")


def sh(*a, **k):
    return subprocess.run(a, capture_output=True, text=True, **k)


obl = f"/tmp/mutcampaign_{pid}.obl"
r = sh(BIN, "check", pid, "--tier", "quick", cwd=VERIF, env=dict(env, VERIF_OBLIGATIONS=obl))
if r.returncode != 0:
    sys.exit(f"check {pid} does not pass on the clean tree: {r.stdout[-400:]}")
locs = {}
for line in open(obl):
    o = json.loads(line)
    m = re.match(r"(.+\.go):(\d+)", o["loc"])
    if m:
        locs.setdefault(m.group(1), set()).add(int(m.group(2)))
toks = []
for f, lines in sorted(locs.items()):
    path = "/repo/" + f
    if not os.path.exists(path) or "/3rdparty/wazero/" in f:
        continue
    r = sh(f"{VERIF}/bin/gotokens", path)
    if r.returncode != 0:
        continue
    all_t = [json.loads(l) for l in r.stdout.splitlines()]
    # functions that contain an obligation location
    read = {t["func"] for t in all_t if t["kind"] == "func" and any(t["line"] <= l <= t["end"] for l in lines)}
    all_t = [t for t in all_t if t["kind"] != "func"]
    for t in all_t:
        if t["func"] in read:
            t["file"] = f
            toks.append(t)
SWAP = {"<": ["<=", ">"], "<=": ["<", ">="], ">": [">=", "<"], ">=": [">", "<="], "==": ["!="], "!=": ["=="],
        "+": ["-"], "-": ["+"], "&&": ["||"], "||": ["&&"], "true": ["false"], "false": ["true"],
        "<<": [">>"], ">>": ["<<"], "&": ["|"], "|": ["&"], "++": ["--"], "--": ["++"], "break": ["continue"], "continue": ["break"]}
cands = []
for t in toks:
    if t["kind"] == "int":
        try:
            v = int(t["text"], 0)
        except ValueError:
            continue
        if v <= 64:
            cands.append((t, str(v + 1)))
            if v > 0:
                cands.append((t, str(v - 1)))
    elif t["kind"] == "not":
        cands.append((t, ""))
    else:
        for rep in SWAP.get(t["text"], []):
            cands.append((t, rep))
random.Random(seed).shuffle(cands)
print(f"{pid}: {len(locs)} files, {len(toks)} tokens in functions the check reads, {len(cands)} candidate mutants", flush=True)
sh("git", "-C", "/repo", "worktree", "remove", "--force", WT)
r = sh("git", "-C", "/repo", "worktree", "add", "--detach", WT, "HEAD")
if r.returncode != 0:
    sys.exit("cannot create worktree: " + r.stderr)
results = []
try:
    done = 0
    for t, rep in cands:
        if done >= N:
            break
        path = f"{WT}/{t['file']}"
        src = open(path, "rb").read()
        old = src[t["off"]:t["off"] + t["len"]].decode()
        if old != t["text"]:
            continue
        open(path, "wb").write(src[:t["off"]] + rep.encode() + src[t["off"] + t["len"]:])
        pkgdir = os.path.dirname(t["file"]) or "."
        b = sh("go", "build", "./" + pkgdir, cwd=WT, env=env)
        if b.returncode != 0:
            open(path, "wb").write(src)
            continue
        done += 1
        r = sh(BIN, "check", pid, "--tier", "quick", cwd=VERIF, env=dict(env, VERIF_REPO=WT))
        out = r.stdout + r.stderr
        rules = sorted(set(re.findall(r"^\s+(?:VIOLATION|UNDECIDED): \[([^\]]+)\]", out, re.M)))
        res = {"file": t["file"], "func": t["func"], "line": t["line"], "from": old, "to": rep, "caught": r.returncode == 1 and bool(rules), "rules": rules}
        if r.returncode not in (0, 1):
            res["error"] = out[-300:]
        results.append(res)
        print(("caught " if res["caught"] else "SILENT ") + f"{t['file']}:{t['line']} {t['func']}: `{old}` -> `{rep}` " + ",".join(rules)[:100], flush=True)
        open(path, "wb").write(src)
finally:
    sh("git", "-C", "/repo", "worktree", "remove", "--force", WT)
os.makedirs(f"{VERIF}/mutation", exist_ok=True)
n = sum(1 for r in results if r["caught"])
json.dump({"property": pid, "seed": seed, "candidates": len(cands), "sampled": len(results), "caught": n, "results": results}, open(f"{VERIF}/mutation/{pid}.json", "w"), indent=1)
print(f"{pid}: {n}/{len(results)} one-token mutants caught")
