#!/usr/bin/env python3
"""Second phase of the mutation campaign: does the repository's own test suite notice the mutants the check missed?

usage: tools/mutsuite.py <Cnn> [K silent mutants to try, default 2] [seed]

Reads /verif/mutation/<Cnn>.json, samples K silent mutants, applies each in a scratch worktree and runs the full suite
(go build ./... && go test -vet=off ./...). Records the outcome under "suite" in the same file: "fails" (the change is not
one that "still passes the existing tests") or "passes" (a candidate gap, to be triaged by hand: equivalent mutant, change
the property does not speak about, or a genuine miss).
"""
import json, os, random, subprocess, sys

VERIF = "/verif"
pid = sys.argv[1]
K = int(sys.argv[2]) if len(sys.argv) > 2 else 2
seed = int(sys.argv[3]) if len(sys.argv) > 3 else 1
WT = f"/tmp/mutsuite_{pid}"
env = dict(os.environ, GOFLAGS="-mod=mod", GOPROXY="off", GOSUMDB="off", GOTOOLCHAIN="local", GOWORK="off")


def sh(*a, **k):
    return subprocess.run(a, capture_output=True, text=True, **k)


path = f"{VERIF}/mutation/{pid}.json"
d = json.load(open(path))
silent = [r for r in d["results"] if not r["caught"] and "suite" not in r]
random.Random(seed).shuffle(silent)
sh("git", "-C", "/repo", "worktree", "remove", "--force", WT)
r = sh("git", "-C", "/repo", "worktree", "add", "--detach", WT, "HEAD")
if r.returncode != 0:
    sys.exit("cannot create worktree: " + r.stderr)
try:
    for m in silent[:K]:
        f = f"{WT}/{m['file']}"
        src = open(f, "rb").read()
        # locate the token again by line (offsets are not stored): the n-th occurrence of `from` on that line
        lines = src.split(b"\n")
        ln = m["line"] - 1
        if ln >= len(lines) or m["from"].encode() not in lines[ln]:
            m["suite"] = "not-applied"
            continue
        # try every occurrence on the line until the package builds (the campaign required a building mutant)
        applied = False
        start = 0
        while True:
            i = lines[ln].find(m["from"].encode(), start)
            if i < 0:
                break
            new_line = lines[ln][:i] + m["to"].encode() + lines[ln][i + len(m["from"]):]
            open(f, "wb").write(b"\n".join(lines[:ln] + [new_line] + lines[ln + 1:]))
            if sh("go", "build", "./...", cwd=WT, env=env).returncode == 0:
                applied = True
                break
            start = i + 1
        if not applied:
            open(f, "wb").write(src)
            m["suite"] = "not-applied"
            continue
        t = sh("go", "test", "-vet=off", "-count=1", "-timeout", "25m", "./...", cwd=WT, env=env)
        m["suite"] = "passes" if t.returncode == 0 else "fails"
        if t.returncode != 0:
            m["suite_fail"] = [l for l in t.stdout.splitlines() if l.startswith(("FAIL", "--- FAIL", "panic:"))][:3]
        print(pid, m["suite"], f"{m['file']}:{m['line']} {m['func']}: `{m['from']}` -> `{m['to']}`", flush=True)
        open(f, "wb").write(src)
finally:
    sh("git", "-C", "/repo", "worktree", "remove", "--force", WT)
json.dump(d, open(path, "w"), indent=1)
