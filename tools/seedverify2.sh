#!/bin/bash
# usage: [SEED_ROOT=/tmp/seed2] seedverify2.sh ID N DEMODIR "C01 C15" [LABEL]   (LABEL: number the seed is stored under, default N)
# Like seedverify.sh, but runs the checks against the scratch worktree (VERIF_REPO) with a private copy of the checker
# binary, so that /repo and /verif/evidence stay untouched and several seeds can be processed while other work goes on.
set -u
export GOFLAGS=-mod=mod GOPROXY=off GOSUMDB=off GOTOOLCHAIN=local
ID=$1; N=$2; DEMODIR=$3; CHECKS=$4; L=${5:-$2}
OUT=${SEED_ROOT:-/tmp/seed}/$ID/out; PATCH=$OUT/change$N.diff
WT=/tmp/sv/${ID}_$L; LOG=/tmp/sv/${ID}_$L.log
mkdir -p /tmp/sv; rm -rf $WT; git -C /repo worktree prune
git -C /repo worktree add --detach $WT HEAD -q || exit 9
: > $LOG
mkdir -p $WT/$DEMODIR; for f in $OUT/demo$N/*; do [ -f "$f" ] && case "$f" in *.go) cp "$f" $WT/$DEMODIR/;; esac; done
( cd $WT && go test -vet=off -count=1 ./$DEMODIR ) >> $LOG 2>&1; CLEAN=$?
( cd $WT && git apply $PATCH ) >> $LOG 2>&1 || { echo "$ID/$L: PATCH DOES NOT APPLY"; git -C /repo worktree remove --force $WT; exit 8; }
( cd $WT && go test -vet=off -count=1 ./$DEMODIR ) >> $LOG 2>&1; WITH=$?
for f in $OUT/demo$N/*.go; do rm -f $WT/$DEMODIR/$(basename $f); done
( cd $WT && go build ./... ) >> $LOG 2>&1; BUILD=$?
( cd $WT && go test -vet=off -count=1 -timeout 25m ./... ) > $LOG.suite 2>&1; SUITE=$?
echo "$ID/$L: demo clean=$CLEAN (want 0) with-change=$WITH (want !=0) build=$BUILD suite=$SUITE (want 0)"
BIN=${SEED_BIN:-/tmp/sv/wacheck.bin}
for c in $CHECKS; do
  ( cd /verif && VERIF_DIR=/verif VERIF_REPO=$WT VERIF_NO_EVIDENCE=1 $BIN check $c --tier quick ) > /tmp/sv/${ID}_$L.$c.out 2>&1; rc=$?
  echo "  check $c exit=$rc $(grep -c '^  VIOLATION\|^  UNDECIDED' /tmp/sv/${ID}_$L.$c.out) report lines"
  grep '^  VIOLATION\|^  UNDECIDED' /tmp/sv/${ID}_$L.$c.out | head -4 | cut -c1-400
done
git -C /repo worktree remove --force $WT
