#!/usr/bin/env python3
"""Re-runs the current checker against every stored seeded change.

For each /verif/seeded/<ID>-<n>/patch.diff: apply it in ONE scratch worktree of /repo (never in /repo itself),
run the quick check of the seed's property through VERIF_REPO (no evidence written), record the verdict and the
rules that fired under "after_strengthening" in meta.json, and revert. The worktree is removed at the end.

usage: tools/seedrecheck.py [ID-n ...]
"""
import glob, json, os, re, subprocess, sys

VERIF = "/verif"
WT = "/tmp/seedrecheck_wt"
env = dict(os.environ, GOFLAGS="-mod=mod", GOPROXY="off", GOSUMDB="off", GOTOOLCHAIN="local", GOWORK="off",
           VERIF_REPO=WT, VERIF_NO_EVIDENCE="1", VERIF_DIR=VERIF)


def sh(*a, **k):
    return subprocess.run(a, capture_output=True, text=True, **k)


# seeds whose property has no check for the damaged construct but another property's rule covers it
ALSO = {"C12-2": "C10", "C01-4": "C13", "C27-4": "C28"}
claimed = {c["property_id"] for c in json.load(open(f"{VERIF}/MANIFEST.json"))["checks"]}
want = set(sys.argv[1:])
sh("git", "-C", "/repo", "worktree", "remove", "--force", WT)
r = sh("git", "-C", "/repo", "worktree", "add", "--detach", WT, "HEAD")
if r.returncode != 0:
    sys.exit("cannot create worktree: " + r.stderr)
rows = []
try:
    for d in sorted(glob.glob(f"{VERIF}/seeded/C*-*")):
        key = os.path.basename(d)
        if want and key not in want:
            continue
        pid = key.split("-")[0]
        pid = ALSO.get(key, pid)
        meta = json.load(open(d + "/meta.json"))
        res = {"checker_commit": sh("git", "-C", VERIF, "rev-parse", "--short", "HEAD").stdout.strip()}
        if pid not in claimed:
            res.update(caught=False, reason="property not claimed (not applicable to static analysis); no check to run")
        else:
            a = sh("git", "-C", WT, "apply", d + "/patch.diff")
            if a.returncode != 0:
                res.update(caught=None, reason="patch no longer applies to the current tree: " + a.stderr.strip()[:200])
                if "superseded_by_fix" in meta:
                    res["reason"] = "superseded: the code the seed edits was rewritten by fix " + meta["superseded_by_fix"]["commit"]
            else:
                r = sh(f"{VERIF}/bin/wacheck", "check", pid, "--tier", "quick", cwd=VERIF, env=env)
                out = r.stdout + r.stderr
                rules = sorted(set(re.findall(r"^\s+(?:VIOLATION|UNDECIDED): \[([^\]]+)\]", out, re.M)))
                first = [l.strip()[:400] for l in out.splitlines() if l.strip().startswith(("VIOLATION:", "UNDECIDED:"))][:3]
                res.update(caught=(r.returncode == 1 and bool(rules)), exit=r.returncode, rules=rules, report=first)
                if r.returncode not in (0, 1):
                    res["reason"] = "checker infrastructure failure: " + out.strip()[-300:]
            sh("git", "-C", WT, "checkout", "--", ".")
            sh("git", "-C", WT, "clean", "-fdq")
        meta["after_strengthening"] = res
        json.dump(meta, open(d + "/meta.json", "w"), indent=1, ensure_ascii=False)
        rows.append((key, res.get("caught"), ",".join(res.get("rules", [])) or res.get("reason", "")))
        print(key, res.get("caught"), rows[-1][2][:150], flush=True)
finally:
    sh("git", "-C", "/repo", "worktree", "remove", "--force", WT)
n = sum(1 for r in rows if r[1])
sup = sum(1 for r in rows if r[1] is None and r[2].startswith("superseded"))
print(f"{n}/{len(rows) - sup} seeded changes caught" + (f" ({sup} superseded by a repair of the code they edit)" if sup else ""))
