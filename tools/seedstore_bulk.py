#!/usr/bin/env python3
"""Stores every seed that appears (fully confirmed) in /tmp/sv/bulk*.out under /verif/seeded, using tools/seedmeta.json."""
import json, re, os, shutil, glob, sys
meta = json.load(open('/verif/tools/seedmeta.json'))
blocks = {}
for fn in sorted(glob.glob('/tmp/sv/bulk*.out')):
    cur = None
    for line in open(fn):
        m = re.match(r'(C\d+)/(\d): demo clean=(\d+) \(want 0\) with-change=(\d+) .* build=(\d+) suite=(\d+)', line)
        if m:
            cur = f"{m.group(1)}-{m.group(2)}"
            blocks[cur] = {"clean": int(m.group(3)), "with": int(m.group(4)), "build": int(m.group(5)), "suite": int(m.group(6)), "checks": []}
        elif cur and line.startswith('  check '):
            blocks[cur]["checks"].append(line.strip())
        elif cur and (line.startswith('  VIOLATION') or line.startswith('  UNDECIDED')):
            blocks[cur]["checks"].append(line.strip()[:300])
for key, b in sorted(blocks.items()):
    if key not in meta:
        print("no meta for", key); continue
    ok = b["clean"] == 0 and b["with"] != 0 and b["build"] == 0 and b["suite"] == 0
    if not ok:
        print("NOT CONFIRMED", key, b); continue
    ID, N = key.split('-')
    src = f"/tmp/seed/{ID}/out"; dst = f"/verif/seeded/{key}"; M = N
    if not os.path.exists(f"{src}/change{N}.diff"):
        # second round: /tmp/seed2/<ID>/out/change1|2.diff are stored as <ID>-3|-4 (C22 had no first round)
        src = f"/tmp/seed2/{ID}/out"; M = str(int(N) - 2) if int(N) >= 3 else N
    if not os.path.exists(f"{src}/change{M}.diff"):
        # third round: /tmp/seed3/<ID>/out/change1|2.diff are stored as <ID>-3|-4
        src = f"/tmp/seed3/{ID}/out"; M = str(int(N) - 2) if int(N) >= 3 else N
    if int(N) >= 5 or (ID == "C22" and int(N) >= 3) or not os.path.exists(f"{src}/change{M}.diff"):
        # fourth round: /tmp/seed4/<ID>/out/change1|2.diff are stored as <ID>-5|-6 (C22: -3|-4)
        src = f"/tmp/seed4/{ID}/out"; M = str(int(N) - (2 if ID == "C22" else 4))
    if not os.path.exists(f"{src}/change{M}.diff"):
        print("sources gone for", key); continue
    os.makedirs(dst + "/demo", exist_ok=True)
    if not os.path.exists(dst + "/patch.diff"):  # an existing patch may have been rebased after a fix: commit in /repo
        shutil.copy(f"{src}/change{M}.diff", dst + "/patch.diff")
    files = []
    for f in glob.glob(f"{src}/demo{M}/*"):
        if os.path.isfile(f):
            shutil.copy(f, dst + "/demo/"); files.append(os.path.basename(f))
    caught = any('exit=1' in c for c in b["checks"])
    old = {}
    if os.path.exists(dst + "/meta.json"):
        old = json.load(open(dst + "/meta.json"))
    m = {
        "property": ID,
        "source": "independent sub-agent given only the property text and a scratch worktree",
        "breaks": meta[key]["breaks"], "needs_to_manifest": meta[key]["needs"],
        "demo_files": sorted(files), "demo_path_in_repo": meta[key]["dir"],
        "confirmed": {"how": f"tools/seedverify2.sh {ID} {N} {meta[key]['dir']}: fresh worktree of /repo HEAD; demo passes on the clean tree, fails with patch.diff applied; go build ./... and the full go test ./... pass with the patch (demo removed)",
                      "demo_clean": "pass", "demo_with_change": "fail", "build_with_change": "ok", "suite_with_change": "ok"},
        "first_run": {"caught": caught, "output": b["checks"]},
    }
    if "after_strengthening" in old:
        m["after_strengthening"] = old["after_strengthening"]
    json.dump(m, open(dst + "/meta.json", "w"), indent=1, ensure_ascii=False)
    print("stored", key, "caught" if caught else "MISSED")
