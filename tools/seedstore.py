#!/usr/bin/env python3
"""usage: seedstore.py ID N DEMODIR 'what it breaks' 'what it needs to manifest' 'CHECK: detected rule(s) | missed'"""
import sys, os, shutil, json, glob
ID, N, demodir, breaks, needs, detected = sys.argv[1:7]
src = f"/tmp/seed/{ID}/out"
dst = f"/verif/seeded/{ID}-{N}"
os.makedirs(dst + "/demo", exist_ok=True)
shutil.copy(f"{src}/change{N}.diff", dst + "/patch.diff")
files = []
for f in glob.glob(f"{src}/demo{N}/*"):
    shutil.copy(f, dst + "/demo/")
    files.append(os.path.basename(f))
log = open(f"/tmp/sv/{ID}_{N}.log").read()[-1500:] if os.path.exists(f"/tmp/sv/{ID}_{N}.log") else ""
meta = {
    "property": ID,
    "source": "independent sub-agent given only the property text and a scratch worktree",
    "breaks": breaks,
    "needs_to_manifest": needs,
    "demo_files": files,
    "demo_path_in_repo": demodir,
    "confirmed": {
        "how": f"tools/seedverify.sh {ID} {N} {demodir}: fresh worktree of /repo HEAD; demo copied to {demodir}; `go test -vet=off -count=1 ./{demodir}` passes on the clean tree and fails with patch.diff applied; `go build ./...` and the full `go test -vet=off -count=1 ./...` pass with the patch (demo removed)",
        "demo_clean": "pass", "demo_with_change": "fail", "build_with_change": "ok", "suite_with_change": "ok",
    },
    "checks": detected,
}
json.dump(meta, open(dst + "/meta.json", "w"), indent=1, ensure_ascii=False)
print("stored", dst)
