#!/bin/bash
# usage: seedverify.sh ID N DEMODIR "C01 C15"   (reads /tmp/seed/ID/out/changeN.diff and demoN/)
# Confirms a sub-agent's seeded change in a scratch worktree (demo passes clean, fails with the change, build and
# full suite pass with the change), then applies it to /repo, runs the named checks, and restores /repo.
set -u
export GOFLAGS=-mod=mod GOPROXY=off GOSUMDB=off GOTOOLCHAIN=local
ID=$1; N=$2; DEMODIR=$3; CHECKS=$4
OUT=/tmp/seed/$ID/out; PATCH=$OUT/change$N.diff
WT=/tmp/sv/${ID}_$N; LOG=/tmp/sv/${ID}_$N.log
mkdir -p /tmp/sv; rm -rf $WT; git -C /repo worktree prune
git -C /repo worktree add --detach $WT HEAD -q || exit 9
: > $LOG
cp $OUT/demo$N/* $WT/$DEMODIR/ || exit 9
( cd $WT && go test -vet=off -count=1 ./$DEMODIR ) >> $LOG 2>&1; CLEAN=$?
( cd $WT && git apply $PATCH ) >> $LOG 2>&1 || { echo "$ID/$N: PATCH DOES NOT APPLY"; git -C /repo worktree remove --force $WT; exit 8; }
( cd $WT && go test -vet=off -count=1 ./$DEMODIR ) >> $LOG 2>&1; WITH=$?
for f in $OUT/demo$N/*; do rm -f $WT/$DEMODIR/$(basename $f); done
( cd $WT && go build ./... ) >> $LOG 2>&1; BUILD=$?
( cd $WT && go test -vet=off -count=1 -timeout 25m ./... ) > $LOG.suite 2>&1; SUITE=$?
git -C /repo worktree remove --force $WT
echo "$ID/$N: demo clean=$CLEAN (want 0) with-change=$WITH (want !=0) build=$BUILD suite=$SUITE (want 0)"
# run the checks against /repo with the change applied
[ -z "$(git -C /repo status --porcelain)" ] || { echo "/repo not clean"; exit 7; }
git -C /repo apply $PATCH || exit 8
for c in $CHECKS; do
  ( cd /verif && VERIF_NO_EVIDENCE=1 ./run.sh $c quick ) > /tmp/sv/${ID}_$N.$c.out 2>&1; rc=$?
  echo "  check $c exit=$rc $(grep -c '^  VIOLATION\|^  UNDECIDED' /tmp/sv/${ID}_$N.$c.out) report lines"
  grep '^  VIOLATION\|^  UNDECIDED' /tmp/sv/${ID}_$N.$c.out | head -5 | cut -c1-400
done
git -C /repo checkout -- . ; git -C /repo clean -fdq
