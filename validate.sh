#!/bin/bash
# validates MANIFEST.json and all evidence files against the schemas
cd "$(dirname "$0")"
python3-vt - <<'PY'
import json,jsonschema,glob,sys
jsonschema.validate(json.load(open('MANIFEST.json')), json.load(open('/root/.vp/MANIFEST.schema.json')))
es=json.load(open('/root/.vp/EVIDENCE.schema.json'))
for f in sorted(glob.glob('evidence/C??.json')):
    jsonschema.validate(json.load(open(f)), es)
print('manifest and', len(glob.glob('evidence/C??.json')), 'evidence files valid')
PY
