# Table read by mkmanifest.py. CLAIMED[id] = (technique, level text, level note)
SSA_BASE = "trusted: go/types, go/ssa, go/packages (x/tools v0.29.0), Go 1.23.5; the rule tables in the checker"
CLAIMED["C29"] = (
 "SSA path analysis of error/exit plumbing (must-reach-failing-exit, exit-code provenance); exit-error identity lint; enum exhaustiveness of the compiling engine's trap status switch",
 "Decides, for every path, the structural clauses: a failing load/compile/instantiate/run reaches os.Exit(non-zero) or a returned error that main turns into a non-zero status; no failing exit without a failed error test; the status on the exit path is the code extracted from the engine's ExitError. Also: the exit error reaches AsExitError unwrapped, and every status constant of the compiling engine is handled by its call loop or mapped to a non-nil error (no trap ends in panic(nil)). Does not decide that the engine's generated code raises the right status for every trapping instruction.",
 SSA_BASE)

NA["C31"] = "differential behaviour of the vendored wazero engine over all modules; no Wa-specific table to cross-check (DESIGN.md section 5)"
AST_BASE = "trusted: go/types, go/packages (x/tools v0.29.0), Go 1.23.5; the embedded reference tables in the checker (WebAssembly instruction table etc.)"
CLAIMED["C04"] = (
 "table agreement and index-space lint over the type-checked AST (switch-arm extraction vs. embedded WebAssembly opcode table)",
 "Decides, exhaustively over all ~175 instruction tokens, that each assembler arm appends the specification's opcode bytes for the mnemonic the token spells, that parser and assembler agree on the AST type per token, that default alignments are natural, and that every position-to-index site builds imports-then-definitions / params-then-locals indices. Does not decide LEB128 immediates, label depths, or module validity.",
 AST_BASE)
CLAIMED["C05"] = (
 "writer/reader agreement lint over the type-checked AST (printer arms vs. parser-built node fields, elision constants vs. parser defaults)",
 "Decides necessary structural clauses of print->parse identity: printer arm and own mnemonic for every instruction token, every parser-stored field that the assembler reads is read by the printer, nested bodies iterated, elided memarg constants equal the parser default (or are illegal values), all section printers called. Does not decide escaping, number formatting or acceptance by other assemblers.",
 AST_BASE)
CLAIMED["C06"] = (
 "reachability-discipline lint over the type-checked AST with slots filled from wat2wasm (root/edge completeness, index-space role agreement, removal filter)",
 "Decides that the dead-function pass marks from all three root kinds, follows every function-reference field and every nested instruction list, never keys the function map with a field of another index space, removes only unmarked functions, and that the roots survive printing. Does not decide behavioural equivalence of the stripped module beyond these necessary conditions.",
 AST_BASE)
CLAIMED["C02"] = (
 "table agreement lint over instruction-template dispatchers (stack effects vs. embedded WebAssembly signatures, sibling cross-check of five translators, x86 mnemonic/width/operand-order tables over the emitted template strings)",
 "Decides, exhaustively over the instruction tokens, that wat2x64 has a template per instruction, that every fixed-signature template's virtual-stack effect equals the WebAssembly signature (and agrees with the four sibling translators), and that the template text uses the x86 operation, signedness, access width, operand order and result register the mnemonic requires. Does not decide the full semantics of the assembly, control flow, calls, runtime helpers, assembler or linker.",
 AST_BASE)
CLAIMED["C03"] = (
 "table agreement lint over the wat2c template dispatcher (stack effects, union-view typing of every R<n>.<view>, C operator/libm/helper, signedness casts, shift masks, load/store widths, conversion cast chains)",
 "Decides, exhaustively over the instruction tokens, that each C template is typed consistently with the slots it pops/pushes and computes the mnemonic's operation with the mnemonic's signedness, width and operand order. Does not decide C trap behaviour (division, out-of-range conversions), NaN details, memory bounds, control flow or calls.",
 AST_BASE)
CLAIMED["C01"] = (
 "table agreement lint over the back end's operator/conversion lowering (formatter rows, kind signedness, token->OpCode->constructor chain, narrow-width mask must-pass-through, (src,dst) conversion matrix vs. Go semantics, constant materialisation bit sizes)",
 "Decides the per-operator lowering tables of the WebAssembly back end for every (kind, operator) and (source kind, destination kind) pair: right mnemonic by type and signedness, masks for u8/u16 on every path, shift-count adaptation, conversions as Go defines them, constants parsed with their own width and signedness. Does not decide program behaviour: control flow, aggregates, strings, maps, interfaces, defer and the runtime library are outside these rules.",
 AST_BASE)
CG_BASE = "trusted: go/types, go/ssa, VTA call graph seeded by CHA (x/tools v0.29.0; no pointer analysis: reflection and calls through library callbacks other than closures are not followed); the frozen triage tables in the checker"
CLAIMED["C08"] = (
 "call-graph reachability (VTA) of process exits and explicit panics from the front-end entry points against a frozen triage table; dispatch totality of switches over constant-returning producers; recover-boundary check on parser entry points",
 "Decides that no os.Exit/log.Fatal/logger.Fatal is reachable from the formatting, detection, parsing and loading entry points, that parser entry points recover their package's bail-out value, that switches over constant-returning producers are total or have a non-panicking default, and that the set of reachable explicit panic sites is exactly the triaged set (a new one is reported). Does not decide implicit run-time panics (index, nil, type assertion), termination or time bounds.",
 CG_BASE)
CLAIMED["C27"] = (
 "call-graph reachability (VTA) from the build entry points + AST/SSA classifier of every map range (sorted / commutative with purity summaries / dead / order-escaping against a frozen exception table) + who-may-call rule for time, rand, pid, go, select",
 "Decides that every map iteration reachable on the build path either cannot let its order escape (keys collected and sorted, or only order-insensitive effects with pure conditions) or is one of the read-and-frozen exceptions, and that no time/random/pid/goroutine/select nondeterminism source is reachable there. Exhaustive over the enumerated sites. Does not decide determinism of Go itself, of sort with ties, or pointer formatting.",
 CG_BASE)
CLAIMED["C28"] = (
 "global-store analysis on SSA over VTA-reachable functions from the api package (stores rooted at package variables, map updates, interprocedural write-through-parameter summaries with guard awareness), minus call edges made under a held package-level mutex; frozen benign table",
 "Decides that no function reachable from the exported api functions without a held package-level lock writes package-level state, other than the triaged benign rows. Names the variable and writer for each finding. Does not decide races inside the vendored wazero engine, sharing through heap objects passed between calls by design, or interference through the file system.",
 CG_BASE)
CLAIMED["C30"] = (
 "AST shape rules and SSA path analysis over apptest.runTest (report=>record, record=>verdict, failing exits print FAIL, contract comparison operators, infrastructure errors reach a non-zero exit)",
 "Decides the verdict plumbing of `wa test`: every printed failure is recorded or exits non-zero, a recorded failure prints FAIL and exits non-zero, the ok line cannot be reached with a recorded failure, the output/panic contracts are compared the way the property states, and load/compile/assemble/instantiate errors exit non-zero on every path. Does not decide output normalisation, pattern selection or the loader's extraction of expected output.",
 SSA_BASE)
CLAIMED["C21"] = (
 "SSA dominance and path rules over the language server's document cache (who-writes, error=>no store, success=>store, key derivation, mapper rebuilt per change, splice order, range rejection)",
 "Decides the store discipline around LSPServer.fileMap and the sequential application of incremental changes: only the notification handlers write the cache, an error from changedText never reaches the store, every acknowledged change is stored (one known exception recorded), keys are URI.Path() everywhere, the mapper is rebuilt on the loop-carried content, the splice is prefix+text+suffix, invalid ranges are rejected. Does not decide the UTF-16 position arithmetic.",
 SSA_BASE)
CLAIMED["C23"] = (
 "writer/reader field-coverage lint over token.FileSet serialization (fields read by the position functions vs. fields written by Write and restored by Read, exportedness) and provenance rule on the panic position constant",
 "Decides that every File/FileSet field the position computations read survives Write/Read through an exported serialized field of the same role, and that the position string compiled into panics is Fset.Position(<panicking instruction>.Pos()).String(), emitted before the runtime call. Does not decide the line-table arithmetic or what the host prints.",
 AST_BASE)
CLAIMED["C24"] = (
 "finite abstract evaluation (all assignments) of the constraint evaluator and of the loader's tag predicate over Boolean atoms, plus AST shape rules on the recursive-descent grammar and the file filter polarity",
 "Decides that Not/And/Or/Tag Eval have their Boolean truth tables, that the grammar is or>and>not>atom with each level on its own operator and node kind, that a file is dropped iff its constraint is false under the predicate (target OS, target arch, configured tags), and that malformed constraints abort the import. Does not decide tag lexing or the print/parse round trip.",
 AST_BASE)
CLAIMED["C25"] = (
 "table-inverse lint over the SLIP writer switch and reader switch (constants vs. RFC 1055, escape tables compose to identity, delimiters), one-byte-read and checked-read rules, SLIPMUX writer/reader guard symmetry",
 "Decides that the writer's and reader's escape tables are inverse on every byte class with RFC 1055 constants, that packets are END-delimited, that the transport is read one checked byte at a time (chunk independence by construction), and that SLIPMUX prepends/strips the frame byte and appends/removes the FCS under the same guards. Does not decide the EOF-with-data corner of io.Reader or FCS arithmetic.",
 AST_BASE)
CLAIMED["C26"] = (
 "registry-exhaustiveness lint over go-dap message types vs. constructor tables, framing rules (announced length = written bytes, io.ReadFull only, bound before allocation), dispatch-table check of DecodeMessage",
 "Decides, exhaustively over the ~110 message types, that each is constructed exactly once under its protocol name and that request/response registries have equal keys; that the Content-Length framing writes len(content) then content and reads with io.ReadFull under a bound; and that decoding dispatches each message kind to its own registry, failed responses to ErrorResponse. Does not decide JSON round trip of individual field types.",
 AST_BASE)
CLAIMED["C09"] = (
 "writer-set / consumer-arm agreement lint: token constants the Wz parser can store per AST field (computed with parameter and guard propagation) vs. every switch arm and comparison on that field in the consumers, against a frozen twin-token table; universe table bijection; keyword spelling uniqueness",
 "Decides that wherever a consumer distinguishes a keyword token on an AST field that the Wz parser fills with the Chinese twin, the twin is handled in the same arm (paired arms stay paired; today's asymmetric sites are read-and-frozen exceptions, a new one is reported), that the two universes define the same builtins with equal arity/kind, and that keyword spellings are unique. Does not decide that the two parsers build equal trees.",
 AST_BASE)
CLAIMED["C17"] = (
 "bit-provenance abstract interpretation (known bits + provenance, no solver) of the format encoders and decoders; table rules: RISC-V base-format layout agreement, decoder-inverse composition, encode-key injectivity / decode-key sufficiency over the opcode table; LoongArch operand-bits-vs-opcode-mask and decoder-inverse per format",
 "Decides, for every format and every table row, that operand bits are placed where the ISA layout (RISC-V) or the row's own opcode mask (LoongArch) allows, that the disassembler reads each operand bit back from where the assembler wrote it with the right extension, and that no two real instructions share every table field the encoder reads (known exceptions recorded). Does not decide opcode values against an independent ISA table, immediate range checking, pseudo-instructions, ARM64 (unimplemented) or x86-64.",
 AST_BASE + "; RISC-V base format layouts from the unprivileged ISA specification")
CLAIMED["C20"] = (
 "table agreement lint over the emulators' per-mnemonic switch arms on the type-checked AST (operand views through conversion chains, ordering truth tables evaluated over {<,=,>}, decoder-filled raw fields vs. fields read, path-sensitive read-after-write of rd, guard/divisor agreement)",
 "Decides, for every implemented arm of the riscv64, riscv32 and loong64 emulators, that it reads only decoder-filled raw fields, has its format's operand signature, applies the mnemonic's operator through the signed/unsigned view of the right width, masks register shift amounts, sign-extends 32-bit results, transfers the mnemonic's width at rs1+imm with the mnemonic's extension, shifts upper immediates by 12, computes pc-relative targets and links from the executing pc, never reads a source after writing rd, and guards each division by a zero test of its own divisor. Does not decide instruction decode (C17), floating point, CSR/privileged behaviour, devices, or unimplemented instructions.",
 AST_BASE)
CLAIMED["C16"] = (
 "exhaustiveness and linkage lint: go/types interface-implementer enumeration vs. back-end type-switch arms; sibling agreement of basic-kind sub-switches; per-target symbol resolution of every constant call the back end emits, every reference inside the embedded .wat.ws runtime and every body-less .wa declaration (sources read with the repository's Wa parser and an own WAT reader), with the loader's file selection re-evaluated for each of the six target OSes",
 "Decides that every SSA instruction type the builder constructs has a non-fatal back-end arm, that nil constants of every nil-able kind and named types of every supported basic kind are materialised, and that for each target OS every runtime symbol the back end or the runtime's own WAT refers to is defined with one signature across per-target files. Does not decide validity of emitted modules (operand typing, argument counts at call sites), feature combinations, or fatal paths inside arms.",
 AST_BASE)
CLAIMED["C15"] = (
 "table agreement lint over the three per-kind hand-offs of a constant (type checker's representability bounds evaluated as Go constants from the source; back end's accessor / wir type / float precision per kind; literal spelling produced by the materialiser vs. parser used by the static-data encoder)",
 "Decides that the representability bounds of every sized integer kind are exactly the kind's range, that every kind is materialised through the accessor of its signedness into the wir type of that kind with the kind's float precision, and that each literal spelling is parsed back with the same width and signedness by the static-data encoder. Does not decide the arithmetic of internal/constant, per-operator overflow detection, or float rounding.",
 AST_BASE)
CLAIMED["C07"] = (
 "writer/reader agreement lint per language pair (parser, printer) and (w2parser, w2printer): interface-implementer enumeration of parser-built node types vs. the printers' total type switches; parser-stored AST fields vs. printer-read fields with a reasoned exception table; language pairing in format.File; sibling/origin agreement: canonical syntax-tree comparison of the .wa printer, the .wz printer and go/printer (GOROOT) at function and switch-arm level against a frozen instance list",
 "Decides that each printer's total dispatchers over expressions and statements list every node type its paired parser builds, that every syntactic (non-positional, non-resolution) AST field the parser stores is read by the printer, that format.File sends each language to its own parser and printer, and that the 269 functions and switch arms shared between the two printers and go/printer (the printer both were forked from) are still the same code on both sides (a one-sided edit is reported). Does not decide idempotence, comment placement, line breaking, or that the output re-parses to the same tree.",
 AST_BASE)
CLAIMED["C11"] = (
 "typestate/ordering lint over emission sequences of the code generator (ordered appends of retain / release / push / pop / load / store extracted from the type-checked AST, with guards and loop direction), sibling forwarder agreement, and a who-may-call / dominance-shape check over the embedded WAT runtime read with an own WAT reader",
 "Decides the reference-counting emission discipline: the leaf block value retains on push, releases before overwrite, retains the new value before releasing the old one on stores; aStruct delegates every method to every field's same-named method in the right direction; forwarders forward to the same method; in the runtime only HeapFree calls free, only Block.Release calls HeapFree and only when the count reaches zero; HeapAlloc zero-fills. Does not decide that retains and releases balance along the paths of emitted programs, nor the allocator.",
 AST_BASE)
CLAIMED["C12"] = (
 "ordering lint over emission sequences of the code generator (function epilogue, register overwrite, generated OnFree callbacks) and shape check of the runtime's Release loop in the embedded WAT",
 "Decides the release side: genFunction releases every RC register after the body and after pushing the results; stores into an existing register use the releasing pop; Block.OnFree / Struct.genRawFree / Struct.OnFree / container forwarders release every referenced member; Block.Release runs the free callback once per item, advancing by the item size, before freeing. Does not decide absence of leaks in emitted programs, cycles, or allocator reuse.",
 AST_BASE)
CLAIMED["C14"] = (
 "table agreement with the Go standard library sources in GOROOT: one literal/constant evaluator (go/constant over go/ast) applied to the package-level constants and literal tables of each ported package (Wa side read with the repository's parser, value expressions re-read as Go expressions) and of the Go package of the same import path; port-body: canonical syntax-tree comparison of 548 ported functions with the Go functions of the same name; port-goto-inlining: copies of Go label blocks in the goto-free ports; frozen list of the instances that were equal when the rule was armed",
 "Decides that 214 named constants and literal tables of the ported packages (bit tables, UTF-8/UTF-16 classification constants, CRC polynomials, hash primes, hex tables, calendar tables, float formatting tables ...) still have Go's values. Also decides that 548 ported functions are still the same function as Go's (syntax trees equal after normalising receiver spelling and type names), and that the hand-inlined copies of Go label blocks in decimal.floatBits are complete. Does not decide functions that already differ from this GOROOT's version, nor Wa/Go differences in expression semantics.",
 "trusted: go/parser, go/constant, GOROOT sources of the installed Go 1.23.5 as the oracle, the repository's Wa parser as front end")
CLAIMED["C13"] = (
 "structural lint over the Wa source of the runtime map (parsed with the repository's parser; token-level mirror comparison under the left/right exchange with commutativity and child-slot normalisation; orientation table of comparison arms; payload-field coverage of the successor transfer; entry-point routing) plus an emission-sequence rule on the generated struct comparator; sentinel-guard/target agreement in map.wa; guard lint on the MakeInterface sites of the generated map helpers",
 "Decides that the fix-up arms and the two rotations of the red-black tree are mirror images, that insert and search descend by the same key order, that deleting a two-child node moves every payload field of the successor and compacts the unlinked node, that the six runtime entry points exist with the back end's arity and forward to the method of their role, and that struct keys are compared field by field. Does not decide the rebalancing algorithm itself or iteration under mutation.",
 AST_BASE)

CLAIMED["C19"] = (
 "finite evaluation of the per-iteration decision tree of each LEB128 loop over (byte position, byte value) and boundary representatives; wrapper delegation lint over the type-checked AST",
 "Decides structural clauses only: for every byte position up to L+3 and all 256 byte values, each decoder's terminating-byte acceptance, length limit and the bits ORed into the value are what the WebAssembly binary format says (shift/count as induction variables in closed form, decoded value abstracted to its sign); one iteration of each encoder emits (v&0x7f)|more<<7, leaves v>>7 and continues exactly outside the 7-bit range on ~81k boundary representatives; exported wrappers delegate with sign-preserving widening. Does not decide the round trip over all 2^32/2^64 values as a whole.",
 AST_BASE)

CLAIMED["C18"] = (
 "abstract interpretation of the split functions in a page-form domain (4096·symbolic page + enumerated residue, interval splitting at comparisons); call-site role lint over the type-checked AST",
 "Decides, for every input (all 4096 in-page residues enumerated, page numbers symbolic, every partition induced by a comparison analysed), that SplitOffset/MakePCRel/MakeAbs return lo in [-2048,2047] with 4096·hi+lo equal to the offset (modulo 2^32), that CombineOffset recombines them, that MakeLa64PCRel returns lo12 = target mod 4096 and hi20 ≡ page(target)-page(pc)+[lo12≥0x800] (mod 2^20), and that the assembler call sites pass (address, pc) and route hi/lo correctly. Integer conversions are taken as exact (LoongArch: within the stated ±2 GiB range). Does not decide the instruction encoders' field placement (C17).",
 AST_BASE)

CLAIMED["C10"] = (
 "symbolic path summaries of the allocator's WAT source (every control-flow path, symbolic operand stack, leaf accessors expanded) compared as linear forms; finite evaluation of the size-class ladder's path conditions",
 "Decides per-operation necessary conditions of the heap invariant, on both copies of the allocator: the bump amount is payload+8 and memory.grow covers the deficit; every ring path that returns a block moves the rover to the predecessor; split and the four coalescing combinations conserve header and payload bytes and relink the ring; the size classes are positive multiples of 8 at least as large as every request routed to them and agree with free's routing; the spill loop releases every node; fixed-list push/pop keep the count; malloc returns block+8 and free steps back 8. Does not decide the global no-overlap invariant over all histories, nor termination of the ring scan.",
 "trusted: the WAT reader and path summariser of the checker (watsrc.go, watflow.go)")

CLAIMED["C22"] = (
 "origin agreement: canonical syntax-tree comparison of the copied diff package with golang.org/x/tools@v0.29.0/internal/diff in the module cache (frozen function list); finite evaluation of the fork's ASCII tests over 256 byte values",
 "Decides that internal/lsp/diff and its lcs sub-package are still the algorithm they were copied from: 71 functions equal to the origin's, Bytes equal up to the renamed ASCII test, and the two forked ASCII tests classify every byte value as the origin does. That the origin's algorithm satisfies Apply(before, Strings(before, after)) == after is not re-established here.",
 AST_BASE)
