package main

import (
	"sort"
	"strings"

	waast "wa-lang.org/wa/internal/ast"
)

// C14 rule byte-vs-rune-iteration (added after a defect was found on the unchanged tree by differential probing:
// bytealg_CountString ranged over its string argument and compared each *rune* with its byte parameter, so
// strings.Count with a one-byte separator >= 0x80 counted nothing and strings.Replace wrote out of bounds).
//
// In the standard library's Wa sources, the value variable of `for _, v := range s` over a string parameter is a rune.
// Comparing it with a byte parameter (directly or through `rune(c)`) treats the byte as a code point: a byte >= 0x80 is
// never equal to the rune decoded from the bytes that contain it. Such comparisons are reported; the byte-wise loop
// `for i := 0; i < len(s); i++ { s[i] == c }` is what Go's internal/bytealg stands for.
//
// C01 rule string-order-bytewise: the runtime's string ordering (string_Comp, behind <, >, <=, >=, strings.Compare,
// sort.Strings) compares bytes: it indexes both strings and never decodes runes. Decoding stops at invalid UTF-8 and
// made "a" < "\xff", "a" > "\xff" and "a" == "\xff" all false.

func c14ByteRune(c *Ctx, std *waStd) {
	const rule = "byte-vs-rune-iteration"
	n := 0
	var pkgs []string
	for pk := range std.Pkgs {
		pkgs = append(pkgs, pk)
	}
	sort.Strings(pkgs)
	for _, pk := range pkgs {
		for _, f := range std.Pkgs[pk] {
			if isWaTestFile(f.Name) {
				continue
			}
			for _, fd := range std.Funcs(f) {
				if !fd.HasBody || fd.Decl.Type == nil || fd.Decl.Type.Params == nil {
					continue
				}
				strParams, byteParams := map[string]bool{}, map[string]bool{}
				for _, fl := range fd.Decl.Type.Params.List {
					t := waExprString(fl.Type)
					for _, nm := range fl.Names {
						switch t {
						case "string":
							strParams[nm.Name] = true
						case "byte", "u8", "uint8":
							byteParams[nm.Name] = true
						}
					}
				}
				if len(strParams) == 0 || len(byteParams) == 0 {
					continue
				}
				waast.Inspect(fd.Decl.Body, func(nd waast.Node) bool {
					rs, ok := nd.(*waast.RangeStmt)
					if !ok {
						return true
					}
					x, ok := rs.X.(*waast.Ident)
					if !ok || !strParams[x.Name] {
						return true
					}
					v, ok := rs.Value.(*waast.Ident)
					if !ok || v.Name == "_" {
						return true
					}
					n++
					var bad []string
					waast.Inspect(rs.Body, func(m waast.Node) bool {
						be, ok := m.(*waast.BinaryExpr)
						if !ok {
							return true
						}
						op := be.Op.String()
						if op != "==" && op != "!=" {
							return true
						}
						isV := func(e waast.Expr) bool { id, ok := e.(*waast.Ident); return ok && id.Name == v.Name }
						isByte := func(e waast.Expr) bool {
							if id, ok := e.(*waast.Ident); ok {
								return byteParams[id.Name]
							}
							if call, ok := e.(*waast.CallExpr); ok && len(call.Args) == 1 {
								if id, ok := call.Args[0].(*waast.Ident); ok && byteParams[id.Name] {
									return true
								}
							}
							return false
						}
						if (isV(be.X) && isByte(be.Y)) || (isV(be.Y) && isByte(be.X)) {
							bad = append(bad, waExprString(be.X)+" "+op+" "+waExprString(be.Y))
						}
						return true
					})
					c.Check(len(bad) == 0, rule, pk+"."+fd.Name+": range over "+x.Name, std.Pos(f, rs.Pos()), "the runes of the string are not compared with a byte",
						"the loop ranges over the string "+x.Name+" (runes) and compares the rune with a byte parameter ("+strings.Join(bad, "; ")+"): a byte >= 0x80 is never equal to the rune decoded from the bytes around it, so the function disagrees with Go's byte-wise one on every non-ASCII text")
					return true
				})
			}
		}
	}
	c.Count("range loops over string parameters in functions that also take a byte", n)
}

func c01StringOrder(c *Ctx, std *waStd) {
	const rule = "string-order-bytewise"
	found := false
	for _, f := range std.Pkgs["runtime"] {
		for _, fd := range std.Funcs(f) {
			if fd.Name != "string_Comp" || !fd.HasBody {
				continue
			}
			found = true
			var params []string
			for _, fl := range fd.Decl.Type.Params.List {
				for _, nm := range fl.Names {
					params = append(params, nm.Name)
				}
			}
			decodes := ""
			indexed := map[string]bool{}
			waast.Inspect(fd.Decl.Body, func(nd waast.Node) bool {
				switch x := nd.(type) {
				case *waast.CallExpr:
					if id, ok := x.Fun.(*waast.Ident); ok && (id.Name == "next_rune" || id.Name == "stringToIter") {
						decodes = id.Name
					}
				case *waast.RangeStmt:
					if id, ok := x.X.(*waast.Ident); ok {
						for _, pn := range params {
							if id.Name == pn {
								decodes = "range " + pn
							}
						}
					}
				case *waast.IndexExpr:
					if id, ok := x.X.(*waast.Ident); ok {
						indexed[id.Name] = true
					}
				}
				return true
			})
			good := decodes == "" && len(params) == 2 && indexed[params[0]] && indexed[params[1]]
			c.Check(good, rule, "runtime.string_Comp", std.Pos(f, fd.Decl.Pos()), "compares x[i] with y[i], no rune decoding",
				"string_Comp decodes runes ("+decodes+") or does not index both strings: Go orders strings by their bytes; a rune decoder stops at bytes that are not valid UTF-8, so the order is not total (\"a\" < \"\\xff\", > and == all false) and sort.Strings / strings.Compare inherit it")
		}
	}
	if !found {
		c.Undecided(rule, "anchor:runtime.string_Comp", "", "function not found in waroot/src/runtime")
	}
}
