package main

import (
	"fmt"
	"go/ast"
	"go/token"
	"go/types"
	"sort"
	"strings"
)

// c24NotPaths follows every path of the `not` level of the build-constraint parser. State: how many tokens were
// lexed (p.lex() calls) and, per token, whether a test on the path established that it is "!" or is not. A path ends
// in `return p.atom()` ("atom@k": an atom starting at token k), `return not(p.atom())` ("not(atom)@k") or a panic
// ("error"). The result is the sorted list of path descriptions; why is non-empty when a statement is not modelled.
func c24NotPaths(fd *ast.FuncDecl) (paths []string, why string) {
	type state struct {
		k    int
		bang map[int]bool
	}
	clone := func(s state) state {
		n := state{k: s.k, bang: map[int]bool{}}
		for i, v := range s.bang {
			n.bang[i] = v
		}
		return n
	}
	describe := func(s state, end string) string {
		var ks []int
		for i := range s.bang {
			ks = append(ks, i)
		}
		sort.Ints(ks)
		var parts []string
		for _, i := range ks {
			op := "!="
			if s.bang[i] {
				op = "=="
			}
			parts = append(parts, fmt.Sprintf("t%d%s!", i, op))
		}
		return strings.Join(parts, " ") + " -> " + end
	}
	isCall := func(e ast.Expr, name string) (*ast.CallExpr, bool) {
		call, ok := ast.Unparen(e).(*ast.CallExpr)
		if !ok {
			return nil, false
		}
		switch f := call.Fun.(type) {
		case *ast.SelectorExpr:
			return call, f.Sel.Name == name
		case *ast.Ident:
			return call, f.Name == name
		}
		return nil, false
	}
	// cond: p.tok == "!" / p.tok != "!" (either operand order); returns (isBangTest, negated)
	tokTest := func(e ast.Expr) (ok, neg bool) {
		be, isBin := ast.Unparen(e).(*ast.BinaryExpr)
		if !isBin || (be.Op != token.EQL && be.Op != token.NEQ) {
			return false, false
		}
		x, y := ast.Unparen(be.X), ast.Unparen(be.Y)
		if _, isLit := x.(*ast.BasicLit); isLit {
			x, y = y, x
		}
		se, isSel := x.(*ast.SelectorExpr)
		lit, isLit := y.(*ast.BasicLit)
		if !isSel || !isLit || se.Sel.Name != "tok" || lit.Value != `"!"` {
			return false, false
		}
		return true, be.Op == token.NEQ
	}
	var walk func(list []ast.Stmt, s state) (fell []state)
	walk = func(list []ast.Stmt, s state) []state {
		cur := []state{s}
		for _, st := range list {
			var next []state
			for _, c := range cur {
				switch x := st.(type) {
				case *ast.ExprStmt:
					if _, ok := isCall(x.X, "lex"); ok {
						c.k++
						next = append(next, c)
					} else if _, ok := isCall(x.X, "panic"); ok {
						paths = append(paths, describe(c, "error"))
					} else {
						why = "statement not modelled: an expression statement other than p.lex() / panic(...)"
					}
				case *ast.ReturnStmt:
					if len(x.Results) != 1 {
						why = "return with other than one result"
						continue
					}
					if _, ok := isCall(x.Results[0], c24Names.Atom); ok {
						paths = append(paths, describe(c, fmt.Sprintf("atom@%d", c.k)))
					} else if call, ok := isCall(x.Results[0], c24Names.Ctor["NotExpr"]); ok && len(call.Args) == 1 {
						if _, ok := isCall(call.Args[0], c24Names.Atom); ok {
							paths = append(paths, describe(c, fmt.Sprintf("not(atom)@%d", c.k)))
						} else {
							why = "not(...) of something other than p.atom()"
						}
					} else {
						why = "return of an unmodelled expression"
					}
				case *ast.IncDecStmt:
					next = append(next, c) // a counter of the parser's work, not part of the grammar
				case *ast.IfStmt:
					// a limit guard — a test that does not look at the token, whose body only panics, without an
					// else — refuses oversized input; on every accepted input the path goes on unchanged
					if !strings.Contains(types.ExprString(x.Cond), ".tok") && x.Else == nil && len(x.Body.List) == 1 {
						if es, ok := x.Body.List[0].(*ast.ExprStmt); ok {
							if _, ok := isCall(es.X, "panic"); ok {
								next = append(next, c)
								continue
							}
						}
					}
					if x.Init != nil {
						why = "if with an init statement"
						continue
					}
					ok, neg := tokTest(x.Cond)
					if !ok {
						why = "condition other than a test of p.tok against \"!\""
						continue
					}
					branch := func(isBang bool) {
						b := clone(c)
						if known, has := b.bang[b.k]; has && known != isBang {
							return // contradicts an earlier test on this path
						}
						b.bang[b.k] = isBang
						var body []ast.Stmt
						if isBang != neg {
							body = x.Body.List
						} else if x.Else != nil {
							body = []ast.Stmt{x.Else}
						}
						next = append(next, walk(body, b)...)
					}
					branch(true)
					branch(false)
				case *ast.BlockStmt:
					next = append(next, walk(x.List, c)...)
				default:
					why = "statement form not modelled"
				}
			}
			cur = next
		}
		return cur
	}
	if fell := walk(fd.Body.List, state{bang: map[int]bool{}}); len(fell) > 0 && why == "" {
		why = "a path falls off the end of the function"
	}
	sort.Strings(paths)
	// drop duplicates (the same outcome reached through differently shaped code)
	var out []string
	for i, p := range paths {
		if i == 0 || p != paths[i-1] {
			out = append(out, p)
		}
	}
	return out, why
}
