package main

import (
	"go/ast"
	"go/token"
)

// flowwalk.go — a small flow-sensitive walk over the syntax tree of one function, shared by rules that need "is this
// expression dominated by a test that establishes fact F": facts are added by the conditions of enclosing if / for /
// tagless-switch arms, by the left operands of && and ||, and by if statements whose body always leaves (return, goto,
// continue, break, panic) — after such an if the negation of its condition holds. Facts are whatever the rule defines
// (the Facts hook reads a condition and a polarity and updates the fact set); nothing is evaluated.

type flowFacts interface {
	Copy() flowFacts
	Reset() // forget everything (a label: reachable by goto from anywhere)
}

type flowHooks struct {
	// Facts adds to f what is known when cond evaluates to want.
	Facts func(cond ast.Expr, want bool, f flowFacts)
	// Expr is called for every expression node (pre-order) with the facts at that point; returning false stops the descent.
	Expr func(e ast.Expr, f flowFacts) bool
	// Stmt is called for every statement with the statements that follow it in the same list.
	Stmt func(s ast.Stmt, rest []ast.Stmt, f flowFacts)
	// Assign is called after the right-hand sides of an assignment were visited (kill / define facts).
	Assign func(as *ast.AssignStmt, f flowFacts)
}

func (h *flowHooks) with(f flowFacts, cond ast.Expr, want bool) flowFacts {
	n := f.Copy()
	if h.Facts != nil {
		h.Facts(cond, want, n)
	}
	return n
}

func (h *flowHooks) expr(e ast.Expr, f flowFacts) {
	if e == nil {
		return
	}
	if h.Expr != nil && !h.Expr(e, f) {
		return
	}
	switch x := e.(type) {
	case *ast.ParenExpr:
		h.expr(x.X, f)
	case *ast.BinaryExpr:
		h.expr(x.X, f)
		switch x.Op {
		case token.LAND:
			h.expr(x.Y, h.with(f, x.X, true))
		case token.LOR:
			h.expr(x.Y, h.with(f, x.X, false))
		default:
			h.expr(x.Y, f)
		}
	case *ast.CallExpr:
		h.expr(x.Fun, f)
		for _, a := range x.Args {
			h.expr(a, f)
		}
	case *ast.IndexExpr:
		h.expr(x.X, f)
		h.expr(x.Index, f)
	case *ast.SliceExpr:
		h.expr(x.X, f)
		h.expr(x.Low, f)
		h.expr(x.High, f)
		h.expr(x.Max, f)
	case *ast.SelectorExpr:
		h.expr(x.X, f)
	case *ast.UnaryExpr:
		h.expr(x.X, f)
	case *ast.StarExpr:
		h.expr(x.X, f)
	case *ast.TypeAssertExpr:
		h.expr(x.X, f)
	case *ast.KeyValueExpr:
		h.expr(x.Key, f)
		h.expr(x.Value, f)
	case *ast.CompositeLit:
		for _, el := range x.Elts {
			h.expr(el, f)
		}
	case *ast.FuncLit:
		h.stmts(x.Body.List, f.Copy())
	}
}

// stmts walks a list; f is updated in place with the facts that hold after each statement.
func (h *flowHooks) stmts(list []ast.Stmt, f flowFacts) {
	for i, s := range list {
		if h.Stmt != nil {
			h.Stmt(s, list[i+1:], f)
		}
		h.stmt(s, f)
	}
}

func (h *flowHooks) stmt(s ast.Stmt, f flowFacts) {
	switch x := s.(type) {
	case nil:
	case *ast.AssignStmt:
		for _, r := range x.Rhs {
			h.expr(r, f)
		}
		for _, l := range x.Lhs {
			if _, ok := l.(*ast.Ident); !ok {
				h.expr(l, f)
			}
		}
		if h.Assign != nil {
			h.Assign(x, f)
		}
	case *ast.DeclStmt:
		if gd, ok := x.Decl.(*ast.GenDecl); ok {
			for _, sp := range gd.Specs {
				if vs, ok := sp.(*ast.ValueSpec); ok {
					for _, v := range vs.Values {
						h.expr(v, f)
					}
				}
			}
		}
	case *ast.ExprStmt:
		h.expr(x.X, f)
	case *ast.SendStmt:
		h.expr(x.Chan, f)
		h.expr(x.Value, f)
	case *ast.IncDecStmt:
		h.expr(x.X, f)
	case *ast.GoStmt:
		h.expr(x.Call, f)
	case *ast.DeferStmt:
		h.expr(x.Call, f)
	case *ast.ReturnStmt:
		for _, r := range x.Results {
			h.expr(r, f)
		}
	case *ast.LabeledStmt:
		// a label can be reached by goto from anywhere: what was established on the way here does not hold
		f.Reset()
		h.stmt(x.Stmt, f)
	case *ast.BlockStmt:
		h.stmts(x.List, f)
	case *ast.IfStmt:
		inner := f.Copy()
		h.stmt(x.Init, inner)
		h.expr(x.Cond, inner)
		h.stmts(x.Body.List, h.with(inner, x.Cond, true))
		elseTerm := false
		if x.Else != nil {
			ef := h.with(inner, x.Cond, false)
			if eb, ok := x.Else.(*ast.BlockStmt); ok {
				h.stmts(eb.List, ef)
				elseTerm = terminates(eb.List)
			} else {
				h.stmt(x.Else, ef)
			}
		}
		if x.Init == nil && h.Facts != nil {
			if terminates(x.Body.List) {
				h.Facts(x.Cond, false, f)
			}
			if elseTerm {
				h.Facts(x.Cond, true, f)
			}
		}
	case *ast.ForStmt:
		inner := f.Copy()
		h.stmt(x.Init, inner)
		h.expr(x.Cond, inner)
		body := inner
		if x.Cond != nil {
			body = h.with(inner, x.Cond, true)
		}
		h.stmts(x.Body.List, body)
		h.stmt(x.Post, body)
	case *ast.RangeStmt:
		h.expr(x.X, f)
		h.stmts(x.Body.List, f.Copy())
	case *ast.SwitchStmt:
		inner := f.Copy()
		h.stmt(x.Init, inner)
		h.expr(x.Tag, inner)
		reach := inner.Copy()
		for _, cc := range x.Body.List {
			cl := cc.(*ast.CaseClause)
			body := reach.Copy()
			for _, e := range cl.List {
				h.expr(e, reach)
			}
			if x.Tag == nil && len(cl.List) == 1 && h.Facts != nil {
				h.Facts(cl.List[0], true, body)
				h.Facts(cl.List[0], false, reach)
			}
			if x.Tag != nil && len(cl.List) == 1 && h.Facts != nil {
				h.Facts(&ast.BinaryExpr{X: x.Tag, Op: token.EQL, Y: cl.List[0]}, true, body)
			}
			h.stmts(cl.Body, body)
		}
	case *ast.TypeSwitchStmt:
		inner := f.Copy()
		h.stmt(x.Init, inner)
		for _, cc := range x.Body.List {
			h.stmts(cc.(*ast.CaseClause).Body, inner.Copy())
		}
	case *ast.SelectStmt:
		for _, cc := range x.Body.List {
			cl := cc.(*ast.CommClause)
			h.stmt(cl.Comm, f.Copy())
			h.stmts(cl.Body, f.Copy())
		}
	}
}

// nodeContains reports whether inner is a node of the tree rooted at outer (by identity, not by source position:
// trees produced by inline.go mix positions of several functions).
func nodeContains(outer, inner ast.Node) bool {
	found := false
	ast.Inspect(outer, func(n ast.Node) bool {
		if n == inner {
			found = true
		}
		return !found
	})
	return found
}
