package main

import (
	"fmt"
	"go/ast"
	"go/token"
	"go/types"
	"sort"
	"strings"

	"golang.org/x/tools/go/packages"
)

func init() {
	register(&Property{ID: "C06", Run: runC06, Mutants: []Mutant{
		{Name: "import filter trusts the name lookup instead of the import kind", File: "internal/wat/watutil/watstrip/remove_unused.go", Old: "\t\tif importSpec.ObjKind == token.FUNC {\n\t\t\tif fnObj := p.funcs[importSpec.FuncName]; fnObj.color == white {\n\t\t\t\tcontinue // skip\n\t\t\t}\n\t\t}", New: "\t\tif fnObj, ok := p.funcs[importSpec.FuncName]; ok && fnObj.color == white {\n\t\t\tcontinue // skip\n\t\t}", Expect: "drop #1 is for function imports only"},
		{Name: "first exported function ends the root scan", File: "internal/wat/watutil/watstrip/remove_unused.go", Old: "\t\t\t\tif name == exp.FuncIdx {\n\t\t\t\t\tp.markFuncReachable(p.funcs[name])\n\t\t\t\t\tcontinue Loop", New: "\t\t\t\tif name == exp.FuncIdx {\n\t\t\t\t\tp.markFuncReachable(p.funcs[name])\n\t\t\t\t\tbreak Loop", Expect: "loop over the module's functions runs to the end"},
		{Name: "roots looked up directly, first hit of an element segment ends the segment", File: "internal/wat/watutil/watstrip/remove_unused.go", Old: "\t// 导入函数同样可能是 start/elem/export 引用的根\n\tvar names []string\n\tfor _, importSpec := range p.m.Imports {\n\t\tif importSpec.ObjKind == token.FUNC {\n\t\t\tnames = append(names, importSpec.FuncName)\n\t\t}\n\t}\n\tfor _, fn := range p.m.Funcs {\n\t\tnames = append(names, fn.Name)\n\t}\n\nLoop:\n\tfor _, name := range names {\n\t\tif name == \"\" {\n\t\t\tcontinue\n\t\t}\n\n\t\t// start\n\t\tif name == p.m.Start {\n\t\t\tp.markFuncReachable(p.funcs[name])\n\t\t\tcontinue\n\t\t}\n\n\t\t// table elem\n\n\t\tfor _, elem := range p.m.Elem {\n\t\t\tfor _, elemValue := range elem.Values {\n\t\t\t\tif name == elemValue {\n\t\t\t\t\tp.markFuncReachable(p.funcs[name])\n\t\t\t\t\tcontinue Loop\n\t\t\t\t}\n\t\t\t}\n\t\t}\n\n\t\t// export\n\t\tfor _, exp := range p.m.Exports {\n\t\t\tif exp.Kind == token.FUNC {\n\t\t\t\tif name == exp.FuncIdx {\n\t\t\t\t\tp.markFuncReachable(p.funcs[name])\n\t\t\t\t\tcontinue Loop\n\t\t\t\t}\n\t\t\t}\n\t\t}\n\t}\n\n", New: "\t// start\n\tif p.m.Start != \"\" {\n\t\tif fn, ok := p.funcs[p.m.Start]; ok {\n\t\t\tp.markFuncReachable(fn)\n\t\t}\n\t}\n\n\t// table elem\nLoop:\n\tfor _, elem := range p.m.Elem {\n\t\tfor _, elemValue := range elem.Values {\n\t\t\tif fn, ok := p.funcs[elemValue]; ok && fn.color == white {\n\t\t\t\tp.markFuncReachable(fn)\n\t\t\t\tcontinue Loop\n\t\t\t}\n\t\t}\n\t}\n\n\t// export\n\tfor _, exp := range p.m.Exports {\n\t\tif exp.Kind == token.FUNC {\n\t\t\tif fn, ok := p.funcs[exp.FuncIdx]; ok && fn.color == white {\n\t\t\t\tp.markFuncReachable(fn)\n\t\t\t}\n\t\t}\n\t}\n\n", Expect: "every root is visited"},
		{Name: "printer swallows every export that targets an inline-exported function", File: "internal/wat/printer/printer_export.go", Old: "if fn.ExportName != \"\" && fn.Name == e.FuncIdx && fn.ExportName == e.Name {", New: "if fn.ExportName != \"\" && fn.Name == e.FuncIdx {", Expect: "roots-survive-printing :: printExport: skip only the function's own inline export"},
		{Name: "printer takes an export named \"\" for the inline export of a function without one", File: "internal/wat/printer/printer_export.go", Old: "if fn.ExportName != \"\" && fn.Name == e.FuncIdx && fn.ExportName == e.Name {", New: "if fn.Name == e.FuncIdx && fn.ExportName == e.Name {", Expect: "roots-survive-printing :: printExport: skip only the function's own inline export"},
		{Name: "roots searched among the module's own functions only", File: "internal/wat/watutil/watstrip/remove_unused.go", Old: "\tfor _, importSpec := range p.m.Imports {\n\t\tif importSpec.ObjKind == token.FUNC {\n\t\t\tnames = append(names, importSpec.FuncName)\n\t\t}\n\t}\n\tfor _, fn := range p.m.Funcs {", New: "\tfor _, fn := range p.m.Funcs {", Expect: "function imports are looked at when roots are marked"},
		{Name: "strip removes by name although a function is referenced by number", File: "internal/wat/watutil/watstrip/remove_unused.go", Old: "\tif p.hasIndexedFuncRef() {\n\t\treturn p.m\n\t}\n", New: "", Expect: "no removal when functions are referenced by index"},
		{Name: "the index guard forgets element segments", File: "internal/wat/watutil/watstrip/remove_unused.go", Old: "\tfor _, elem := range p.m.Elem {\n\t\tfor _, elemValue := range elem.Values {\n\t\t\tif isIndex(elemValue) {\n\t\t\t\treturn true\n\t\t\t}\n\t\t}\n\t}\n", New: "", Expect: "no removal when functions are referenced by index"},
		{Name: "strip ignores the start function root", File: "internal/wat/watutil/watstrip/remove_unused.go", Old: "if name == p.m.Start {", New: "if name == p.m.Name {", Expect: "root-completeness :: Module.Start"},
		{Name: "strip does not recurse into else bodies", File: "internal/wat/watutil/watstrip/remove_unused.go", Old: "\t\tfor _, x := range ins.Else {\n\t\t\tp.markFuncReachable_ins(x)\n\t\t}\n", New: "", Expect: "edge-completeness :: Ins_If.Else"},
		{Name: "strip does not recurse into loops", File: "internal/wat/watutil/watstrip/remove_unused.go", Old: "\tcase ast.Ins_Loop:\n\t\tfor _, x := range ins.List {\n\t\t\tp.markFuncReachable_ins(x)\n\t\t}\n", New: "", Expect: "edge-completeness :: Ins_Loop.List"},
		{Name: "kept functions filter inverted for imports", File: "internal/wat/watutil/watstrip/remove_unused.go", Old: "fnObj.color == white {\n\t\t\t\tcontinue // skip", New: "fnObj.color != white {\n\t\t\t\tcontinue // skip", Expect: "removal-filter"},
		{Name: "only export roots of non-func kind", File: "internal/wat/watutil/watstrip/remove_unused.go", Old: "if exp.Kind == token.FUNC {", New: "if exp.Kind == token.GLOBAL {", Expect: "root-completeness :: ExportSpec.Kind"},
		{Name: "table index used as function key again", File: "internal/wat/watutil/watstrip/remove_unused.go", Old: "\tcase ast.Ins_Block:", New: "\tcase ast.Ins_TableGet:\n\t\tif xFn := p.funcs[ins.TableIdx]; xFn.color == white {\n\t\t\tp.markFuncReachable(xFn)\n\t\t}\n\tcase ast.Ins_Block:", Expect: "field-role"},
		{Name: "printer loses separate func exports (strip output)", File: "internal/wat/printer/printer_export.go", Old: "if p.isInlineFuncExport(e) {", New: "if true || p.isInlineFuncExport(e) {", Expect: "roots-survive-printing"},
	}})
}

func runC06(c *Ctx) {
	c.Explain = "Decides the reachability-marking discipline of watstrip's dead-function pass: (1) marking starts from each of the three root kinds the assembler resolves in the function index space (Module.Start, exports of kind func, element-segment entries); " +
		"(2) the instruction walker follows every function-reference instruction field and recurses into every nested instruction list of every instruction type; (3) a field the assembler resolves in another index space (table, global, type, local, label) is never used as a key into the function map; " +
		"(4) functions and function imports are removed only when unmarked; (5) the roots survive the printing step that produces the stripped text. Slots (which fields are function references, which are nested bodies) are derived from wat2wasm and the AST types on every run. " +
		"NOT decided: that the kept module behaves identically (follows from 1-5 only because the supported instruction set has no other way to reach a function: no ref.func), numeric function indices shifting after removal."
	c.Trusted = []string{"go/packages, go/types (x/tools v0.29.0)"}
	c.Exhaust = true
	p := c.Load(LoadOpt{Light: true}, "./internal/wat/...")
	const rRoot, rEdge, rRole, rFilt, rPrint = "root-completeness", "edge-completeness", "field-role", "removal-filter", "roots-survive-printing"
	ws := p.MustPkg(rRoot, "internal/wat/watutil/watstrip")
	wu := p.MustPkg(rRoot, "internal/wat/watutil")
	as := p.MustPkg(rRoot, "internal/wat/ast")
	pp := p.MustPkg(rPrint, "internal/wat/printer")
	if ws == nil || wu == nil || as == nil || pp == nil {
		return
	}
	info := ws.TypesInfo

	// slot filling: which ast fields does the assembler resolve in which index space?
	role := map[string]string{} // "T.F" -> func|table|global|type|local|label|memory
	finder := map[string]string{"findFuncIndex": "func", "findTableIndex": "table", "findGlobalIndex": "global", "findTypeIndexByIdent": "type", "findFuncLocalIndex": "local", "findLabelIndex": "label", "findMemoryIndex": "memory"}
	for _, f := range wu.Syntax {
		ast.Inspect(f, func(n ast.Node) bool {
			call, ok := n.(*ast.CallExpr)
			if !ok {
				return true
			}
			fn := CalleeOf(wu.TypesInfo, call)
			if fn == nil {
				return true
			}
			r, ok := finder[fn.Name()]
			if !ok {
				return true
			}
			for _, a := range call.Args {
				if se, ok := a.(*ast.SelectorExpr); ok {
					if sel, ok := wu.TypesInfo.Selections[se]; ok && sel.Kind() == types.FieldVal {
						if nt, _ := structOf(sel.Recv(), "internal/wat/ast"); nt != nil {
							role[nt.Obj().Name()+"."+se.Sel.Name] = r
						}
					}
				}
			}
			return true
		})
	}
	// element entries and the start function are resolved through loop variables: add them explicitly
	// after checking that the assembler does read those fields.
	asmReads, _ := FieldAccesses(wu, "internal/wat/ast", func(name string) bool { return strings.HasPrefix(name, "wat2wasmWorker.") })
	for _, k := range []string{"ElemSection.Values", "Module.Start"} {
		if len(asmReads[k]) > 0 {
			role[k] = "func"
		}
	}
	var funcRefIns []string
	var roleKeys []string
	for k, r := range role {
		roleKeys = append(roleKeys, k+"="+r)
		if r == "func" && strings.HasPrefix(k, "Ins_") {
			funcRefIns = append(funcRefIns, k)
		}
	}
	sort.Strings(roleKeys)
	sort.Strings(funcRefIns)
	c.Note("index-space roles derived from wat2wasm: %s", strings.Join(roleKeys, ", "))
	c.Min(rRole, "fields with an index-space role", len(role), 12)
	if len(funcRefIns) == 0 {
		c.Undecided(rEdge, "function-reference instruction fields", "", "none derived from wat2wasm")
	}

	// (1) roots
	dp := p.MustFunc(rRoot, ws, "_RemoveUnusedPass.DoPass")
	if dp != nil {
		// DoPass is read with the package's helpers expanded (inline.go): splitting it into `p.markRoots()` and
		// `return p.buildModule()` leaves the same statements
		dp = &ast.FuncDecl{Recv: dp.Recv, Name: dp.Name, Type: dp.Type, Body: InlinedBody(ws, dp)}
		markField, markedName, unmarkedName = c06MarkNames(info, dp, FuncDecl(ws, "_RemoveUnusedPass.markFuncReachable"))
		for _, root := range []string{"Module.Start", "ElemSection.Values", "ExportSpec.FuncIdx"} {
			if role[root] != "func" {
				c.Undecided(rRoot, root, "", "the assembler no longer resolves this field in the function index space")
				continue
			}
			looked, skips := rootLookedUp(info, p, dp, root)
			c.Check(rootMarked(info, dp, root) || looked || rootViaPredicate(info, ws, dp, root) || rootViaFlag(info, dp, root), rRoot, root, p.Pos(dp.Pos()), "compared with the function name under an if that marks the function reachable (in place or through a predicate of the package), or looked up in the function table and marked",
				fmt.Sprintf("DoPass never marks functions referenced by %s as reachable: such functions are stripped although they are roots", root))
			c.Check(len(skips) == 0, rRoot, root+": every root is visited", p.Pos(dp.Pos()), "no jump leaves a loop over the roots after a mark", strings.Join(skips, "; "))
		}
		// imported functions can be roots too (exported again, listed in an element segment, named by start): the pass
		// drops unmarked function imports, so it must look for the roots among them as well
		c.Check(c06ImportRoots(info, dp), rRoot, "function imports are looked at when roots are marked", p.Pos(dp.Pos()), "the names compared with the roots include the imports' FuncName (or a loop over the imports marks)",
			"DoPass looks for the start function, element-segment entries and function exports only among the module's own functions, but it drops every unmarked function import: an import that is exported, in a table or the start function is removed while the reference to it stays, and the stripped module no longer assembles")
		// functions are marked and removed by name, and removal shifts the function index space: nothing may refer to
		// a function by number and no function may be unnamed when the pass removes something
		gFound, gMissing := c06IndexGuard(info, ws, dp)
		c.Check(gFound && len(gMissing) == 0, rRoot, "no removal when functions are referenced by index", p.Pos(dp.Pos()), "DoPass returns the module unchanged when a function is unnamed or referenced by number",
			map[bool]string{false: "DoPass has no guard that returns the module unchanged before it marks and removes by name", true: "the guard of DoPass does not look at " + strings.Join(gMissing, ", ")}[gFound]+": `(export \"x\" (func 0))` or an element entry given by number is not seen as a root, its function is removed and the indices of the others shift; unnamed functions share one entry of the function table")
		if nm, early := funcLoopLeftEarly(info, p, dp); nm > 0 {
			c.Check(len(early) == 0, rRoot, "loop over the module's functions runs to the end", p.Pos(dp.Pos()), "no return or break out of it after a mark", strings.Join(early, "; "))
		}
		// export roots must be restricted to kind FUNC only by an `== token.FUNC` test (not narrower)
		okKind := false
		// the test must guard the comparison with the export's function reference (an `== token.FUNC` elsewhere, say in
		// the index guard, does not select the roots)
		kindTest := func(n ast.Node) bool {
			ifs, ok := n.(*ast.IfStmt)
			if !ok {
				return true
			}
			hasKind := false
			ast.Inspect(ifs.Cond, func(m ast.Node) bool {
				if be, ok := m.(*ast.BinaryExpr); ok && be.Op == token.EQL && strings.HasSuffix(types.ExprString(be.X), ".Kind") {
					if k := constOfExpr(info, be.Y); k.Name == "FUNC" {
						hasKind = true
					}
				}
				return true
			})
			if !hasKind {
				return true
			}
			marks, refs := false, false
			ast.Inspect(ifs, func(m ast.Node) bool {
				switch x := m.(type) {
				case *ast.SelectorExpr:
					if x.Sel.Name == "FuncIdx" {
						refs = true
					}
				case *ast.CallExpr:
					if f := CalleeOf(info, x); f != nil && f.Name() == "markFuncReachable" {
						marks = true
					}
				case *ast.ReturnStmt:
					if len(x.Results) == 1 && types.ExprString(x.Results[0]) == "true" {
						marks = true // a root predicate answers true
					}
				case *ast.AssignStmt:
					if len(x.Rhs) == 1 && types.ExprString(x.Rhs[0]) == "true" {
						marks = true // a root flag is set (the flag form is decided by rootViaFlag)
					}
				}
				return true
			})
			if refs && marks {
				okKind = true
			}
			return true
		}
		ast.Inspect(dp.Body, kindTest)
		// … or in a function of the package that DoPass calls (a root predicate)
		// (a root predicate: the condition of an if whose body marks)
		ast.Inspect(dp.Body, func(n ast.Node) bool {
			ifs, ok := n.(*ast.IfStmt)
			if !ok {
				return true
			}
			marks := false
			for _, call := range callsIn(info, ifs.Body.List) {
				if f := CalleeOf(info, call); f != nil && f.Name() == "markFuncReachable" {
					marks = true
				}
			}
			if !marks {
				return true
			}
			for _, call := range callsIn(info, []ast.Stmt{&ast.ExprStmt{X: ifs.Cond}}) {
				if fn := CalleeOf(info, call); fn != nil && fn.Pkg() == ws.Types {
					if hd := declOfFunc(ws, fn); hd != nil && hd.Body != nil {
						ast.Inspect(hd.Body, kindTest)
					}
				}
			}
			return true
		})
		c.Check(okKind, rRoot, "ExportSpec.Kind == FUNC", p.Pos(dp.Pos()), "export roots are the exports of kind func", "export roots are not selected by Kind == token.FUNC")
	}

	// (2) + (3) instruction walker
	mi := p.MustFunc(rEdge, ws, "_RemoveUnusedPass.markFuncReachable_ins")
	astFields := StructFields(as)
	if mi != nil {
		var ts *ast.TypeSwitchStmt
		ast.Inspect(mi.Body, func(n ast.Node) bool {
			if s, ok := n.(*ast.TypeSwitchStmt); ok && ts == nil {
				ts = s
			}
			return ts == nil
		})
		if ts == nil {
			c.Undecided(rEdge, "markFuncReachable_ins: type switch", p.Pos(mi.Pos()), "type switch not found")
		} else {
			arms := map[string]Arm{}
			for _, a := range TypeSwitchArms(info, ts) {
				for _, t := range a.Types {
					arms[namedTypeName(t)] = a
				}
			}
			// nested bodies
			var keys []string
			for k := range astFields {
				keys = append(keys, k)
			}
			sort.Strings(keys)
			nb := 0
			for _, k := range keys {
				if !strings.HasPrefix(k, "Ins_") || !isInsList(astFields[k].Type()) {
					continue
				}
				nb++
				tn, fn := k[:strings.Index(k, ".")], k[strings.Index(k, ".")+1:]
				a, ok := arms[tn]
				if !ok {
					c.Fail(rEdge, k, p.Pos(ts.Pos()), "instruction type ast."+tn+" has a nested instruction list but no arm in markFuncReachable_ins: calls inside it are not followed")
					continue
				}
				c.Check(rangesAndRecurses(info, a.Body, tn, fn, "markFuncReachable_ins", listWalkers(ws, "markFuncReachable_ins")), rEdge, k, p.Pos(a.Clause.Pos()), "nested list is walked recursively", "calls inside "+k+" are not followed: functions only called there are stripped")
			}
			c.Min(rEdge, "nested instruction-list fields", nb, 4)
			for _, k := range funcRefIns {
				tn, fn := k[:strings.Index(k, ".")], k[strings.Index(k, ".")+1:]
				a, ok := arms[tn]
				if !ok {
					c.Fail(rEdge, k, p.Pos(ts.Pos()), "function-reference instruction ast."+tn+" has no arm in markFuncReachable_ins")
					continue
				}
				// the arm must look the field up in p.funcs and mark the result
				good := false
				for _, s := range a.Body {
					ast.Inspect(s, func(n ast.Node) bool {
						ix, ok := n.(*ast.IndexExpr)
						if ok && strings.HasSuffix(types.ExprString(ix.X), ".funcs") {
							if se, ok := ix.Index.(*ast.SelectorExpr); ok && se.Sel.Name == fn {
								good = true
							}
						}
						return true
					})
				}
				marks := false
				for _, call := range callsIn(info, a.Body) {
					if f := CalleeOf(info, call); f != nil && f.Name() == "markFuncReachable" {
						marks = true
					}
				}
				c.Check(good && marks, rEdge, k, p.Pos(a.Clause.Pos()), "callee is looked up by "+k+" and marked", "the function referenced by "+k+" is not marked reachable")
			}
			// (3) every key into p.funcs in the walker must be a function-reference field
			for tn, a := range arms {
				for _, s := range a.Body {
					ast.Inspect(s, func(n ast.Node) bool {
						ix, ok := n.(*ast.IndexExpr)
						if !ok || !strings.HasSuffix(types.ExprString(ix.X), ".funcs") {
							return true
						}
						se, ok := ix.Index.(*ast.SelectorExpr)
						if !ok {
							return true
						}
						k := tn + "." + se.Sel.Name
						r := role[k]
						c.Check(r == "func", rRole, k, p.Pos(ix.Pos()), "function-index field used as function key",
							fmt.Sprintf("%s is resolved by the assembler in the %s index space but is used as a key into the function map: the lookup yields nil (dereferenced unguarded) or marks an unrelated function", k, r))
						return true
					})
				}
			}
		}
	}

	// (4) removal filter
	if dp != nil {
		type filt struct {
			loopOver string
			desc     string
		}
		nf := 0
		ast.Inspect(dp.Body, func(n ast.Node) bool {
			rs, ok := n.(*ast.RangeStmt)
			if !ok {
				return true
			}
			over := types.ExprString(rs.X)
			if over != "p.m.Imports" && over != "p.m.Funcs" {
				return true
			}
			// only the rebuild loops (those that append to m.Imports / m.Funcs)
			appends := false
			ast.Inspect(rs.Body, func(m ast.Node) bool {
				if as, ok := m.(*ast.AssignStmt); ok && len(as.Lhs) == 1 && (types.ExprString(as.Lhs[0]) == "m.Imports" || types.ExprString(as.Lhs[0]) == "m.Funcs") {
					appends = true
				}
				return true
			})
			if !appends {
				return true
			}
			nf++
			// find the colour test
			var test ast.Expr
			var testIf *ast.IfStmt
			ast.Inspect(rs.Body, func(m ast.Node) bool {
				if ifs, ok := m.(*ast.IfStmt); ok {
					for _, cj := range conjuncts(ifs.Cond) {
						if markTestOf(info, cj) != 0 {
							test, testIf = cj, ifs
						}
					}
				}
				return true
			})
			construct := "rebuild of " + over
			if over == "p.m.Imports" {
				// every drop of an import is under a test that the import is a function: the colour map is keyed by
				// function name, and the FuncName of a memory/global/table import is "" — the key of an unnamed function
				var walk func(list []ast.Stmt, conds []ast.Expr)
				nDrop := 0
				walk = func(list []ast.Stmt, conds []ast.Expr) {
					for _, s := range list {
						switch x := s.(type) {
						case *ast.BlockStmt:
							walk(x.List, conds)
						case *ast.IfStmt:
							walk(x.Body.List, append(conds[:len(conds):len(conds)], conjuncts(x.Cond)...))
							if eb, ok := x.Else.(*ast.BlockStmt); ok {
								walk(eb.List, conds)
							} else if ei, ok := x.Else.(*ast.IfStmt); ok {
								walk([]ast.Stmt{ei}, conds)
							}
						case *ast.BranchStmt:
							if x.Tok != token.CONTINUE {
								continue
							}
							nDrop++
							kindOK := false
							for _, cj := range conds {
								if be, ok := cj.(*ast.BinaryExpr); ok && be.Op == token.EQL && strings.HasSuffix(types.ExprString(be.X), ".ObjKind") && constOfExpr(info, be.Y).Name == "FUNC" {
									kindOK = true
								}
							}
							c.Check(kindOK, rFilt, fmt.Sprintf("%s: drop #%d is for function imports only", construct, nDrop), p.Pos(x.Pos()), "dropped only when ObjKind == FUNC",
								"the rebuild loop over p.m.Imports drops an import without testing that it is a function import: the colour table is keyed by function name, a memory, global or table import has the empty FuncName, which is the key of any unnamed function — with one unnamed unreachable function in the module every non-function import is removed and the stripped module no longer validates")
						}
					}
				}
				walk(rs.Body.List, nil)
				c.Min(rFilt, "import drops", nDrop, 1)
			}
			if test == nil {
				c.Undecided(rFilt, construct, p.Pos(rs.Pos()), "no colour test found in the rebuild loop")
				return true
			}
			// does the if-body keep (append) or drop (continue)?
			keeps, drops := false, false
			ast.Inspect(testIf.Body, func(m ast.Node) bool {
				switch x := m.(type) {
				case *ast.AssignStmt:
					keeps = true
				case *ast.BranchStmt:
					if x.Tok == token.CONTINUE {
						drops = true
					}
				}
				return true
			})
			marked := markTestOf(info, test) > 0
			unmarked := markTestOf(info, test) < 0
			good := (keeps && !drops && marked) || (drops && !keeps && unmarked)
			c.Check(good, rFilt, construct, p.Pos(test.Pos()), "kept iff marked reachable", fmt.Sprintf("the rebuild loop over %s %s elements when `%s`: reachable functions are removed / unreachable kept", over, map[bool]string{true: "keeps", false: "drops"}[keeps], types.ExprString(test)))
			return true
		})
		c.Min(rFilt, "rebuild loops", nf, 2)
	}

	// (5) roots survive printing (watstrip prints its result through internal/wat/printer)
	rd, _ := FieldAccesses(pp, "internal/wat/ast", nil)
	for _, k := range []string{"Module.Start", "ExportSpec.FuncIdx", "ElemSection.Values", "Func.ExportName"} {
		c.Check(len(rd[k]) > 0, rPrint, k, "", "printed", "the printer never reads ast."+k+": the stripped text loses this root")
	}
	if pe := p.MustFunc(rPrint, pp, "watPrinter.printExport"); pe != nil {
		// the FUNC arm must print unless the export is the function's inline export
		for _, sw := range FindSwitches(pe, func(ast.Expr) bool { return true }) {
			for _, arm := range SwitchArms(pp.TypesInfo, sw) {
				for _, k := range arm.Consts {
					if k.Name != "FUNC" {
						continue
					}
					prints := false
					for _, call := range callsIn(pp.TypesInfo, arm.Body) {
						if f := CalleeOf(pp.TypesInfo, call); f != nil && f.Pkg() != nil && f.Pkg().Path() == "fmt" {
							prints = true
						}
					}
					// an unconditional skip: `if true || ...` style constants
					constSkip := false
					for _, s := range arm.Body {
						if ifs, ok := s.(*ast.IfStmt); ok {
							if tv, ok := pp.TypesInfo.Types[ifs.Cond]; ok && tv.Value != nil {
								constSkip = true
							}
							if be, ok := ifs.Cond.(*ast.BinaryExpr); ok {
								for _, side := range []ast.Expr{be.X, be.Y} {
									if tv, ok := pp.TypesInfo.Types[side]; ok && tv.Value != nil {
										constSkip = true
									}
								}
							}
						}
					}
					c.Check(prints && !constSkip, rPrint, "printExport: exports of kind func", p.Pos(arm.Clause.Pos()), "separate function exports are printed", "function exports are not printed: a root of the stripped module disappears from its text")
					exportSkipPredicate(c, p, pp, arm, rPrint)
				}
			}
		}
	}
}

// rootMarked: DoPass contains `if ... fn.Name == <root field or its element> ... { p.markFuncReachable(...) }`.
func rootMarked(info *types.Info, dp *ast.FuncDecl, root string) bool {
	field := root[strings.Index(root, ".")+1:]
	found := false
	// element values are compared through a range variable: resolve `for _, v := range x.Values`
	rangeVars := map[string]string{} // var name -> field ranged over
	ast.Inspect(dp.Body, func(n ast.Node) bool {
		if rs, ok := n.(*ast.RangeStmt); ok {
			if se, ok := rs.X.(*ast.SelectorExpr); ok {
				if id, ok := rs.Value.(*ast.Ident); ok {
					rangeVars[id.Name] = se.Sel.Name
				}
			}
		}
		return true
	})
	ast.Inspect(dp.Body, func(n ast.Node) bool {
		ifs, ok := n.(*ast.IfStmt)
		if !ok {
			return true
		}
		mentions := false
		ast.Inspect(ifs.Cond, func(m ast.Node) bool {
			be, ok := m.(*ast.BinaryExpr)
			if !ok || be.Op != token.EQL {
				return true
			}
			for _, pair := range [][2]ast.Expr{{be.X, be.Y}, {be.Y, be.X}} {
				// the left side must be the function's name: fn.Name, or a variable ranging over the collected names
				if !isFuncNameExpr(info, pair[0], c06NameVars(info, dp)) {
					continue
				}
				switch o := pair[1].(type) {
				case *ast.SelectorExpr:
					if o.Sel.Name == field {
						if sel, ok := info.Selections[o]; ok && namedTypeName(sel.Recv()) == root[:strings.Index(root, ".")] {
							mentions = true
						}
					}
				case *ast.Ident:
					if rangeVars[o.Name] == field {
						mentions = true
					}
				}
			}
			return true
		})
		if !mentions {
			return true
		}
		for _, call := range callsIn(info, ifs.Body.List) {
			if f := CalleeOf(info, call); f != nil && f.Name() == "markFuncReachable" {
				found = true
			}
		}
		return true
	})
	return found
}

// exportSkipPredicate: a module-level function export may be left out of the export section only when the very
// same (export name, function) pair is printed inline with the function. The helper that decides the skip must
// therefore establish both equalities, ExportSpec.FuncIdx == Func.Name and ExportSpec.Name == Func.ExportName,
// on every path that answers true.
func exportSkipPredicate(c *Ctx, p *Prog, pp *packages.Package, arm Arm, rule string) {
	info := pp.TypesInfo
	for _, s := range arm.Body {
		ifs, ok := s.(*ast.IfStmt)
		if !ok {
			continue
		}
		skips := false
		for _, bs := range ifs.Body.List {
			if br, ok := bs.(*ast.BranchStmt); ok && br.Tok == token.CONTINUE {
				skips = true
			}
		}
		call, isCall := ast.Unparen(ifs.Cond).(*ast.CallExpr)
		if !skips || !isCall {
			continue
		}
		fn := CalleeOf(info, call)
		if fn == nil {
			continue
		}
		name := fn.Name()
		if sig, ok := fn.Type().(*types.Signature); ok && sig.Recv() != nil {
			name = namedTypeName(sig.Recv().Type()) + "." + name
		}
		fd := FuncDecl(pp, name)
		if fd == nil {
			c.Undecided(rule, "printExport: skip predicate "+name, p.Pos(call.Pos()), "the predicate's declaration was not found")
			continue
		}
		// every `return true` must sit under conditions that contain both field equalities
		good, nTrue, noInline := true, 0, false
		var walk func(list []ast.Stmt, conds []ast.Expr)
		pairOK := func(conds []ast.Expr, a, b string) bool {
			for _, cnd := range conds {
				var conj []ast.Expr
				var split func(e ast.Expr)
				split = func(e ast.Expr) {
					if be, ok := ast.Unparen(e).(*ast.BinaryExpr); ok && be.Op == token.LAND {
						split(be.X)
						split(be.Y)
						return
					}
					conj = append(conj, e)
				}
				split(cnd)
				for _, e := range conj {
					be, ok := ast.Unparen(e).(*ast.BinaryExpr)
					if !ok || be.Op != token.EQL {
						continue
					}
					fx, fy := selField(info, be.X), selField(info, be.Y)
					if (fx == a && fy == b) || (fx == b && fy == a) {
						return true
					}
				}
			}
			return false
		}
		walk = func(list []ast.Stmt, conds []ast.Expr) {
			for _, st := range list {
				switch x := st.(type) {
				case *ast.IfStmt:
					walk(x.Body.List, append(append([]ast.Expr{}, conds...), x.Cond))
				case *ast.RangeStmt:
					walk(x.Body.List, conds)
				case *ast.ForStmt:
					walk(x.Body.List, conds)
				case *ast.BlockStmt:
					walk(x.List, conds)
				case *ast.ReturnStmt:
					if len(x.Results) == 1 {
						if tv, ok := info.Types[x.Results[0]]; ok && tv.Value != nil && tv.Value.ExactString() == "true" {
							nTrue++
							if !(pairOK(conds, "ExportSpec.FuncIdx", "Func.Name") && pairOK(conds, "ExportSpec.Name", "Func.ExportName")) {
								good = false
							}
							// … and the function must have an inline export at all: two empty names are equal too
							if !exportNameNonEmpty(info, conds) {
								good, noInline = false, true
							}
						}
					}
				}
			}
		}
		walk(fd.Body.List, nil)
		c.Check(good && nTrue > 0, rule, "printExport: skip only the function's own inline export", p.Pos(fd.Pos()), "skip requires FuncIdx == fn.Name and Name == fn.ExportName",
			name+" answers true without establishing both ExportSpec.FuncIdx == Func.Name and ExportSpec.Name == Func.ExportName"+map[bool]string{true: " for a function that has an inline export (Func.ExportName != \"\"): an export whose name is the empty string equals the empty ExportName of a function without inline export and is never printed", false: ""}[noInline]+": a module-level export that differs from the function's inline export (second export name, or a function with another inline export) is dropped from the printed module")
	}
}

// selField renders a field selection as "Type.Field".
func selField(info *types.Info, e ast.Expr) string {
	se, ok := ast.Unparen(e).(*ast.SelectorExpr)
	if !ok {
		return ""
	}
	sel, ok := info.Selections[se]
	if !ok || sel.Kind() != types.FieldVal {
		return ""
	}
	return namedTypeName(sel.Recv()) + "." + se.Sel.Name
}

// conjuncts splits a condition at its top-level && operators.
func conjuncts(e ast.Expr) []ast.Expr {
	e = ast.Unparen(e)
	if be, ok := e.(*ast.BinaryExpr); ok && be.Op == token.LAND {
		return append(conjuncts(be.X), conjuncts(be.Y)...)
	}
	return []ast.Expr{e}
}
