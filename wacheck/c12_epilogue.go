package main

import (
	"go/ast"
	"go/token"
	"go/types"
	"strings"

	"golang.org/x/tools/go/packages"
)

// epilogueReleaseWorlds reads the loop of genFunction that releases the registers at the end of a function, one
// iteration per world (emiteval.go): there is no no-RC set, the register is in the set, the register is not in it.
// The register's release must be emitted exactly when the register is not in the set. The form of the test (guard
// around the release, early continue, inverted condition) does not matter.
func epilogueReleaseWorlds(bk *packages.Package, body *ast.BlockStmt) (problems []string, und string) {
	info := bk.TypesInfo
	var loop *ast.RangeStmt
	ast.Inspect(body, func(n ast.Node) bool {
		rs, ok := n.(*ast.RangeStmt)
		if !ok || !strings.HasSuffix(types.ExprString(rs.X), ".registers") {
			return true
		}
		has := false
		ast.Inspect(rs.Body, func(m ast.Node) bool {
			if call, ok := m.(*ast.CallExpr); ok {
				if se, ok := call.Fun.(*ast.SelectorExpr); ok && se.Sel.Name == "EmitRelease" {
					has = true
				}
			}
			return !has
		})
		if has {
			loop = rs
		}
		return true
	})
	if loop == nil {
		return nil, "no loop over the registers that emits EmitRelease"
	}
	elem, _ := loop.Value.(*ast.Ident)
	if elem == nil {
		return nil, "the loop over the registers has no element variable"
	}
	// accumulators: every slice-typed field or variable appended to in the body
	accs := map[types.Object]bool{}
	ast.Inspect(loop.Body, func(n ast.Node) bool {
		if as, ok := n.(*ast.AssignStmt); ok && len(as.Lhs) == 1 && len(as.Rhs) == 1 {
			if call, ok := as.Rhs[0].(*ast.CallExpr); ok {
				if id, ok := call.Fun.(*ast.Ident); ok && id.Name == "append" {
					ev := newEmitEval(bk)
					if o := ev.obj(as.Lhs[0]); o != nil {
						accs[o] = true
					}
				}
			}
		}
		return true
	})
	for _, w := range []struct {
		name          string
		isNil, member bool
	}{{"no no-RC set", true, false}, {"register in the no-RC set", false, true}, {"register not in the no-RC set", false, false}} {
		w := w
		ev := newEmitEval(bk)
		ev.LoopBody = true
		isSet := func(e ast.Expr) bool {
			se, ok := ast.Unparen(e).(*ast.SelectorExpr)
			return ok && se.Sel.Name == "none_rc_registers"
		}
		ev.Hook = func(e ast.Expr) (evVal, bool) {
			switch x := ast.Unparen(e).(type) {
			case *ast.BinaryExpr:
				if x.Op == token.EQL || x.Op == token.NEQ {
					a, b := ast.Unparen(x.X), ast.Unparen(x.Y)
					if isSet(b) {
						a, b = b, a
					}
					if id, ok := b.(*ast.Ident); ok && id.Name == "nil" && isSet(a) {
						return evVal{K: evBool, B: w.isNil == (x.Op == token.EQL)}, true
					}
				}
			case *ast.IndexExpr:
				if isSet(x.X) {
					if id, ok := ast.Unparen(x.Index).(*ast.Ident); ok && info.ObjectOf(id) == info.ObjectOf(elem) {
						return evVal{K: evBool, B: w.member && !w.isNil}, true
					}
				}
			}
			return evVal{}, false
		}
		env := evEnv{}
		for o := range accs {
			env[o] = evVal{K: evNil}
		}
		ev.run(loop.Body.List, env)
		if ev.Und != "" {
			return nil, w.name + ": " + ev.Und
		}
		var emitted []string
		for o := range accs {
			emitted = append(emitted, env[o].L...)
		}
		want := "EmitRelease()..." // the receiver is checked below
		n := 0
		for _, t := range emitted {
			if t == want {
				n++
			}
		}
		switch {
		case w.member && len(emitted) != 0:
			problems = append(problems, "for a "+w.name+" it emits ["+strings.Join(emitted, " ")+"]: a register that never owned its value is released, and the block it refers to is freed while its owner is live")
		case !w.member && (n != 1 || len(emitted) != 1):
			problems = append(problems, "with "+w.name+" it emits ["+strings.Join(emitted, " ")+"], want ["+want+"]: the register's last value is never released and every call of the function leaks it")
		}
	}
	// every release in the loop is the element's own
	ast.Inspect(loop.Body, func(n ast.Node) bool {
		if call, ok := n.(*ast.CallExpr); ok {
			if se, ok := call.Fun.(*ast.SelectorExpr); ok && se.Sel.Name == "EmitRelease" {
				if id, ok := ast.Unparen(se.X).(*ast.Ident); !ok || info.ObjectOf(id) != info.ObjectOf(elem) {
					problems = append(problems, "the loop over the registers releases "+types.ExprString(se.X)+", not the register it visits")
				}
			}
		}
		return true
	})
	return problems, ""
}
