package main

import (
	"go/ast"
	"go/types"
	"regexp"
	"strings"

	"golang.org/x/tools/go/packages"
)

// Predicate helpers: a guard written as a call to a small predicate of the same package
// (`if v.isNilConst() {`, body `return v.Kind() == ValueKindConst && v.Name() == "0"`) is the predicate's returned
// expression with the receiver and parameters substituted. Guards are compared by the rules as expression text, so
// extracting a condition into such a helper must not change what the rules see.

var emitseqDecls = map[*types.Func]*ast.FuncDecl{}
var emitseqSeen = map[*packages.Package]bool{}

// registerPredicates records the single-return functions of a package.
func registerPredicates(pk *packages.Package) {
	if pk == nil || emitseqSeen[pk] {
		return
	}
	emitseqSeen[pk] = true
	for _, f := range pk.Syntax {
		for _, d := range f.Decls {
			fd, ok := d.(*ast.FuncDecl)
			if !ok || fd.Body == nil || len(fd.Body.List) != 1 {
				continue
			}
			rs, ok := fd.Body.List[0].(*ast.ReturnStmt)
			if !ok || len(rs.Results) != 1 {
				continue
			}
			if fn, ok := pk.TypesInfo.Defs[fd.Name].(*types.Func); ok {
				if sig, ok := fn.Type().(*types.Signature); ok && sig.Results().Len() == 1 {
					if b, ok := sig.Results().At(0).Type().Underlying().(*types.Basic); ok && b.Kind() == types.Bool {
						emitseqDecls[fn] = fd
					}
				}
			}
		}
	}
}

func expandPredicates(info *types.Info, e ast.Expr) string {
	return expandPredicatesDepth(info, e, 0)
}

func expandPredicatesDepth(info *types.Info, e ast.Expr, depth int) string {
	s := types.ExprString(e)
	if depth > 2 || len(emitseqDecls) == 0 {
		return s
	}
	// replace innermost-first: collect calls to registered predicates
	type repl struct{ old, new string }
	var rs []repl
	ast.Inspect(e, func(n ast.Node) bool {
		call, ok := n.(*ast.CallExpr)
		if !ok {
			return true
		}
		fn := CalleeOf(info, call)
		fd := emitseqDecls[fn]
		if fd == nil {
			return true
		}
		body := types.ExprString(fd.Body.List[0].(*ast.ReturnStmt).Results[0])
		sub := map[string]string{}
		if fd.Recv != nil && len(fd.Recv.List) == 1 && len(fd.Recv.List[0].Names) == 1 {
			if se, ok := call.Fun.(*ast.SelectorExpr); ok {
				sub[fd.Recv.List[0].Names[0].Name] = types.ExprString(se.X)
			}
		}
		i := 0
		for _, f := range fd.Type.Params.List {
			for _, nm := range f.Names {
				if i < len(call.Args) {
					sub[nm.Name] = types.ExprString(call.Args[i])
				}
				i++
			}
		}
		for from, to := range sub {
			if from == to || from == "_" {
				continue
			}
			body = regexp.MustCompile(`\b`+regexp.QuoteMeta(from)+`\b`).ReplaceAllString(body, to)
		}
		rs = append(rs, repl{types.ExprString(call), "(" + body + ")"})
		return false
	})
	for _, r := range rs {
		s = strings.Replace(s, r.old, r.new, 1)
	}
	return s
}
