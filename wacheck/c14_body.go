package main

import (
	"crypto/sha1"
	_ "embed"
	"encoding/hex"
	"fmt"
	"go/ast"
	"go/parser"
	"go/token"
	"os"
	"path/filepath"
	"sort"
	"strings"

	waast "wa-lang.org/wa/internal/ast"
)

// C14 rule port-body: a Wa function ported from Go whose canonical syntax tree was equal to the Go function's when
// the rule was armed (the frozen list c14_bodies.txt) still equals the one in GOROOT's sources. The comparison is on
// syntax trees (canonast.go): layout, comments and parenthesisation do not matter, the spelling of the receiver
// (`this` / a leading `d := this`) and Wa's short numeric type names are normalised. The rule does not say that a
// port that differs from Go is wrong: such functions are simply not instances.
//
// C14 rule port-goto-inlining: Wa has no goto. Where the Go function jumps to a labelled block, the port repeats the
// block. For every label of the Go function whose block (the statements from the label to the next label or the end)
// the port repeats, the port contains at least as many copies of that block as the Go function has ways of reaching
// it; a copy that drifted from the others is a path on which the port does not do what Go does at that label.

//go:embed c14_bodies.txt
var c14Bodies string

type goFunc struct {
	Decl *ast.FuncDecl
	Recv string // receiver variable name
}

func goFuncsOf(gdir string) map[string][]goFunc {
	out := map[string][]goFunc{}
	ents, err := os.ReadDir(gdir)
	if err != nil {
		return out
	}
	fset := token.NewFileSet()
	for _, e := range ents {
		n := e.Name()
		if !strings.HasSuffix(n, ".go") || strings.HasSuffix(n, "_test.go") {
			continue
		}
		f, err := parser.ParseFile(fset, filepath.Join(gdir, n), nil, 0)
		if err != nil {
			continue
		}
		for _, d := range f.Decls {
			fd, ok := d.(*ast.FuncDecl)
			if !ok || fd.Body == nil {
				continue
			}
			key, recv := fd.Name.Name, ""
			if fd.Recv != nil && len(fd.Recv.List) == 1 {
				t := fd.Recv.List[0].Type
				if st, ok := t.(*ast.StarExpr); ok {
					t = st.X
				}
				if id, ok := t.(*ast.Ident); ok {
					key = id.Name + "." + key
				}
				if len(fd.Recv.List[0].Names) == 1 {
					recv = fd.Recv.List[0].Names[0].Name
				}
			}
			out[key] = append(out[key], goFunc{fd, recv})
		}
	}
	// A function whose whole body forwards to internal/stringslite (where Go moved the code the Wa port was taken
	// from) is compared through the function it forwards to.
	if lite := filepath.Join(filepath.Dir(gdir), "internal", "stringslite"); filepath.Base(gdir) == "strings" {
		var liteFuncs map[string][]goFunc
		for key, gs := range out {
			for i, g := range gs {
				if g.Recv != "" || len(g.Decl.Body.List) != 1 {
					continue
				}
				ret, ok := g.Decl.Body.List[0].(*ast.ReturnStmt)
				if !ok || len(ret.Results) != 1 {
					continue
				}
				call, ok := ret.Results[0].(*ast.CallExpr)
				if !ok {
					continue
				}
				se, ok := call.Fun.(*ast.SelectorExpr)
				if !ok {
				continue
			}
			if id, isID := se.X.(*ast.Ident); !isID || id.Name != "stringslite" {
					continue
				}
				if liteFuncs == nil {
					liteFuncs = goFuncsOf(lite)
				}
				if t := liteFuncs[se.Sel.Name]; len(t) == 1 && t[0].Decl.Type.Params.NumFields() == g.Decl.Type.Params.NumFields() {
					out[key][i] = goFunc{t[0].Decl, ""}
				}
			}
		}
	}
	return out
}

// waFuncCanon prints the signature and body of a Wa function with the receiver spelled recv.
func waFuncCanon(fd *waFuncDecl, recv string) (sig, body string) {
	pre := map[string]string{}
	stmts := fd.Decl.Body.List
	if recv != "" {
		pre["this"] = "$recv"
		if len(stmts) > 0 {
			// a leading `d := this` gives the receiver the name Go's method uses
			if as, ok := stmts[0].(*waast.AssignStmt); ok && len(as.Lhs) == 1 && len(as.Rhs) == 1 {
				l, lok := as.Lhs[0].(*waast.Ident)
				r, rok := as.Rhs[0].(*waast.Ident)
				if lok && rok && r.Name == "this" {
					pre[l.Name] = "$recv"
					stmts = stmts[1:]
				}
			}
		}
	}
	o := canonOptsFor(pre, fd.Decl.Type.Params, fd.Decl.Type.Results, stmts)
	var parts []string
	for _, s := range stmts {
		if cs := canonAST(s, o); cs != "" {
			parts = append(parts, cs)
		}
	}
	return canonAST(fd.Decl.Type.Params, o) + " => " + canonAST(fd.Decl.Type.Results, o), strings.Join(parts, "\n")
}

func goFuncCanon(g goFunc) (sig, body string) {
	pre := map[string]string{}
	if g.Recv != "" {
		pre[g.Recv] = "$recv"
	}
	o := canonOptsFor(pre, g.Decl.Type.Params, g.Decl.Type.Results, g.Decl.Body.List)
	var parts []string
	for _, s := range g.Decl.Body.List {
		if cs := canonAST(s, o); cs != "" {
			parts = append(parts, cs)
		}
	}
	return canonAST(g.Decl.Type.Params, o) + " => " + canonAST(g.Decl.Type.Results, o), strings.Join(parts, "\n")
}

// goLabelBlocks returns, for each label of a Go function body (top level only), the canonical statements from the
// label to the next label (or the end), and the number of ways the block is reached (gotos + fall-through).
type goLabelBlock struct {
	Label   string
	Stmts   []string
	Reached int
}

func goLabelBlocks(fd *ast.FuncDecl) []goLabelBlock {
	var blocks []goLabelBlock
	list := fd.Body.List
	gotos := map[string]int{}
	ast.Inspect(fd.Body, func(n ast.Node) bool {
		if b, ok := n.(*ast.BranchStmt); ok && b.Tok == token.GOTO && b.Label != nil {
			gotos[b.Label.Name]++
		}
		return true
	})
	o := &canonOpts{}
	for i := 0; i < len(list); i++ {
		ls, ok := list[i].(*ast.LabeledStmt)
		if !ok {
			continue
		}
		b := goLabelBlock{Label: ls.Label.Name, Reached: gotos[ls.Label.Name]}
		// does control fall into the label?
		if i > 0 {
			switch p := list[i-1].(type) {
			case *ast.ReturnStmt:
			case *ast.BranchStmt:
				_ = p
			default:
				b.Reached++
			}
		}
		if _, empty := ls.Stmt.(*ast.EmptyStmt); !empty {
			b.Stmts = append(b.Stmts, canonAST(ls.Stmt, o))
		}
		for j := i + 1; j < len(list); j++ {
			if _, isLabel := list[j].(*ast.LabeledStmt); isLabel {
				break
			}
			if br, isBr := list[j].(*ast.BranchStmt); isBr && br.Tok == token.GOTO {
				break
			}
			b.Stmts = append(b.Stmts, canonAST(list[j], o))
		}
		blocks = append(blocks, b)
	}
	return blocks
}

// waStmtLists returns the canonical statements of every statement list of a Wa function body.
func waStmtLists(fd *waFuncDecl, recv string) [][]string {
	o := &canonOpts{Rename: map[string]string{}}
	if recv != "" {
		o.Rename["this"] = recv
	}
	var out [][]string
	waast.Inspect(fd.Decl.Body, func(n waast.Node) bool {
		var list []waast.Stmt
		switch x := n.(type) {
		case *waast.BlockStmt:
			list = x.List
		case *waast.CaseClause:
			list = x.Body
		}
		if len(list) > 0 {
			var ss []string
			for _, s := range list {
				ss = append(ss, canonAST(s, o))
			}
			out = append(out, ss)
		}
		return true
	})
	return out
}

// stmtHash identifies a canonical statement; short statements carry too little to be worth an instance.
func stmtHash(canon string) (string, bool) {
	if len(canon) < 120 {
		return "", false
	}
	h := sha1.Sum([]byte(canon))
	return hex.EncodeToString(h[:6]), true
}

// waTopStmts / goTopStmts: canonical top-level statements of a function body, keyed by hash. Names declared inside
// a statement are positional; names from the enclosing function stay as written; the receiver is spelled alike.
func waTopStmts(fd *waFuncDecl, recv string) map[string]string {
	out := map[string]string{}
	pre := map[string]string{}
	stmts := fd.Decl.Body.List
	if recv != "" {
		pre["this"] = "$recv"
		if len(stmts) > 0 {
			if as, ok := stmts[0].(*waast.AssignStmt); ok && len(as.Lhs) == 1 && len(as.Rhs) == 1 {
				l, lok := as.Lhs[0].(*waast.Ident)
				r, rok := as.Rhs[0].(*waast.Ident)
				if lok && rok && r.Name == "this" {
					pre[l.Name] = "$recv"
					stmts = stmts[1:]
				}
			}
		}
	}
	for _, s := range stmts {
		cs := canonAST(s, canonOptsFor(pre, s))
		if h, ok := stmtHash(cs); ok {
			out[h] = cs
		}
	}
	return out
}

func goTopStmts(g goFunc) map[string]string {
	out := map[string]string{}
	pre := map[string]string{}
	if g.Recv != "" {
		pre[g.Recv] = "$recv"
	}
	for _, s := range g.Decl.Body.List {
		cs := canonAST(s, canonOptsFor(pre, s))
		if h, ok := stmtHash(cs); ok {
			out[h] = cs
		}
	}
	return out
}

func countSubseq(lists [][]string, pat []string) int {
	n := 0
	for _, l := range lists {
		for i := 0; i+len(pat) <= len(l); i++ {
			ok := true
			for k := range pat {
				if l[i+k] != pat[k] {
					ok = false
					break
				}
			}
			if ok {
				n++
			}
		}
	}
	return n
}

func c14PortBodies(c *Ctx, std *waStd, goroot string) {
	const rule, rGoto = "port-body", "port-goto-inlining"
	mode := os.Getenv("VERIF_C14_DUMP")
	want := map[string]bool{}
	wantGoto := map[string]bool{}
	wantStmt := map[string][]string{}
	nStmt := 0
	for _, l := range strings.Split(c14Bodies, "\n") {
		l = strings.TrimSpace(l)
		if l == "" || strings.HasPrefix(l, "#") {
			continue
		}
		if strings.HasPrefix(l, "goto ") {
			wantGoto[strings.TrimPrefix(l, "goto ")] = true
		} else if strings.HasPrefix(l, "stmt ") {
			if f := strings.Fields(l); len(f) == 3 {
				wantStmt[f[1]] = append(wantStmt[f[1]], strings.TrimPrefix(f[2], "#"))
				nStmt++
			}
		} else {
			want[l] = true
		}
	}
	var pkgs []string
	for p := range std.Pkgs {
		pkgs = append(pkgs, p)
	}
	sort.Strings(pkgs)
	seen := map[string]bool{}
	nEq, nDiff, nCmp := 0, 0, 0
	for _, pkg := range pkgs {
		gdir := filepath.Join(goroot, "src", pkg)
		gfuncs := goFuncsOf(gdir)
		if len(gfuncs) == 0 {
			continue
		}
		for _, f := range std.Pkgs[pkg] {
			if isWaTestFile(f.Name) {
				continue
			}
			for _, fd := range std.Funcs(f) {
				if fd.Decl.Body == nil {
					continue
				}
				name := fd.Name
				if fd.Recv != "" {
					name = fd.Recv + "." + fd.Name
				}
				cands := gfuncs[name]
				if len(cands) == 0 {
					continue
				}
				key := pkg + "." + name
				if seen[key] {
					continue // several Wa definitions (per-target files): the first one is compared
				}
				nCmp++
				equal := false
				firstGo := ""
				for _, g := range cands {
					ws, wb := waFuncCanon(fd, g.Recv)
					gs, gb := goFuncCanon(g)
					if firstGo == "" {
						firstGo = gb
					}
					if ws == gs && wb == gb {
						equal = true
					}
				}
				seen[key] = true
				loc := std.Pos(f, fd.Decl.Pos())
				if mode == "2" {
					if equal {
						fmt.Println(key)
					}
				} else if want[key] {
					detail := ""
					if !equal {
						_, wb := waFuncCanon(fd, cands[0].Recv)
						detail = firstDiff(firstGo, wb)
					}
					c.Check(equal, rule, key, loc, "syntax tree equal to Go's "+pkg+"."+name,
						fmt.Sprintf("the Wa port of %s.%s was the same function as Go's and no longer is (Go vs Wa, first difference in canonical form: %s): unless the change is a deliberate, reviewed divergence the port no longer computes what Go computes", pkg, name, detail))
				} else if equal {
					nEq++
				} else {
					nDiff++
				}
				// statement-level instances for functions that differ from Go's as a whole (ported from another
				// release, adapted to Wa): the top-level statements the two versions share
				if !equal {
					wst, gst := waTopStmts(fd, cands[0].Recv), goTopStmts(cands[0])
					if mode == "2" {
						var hs []string
						for h := range wst {
							if _, ok := gst[h]; ok {
								hs = append(hs, h)
							}
						}
						sort.Strings(hs)
						for _, h := range hs {
							fmt.Printf("stmt %s #%s\n", key, h)
						}
					} else {
						for _, h := range wantStmt[key] {
							id := "stmt " + key + " #" + h
							seen[id] = true
							_, inWa := wst[h]
							_, inGo := gst[h]
							c.Check(inWa && inGo, "port-statement", key+" #"+h, loc, "a statement shared with Go's "+pkg+"."+name,
								fmt.Sprintf("the Wa port of %s.%s shared a top-level statement with Go's version (canonical hash %s) and no longer does (still in Wa: %v, still in Go: %v): that part of the port no longer is the code it was ported from", pkg, name, h, inWa, inGo))
						}
					}
				}
				// goto inlining
				for _, g := range cands[:1] {
					blocks := goLabelBlocks(g.Decl)
					if len(blocks) == 0 {
						continue
					}
					lists := waStmtLists(fd, g.Recv)
					for _, b := range blocks {
						if len(b.Stmts) == 0 || b.Reached == 0 {
							continue
						}
						gkey := key + ":" + b.Label
						n := countSubseq(lists, b.Stmts)
						if mode == "2" {
							fmt.Printf("goto %s   # copies=%d reached=%d\n", gkey, n, b.Reached)
							continue
						}
						if !wantGoto[gkey] {
							continue
						}
						seen["goto "+gkey] = true
						c.Check(n >= b.Reached, rGoto, gkey, loc, fmt.Sprintf("%d copies of the block for %d ways of reaching it in Go", n, b.Reached),
							fmt.Sprintf("Go's %s.%s reaches the block at label %s in %d ways (goto or fall-through); the Wa port, which repeats the block instead of jumping, contains only %d exact copies of it: on the remaining path(s) the port does not do what Go does at that label", pkg, name, b.Label, b.Reached, n))
					}
				}
			}
		}
	}
	if mode == "2" {
		return
	}
	var missing []string
	for k := range want {
		if !seen[k] {
			missing = append(missing, k)
		}
	}
	for k := range wantGoto {
		if !seen["goto "+k] {
			missing = append(missing, "goto "+k)
		}
	}
	for k, hs := range wantStmt {
		for _, h := range hs {
			if !seen["stmt "+k+" #"+h] && !seen[k] {
				missing = append(missing, "stmt "+k+" #"+h)
			}
		}
	}
	sort.Strings(missing)
	for _, k := range missing {
		c.Undecided(rule, k, "", "the frozen instance no longer resolves on both sides (function renamed or removed): it is not being compared any more")
	}
	c.Count("frozen_statement_instances", nStmt)
	c.Count("functions_with_a_go_namesake", nCmp)
	c.Count("equal_functions_not_frozen", nEq)
	c.Count("functions_that_differ_from_go_not_instances", nDiff)
	c.Min(rule, "frozen function instances", len(want), 1)
}
