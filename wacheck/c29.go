package main

import (
	"fmt"
	"go/token"
	"go/types"
	"strings"

	"golang.org/x/tools/go/ssa"
)

func init() {
	register(&Property{ID: "C29", Run: runC29, Mutants: []Mutant{
		{Name: "exit(0) from a start function reported as a successful instantiation", File: "internal/3rdparty/wazero/namespace.go", Old: "\t\t\tif _, ok := err.(*sys.ExitError); ok {\n\t\t\t\treturn // Don't wrap an exit error", New: "\t\t\tif se, ok := err.(*sys.ExitError); ok {\n\t\t\t\tif se.ExitCode() == 0 { // Don't err on success.\n\t\t\t\t\terr = nil\n\t\t\t\t}\n\t\t\t\treturn // Don't wrap an exit error", Expect: "exit-error-kept"},
		{Name: "init failure wrapped before it is returned (exit status lost)", File: "internal/wazero/module.go", Old: "\tif p.wazeroInitErr != nil {\n\t\terr = p.wazeroInitErr\n\t\treturn\n\t}", New: "\tif p.wazeroInitErr != nil {\n\t\terr = fmt.Errorf(\"wazero: init failed: %w\", p.wazeroInitErr)\n\t\treturn\n\t}", Expect: "exit-error-identity"},
		{Name: "compiler engine loses the error for the integer-overflow status", File: "internal/3rdparty/wazero/internal/engine/compiler/engine.go", Old: "\tcase nativeCallStatusIntegerOverflow:\n\t\terr = wasmruntime.ErrRuntimeIntegerOverflow\n", New: "", Expect: "engine-trap-status-exhaustive"},
		{Name: "CmdRunAction trap path returns nil without exit", File: "internal/app/apprun/apprun.go", Old: "\t\tfmt.Println(err)\n\t\tos.Exit(1)\n\t} else {", New: "\t\tfmt.Println(err)\n\t} else {", Expect: "failure-reaches-failing-exit"},
		{Name: "BuildApp error exits 0", File: "internal/app/apprun/apprun.go", Old: "fmt.Println(\"appbuild.BuildApp:\", err)\n\t\tos.Exit(1)", New: "fmt.Println(\"appbuild.BuildApp:\", err)\n\t\tos.Exit(0)", Expect: "failure-reaches-failing-exit"},
		{Name: "exit code replaced by constant 0", File: "internal/app/apprun/apprun.go", Old: "os.Exit(exitCode)", New: "os.Exit(exitCode & 0)", Expect: "exit-code-provenance"},
		{Name: "main drops Run error", File: "main.go", Old: "if err := cliApp.Run(os.Args); err != nil {", New: "if err := cliApp.Run(os.Args); err != nil && false {", Expect: "action-error-reaches-status"},
		{Name: "AsExitError returns 0", File: "internal/wazero/util.go", Old: "return int(errExit.ExitCode()), true", New: "_ = errExit\n\t\treturn 0, true", Expect: "exit-code-provenance"},
		{Name: "RunMain swallows call error", File: "internal/wazero/module.go", Old: "\t\t_, err = fn.Call(p.wazeroCtx)\n\t\tif err != nil {", New: "\t\t_, err = fn.Call(p.wazeroCtx)\n\t\tif err != nil {\n\t\t\terr = nil", Expect: "failure-reaches-failing-exit"},
		{Name: "spurious failing exit on success path", File: "internal/app/apprun/apprun.go", Old: "\t\tif len(stderr) > 0 {\n\t\t\tfmt.Fprint(os.Stderr, string(stderr))\n\t\t}\n\t}\n\n\treturn nil\n}\n\nfunc openBrowser", New: "\t\tif len(stderr) > 0 {\n\t\t\tfmt.Fprint(os.Stderr, string(stderr))\n\t\t\tos.Exit(2)\n\t\t}\n\t}\n\n\treturn nil\n}\n\nfunc openBrowser", Expect: "success-reaches-zero"},
	}})
}

// errBranchRule: for every tested error in fn, every path from the non-nil edge must end in a failing outcome.
// okReturn says whether `return <non-nil error>` counts as failing (it does when the caller chain turns it into a status).
func errBranchRule(c *Ctx, p *Prog, rule string, fn *ssa.Function, okReturn bool, exempt map[string]string) int {
	n := 0
	seenSrc := map[string]int{}
	for _, t := range errTests(fn) {
		src := describeErrSource(t.Err)
		seenSrc[src]++
		construct := fmt.Sprintf("%s: err from %s #%d", short(fn.String()), src, seenSrc[src])
		loc := instrPos(p, t.If, t.If.Block())
		if loc == "" {
			if bo, ok := t.If.Cond.(*ssa.BinOp); ok {
				loc = p.Pos(bo.Pos())
			}
		}
		if why, ok := exempt[short(fn.String())+": "+src]; ok && t.Ignored {
			c.Note("%s: error deliberately ignored (%s)", construct, why)
			continue
		}
		n++
		if t.Ignored {
			c.Fail(rule, construct, loc, "error is tested but both outcomes continue identically (ignored error)")
			continue
		}
		bad := ""
		outs := walkPaths(t.NonNil, 5000)
		for _, o := range outs {
			switch o.Kind {
			case "panic":
			case "exit":
				if k, ok := constInt(o.Val); ok && k == 0 {
					bad = fmt.Sprintf("path ends in os.Exit(0) at %s", instrPos(p, o.Instr, nil))
				}
			case "return":
				v := o.Val
				if v != nil {
					v = resolveThroughStores(v, o.Stores)
				}
				if v == nil {
					bad = fmt.Sprintf("path returns without an error result at %s", instrPos(p, o.Instr, o.Trace[len(o.Trace)-1]))
				} else if isNilConst(v) {
					bad = fmt.Sprintf("path from the err != nil edge returns nil at %s (failure is reported as success)", instrPos(p, o.Instr, o.Trace[len(o.Trace)-1]))
				} else if !okReturn {
					bad = fmt.Sprintf("path returns the error at %s but the caller drops it", instrPos(p, o.Instr, o.Trace[len(o.Trace)-1]))
				}
			}
			if bad != "" {
				break
			}
		}
		if len(outs) == 0 {
			c.Undecided(rule, construct, loc, "no terminal outcome found from the error edge")
			continue
		}
		c.Check(bad == "", rule, construct, loc, fmt.Sprintf("%d paths from the err != nil edge all end in os.Exit(non-zero), panic or return of a non-nil error", len(outs)), bad)
	}
	return n
}

func runC29(c *Ctx) {
	c.Explain = "Decides the error/exit plumbing of `wa run` (clauses: a failing load/compile/instantiate/run reaches a non-zero process status; " +
		"the action's returned error is turned into a status by main; no failing exit on a path where every tested error was nil; the exit code passed to os.Exit on the ExitError path is the one extracted from the error). " +
		"Rule: SSA path enumeration from every `err != nil` edge in main.main, apprun.CmdRunAction, apprun.runWasm, wazero.RunWasm, wazero.BuildModule, wazero.(*Module).RunMain to its terminal outcomes. " +
		"Also: exit-error-identity (the *sys.ExitError reaches AsExitError unwrapped) and engine-trap-status-exhaustive (every status constant of the compiling engine is handled by its call loop or mapped to a non-nil error by causePanic, so no trap ends in panic(nil)). " +
		"NOT decided: that the embedded engine's generated native code raises the right status for every trapping instruction (C31 territory), nor the value of the status the guest asked for."
	c.Trusted = []string{"go/packages, go/types, go/ssa (x/tools v0.29.0)"}
	p := c.Load(LoadOpt{}, ".", "./internal/app/apprun", "./internal/wazero")
	const r1, r2, r3, r4 = "failure-reaches-failing-exit", "action-error-reaches-status", "success-reaches-zero", "exit-code-provenance"

	mainPk := p.MustPkg(r2, "")
	runPk := p.MustPkg(r1, "internal/app/apprun")
	wzPk := p.MustPkg(r1, "internal/wazero")
	if wzPk != nil {
		c29ExitErrorIdentity(c, p, wzPk)
		c29TrapStatus(c, p)
		c29ExitErrorKept(c, p, p.Pkg("internal/3rdparty/wazero"), wzPk)
	}
	if mainPk == nil || runPk == nil || wzPk == nil {
		return
	}
	p.BuildSSA()

	// rule 2: main tests the result of cliApp.Run and the non-nil edge exits non-zero.
	mainFn := p.SSAFunc(mainPk, "main")
	mainOK := false
	if mainFn == nil {
		c.Undecided(r2, "anchor:main.main", "", "main.main does not resolve")
	} else {
		found := false
		for _, b := range mainFn.Blocks {
			for _, ins := range b.Instrs {
				call, ok := ins.(*ssa.Call)
				if !ok || !strings.HasSuffix(calleeName(&call.Call), "internal/3rdparty/cli.App.Run") {
					continue
				}
				found = true
				loc := p.Pos(call.Pos())
				// find an error test on this value
				var test *ErrTest
				for _, t := range errTests(mainFn) {
					if t.Err == ssa.Value(call) {
						tt := t
						test = &tt
					}
				}
				if test == nil || test.Ignored {
					c.Fail(r2, "main.main: result of cliApp.Run", loc, "the error returned by the command action is dropped: a failing action (returned error that is not an ExitCoder) leaves the process status 0")
					continue
				}
				bad := ""
				for _, o := range walkPaths(test.NonNil, 1000) {
					if o.Kind == "exit" {
						if k, ok := constInt(o.Val); ok && k == 0 {
							bad = "os.Exit(0) on the error path"
						}
					} else if o.Kind != "panic" {
						bad = "error path of cliApp.Run reaches the end of main (status 0)"
					}
				}
				mainOK = bad == ""
				c.Check(bad == "", r2, "main.main: result of cliApp.Run", loc, "non-nil error from cliApp.Run leads to os.Exit(non-zero) on every path", bad)
			}
		}
		if !found {
			c.Undecided(r2, "main.main: result of cliApp.Run", "", "call to (*cli.App).Run not found in main.main")
		}
	}

	// rule 1 on the run action and the wazero wrappers.
	exempt := map[string]string{
		"internal/app/apprun.runWasm: os.ReadFile": "optional .fset side file: missing position info is not a failed run (comment in source: 忽略错误)",
	}
	total := 0
	for _, spec := range []struct {
		pk   string
		name string
	}{
		{"internal/app/apprun", "CmdRunAction"}, {"internal/app/apprun", "runWasm"},
		{"internal/wazero", "RunWasm"}, {"internal/wazero", "BuildModule"}, {"internal/wazero", "Module.RunMain"},
	} {
		pk := p.Pkg(spec.pk)
		fn := p.SSAFunc(pk, spec.name)
		if fn == nil {
			c.Undecided(r1, "anchor:"+spec.pk+"."+spec.name, "", "anchor function no longer resolves")
			continue
		}
		c.Count("functions_analysed", 1)
		total += errBranchRule(c, p, r1, fn, mainOK || spec.pk == "internal/wazero", exempt)
		// helpers of the same package that are handed an error (`reportRunResult(stdout, stderr, err)`): the tests and
		// exits that decide the status may have been moved there
		for _, g := range errorHelpers(fn) {
			c.Count("functions_analysed", 1)
			total += errBranchRule(c, p, r1, g, false, exempt)
		}
	}
	c.Min(r1, "tested errors", total, 8)

	// rule 3 and 4: every os.Exit in the run action.
	exits := 0
	var exitFns []*ssa.Function
	for _, name := range []string{"CmdRunAction", "runWasm"} {
		if fn := p.SSAFunc(runPk, name); fn != nil {
			exitFns = append(exitFns, fn)
			for _, g := range errorHelpers(fn) {
				dup := false
				for _, x := range exitFns {
					dup = dup || x == g
				}
				if !dup {
					exitFns = append(exitFns, g)
				}
			}
		}
	}
	for _, fn := range exitFns {
		tests := errTests(fn)
		dom := func(b *ssa.BasicBlock) *ErrTest {
			for i := range tests {
				t := &tests[i]
				if !t.Ignored && t.NonNil != t.Nil && len(t.NonNil.Preds) == 1 && t.NonNil.Dominates(b) {
					return t
				}
			}
			return nil
		}
		ord := map[string]int{}
		for _, b := range fn.Blocks {
			for _, ins := range b.Instrs {
				call, ok := ins.(*ssa.Call)
				if !ok || calleeName(&call.Call) != "os.Exit" {
					continue
				}
				exits++
				arg := call.Call.Args[0]
				loc := p.Pos(call.Pos())
				t := dom(b)
				if k, ok := constInt(arg); ok {
					key := fmt.Sprintf("%s: os.Exit(%d)", short(fn.String()), k)
					ord[key]++
					key = fmt.Sprintf("%s #%d", key, ord[key])
					if k != 0 {
						c.Check(t != nil, r3, key, loc, "failing exit is dominated by the non-nil edge of a tested error ("+errSrc(t)+")", "os.Exit with a non-zero constant is reachable without any tested error being non-nil: a normally returning program could exit non-zero")
					} else {
						c.Check(t == nil, r1, key, loc, "", "os.Exit(0) under a failing error edge")
					}
					continue
				}
				// non-constant: must be result 0 of AsExitError(err) under ok==true and under err != nil
				key := fmt.Sprintf("%s: os.Exit(<non-constant>)", short(fn.String()))
				ord[key]++
				key = fmt.Sprintf("%s #%d", key, ord[key])
				ex, isEx := arg.(*ssa.Extract)
				okv := false
				if isEx && ex.Index == 0 {
					if cl, ok := ex.Tuple.(*ssa.Call); ok && strings.HasSuffix(calleeName(&cl.Call), "internal/wazero.AsExitError") {
						// guarded by the ok result
						for _, pb := range fn.Blocks {
							if ifi, ok := pb.Instrs[len(pb.Instrs)-1].(*ssa.If); ok {
								if e2, ok := ifi.Cond.(*ssa.Extract); ok && e2.Tuple == ex.Tuple && e2.Index == 1 && pb.Succs[0].Dominates(b) && len(pb.Succs[0].Preds) == 1 {
									okv = true
								}
							}
						}
						if t == nil || cl.Call.Args[0] != t.Err {
							okv = false
						}
					}
				}
				c.Check(okv, r4, key, loc, "status is result #0 of wazero.AsExitError(err) under ok==true for the tested run error", "the status passed to os.Exit is not the exit code extracted by wazero.AsExitError from the run error under its ok guard")
			}
		}
	}
	c.Min(r3, "os.Exit sites in the run action", exits, 4)

	// rule 4b: AsExitError returns the ExitError's own code.
	if fn := p.SSAFunc(wzPk, "AsExitError"); fn == nil {
		c.Undecided(r4, "anchor:internal/wazero.AsExitError", "", "anchor function no longer resolves")
	} else {
		good, seen := false, false
		for _, b := range fn.Blocks {
			for _, ins := range b.Instrs {
				ret, ok := ins.(*ssa.Return)
				if !ok || len(ret.Results) != 2 {
					continue
				}
				if cst, ok := ret.Results[1].(*ssa.Const); ok && cst.Value != nil && cst.Value.String() == "true" {
					seen = true
					v := ret.Results[0]
					for {
						if cv, ok := v.(*ssa.Convert); ok {
							v = cv.X
							continue
						}
						if cv, ok := v.(*ssa.ChangeType); ok {
							v = cv.X
							continue
						}
						break
					}
					if cl, ok := v.(*ssa.Call); ok && strings.HasSuffix(calleeName(&cl.Call), "sys.ExitError.ExitCode") {
						// receiver must be the type-asserted error parameter
						if len(cl.Call.Args) > 0 {
							rv := cl.Call.Args[0]
							if ex, ok := rv.(*ssa.Extract); ok {
								if ta, ok := ex.Tuple.(*ssa.TypeAssert); ok && ta.X == fn.Params[0] {
									good = true
								}
							}
						}
					}
				}
			}
		}
		loc := p.Pos(fn.Pos())
		if !seen {
			c.Fail(r4, "internal/wazero.AsExitError: ok-return", loc, "no `return <code>, true` found: exit requests are never recognised")
		} else {
			c.Check(good, r4, "internal/wazero.AsExitError: ok-return", loc, "returns ExitCode() of the *sys.ExitError asserted from its argument", "the code returned with ok==true is not ExitCode() of the asserted *sys.ExitError")
		}
		// the assertion target type
		tgt := false
		for _, b := range fn.Blocks {
			for _, ins := range b.Instrs {
				if ta, ok := ins.(*ssa.TypeAssert); ok {
					if pt, ok := ta.AssertedType.(*types.Pointer); ok {
						if n, ok := pt.Elem().(*types.Named); ok && n.Obj().Name() == "ExitError" && strings.HasSuffix(n.Obj().Pkg().Path(), "wazero/sys") {
							tgt = true
						}
					}
				}
			}
		}
		c.Check(tgt, r4, "internal/wazero.AsExitError: asserted type", loc, "asserts *sys.ExitError (the type the engine's proc_exit raises)", "does not assert *sys.ExitError")
	}
	_ = token.NoPos
}

func errSrc(t *ErrTest) string {
	if t == nil {
		return ""
	}
	return describeErrSource(t.Err)
}
