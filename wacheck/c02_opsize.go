package main

import (
	"fmt"
	"go/ast"
	"regexp"
	"sort"
	"strings"

	"golang.org/x/tools/go/packages"
)

// C02 rule x64-operand-size-agreement (added after differential probing: `mov dword ptr [rbp-N], rax` in the i64
// bit-count templates and `mov rax, dword ptr [rax+r10*8]` in table.get are rejected by the assembler — every module
// that uses one of these instructions fails to build).
//
// In every line of assembler text wat2x64 writes, an instruction that takes a memory operand with a size keyword and
// a general-purpose register (mov and the two-operand ALU instructions, cmp, test, xchg) names a register of exactly
// that size. Widening and converting instructions (movzx, movsx, movsxd, cvt*, lea) are exempt: their operands differ
// by design.

var reSizedMem = regexp.MustCompile(`\b(byte|word|dword|qword) ptr \[[^\]]*\]`)

var x64RegBits = func() map[string]int {
	m := map[string]int{}
	for _, r := range []string{"rax", "rbx", "rcx", "rdx", "rsi", "rdi", "rbp", "rsp", "r8", "r9", "r10", "r11", "r12", "r13", "r14", "r15"} {
		m[r] = 64
	}
	for _, r := range []string{"eax", "ebx", "ecx", "edx", "esi", "edi", "ebp", "esp", "r8d", "r9d", "r10d", "r11d", "r12d", "r13d", "r14d", "r15d"} {
		m[r] = 32
	}
	for _, r := range []string{"ax", "bx", "cx", "dx", "si", "di", "r8w", "r9w", "r10w", "r11w", "r12w", "r13w", "r14w", "r15w"} {
		m[r] = 16
	}
	for _, r := range []string{"al", "bl", "cl", "dl", "sil", "dil", "r8b", "r9b", "r10b", "r11b", "r12b", "r13b", "r14b", "r15b"} {
		m[r] = 8
	}
	return m
}()

func c02OperandSize(c *Ctx, p *Prog, pk *packages.Package) {
	const rule = "x64-operand-size-agreement"
	info := pk.TypesInfo
	sized := map[string]int{"byte": 8, "word": 16, "dword": 32, "qword": 64}
	same := map[string]bool{"mov": true, "add": true, "sub": true, "and": true, "or": true, "xor": true, "cmp": true, "test": true, "xchg": true, "adc": true, "sbb": true, "imul": true, "cmovne": true, "cmove": true}
	n := 0
	type rep struct{ loc, msg string }
	byFunc := map[string][]rep{}
	count := map[string]int{}
	for _, name := range sortedDeclNames(pk) {
		fd := AllFuncDecls(pk)[name]
		if fd.Body == nil {
			continue
		}
		ast.Inspect(fd.Body, func(nd ast.Node) bool {
			call, ok := nd.(*ast.CallExpr)
			if !ok {
				return true
			}
			f := fprintfFormat(info, call)
			if f == "" {
				return true
			}
			for _, line := range strings.Split(f, "\n") {
				if i := strings.IndexByte(line, '#'); i >= 0 {
					line = line[:i]
				}
				fields := strings.Fields(line)
				if len(fields) < 2 || !same[fields[0]] {
					continue
				}
				mm := reSizedMem.FindStringSubmatch(line)
				if mm == nil {
					continue
				}
				rest := strings.TrimSpace(strings.TrimPrefix(strings.TrimSpace(line), fields[0]))
				// the other operand: what remains when the memory operand is taken out
				other := strings.Trim(strings.TrimSpace(strings.Replace(rest, reSizedMem.FindString(line), "", 1)), ", ")
				bits, isReg := x64RegBits[other]
				if !isReg {
					continue // an immediate, a %s register chosen at run time, an xmm register
				}
				n++
				count[name]++
				if bits != sized[mm[1]] {
					byFunc[name] = append(byFunc[name], rep{p.Pos(call.Pos()), fmt.Sprintf("`%s` names a %s (%d-bit) memory operand with the %d-bit register %s", strings.TrimSpace(line), mm[1], sized[mm[1]], bits, other)})
				}
			}
			return true
		})
	}
	var names []string
	for k := range count {
		names = append(names, k)
	}
	sort.Strings(names)
	for _, name := range names {
		reps := byFunc[name]
		loc := p.Pos(AllFuncDecls(pk)[name].Pos())
		var msgs []string
		for _, r := range reps {
			msgs = append(msgs, r.loc+": "+r.msg)
		}
		if len(reps) > 0 {
			loc = reps[0].loc
		}
		c.Check(len(reps) == 0, rule, "wat2x64 "+name, loc, fmt.Sprintf("%d lines with a sized memory operand and a general register agree", count[name]),
			strings.Join(msgs, "; ")+": the assembler rejects the line (operand type mismatch), so every module that uses the instruction fails to build natively")
	}
	c.Min(rule, "assembler lines of wat2x64 with a sized memory operand and a general register", n, 300)
}
