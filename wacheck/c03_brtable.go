package main

import (
	"fmt"
	"go/ast"
	"go/constant"
	"go/token"
	"go/types"
	"strings"

	"golang.org/x/tools/go/packages"
)

// Rules on the branch arms of the instruction translators (wat2c for C03, the four native back ends for C02), added
// after differential probing showed br_table with carried results never worked:
//
//   carried-results-located  — a branch that carries results moves them down under `if first > base`. `first` is the
//       model's slot of the first carried result: `stk.Len() - len(results)` taken while the results are still on the
//       model, or the first slot recorded by the loop that popped them (`list[k] = stk.Pop(..)` … `list[0]`).
//       Taken from stk.Len() after the pop loop it lies len(results) too low: the test is false whenever the results
//       sit directly above the target base + n, and no move is emitted.
//   branch-arm-model-balance (native only) — the native back ends leave the results on the model in a branch arm:
//       the block end asserts `stk.Len() >= base + len(results)` for a block left by a branch and resets the model
//       itself. An arm that marks the block so (IgnoreStackCheck = true) and pops values in a loop trips that assert
//       for every br_table that carries a value.
//   switch-arm-statements-labelled (wat2c) — in C, statements between `switch (x) {` and the first label are never
//       executed. Every statement the br_table arm writes inside the switch follows a `case`/`default` label
//       written in the same iteration.
//   br-table-accepts-default-only — `br_table $l` with no case labels is valid; an assert on len(i.XList) in the arm
//       holds for one label.

func branchArms(info *types.Info, fd *ast.FuncDecl) map[string]Arm {
	out := map[string]Arm{}
	for _, sw := range FindSwitches(fd, func(ast.Expr) bool { return true }) {
		for _, arm := range SwitchArms(info, sw) {
			nm := arm.Names()
			for _, want := range []string{"INS_BR", "INS_BR_IF", "INS_BR_TABLE", "INS_RETURN"} {
				if nm == want {
					if _, dup := out[want]; !dup {
						out[want] = arm
					}
				}
			}
		}
	}
	return out
}

// popLoops: loops in the statements whose body calls <x>.Pop(..).
func popLoops(list []ast.Stmt) []ast.Stmt {
	var out []ast.Stmt
	for _, s := range list {
		ast.Inspect(s, func(n ast.Node) bool {
			var body *ast.BlockStmt
			switch x := n.(type) {
			case *ast.ForStmt:
				body = x.Body
			case *ast.RangeStmt:
				body = x.Body
			default:
				return true
			}
			has := false
			ast.Inspect(body, func(m ast.Node) bool {
				if call, ok := m.(*ast.CallExpr); ok {
					if se, ok := call.Fun.(*ast.SelectorExpr); ok && se.Sel.Name == "Pop" {
						has = true
					}
				}
				return true
			})
			if has {
				out = append(out, n.(ast.Stmt))
				return false
			}
			return true
		})
	}
	return out
}

func carriedResultsLocated(c *Ctx, p *Prog, pk *packages.Package, tr string) int {
	const rule = "carried-results-located"
	info := pk.TypesInfo
	fd := findBuildFuncIns(pk)
	if fd == nil {
		c.Undecided(rule, "anchor:"+tr+".buildFunc_ins", "", "instruction dispatcher not found")
		return 0
	}
	ld := newLocalDefs(info, fd)
	n := 0
	arms := branchArms(info, fd)
	for _, an := range []string{"INS_BR", "INS_BR_IF", "INS_BR_TABLE", "INS_RETURN"} {
		arm, ok := arms[an]
		if !ok {
			continue
		}
		loops := popLoops(arm.Body)
		seq := 0
		for _, s := range arm.Body {
			ast.Inspect(s, func(nd ast.Node) bool {
				ifs, ok := nd.(*ast.IfStmt)
				if !ok {
					return true
				}
				be, ok := ast.Unparen(ifs.Cond).(*ast.BinaryExpr)
				if !ok || be.Op != token.GTR {
					return true
				}
				id, ok := ast.Unparen(be.X).(*ast.Ident)
				if !ok {
					return true
				}
				// the body moves values: a loop that writes
				moves := false
				for _, b := range ifs.Body.List {
					if _, ok := b.(*ast.ForStmt); ok {
						moves = true
					}
				}
				if !moves {
					return true
				}
				obj := info.ObjectOf(id)
				def := ld.rhs[obj]
				seq++
				key := fmt.Sprintf("%s %s: first carried slot `%s` #%d", tr, an, id.Name, seq)
				n++
				if def == nil {
					c.Undecided(rule, key, p.Pos(ifs.Pos()), "`"+id.Name+"` has no single definition")
					return true
				}
				txt := strings.ReplaceAll(types.ExprString(def), " ", "")
				switch {
				case strings.Contains(txt, ".Len()-len("):
					var before ast.Stmt
					for _, l := range loops {
						if l.End() <= def.Pos() {
							before = l
						}
					}
					c.Check(before == nil, rule, key, p.Pos(def.Pos()), "taken from the model while the results are still on it",
						func() string {
							if before == nil {
								return ""
							}
							return "`" + id.Name + " := " + txt + "` is computed after the loop at " + p.Pos(before.Pos()) + " has popped the carried results off the model: it lies len(results) below the first result, the test `" + types.ExprString(ifs.Cond) + "` fails for results that sit just above the target base and they are never moved — the target block continues with stale slots"
						}())
				case strings.HasSuffix(txt, "[0]"):
					// the list must be filled by the pop loop: L[k] = stk.Pop(..)
					lst := strings.TrimSuffix(txt, "[0]")
					filled := false
					for _, l := range loops {
						if l.End() > def.Pos() {
							continue
						}
						ast.Inspect(l, func(m ast.Node) bool {
							if as, ok := m.(*ast.AssignStmt); ok && len(as.Lhs) == 1 && len(as.Rhs) == 1 {
								if ix, ok := as.Lhs[0].(*ast.IndexExpr); ok && types.ExprString(ix.X) == lst {
									if call, ok := as.Rhs[0].(*ast.CallExpr); ok {
										if se, ok := call.Fun.(*ast.SelectorExpr); ok && se.Sel.Name == "Pop" {
											filled = true
										}
									}
								}
							}
							return true
						})
					}
					c.Check(filled, rule, key, p.Pos(def.Pos()), "the slot recorded when the first result was popped",
						"`"+id.Name+" := "+txt+"`: "+lst+" is not filled by a loop `"+lst+"[k] = stk.Pop(..)` before this point, so its first element is not the slot of the first carried result")
				default:
					c.Undecided(rule, key, p.Pos(def.Pos()), "`"+id.Name+" := "+txt+"` is neither stk.Len()-len(results) nor the first recorded pop slot")
				}
				return true
			})
		}
	}
	return n
}

// branchArmModelBalance (native back ends).
func branchArmModelBalance(c *Ctx, p *Prog, pk *packages.Package, tr string) int {
	const rule = "branch-arm-model-balance"
	info := pk.TypesInfo
	fd := findBuildFuncIns(pk)
	if fd == nil {
		c.Undecided(rule, "anchor:"+tr+".buildFunc_ins", "", "instruction dispatcher not found")
		return 0
	}
	n := 0
	arms := branchArms(info, fd)
	for _, an := range []string{"INS_BR", "INS_BR_IF", "INS_BR_TABLE", "INS_RETURN"} {
		arm, ok := arms[an]
		if !ok {
			continue
		}
		marks := false
		for _, s := range arm.Body {
			ast.Inspect(s, func(m ast.Node) bool {
				if as, ok := m.(*ast.AssignStmt); ok && len(as.Lhs) == 1 && len(as.Rhs) == 1 {
					if se, ok := as.Lhs[0].(*ast.SelectorExpr); ok && se.Sel.Name == "IgnoreStackCheck" && types.ExprString(as.Rhs[0]) == "true" {
						marks = true
					}
				}
				return true
			})
		}
		if !marks {
			continue
		}
		n++
		loops := popLoops(arm.Body)
		where := ""
		if len(loops) > 0 {
			where = p.Pos(loops[0].Pos())
		}
		c.Check(len(loops) == 0, rule, tr+" "+an+": results stay on the model", p.Pos(arm.Clause.Pos()), "no loop of the arm pops values off the model",
			"the arm marks the block as left by a branch (IgnoreStackCheck = true) — the block end then asserts stk.Len() >= base + len(results) and resets the model itself — but the loop at "+where+" pops the carried results: every "+strings.ToLower(strings.TrimPrefix(an, "INS_"))+" that carries a value out of the block it sits in aborts the translation, and from a nested block the later moves read the wrong slots")
	}
	return n
}

// brTableAcceptsDefaultOnly: asserts on len(i.XList) in the br_table arm hold for a single label.
func brTableAcceptsDefaultOnly(c *Ctx, p *Prog, pk *packages.Package, tr string) int {
	const rule = "br-table-accepts-default-only"
	info := pk.TypesInfo
	fd := findBuildFuncIns(pk)
	if fd == nil {
		c.Undecided(rule, "anchor:"+tr+".buildFunc_ins", "", "instruction dispatcher not found")
		return 0
	}
	arm, ok := branchArms(info, fd)["INS_BR_TABLE"]
	if !ok {
		c.Undecided(rule, "anchor:"+tr+" INS_BR_TABLE arm", p.Pos(fd.Pos()), "arm not found")
		return 0
	}
	n := 1
	var bad []string
	for _, s := range arm.Body {
		es, ok := s.(*ast.ExprStmt)
		if !ok {
			continue
		}
		call, ok := es.X.(*ast.CallExpr)
		if !ok || len(call.Args) != 1 {
			continue
		}
		if id, ok := call.Fun.(*ast.Ident); !ok || id.Name != "assert" {
			continue
		}
		be, ok := ast.Unparen(call.Args[0]).(*ast.BinaryExpr)
		if !ok {
			continue
		}
		if !strings.HasSuffix(strings.ReplaceAll(types.ExprString(be.X), " ", ""), ".XList)") || !strings.HasPrefix(types.ExprString(be.X), "len(") {
			continue
		}
		tv, ok := info.Types[be.Y]
		if !ok || tv.Value == nil {
			continue
		}
		if !constant.Compare(constant.MakeInt64(1), be.Op, tv.Value) {
			bad = append(bad, types.ExprString(call)+" at "+p.Pos(call.Pos()))
		}
	}
	c.Check(len(bad) == 0, rule, tr+" INS_BR_TABLE: one label is enough", p.Pos(arm.Clause.Pos()), "no assert of the arm rejects a table that holds only the default label",
		strings.Join(bad, "; ")+" fails for `br_table $l` (a valid instruction whose label list holds only the default): the translator aborts on a valid module")
	return n
}

// switchArmStatementsLabelled (wat2c): one iteration of the loop over the br_table labels is read once per
// combination of the facts it branches on (last label or not; results carried and to be moved or not); the writes to
// the C stream are recorded in order. A statement (text ending in `;`) written before a label of that iteration is
// a statement the C switch never executes.
func switchArmStatementsLabelled(c *Ctx, p *Prog, pk *packages.Package) int {
	const rule = "switch-arm-statements-labelled"
	info := pk.TypesInfo
	fd := findBuildFuncIns(pk)
	if fd == nil {
		c.Undecided(rule, "anchor:wat2c.buildFunc_ins", "", "instruction dispatcher not found")
		return 0
	}
	arm, ok := branchArms(info, fd)["INS_BR_TABLE"]
	if !ok {
		c.Undecided(rule, "anchor:wat2c INS_BR_TABLE arm", p.Pos(fd.Pos()), "arm not found")
		return 0
	}
	// the switch opening and the loop over the labels that follows it
	var opened bool
	var loop *ast.ForStmt
	var between []ast.Stmt
	var find func(list []ast.Stmt)
	find = func(list []ast.Stmt) {
		for _, s := range list {
			if loop != nil {
				return
			}
			if es, ok := s.(*ast.ExprStmt); ok {
				if call, ok := es.X.(*ast.CallExpr); ok && strings.Contains(fprintfFormat(info, call), "switch(") {
					opened = true
					continue
				}
			}
			if !opened {
				continue
			}
			switch x := s.(type) {
			case *ast.BlockStmt:
				find(x.List)
			case *ast.ForStmt:
				if strings.Contains(types.ExprString(x.Cond), ".XList)") {
					loop = x
				} else {
					between = append(between, s)
				}
			default:
				between = append(between, s)
			}
		}
	}
	find(arm.Body)
	if loop == nil {
		c.Undecided(rule, "anchor:wat2c INS_BR_TABLE label loop", p.Pos(arm.Clause.Pos()), "no `switch(` write followed by a loop over i.XList")
		return 0
	}
	n := 0
	// nothing executable is written between `switch(..) {` and the loop
	var stray []string
	for _, s := range between {
		ast.Inspect(s, func(m ast.Node) bool {
			if call, ok := m.(*ast.CallExpr); ok {
				if f := fprintfFormat(info, call); strings.Contains(f, ";") {
					stray = append(stray, fmt.Sprintf("%q at %s", f, p.Pos(call.Pos())))
				}
			}
			return true
		})
	}
	n++
	c.Check(len(stray) == 0, rule, "wat2c INS_BR_TABLE: nothing between switch and the first label", p.Pos(loop.Pos()), "no statement is written before the label loop",
		"written after `switch(..) {` and before any case label: "+strings.Join(stray, ", ")+" — C never executes statements that precede the first label of a switch")

	type world struct {
		name        string
		last, moves bool
	}
	for _, w := range []world{{"case label, results moved", false, true}, {"default label, results moved", true, true}, {"case label, nothing to move", false, false}, {"default label, nothing to move", true, false}} {
		ev := newEmitEval(pk)
		ev.LoopBody = true
		ev.Hook = func(e ast.Expr) (evVal, bool) {
			e = ast.Unparen(e)
			if call, ok := e.(*ast.CallExpr); ok {
				if fn := CalleeOf(info, call); fn != nil && fn.Pkg() != nil && fn.Pkg().Path() == "fmt" && fn.Name() == "Sprintf" && len(call.Args) > 0 {
					if tv, ok := info.Types[call.Args[0]]; ok && tv.Value != nil && tv.Value.Kind() == constant.String {
						return evVal{K: evStr, S: constant.StringVal(tv.Value)}, true
					}
				}
				// lookups of the translator (label names, scopes) are values the iteration does not branch on
				if id, ok := call.Fun.(*ast.Ident); !ok || (id.Name != "len" && id.Name != "append") {
					return evVal{K: evOpaque, S: types.ExprString(call)}, true
				}
			}
			be, ok := e.(*ast.BinaryExpr)
			if !ok {
				return evVal{}, false
			}
			txt := strings.ReplaceAll(types.ExprString(be), " ", "")
			switch {
			case be.Op == token.EQL && strings.HasSuffix(txt, "==len(i.XList)-1"):
				return evVal{K: evBool, B: w.last}, true
			case be.Op == token.GTR && strings.HasPrefix(txt, "len(") && strings.HasSuffix(txt, ")>0"):
				return evVal{K: evBool, B: true}, true
			case be.Op == token.GTR:
				return evVal{K: evBool, B: w.moves}, true
			}
			return evVal{}, false
		}
		var events []string
		var firstStmt string
		labelled := false
		record := func(text string, pos token.Pos) {
			events = append(events, text)
			if strings.Contains(text, "case ") || strings.Contains(text, "default:") {
				labelled = true
				// the rest of the same write follows the label
				return
			}
			if strings.Contains(text, ";") && !labelled && firstStmt == "" {
				firstStmt = fmt.Sprintf("%q at %s", text, p.Pos(pos))
			}
		}
		ev.Effect = func(call *ast.CallExpr, env evEnv) {
			f := fprintfFormat(info, call)
			if f == "" {
				return
			}
			text := f
			// string arguments that are known join the text (a label held in a variable)
			for _, a := range call.Args[2:] {
				if v := ev.eval(a, env); v.K == evStr {
					text += " " + v.S
				}
			}
			record(text, call.Pos())
		}
		ev.InnerLoop = func(s ast.Stmt, env evEnv) bool {
			ast.Inspect(s, func(m ast.Node) bool {
				if call, ok := m.(*ast.CallExpr); ok {
					if f := fprintfFormat(info, call); f != "" {
						record(f, call.Pos())
						return false
					}
				}
				return true
			})
			return true
		}
		ev.run(loop.Body.List, evEnv{})
		n++
		key := "wat2c INS_BR_TABLE: " + w.name
		if ev.Und != "" {
			c.Undecided(rule, key, p.Pos(loop.Pos()), ev.Und)
			continue
		}
		hasGoto := false
		for _, e := range events {
			if strings.Contains(e, "goto ") {
				hasGoto = true
			}
		}
		c.Check(firstStmt == "" && labelled && hasGoto, rule, key, p.Pos(loop.Pos()), "label first, then the moves, then the goto",
			func() string {
				switch {
				case firstStmt != "":
					return "the iteration writes the statement " + firstStmt + " before its case label (writes in order: " + strings.Join(quoteAll(events), " ") + "): inside a C switch the statement belongs to the previous arm, which has already left by goto, or precedes the first label — it is never executed and the carried results are not moved"
				case !labelled:
					return "the iteration writes no case/default label (writes: " + strings.Join(quoteAll(events), " ") + ")"
				default:
					return "the iteration writes no goto (writes: " + strings.Join(quoteAll(events), " ") + "): the arm falls through into the next label's moves"
				}
			}())
	}
	return n
}

func quoteAll(l []string) []string {
	out := make([]string, len(l))
	for i, s := range l {
		out[i] = fmt.Sprintf("%q", s)
	}
	return out
}

// fprintfFormat: the constant format of a fmt.Fprintf/Fprint/Fprintln call ("" when it is not one).
func fprintfFormat(info *types.Info, call *ast.CallExpr) string {
	fn := CalleeOf(info, call)
	if fn == nil || fn.Pkg() == nil || fn.Pkg().Path() != "fmt" || fn.Name() != "Fprintf" || len(call.Args) < 2 {
		return ""
	}
	if tv, ok := info.Types[call.Args[1]]; ok && tv.Value != nil && tv.Value.Kind() == constant.String {
		return constant.StringVal(tv.Value)
	}
	return ""
}
