package main

import (
	"fmt"
	"go/ast"
	"go/token"
	"go/types"
	"strings"
)

// C27 first-match-is-unique: some loops over a map return the first element that satisfies a test. That is
// deterministic only while at most one element can satisfy it — which is an argument about the *test*, so the test is
// re-read on every run: on every path from the loop head to a `return <element>` the listed pairs of expressions must
// have been established equal (an `==` that was taken, or a `!=` whose body leaves the iteration). A weaker test lets
// several elements qualify and the one returned depends on the map's iteration order — two builds of one program can
// then resolve a name differently.

// c27UniqueMatch: construct -> pairs that must be compared for equality before the element is returned.
var c27UniqueMatch = map[string][][2]string{
	"(*internal/types.Checker).lookupMethodFunc: range check.objMap #1": {{"fn.RecvTypeName()", "recvTypeName"}, {"fn.name", "methodName"}},
}

type eqFacts map[string]bool

func (e eqFacts) Copy() flowFacts {
	n := eqFacts{}
	for k := range e {
		n[k] = true
	}
	return n
}
func (e eqFacts) Reset() {
	for k := range e {
		delete(e, k)
	}
}

func eqKey(a, b string) string {
	if b < a {
		a, b = b, a
	}
	return a + " == " + b
}

func c27CheckUniqueMatch(c *Ctx, p *Prog, info *types.Info, rs *ast.RangeStmt, key, loc string) {
	const rule = "first-match-is-unique"
	reqs, ok := c27UniqueMatch[key]
	if !ok {
		return
	}
	// locals bound to an expression (`recv := fn.RecvTypeName()`) are read through
	defs := map[types.Object]string{}
	ast.Inspect(rs.Body, func(n ast.Node) bool {
		if as, ok := n.(*ast.AssignStmt); ok && as.Tok == token.DEFINE && len(as.Lhs) == len(as.Rhs) {
			for i, l := range as.Lhs {
				if o := identObj(info, l); o != nil {
					defs[o] = strings.ReplaceAll(types.ExprString(as.Rhs[i]), " ", "")
				}
			}
		}
		return true
	})
	text := func(e ast.Expr) string {
		if id, ok := ast.Unparen(e).(*ast.Ident); ok {
			if d, ok := defs[info.Uses[id]]; ok {
				return d
			}
		}
		return strings.ReplaceAll(types.ExprString(e), " ", "")
	}
	hooks := &flowHooks{}
	hooks.Facts = func(cond ast.Expr, want bool, ff flowFacts) {
		f := ff.(eqFacts)
		switch x := ast.Unparen(cond).(type) {
		case *ast.UnaryExpr:
			if x.Op == token.NOT {
				hooks.Facts(x.X, !want, ff)
			}
		case *ast.BinaryExpr:
			switch {
			case x.Op == token.LAND && want, x.Op == token.LOR && !want:
				hooks.Facts(x.X, want, ff)
				hooks.Facts(x.Y, want, ff)
			case x.Op == token.EQL && want, x.Op == token.NEQ && !want:
				f[eqKey(text(x.X), text(x.Y))] = true
			}
		}
	}
	var probs []string
	nRet := 0
	hooks.Stmt = func(s ast.Stmt, rest []ast.Stmt, ff flowFacts) {
		ret, ok := s.(*ast.ReturnStmt)
		if !ok || len(ret.Results) == 0 || isNilExpr(info, ret.Results[0]) {
			return
		}
		nRet++
		f := ff.(eqFacts)
		for _, r := range reqs {
			if !f[eqKey(r[0], r[1])] {
				probs = append(probs, fmt.Sprintf("%s returns the element without having established %s == %s", p.Pos(ret.Pos()), r[0], r[1]))
			}
		}
	}
	hooks.stmts(rs.Body.List, eqFacts{})
	c.Check(len(probs) == 0 && nRet > 0, rule, key, loc, "the returned element is pinned by every identifying comparison",
		fmt.Sprintf("%s: %s: several elements of the map can pass the test, so which one is returned depends on the map's iteration order — the same source can be compiled differently from one build to the next", key, strings.Join(probs, "; ")))
}
