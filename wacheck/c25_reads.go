package main

import (
	"fmt"
	"go/ast"
	"go/token"
	"go/types"
	"strings"

	"golang.org/x/tools/go/packages"
)

// C25 read-result-tested, decided on meaning rather than on spelling: every call of the transport's Read is followed —
// before the byte is looked at — by a test that leaves the function whenever nothing was read (n == 0) or the read
// failed (err != nil). The test may be written after the call (`if n == 0 || err != nil { return }`, `if n != 1 || …`)
// or the call may sit in a helper of the package that answers a flag (`ok, err = s.readByte(buf)`; `if !ok { return }`):
// then the helper's flag must be false whenever n == 0 or err != nil, and every call of the helper must be followed by
// a test that leaves when the flag is false. "Whenever" is decided by enumerating the truth assignments of the atomic
// comparisons under the laws of equality (boolfn.go).

func boolNever(info *types.Info, e ast.Expr) (never bool, witness string, undecided string) {
	fd := &ast.FuncDecl{Name: ast.NewIdent("_"), Type: &ast.FuncType{}, Body: &ast.BlockStmt{List: []ast.Stmt{&ast.ReturnStmt{Results: []ast.Expr{e}}}}}
	outs, atoms, und := boolFnTable(info, fd)
	if und != "" {
		return false, "", und
	}
	for _, o := range outs {
		if o.Val {
			return false, envText(o.Env, atoms), ""
		}
	}
	return true, "", ""
}

func c25ReadsChecked(c *Ctx, p *Prog, pk *packages.Package, fd *ast.FuncDecl, bufVar string) {
	const rule = "read-result-tested"
	info := pk.TypesInfo
	lit0 := &ast.BasicLit{Kind: token.INT, Value: "0"}
	nilID := ast.NewIdent("nil")
	// failed(n, err) = n == 0 || err != nil
	failed := func(n, err ast.Expr) ast.Expr {
		return &ast.BinaryExpr{X: &ast.BinaryExpr{X: n, Op: token.EQL, Y: lit0}, Op: token.LOR, Y: &ast.BinaryExpr{X: err, Op: token.NEQ, Y: nilID}}
	}
	not := func(e ast.Expr) ast.Expr { return &ast.UnaryExpr{Op: token.NOT, X: &ast.ParenExpr{X: e}} }
	and := func(a, b ast.Expr) ast.Expr {
		return &ast.BinaryExpr{X: &ast.ParenExpr{X: a}, Op: token.LAND, Y: &ast.ParenExpr{X: b}}
	}
	returns := func(b *ast.BlockStmt) bool {
		for _, s := range b.List {
			if _, ok := s.(*ast.ReturnStmt); ok {
				return true
			}
		}
		return false
	}
	isRead := func(call *ast.CallExpr) bool {
		return strings.HasSuffix(types.ExprString(call.Fun), ".r.Read") && len(call.Args) == 1
	}
	// statement lists of a function
	listsOf := func(body *ast.BlockStmt) [][]ast.Stmt {
		var lists [][]ast.Stmt
		ast.Inspect(body, func(n ast.Node) bool {
			switch x := n.(type) {
			case *ast.BlockStmt:
				lists = append(lists, x.List)
			case *ast.CaseClause:
				lists = append(lists, x.Body)
			}
			return true
		})
		return lists
	}
	// helpers that wrap the read: func(..) (flag bool, err error) { n, err := r.Read(buf); return FLAG, err }
	type wrap struct {
		fd   *ast.FuncDecl
		good bool
		why  string
	}
	wraps := map[*types.Func]*wrap{}
	for fo, hd := range c25Decls {
		if hd == fd || len(hd.Body.List) != 2 {
			continue
		}
		as, ok1 := hd.Body.List[0].(*ast.AssignStmt)
		ret, ok2 := hd.Body.List[1].(*ast.ReturnStmt)
		if !ok1 || !ok2 || len(as.Rhs) != 1 || len(as.Lhs) != 2 || len(ret.Results) < 1 {
			continue
		}
		call, ok := as.Rhs[0].(*ast.CallExpr)
		if !ok || !isRead(call) {
			continue
		}
		w := &wrap{fd: hd}
		wraps[fo] = w
		if t := info.TypeOf(ret.Results[0]); t == nil || !types.Identical(t.Underlying(), types.Typ[types.Bool]) {
			w.why = declName(hd) + " wraps the read but does not answer a flag"
			continue
		}
		never, wit, und := boolNever(info, and(failed(as.Lhs[0], as.Lhs[1]), ret.Results[0]))
		switch {
		case und != "":
			w.why = declName(hd) + ": flag expression not decided: " + und
		case !never:
			w.why = fmt.Sprintf("%s answers true although the read failed or returned nothing (%s)", declName(hd), wit)
		default:
			w.good = true
		}
	}
	nReads, nTested := 0, 0
	var probs []string
	for _, l := range listsOf(fd.Body) {
		for i, s := range l {
			as, ok := s.(*ast.AssignStmt)
			if !ok || len(as.Rhs) != 1 {
				continue
			}
			call, ok := as.Rhs[0].(*ast.CallExpr)
			if !ok {
				continue
			}
			var mustLeaveWhen ast.Expr
			switch {
			case isRead(call):
				if types.ExprString(call.Args[0]) != bufVar || len(as.Lhs) != 2 {
					nReads++
					probs = append(probs, p.Pos(call.Pos())+": Read into something other than the 1-byte buffer, or results not both taken")
					continue
				}
				mustLeaveWhen = failed(as.Lhs[0], as.Lhs[1])
			default:
				w := wraps[CalleeOf(info, call)]
				if w == nil {
					continue
				}
				if !w.good {
					nReads++
					probs = append(probs, p.Pos(call.Pos())+": "+w.why)
					continue
				}
				if len(as.Lhs) < 1 {
					continue
				}
				mustLeaveWhen = not(as.Lhs[0])
			}
			nReads++
			if i+1 >= len(l) {
				probs = append(probs, p.Pos(call.Pos())+": nothing follows the read")
				continue
			}
			ifs, ok := l[i+1].(*ast.IfStmt)
			if !ok || ifs.Init != nil || !returns(ifs.Body) {
				probs = append(probs, p.Pos(call.Pos())+": the read is not followed by a test that returns")
				continue
			}
			never, wit, und := boolNever(info, and(mustLeaveWhen, not(ifs.Cond)))
			switch {
			case und != "":
				probs = append(probs, p.Pos(ifs.Pos())+": test not decided: "+und)
			case !never:
				probs = append(probs, fmt.Sprintf("%s: the test lets a failed or empty read through (%s)", p.Pos(ifs.Pos()), wit))
			default:
				nTested++
			}
		}
	}
	c.Check(nReads >= 2 && nTested == nReads && len(probs) == 0, rule, "ReadPacket: every Read is checked", p.Pos(fd.Pos()), fmt.Sprintf("%d reads, each followed by a test that returns whenever n == 0 or err != nil", nReads),
		fmt.Sprintf("%d of %d Read calls are followed by a test of n and err that returns (%s): a short or failed read is treated as data", nTested, nReads, strings.Join(probs, "; ")))
}
