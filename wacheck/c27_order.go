package main

import (
	"fmt"
	"go/ast"
	"go/types"
	"strings"

	"golang.org/x/tools/go/packages"
)

// C27 rule object-order-total: the type checker keeps the package's objects in a map and type-checks them in the
// order of their `order()` number (packageObjects sorts the map's keys by it). The number is given when an object is
// entered into the map. Every entry into check.objMap is followed, unconditionally, by setOrder on the same object:
// objects left at order 0 tie in the sort and are visited in map-iteration order, which differs from run to run and
// reaches the output (import order, init order, helper numbering).

func c27ObjectOrder(c *Ctx, p *Prog, tp *packages.Package) {
	const rule = "object-order-total"
	if tp == nil {
		c.Undecided(rule, "anchor:internal/types", "", "package not loaded")
		return
	}
	info := tp.TypesInfo
	n := 0
	for _, f := range tp.Syntax {
		for _, d := range f.Decls {
			fd, ok := d.(*ast.FuncDecl)
			if !ok || fd.Body == nil {
				continue
			}
			var lists [][]ast.Stmt
			ast.Inspect(fd.Body, func(nd ast.Node) bool {
				switch x := nd.(type) {
				case *ast.BlockStmt:
					lists = append(lists, x.List)
				case *ast.CaseClause:
					lists = append(lists, x.Body)
				}
				return true
			})
			k := 0
			for _, l := range lists {
				for i, s := range l {
					as, ok := s.(*ast.AssignStmt)
					if !ok || len(as.Lhs) != 1 {
						continue
					}
					ix, ok := as.Lhs[0].(*ast.IndexExpr)
					if !ok || !strings.HasSuffix(types.ExprString(ix.X), ".objMap") {
						continue
					}
					obj := identObj(info, ix.Index)
					n++
					k++
					ordered := false
					for _, t := range l[i+1:] {
						es, ok := t.(*ast.ExprStmt)
						if !ok {
							continue
						}
						call, ok := es.X.(*ast.CallExpr)
						if !ok {
							continue
						}
						if se, ok := call.Fun.(*ast.SelectorExpr); ok && se.Sel.Name == "setOrder" && identObj(info, se.X) == obj && obj != nil {
							ordered = true
						}
					}
					c.Check(ordered, rule, fmt.Sprintf("%s: objMap entry #%d", declName(fd), k), p.Pos(as.Pos()), "followed by an unconditional setOrder on the same object",
						declName(fd)+" enters an object into check.objMap without unconditionally giving it its order number: objects without a number tie when packageObjects sorts them and are type-checked in map-iteration order, so two compilations of the same program can differ")
				}
			}
		}
	}
	c.Min(rule, "entries into check.objMap", n, 2)
}
