package main

import (
	"fmt"
	"go/ast"
	"go/types"
	"regexp"
	"sort"
	"strings"

	"golang.org/x/tools/go/packages"
)

// C03 rules on linear-memory templates (added after differential probing):
//
//   c-memory-address-unsigned — a WebAssembly address is an unsigned 32-bit number. A template that indexes
//       `<prefix>_memory[..]` through the signed `.i32` view of the address slot turns every address from 2^31 up into a
//       negative index (a memory of 32768 pages or more is read below its base). The index reads the slot through
//       `.u32` (or a cast to uint32_t); the same holds for the length operands of memory.copy / fill / init.
//   c-memory-copy-overlap — memory.copy is defined for overlapping ranges: its template calls memmove.
//   slot-number-not-value (shared with C02) — stk.Pop / stk.Push answer the *number* of a slot of the operand-stack
//       model, known when the translator runs; the operand's value exists only when the generated program runs. A slot
//       number that indexes or slices anything but a list of slot numbers (module data, a string) is a translator
//       using a register number as if it were the register's content.

var reMemIndex = regexp.MustCompile(`_memory\[([^\]]*)\]`)

func c03MemoryTemplates(c *Ctx, p *Prog, by map[string]TemplArm) {
	var toks []string
	for k := range by {
		toks = append(toks, k)
	}
	sort.Strings(toks)
	nAddr := 0
	for _, k := range toks {
		a := by[k]
		loc := p.Pos(a.Arm.Clause.Pos())
		var bad []string
		seen := false
		for _, v := range a.Variants {
			for _, l := range v.Lines {
				code := l.Format
				if i := strings.Index(code, "//"); i >= 0 {
					code = code[:i]
				}
				for _, m := range reMemIndex.FindAllStringSubmatch(code, -1) {
					idx := m[1]
					if !strings.Contains(idx, "R%d") {
						continue // a constant offset
					}
					seen = true
					if strings.Contains(idx, "R%d.i32") && !strings.Contains(idx, "(uint32_t)R%d.i32") && !strings.Contains(idx, "(uint32_t)(R%d.i32)") {
						bad = append(bad, "`"+strings.TrimSpace(m[0])+"`")
					}
				}
			}
		}
		if !seen {
			continue
		}
		nAddr++
		c.Check(len(bad) == 0, "c-memory-address-unsigned", a.Mnemonic, loc, "memory is indexed through the unsigned view of the address",
			"the template indexes "+strings.Join(bad, ", ")+": the address slot is read as a signed int32_t, so an address of 2^31 or more becomes a negative index and the access lands below the memory's base (WebAssembly addresses are unsigned)")
	}
	c.Min("c-memory-address-unsigned", "templates that index linear memory with a slot", nAddr, 25)

	// bulk operations: lengths unsigned, copy through memmove
	nBulk := 0
	for _, k := range []string{"INS_MEMORY_COPY", "INS_MEMORY_FILL", "INS_MEMORY_INIT"} {
		a, ok := by[k]
		if !ok || len(a.Variants) == 0 {
			continue
		}
		loc := p.Pos(a.Arm.Clause.Pos())
		for _, v := range a.Variants {
			for _, l := range v.Lines {
				code := l.Format
				if i := strings.Index(code, "//"); i >= 0 {
					code = code[:i]
				}
				m := regexp.MustCompile(`(memcpy|memmove|memset)\((.*)\);`).FindStringSubmatch(code)
				if m == nil {
					continue
				}
				nBulk++
				args := splitTopLevel(m[2])
				last := ""
				if len(args) > 0 {
					last = strings.TrimSpace(args[len(args)-1])
				}
				c.Check(!strings.Contains(last, ".i32") || strings.Contains(last, "(uint32_t)"), "c-memory-address-unsigned", a.Mnemonic+": length", loc, "the length is read unsigned",
					"the length argument `"+last+"` is the signed view of the slot: a length of 2^31 or more is converted to size_t as a negative number")
				if k == "INS_MEMORY_COPY" {
					c.Check(m[1] == "memmove", "c-memory-copy-overlap", a.Mnemonic, loc, "memmove",
						"memory.copy is translated to "+m[1]+": the source and destination ranges of memory.copy may overlap (the result is as if the bytes were copied through a buffer), memcpy is undefined for overlapping ranges and optimising compilers copy forwards")
				}
			}
		}
	}
	c.Min("c-memory-copy-overlap", "bulk memory templates of wat2c", nBulk, 3)
}

// splitTopLevel splits at commas that are not inside parentheses, brackets or string literals.
func splitTopLevel(s string) []string {
	var out []string
	depth, start := 0, 0
	inStr := false
	for i := 0; i < len(s); i++ {
		switch ch := s[i]; {
		case inStr:
			if ch == '\\' {
				i++
			} else if ch == '"' {
				inStr = false
			}
		case ch == '"':
			inStr = true
		case ch == '(' || ch == '[':
			depth++
		case ch == ')' || ch == ']':
			depth--
		case ch == ',' && depth == 0:
			out = append(out, s[start:i])
			start = i + 1
		}
	}
	return append(out, s[start:])
}

// slotNumberNotValue: see the header. One obligation per function that holds slot numbers.
func slotNumberNotValue(c *Ctx, p *Prog, pk *packages.Package, prefix string) int {
	const rule = "slot-number-not-value"
	info := pk.TypesInfo
	n := 0
	isStackCall := func(e ast.Expr) bool {
		found := false
		ast.Inspect(e, func(m ast.Node) bool {
			if call, ok := m.(*ast.CallExpr); ok {
				if se, ok := call.Fun.(*ast.SelectorExpr); ok && (se.Sel.Name == "Pop" || se.Sel.Name == "Push") && len(call.Args) == 1 {
					if t := info.TypeOf(se.X); t != nil && strings.Contains(t.String(), "valueTypeStack") {
						found = true
					}
				}
			}
			return true
		})
		return found
	}
	for _, name := range sortedDeclNames(pk) {
		fd := AllFuncDecls(pk)[name]
		if fd.Body == nil {
			continue
		}
		slots := map[types.Object]bool{}
		ast.Inspect(fd.Body, func(m ast.Node) bool {
			as, ok := m.(*ast.AssignStmt)
			if !ok || len(as.Lhs) != len(as.Rhs) {
				return true
			}
			for i, l := range as.Lhs {
				if id, ok := l.(*ast.Ident); ok && isStackCall(as.Rhs[i]) {
					if o := info.ObjectOf(id); o != nil {
						slots[o] = true
					}
				}
			}
			return true
		})
		if len(slots) == 0 {
			continue
		}
		mentions := func(e ast.Expr) string {
			if e == nil {
				return ""
			}
			out := ""
			ast.Inspect(e, func(m ast.Node) bool {
				if id, ok := m.(*ast.Ident); ok && slots[info.ObjectOf(id)] && out == "" {
					out = id.Name
				}
				return true
			})
			return out
		}
		intList := func(e ast.Expr) bool {
			t := info.TypeOf(e)
			if t == nil {
				return false
			}
			switch u := t.Underlying().(type) {
			case *types.Slice:
				b, ok := u.Elem().Underlying().(*types.Basic)
				return ok && b.Kind() == types.Int
			case *types.Array:
				b, ok := u.Elem().Underlying().(*types.Basic)
				return ok && b.Kind() == types.Int
			}
			return false
		}
		var bad []string
		ast.Inspect(fd.Body, func(m ast.Node) bool {
			switch x := m.(type) {
			case *ast.IndexExpr:
				if v := mentions(x.Index); v != "" && !intList(x.X) {
					bad = append(bad, fmt.Sprintf("%s: `%s` indexes %s with the slot number %s", p.Pos(x.Pos()), types.ExprString(x), types.ExprString(x.X), v))
				}
			case *ast.SliceExpr:
				for _, b := range []ast.Expr{x.Low, x.High, x.Max} {
					if v := mentions(b); v != "" && !intList(x.X) {
						bad = append(bad, fmt.Sprintf("%s: `%s` slices %s with the slot number %s", p.Pos(x.Pos()), types.ExprString(x), types.ExprString(x.X), v))
						break
					}
				}
			}
			return true
		})
		n++
		loc := p.Pos(fd.Pos())
		c.Check(len(bad) == 0, rule, prefix+name, loc, fmt.Sprintf("%d slot numbers, none used as a value", len(slots)),
			strings.Join(bad, "; ")+" — stk.Pop/Push answer the number of a slot of the operand-stack model; the operand's value exists only in the generated program (R<n>), so the translator cuts or indexes translation-time data with a register number")
	}
	return n
}

// nativeMemoryCopyOverlap (C02): the memory.copy arm of a native translator calls the runtime's memmove.
func nativeMemoryCopyOverlap(c *Ctx, p *Prog, pk *packages.Package, tr string) int {
	const rule = "memory-copy-overlap"
	info := pk.TypesInfo
	fd := findBuildFuncIns(pk)
	if fd == nil {
		c.Undecided(rule, "anchor:"+tr+".buildFunc_ins", "", "instruction dispatcher not found")
		return 0
	}
	for _, sw := range FindSwitches(fd, func(ast.Expr) bool { return true }) {
		for _, arm := range SwitchArms(info, sw) {
			if arm.Names() != "INS_MEMORY_COPY" {
				continue
			}
			var callees []string
			for _, s := range arm.Body {
				ast.Inspect(s, func(m ast.Node) bool {
					call, ok := m.(*ast.CallExpr)
					if !ok {
						return true
					}
					if f := fprintfFormat(info, call); f != "" {
						for _, a := range call.Args[2:] {
							if t := types.ExprString(a); strings.HasPrefix(t, "kRuntime") {
								callees = append(callees, t)
							}
						}
					}
					return true
				})
			}
			good := len(callees) > 0
			for _, cl := range callees {
				if !strings.Contains(strings.ToLower(cl), "memmove") {
					good = false
				}
			}
			c.Check(good, rule, tr+" memory.copy", p.Pos(arm.Clause.Pos()), "calls the runtime's memmove",
				"the memory.copy arm calls "+strings.Join(callees, ", ")+": the ranges of memory.copy may overlap, and only memmove copies them as if through a buffer")
			return 1
		}
	}
	c.Undecided(rule, "anchor:"+tr+" INS_MEMORY_COPY arm", p.Pos(fd.Pos()), "arm not found")
	return 0
}

// C03 rule c-export-forms-normalised (added after probing: `(export "f" (func $impl))` as a module field was ignored,
// the generated C had no `app_f` and did not link). wat2c decides what to export from Func.ExportName, which the
// parser fills only for the inline form `(func $impl (export "f") ..)`. The two forms mean the same; the package
// copies the module-level list into the field: a loop over <module>.Exports that assigns ExportName from the entry's
// Name for entries of kind FUNC.
func c03ExportForms(c *Ctx, p *Prog, pk *packages.Package) {
	const rule = "c-export-forms-normalised"
	info := pk.TypesInfo
	readers := 0
	var where *ast.RangeStmt
	good := false
	for _, name := range sortedDeclNames(pk) {
		fd := AllFuncDecls(pk)[name]
		if fd.Body == nil {
			continue
		}
		ast.Inspect(fd.Body, func(m ast.Node) bool {
			if se, ok := m.(*ast.SelectorExpr); ok && se.Sel.Name == "ExportName" {
				if t := info.TypeOf(se.X); t != nil && strings.HasSuffix(strings.TrimPrefix(t.String(), "*"), "ast.Func") {
					readers++
				}
			}
			rs, ok := m.(*ast.RangeStmt)
			if !ok || !strings.HasSuffix(types.ExprString(rs.X), ".Exports") {
				return true
			}
			ev, _ := rs.Value.(*ast.Ident)
			if ev == nil {
				return true
			}
			assigns, kind := false, false
			ast.Inspect(rs.Body, func(q ast.Node) bool {
				switch x := q.(type) {
				case *ast.AssignStmt:
					if len(x.Lhs) == 1 && len(x.Rhs) == 1 {
						if l, ok := x.Lhs[0].(*ast.SelectorExpr); ok && l.Sel.Name == "ExportName" && types.ExprString(x.Rhs[0]) == ev.Name+".Name" {
							assigns = true
						}
					}
				case *ast.BinaryExpr:
					if t := types.ExprString(x); strings.Contains(t, ev.Name+".Kind") && strings.Contains(t, "FUNC") {
						kind = true
					}
				}
				return true
			})
			if assigns {
				where = rs
				good = kind
			}
			return true
		})
	}
	if readers == 0 {
		return // the package does not decide exports from the inline field
	}
	loc := p.Pos(pk.Syntax[0].Pos())
	if where != nil {
		loc = p.Pos(where.Pos())
	}
	c.Check(where != nil && good, rule, "wat2c: module-level exports reach Func.ExportName", loc, fmt.Sprintf("%d reads of Func.ExportName, one loop copies the function entries of the export list into it", readers),
		"the package reads Func.ExportName (filled by the parser for the inline form only) but no loop over the module's Exports assigns it from the entries of kind FUNC: a function exported by a module-level `(export \"name\" (func $f))` gets no C symbol, and calling the export does not link")
}
