package main

import (
	"fmt"
	"go/ast"
	"go/token"
	"go/types"
	"strings"

	"golang.org/x/tools/go/packages"
)

// C08 token-loop-progress (added after a hang was found by a sub-agent's probing and repaired): the parsers are loops
// over the current token. A `for { … switch p.tok { case A: …; case B: … } }` whose switch has no default arm does
// nothing for a token it does not list — the token is not consumed, no error is set, the loop's exits (`p.err != nil`,
// `p.tok == EOF`) stay false, and the parser spins forever on input that is one token long. Every unconditional loop
// over the current token therefore handles every token: its switch has a default arm, and the default arm consumes a
// token, reports an error, or leaves the loop.

func c08TokenLoops(c *Ctx, p *Prog, pkgs []*packages.Package) {
	const rule = "token-loop-progress"
	n := 0
	for _, pk := range pkgs {
		if pk == nil {
			continue
		}
		info := pk.TypesInfo
		rel := strings.TrimPrefix(pk.PkgPath, modPath+"/")
		for _, f := range pk.Syntax {
			for _, d := range f.Decls {
				fd, ok := d.(*ast.FuncDecl)
				if !ok || fd.Body == nil {
					continue
				}
				k := 0
				ast.Inspect(fd.Body, func(nd ast.Node) bool {
					loop, ok := nd.(*ast.ForStmt)
					if !ok || loop.Cond != nil || loop.Init != nil || loop.Post != nil {
						return true
					}
					// the loop is over the current token: a top-level switch on <recv>.tok in its body
					for _, s := range loop.Body.List {
						sw, ok := s.(*ast.SwitchStmt)
						if !ok || sw.Tag == nil {
							continue
						}
						se, ok := ast.Unparen(sw.Tag).(*ast.SelectorExpr)
						if !ok || se.Sel.Name != "tok" {
							continue
						}
						n++
						k++
						construct := fmt.Sprintf("%s.%s: token loop #%d", rel, declName(fd), k)
						var def *ast.CaseClause
						for _, cc := range sw.Body.List {
							if cl := cc.(*ast.CaseClause); cl.List == nil {
								def = cl
							}
						}
						if def == nil {
							c.Fail(rule, construct, p.Pos(sw.Pos()), fmt.Sprintf("%s loops over the current token with a switch that has no default arm: for a token that is not listed nothing is consumed and no error is set, so neither exit of the loop can become true — the parser never returns on such input (it hangs on the first token after the ones it knows)", declName(fd)))
							continue
						}
						// the default arm makes progress or leaves: a call (consume / report), a return, or a break / goto
						progress := false
						for _, ds := range def.Body {
							ast.Inspect(ds, func(m ast.Node) bool {
								switch x := m.(type) {
								case *ast.CallExpr:
									if fn := CalleeOf(info, x); fn != nil {
										if sig, ok := fn.Type().(*types.Signature); ok && sig.Recv() != nil {
											progress = true // a parser method: consumes or reports
										}
									}
									if id, ok := x.Fun.(*ast.Ident); ok && id.Name == "panic" {
										progress = true
									}
								case *ast.ReturnStmt:
									progress = true
								case *ast.BranchStmt:
									if x.Tok == token.GOTO || (x.Tok == token.BREAK && x.Label != nil) {
										progress = true
									}
								}
								return true
							})
						}
						c.Check(progress, rule, construct, p.Pos(def.Pos()), "the default arm consumes, reports or leaves",
							fmt.Sprintf("%s: the default arm of the token switch neither consumes a token, nor reports an error, nor leaves the loop: the parser spins on a token it does not know", declName(fd)))
					}
					return true
				})
			}
		}
	}
	c.Min(rule, "unconditional loops over the current token", n, 4)
}
