package main

// Frozen table of benign writes to package-level state reachable from the api package (C28).
// Keyed "variable written by function"; one reason per row, confirmed by reading.

var c28Benign = map[string]string{
	"internal/3rdparty/toml.fieldCache written by internal/3rdparty/toml.cachedTypeFields": "the cache struct embeds its own sync.RWMutex: the map is read under RLock and written under Lock (vendored BurntSushi/toml)",
}

var c28BenignGlobals = map[string]string{}
