package main

import (
	"fmt"
	"go/ast"
	"go/token"
	"go/types"
	"strings"

	"golang.org/x/tools/go/packages"
)

// C16 extra rules (added after seeded changes were missed):
//
//   result-pop-order — a wrapper that discards the results of a call pops them from the operand stack; the last result
//       is on top, so the loop must visit the result types last-to-first. Popping first-to-last type-checks only when
//       all results have one wasm type; otherwise the module fails validation.
//   assign-compat-symmetric — EmitAssginValue refuses operands of different types except the rune/i32 pair; the
//       exception must hold in both directions (evaluated over all pairs of {i32, rune, other}).

func c16ResultPopOrder(c *Ctx, p *Prog, bk *packages.Package) {
	const rule = "result-pop-order"
	info := bk.TypesInfo
	n := 0
	for _, f := range bk.Syntax {
		for _, d := range f.Decls {
			fd, ok := d.(*ast.FuncDecl)
			if !ok || fd.Body == nil {
				continue
			}
			// locals defined as `<x>.Results`
			resultLists := map[types.Object]bool{}
			ast.Inspect(fd.Body, func(nd ast.Node) bool {
				if as, ok := nd.(*ast.AssignStmt); ok && as.Tok == token.DEFINE && len(as.Lhs) == 1 && len(as.Rhs) == 1 {
					if se, ok := as.Rhs[0].(*ast.SelectorExpr); ok && se.Sel.Name == "Results" {
						if id, ok := as.Lhs[0].(*ast.Ident); ok {
							resultLists[info.ObjectOf(id)] = true
						}
					}
				}
				return true
			})
			if len(resultLists) == 0 {
				continue
			}
			ast.Inspect(fd.Body, func(nd ast.Node) bool {
				rs, ok := nd.(*ast.RangeStmt)
				if !ok {
					return true
				}
				xid, ok := rs.X.(*ast.Ident)
				if !ok || !resultLists[info.ObjectOf(xid)] {
					return true
				}
				// does the body pop?
				pops := false
				ast.Inspect(rs.Body, func(m ast.Node) bool {
					if se, ok := m.(*ast.SelectorExpr); ok && se.Sel.Name == "EmitPop" {
						pops = true
					}
					return true
				})
				if !pops {
					return true
				}
				n++
				dir := "unknown"
				if v, ok := rs.Value.(*ast.Ident); ok && v.Name != "_" {
					dir = "forward" // uses the element in iteration order
				} else if k, ok := rs.Key.(*ast.Ident); ok {
					kobj := info.ObjectOf(k)
					locals := map[types.Object]ast.Expr{}
					for _, s := range rs.Body.List {
						if as, ok := s.(*ast.AssignStmt); ok && as.Tok == token.DEFINE && len(as.Lhs) == 1 && len(as.Rhs) == 1 {
							if id, ok := as.Lhs[0].(*ast.Ident); ok {
								locals[info.ObjectOf(id)] = as.Rhs[0]
							}
						}
					}
					isLen := func(e ast.Expr) bool {
						call, ok := ast.Unparen(e).(*ast.CallExpr)
						if !ok || types.ExprString(call.Fun) != "len" || len(call.Args) != 1 {
							return false
						}
						id, ok := call.Args[0].(*ast.Ident)
						return ok && info.ObjectOf(id) == info.ObjectOf(xid)
					}
					ast.Inspect(rs.Body, func(m ast.Node) bool {
						ix, ok := m.(*ast.IndexExpr)
						if !ok {
							return true
						}
						if id, ok := ix.X.(*ast.Ident); !ok || info.ObjectOf(id) != info.ObjectOf(xid) {
							return true
						}
						idx := ix.Index
						if id, ok := idx.(*ast.Ident); ok {
							if def, ok := locals[info.ObjectOf(id)]; ok {
								idx = def
							}
						}
						f := linOf(info, idx, isLen, kobj)
						switch {
						case f.eq(lin{i: 1, ok: true}):
							dir = "forward"
						case f.eq(lin{n: 1, i: -1, c: -1, ok: true}):
							dir = "reverse"
						}
						return true
					})
				}
				c.Check(dir == "reverse", rule, fmt.Sprintf("%s: discard loop #%d over %s", declName(fd), n, xid.Name), p.Pos(rs.Pos()), "results popped last-to-first",
					declName(fd)+" pops the discarded results of a call in "+dir+" order; the last result is on top of the operand stack, so they must be popped last-to-first: with results of different wasm types (e.g. (i64, bool)) the emitted module fails validation")
				return true
			})
		}
	}
	c.Min(rule, "loops that pop discarded call results", n, 4)
}

func c16AssignCompat(c *Ctx, p *Prog, wp *packages.Package) {
	const rule = "assign-compat-symmetric"
	info := wp.TypesInfo
	fd := p.MustFunc(rule, wp, "Module.EmitAssginValue")
	if fd == nil {
		return
	}
	// locals: single definitions
	locals := map[types.Object]ast.Expr{}
	ast.Inspect(fd.Body, func(nd ast.Node) bool {
		if as, ok := nd.(*ast.AssignStmt); ok && as.Tok == token.DEFINE && len(as.Lhs) == len(as.Rhs) {
			for i, l := range as.Lhs {
				if id, ok := l.(*ast.Ident); ok {
					locals[info.ObjectOf(id)] = as.Rhs[i]
				}
			}
		}
		return true
	})
	// the refusing if: body calls logger.Fatal and the condition talks about both operands' types
	var cond ast.Expr
	ast.Inspect(fd.Body, func(nd ast.Node) bool {
		ifs, ok := nd.(*ast.IfStmt)
		if !ok || cond != nil {
			return true
		}
		fatal := false
		for _, s := range ifs.Body.List {
			if es, ok := s.(*ast.ExprStmt); ok {
				if call, ok := es.X.(*ast.CallExpr); ok && strings.HasPrefix(types.ExprString(call.Fun), "logger.Fatal") {
					fatal = true
				}
			}
		}
		src := types.ExprString(ifs.Cond)
		if fatal && (strings.Contains(src, "RUNE") || strings.Contains(src, "isRune") || strings.Contains(src, "Equal")) && len(ifs.Body.List) <= 2 {
			cond = ifs.Cond
		}
		return true
	})
	if cond == nil {
		c.Undecided(rule, "Module.EmitAssginValue: type-compatibility test", p.Pos(fd.Pos()), "the refusing condition was not found")
		return
	}
	// abstract value of a type expression: "L" (lh's type), "R" (rh's type), "I32", "RUNE", or ""
	var tyOf func(e ast.Expr) string
	tyOf = func(e ast.Expr) string {
		e = ast.Unparen(e)
		if id, ok := e.(*ast.Ident); ok {
			if def, ok := locals[info.ObjectOf(id)]; ok {
				return tyOf(def)
			}
		}
		s := strings.ReplaceAll(types.ExprString(e), " ", "")
		switch {
		case s == "lh.Type()":
			return "L"
		case s == "rh.Type()":
			return "R"
		case strings.HasSuffix(s, ".I32"):
			return "I32"
		case strings.HasSuffix(s, ".RUNE"):
			return "RUNE"
		}
		return ""
	}
	ok := true
	var eval func(e ast.Expr, l, r string) bool
	eval = func(e ast.Expr, l, r string) bool {
		e = ast.Unparen(e)
		switch x := e.(type) {
		case *ast.Ident:
			if def, has := locals[info.ObjectOf(x)]; has {
				return eval(def, l, r)
			}
		case *ast.UnaryExpr:
			if x.Op == token.NOT {
				return !eval(x.X, l, r)
			}
		case *ast.BinaryExpr:
			switch x.Op {
			case token.LAND:
				return eval(x.X, l, r) && eval(x.Y, l, r)
			case token.LOR:
				return eval(x.X, l, r) || eval(x.Y, l, r)
			}
		case *ast.CallExpr:
			if se, isSel := x.Fun.(*ast.SelectorExpr); isSel && se.Sel.Name == "Equal" && len(x.Args) == 1 {
				a, b := tyOf(se.X), tyOf(x.Args[0])
				val := func(t string) string {
					switch t {
					case "L":
						return l
					case "R":
						return r
					}
					return t
				}
				if a != "" && b != "" {
					return val(a) == val(b)
				}
			}
		}
		ok = false
		return false
	}
	dom := []string{"I32", "RUNE", "OTHER"}
	var asym []string
	for _, l := range dom {
		for _, r := range dom {
			a, b := eval(cond, l, r), eval(cond, r, l)
			if a != b {
				asym = append(asym, fmt.Sprintf("(%s, %s) refused=%v but (%s, %s) refused=%v", l, r, a, r, l, b))
			}
			if l == r && a {
				asym = append(asym, fmt.Sprintf("(%s, %s) refused", l, r))
			}
		}
	}
	if !ok {
		c.Undecided(rule, "Module.EmitAssginValue: type-compatibility test", p.Pos(cond.Pos()), "the condition uses a form the finite evaluator does not model: "+types.ExprString(cond))
		return
	}
	c.Check(len(asym) == 0, rule, "Module.EmitAssginValue: type-compatibility test", p.Pos(cond.Pos()), "symmetric over {i32, rune, other}²",
		"the compatibility test of EmitAssginValue is not symmetric: "+strings.Join(asym, "; ")+": a well-typed assignment between rune and i32 in the refused direction stops the compiler with a fatal error")
}
