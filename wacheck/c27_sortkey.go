package main

import (
	"go/ast"
	"go/token"
	"go/types"
	"strings"

	"golang.org/x/tools/go/packages"
	"golang.org/x/tools/go/ssa"
)

// C27 extra rule (added after a seeded change was missed): a map iteration whose elements are "collected and sorted"
// hides the map order only if the sort key is unique per element — with ties, sort.Slice/sort.Sort leave tied elements
// in their input (= map iteration) order. Sorting the collected map keys themselves (sort.Strings, sort.Ints) is
// always unique. For comparator sorts the compared key (callee / field chain applied to the element) is extracted and
// must be one of the keys confirmed unique by reading (frozen table, one reason per row).

var c27SortKeys = map[string]string{
	"internal/types.NewMethodSet :: .obj.Id()":                           "methodSet is keyed by Func.Id() (methodSet.add), one Selection per id: Id() is unique within the list",
	"(*internal/types.Checker).packageObjects :: inSourceOrder:.order()": "order() is the per-object declaration counter assigned by the resolver: unique",
	"(*internal/types.Checker).usage :: .pos":                            "declaration position: distinct variables of one scope are declared at distinct source positions",
}

func pkgOfFunc(p *Prog, fn *ssa.Function) *packages.Package {
	if fn == nil || fn.Pkg == nil {
		return nil
	}
	for _, pk := range p.All {
		if pk.PkgPath == fn.Pkg.Pkg.Path() {
			return pk
		}
	}
	return nil
}

// keyChain renders the callee/field chain applied to an indexed element: list[i].obj.Id() -> ".obj.Id()".
func keyChain(e ast.Expr) (string, bool) {
	switch x := ast.Unparen(e).(type) {
	case *ast.IndexExpr:
		return "", true
	case *ast.SelectorExpr:
		s, ok := keyChain(x.X)
		return s + "." + x.Sel.Name, ok
	case *ast.CallExpr:
		if len(x.Args) == 1 {
			// a function applied to the element (strings.ToLower(names[i])): a key of its own, unique only if the
			// function is injective on the elements — which has to be confirmed in the table like any other key
			if s, ok := keyChain(x.Args[0]); ok {
				return types.ExprString(x.Fun) + "(" + s + ")", true
			}
			return "", false
		}
		s, ok := keyChain(x.Fun)
		if len(x.Args) != 0 {
			return "", false
		}
		return s + "()", ok
	case *ast.StarExpr:
		return keyChain(x.X)
	}
	return "", false
}

// lessKey extracts K from `return K(x[i]) < K(x[j])`.
func lessKey(body *ast.BlockStmt) (string, bool) {
	if body == nil || len(body.List) != 1 {
		return "", false
	}
	r, ok := body.List[0].(*ast.ReturnStmt)
	if !ok || len(r.Results) != 1 {
		return "", false
	}
	be, ok := ast.Unparen(r.Results[0]).(*ast.BinaryExpr)
	if !ok || (be.Op != token.LSS && be.Op != token.GTR) {
		return "", false
	}
	a, ok1 := keyChain(be.X)
	b, ok2 := keyChain(be.Y)
	if !ok1 || !ok2 || a != b {
		return "", false
	}
	return a, true
}

// c27SortKeyOf returns ("plain", true) for sorts of the collected keys themselves, (key, true) for comparator sorts
// whose key was recognised, ("", false) otherwise.
func c27SortKeyOf(p *Prog, fn *ssa.Function, rs *ast.RangeStmt) (string, bool) {
	pk := pkgOfFunc(p, fn)
	fd, _ := fn.Syntax().(*ast.FuncDecl)
	if pk == nil || fd == nil || fd.Body == nil {
		return "", false
	}
	info := pk.TypesInfo
	var result string
	ok := false
	ast.Inspect(fd.Body, func(n ast.Node) bool {
		call, isCall := n.(*ast.CallExpr)
		if !isCall || call.Pos() < rs.End() || ok {
			return true
		}
		f := CalleeOf(info, call)
		if f == nil || f.Pkg() == nil || f.Pkg().Path() != "sort" {
			return true
		}
		switch f.Name() {
		case "Strings", "Ints", "Float64s":
			result, ok = "plain", true
		case "Slice", "SliceStable":
			if len(call.Args) == 2 {
				if fl, isLit := call.Args[1].(*ast.FuncLit); isLit {
					if k, good := lessKey(fl.Body); good {
						if k == "" {
							result, ok = "plain", true // compares the elements themselves
						} else {
							result, ok = k, true
						}
					}
				}
			}
		case "Sort", "Stable":
			// sort.Sort(T(x)): the Less method of T
			if len(call.Args) == 1 {
				if conv, isConv := ast.Unparen(call.Args[0]).(*ast.CallExpr); isConv {
					if tn, isNamed := info.TypeOf(conv.Fun).(*types.Named); isNamed {
						if less := FuncDecl(pk, tn.Obj().Name()+".Less"); less != nil {
							if k, good := lessKey(less.Body); good {
								result, ok = tn.Obj().Name()+":"+k, true
							}
						}
					}
				}
			}
		}
		return true
	})
	return result, ok
}

// c27CheckSortKey is called for every map-range site classified "sorted".
func c27CheckSortKey(c *Ctx, p *Prog, fn *ssa.Function, rs *ast.RangeStmt, siteKey, loc string) {
	key, ok := c27SortKeyOf(p, fn, rs)
	fname := short(fn.String())
	switch {
	case !ok:
		c.Undecided("sort-key-unique", siteKey, loc, "the sort applied to the collected elements was not recognised (neither a plain sort of the keys nor a comparator of the form K(x[i]) < K(x[j]))")
	case key == "plain":
		c.OK("sort-key-unique", siteKey, loc, "the collected map keys themselves are sorted: unique")
	default:
		why, confirmed := c27SortKeys[fname+" :: "+key]
		c.Check(confirmed, "sort-key-unique", siteKey, loc, "sort key "+key+": "+why,
			"the elements collected from the map are sorted by "+strings.TrimPrefix(key, ":")+", which is not one of the keys confirmed unique for this site: elements with equal keys keep their map-iteration order, so the order in which they reach the output differs between runs")
	}
}
