package main

import (
	"fmt"
	"go/ast"
	"go/token"
	"go/types"
	"strings"

	"golang.org/x/tools/go/packages"
)

// C04 extra rules: label resolution discipline and pointer aliasing of per-iteration values.

// lin is a linear form a*N + b*I + c over N = len(label stack) and I = the loop variable.
type lin struct {
	n, i, c int
	ok      bool
}

func (x lin) add(y lin, sign int) lin {
	return lin{x.n + sign*y.n, x.i + sign*y.i, x.c + sign*y.c, x.ok && y.ok}
}
func (x lin) eq(y lin) bool { return x.ok && y.ok && x.n == y.n && x.i == y.i && x.c == y.c }
func (x lin) String() string {
	if !x.ok {
		return "?"
	}
	return fmt.Sprintf("%d*len + %d*i + %d", x.n, x.i, x.c)
}

// linOf evaluates e as a linear form; isLen recognises len(<stack>), loopVar is the induction variable object.
func linOf(info *types.Info, e ast.Expr, isLen func(ast.Expr) bool, loopVar types.Object) lin {
	e = ast.Unparen(e)
	if isLen(e) {
		return lin{n: 1, ok: true}
	}
	if tv, ok := info.Types[e]; ok && tv.Value != nil {
		if v, ok := constInt64(tv); ok {
			return lin{c: int(v), ok: true}
		}
	}
	switch x := e.(type) {
	case *ast.Ident:
		if loopVar != nil && info.ObjectOf(x) == loopVar {
			return lin{i: 1, ok: true}
		}
	case *ast.BinaryExpr:
		switch x.Op {
		case token.ADD:
			return linOf(info, x.X, isLen, loopVar).add(linOf(info, x.Y, isLen, loopVar), 1)
		case token.SUB:
			return linOf(info, x.X, isLen, loopVar).add(linOf(info, x.Y, isLen, loopVar), -1)
		}
	case *ast.CallExpr:
		// conversion
		if len(x.Args) == 1 {
			if tv, ok := info.Types[x.Fun]; ok && tv.IsType() {
				return linOf(info, x.Args[0], isLen, loopVar)
			}
		}
	}
	return lin{}
}

func constInt64(tv types.TypeAndValue) (int64, bool) {
	if tv.Value == nil {
		return 0, false
	}
	s := tv.Value.ExactString()
	var v int64
	_, err := fmt.Sscanf(s, "%d", &v)
	return v, err == nil
}

func c04LabelScope(c *Ctx, p *Prog, wu *packages.Package) {
	const rule = "label-resolution"
	info := wu.TypesInfo
	// the label stack: the field that enterLabelScope appends to
	enter := p.MustFunc(rule, wu, "wat2wasmWorker.enterLabelScope")
	leave := p.MustFunc(rule, wu, "wat2wasmWorker.leaveLabelScope")
	find := p.MustFunc(rule, wu, "wat2wasmWorker.findLabelIndex")
	if enter == nil || leave == nil || find == nil {
		return
	}
	var stack types.Object
	ast.Inspect(enter.Body, func(n ast.Node) bool {
		as, ok := n.(*ast.AssignStmt)
		if !ok || len(as.Lhs) != 1 || len(as.Rhs) != 1 {
			return true
		}
		if call, ok := as.Rhs[0].(*ast.CallExpr); ok && types.ExprString(call.Fun) == "append" && len(call.Args) == 2 {
			if se, ok := as.Lhs[0].(*ast.SelectorExpr); ok {
				stack = info.ObjectOf(se.Sel)
			}
		}
		return true
	})
	if stack == nil {
		c.Undecided(rule, "enterLabelScope: push", p.Pos(enter.Pos()), "the label stack field (p.<stack> = append(p.<stack>, label)) was not recognised")
		return
	}
	isStack := func(e ast.Expr) bool {
		se, ok := ast.Unparen(e).(*ast.SelectorExpr)
		return ok && info.ObjectOf(se.Sel) == stack
	}
	isLen := func(e ast.Expr) bool {
		call, ok := ast.Unparen(e).(*ast.CallExpr)
		return ok && types.ExprString(call.Fun) == "len" && len(call.Args) == 1 && isStack(call.Args[0])
	}
	// leave pops exactly one: p.stack = p.stack[:len(p.stack)-1]
	popOK := false
	ast.Inspect(leave.Body, func(n ast.Node) bool {
		as, ok := n.(*ast.AssignStmt)
		if !ok || len(as.Lhs) != 1 || len(as.Rhs) != 1 || !isStack(as.Lhs[0]) {
			return true
		}
		if sl, ok := as.Rhs[0].(*ast.SliceExpr); ok && isStack(sl.X) && sl.Low == nil && sl.High != nil {
			if linOf(info, sl.High, isLen, nil).eq(lin{n: 1, c: -1, ok: true}) {
				popOK = true
			}
		}
		return true
	})
	c.Check(popOK, rule, "leaveLabelScope pops one label", p.Pos(leave.Pos()), "stack = stack[:len-1]", "leaveLabelScope does not remove exactly the innermost label: labels of enclosing blocks resolve to wrong depths after a nested block ends")

	// findLabelIndex: the search loop
	decided := false
	ast.Inspect(find.Body, func(n ast.Node) bool {
		var body *ast.BlockStmt
		var loopVar types.Object
		var first lin // index examined in the first iteration
		var step int  // change of the loop variable per iteration
		var rangeVal types.Object
		switch l := n.(type) {
		case *ast.RangeStmt:
			if !isStack(l.X) {
				return true
			}
			body = l.Body
			if id, ok := l.Key.(*ast.Ident); ok && id.Name != "_" {
				loopVar = info.ObjectOf(id)
			}
			if id, ok := l.Value.(*ast.Ident); ok && id.Name != "_" {
				rangeVal = info.ObjectOf(id)
			}
			first, step = lin{ok: true}, 1 // i starts at 0
		case *ast.ForStmt:
			init, ok := l.Init.(*ast.AssignStmt)
			if !ok || len(init.Lhs) != 1 || len(init.Rhs) != 1 {
				return true
			}
			id, ok := init.Lhs[0].(*ast.Ident)
			if !ok {
				return true
			}
			mentions := false
			ast.Inspect(l.Body, func(m ast.Node) bool {
				if e, ok := m.(ast.Expr); ok && isStack(e) {
					mentions = true
				}
				return true
			})
			if !mentions {
				return true
			}
			loopVar = info.ObjectOf(id)
			first = linOf(info, init.Rhs[0], isLen, nil)
			if inc, ok := l.Post.(*ast.IncDecStmt); ok {
				if inc.Tok == token.INC {
					step = 1
				} else {
					step = -1
				}
			}
			body = l.Body
		default:
			return true
		}
		if body == nil || decided {
			return true
		}
		// if <elem> == label { return R }
		var elemIdx, ret lin
		foundCmp, early := false, false
		ast.Inspect(body, func(m ast.Node) bool {
			ifs, ok := m.(*ast.IfStmt)
			if !ok {
				return true
			}
			var conds []ast.Expr
			// `if s := p.stack[E]; s == label`
			local := map[types.Object]ast.Expr{}
			if as, ok := ifs.Init.(*ast.AssignStmt); ok && len(as.Lhs) == 1 && len(as.Rhs) == 1 {
				if id, ok := as.Lhs[0].(*ast.Ident); ok {
					local[info.ObjectOf(id)] = as.Rhs[0]
				}
			}
			if be, ok := ast.Unparen(ifs.Cond).(*ast.BinaryExpr); ok && be.Op == token.EQL {
				conds = []ast.Expr{be.X, be.Y}
			}
			for _, side := range conds {
				side = ast.Unparen(side)
				if id, ok := side.(*ast.Ident); ok {
					if def, ok := local[info.ObjectOf(id)]; ok {
						side = ast.Unparen(def)
					} else if rangeVal != nil && info.ObjectOf(id) == rangeVal {
						elemIdx = lin{i: 1, ok: true}
						foundCmp = true
						continue
					}
				}
				if ix, ok := side.(*ast.IndexExpr); ok && isStack(ix.X) {
					elemIdx = linOf(info, ix.Index, isLen, loopVar)
					foundCmp = true
				}
			}
			if foundCmp {
				for _, s := range ifs.Body.List {
					if r, ok := s.(*ast.ReturnStmt); ok && len(r.Results) == 1 {
						ret = linOf(info, r.Results[0], isLen, loopVar)
						early = true
					}
				}
			}
			return true
		})
		if !foundCmp || !early || step == 0 || !elemIdx.ok || !ret.ok || !first.ok {
			return true
		}
		decided = true
		// index examined first: elemIdx with I := first
		firstIdx := lin{n: elemIdx.n + elemIdx.i*first.n, c: elemIdx.c + elemIdx.i*first.c, ok: true}
		var probs []string
		if !firstIdx.eq(lin{n: 1, c: -1, ok: true}) {
			probs = append(probs, fmt.Sprintf("the search returns on the first match but starts at stack index %s instead of the top (len-1): with a label bound twice on the block stack, the outer binding wins; the text format resolves a label to the innermost enclosing block", firstIdx))
		}
		if elemIdx.i*step >= 0 {
			probs = append(probs, "the search does not move from the innermost label outwards")
		}
		// returned depth = (len-1) - index
		want := lin{n: 1 - elemIdx.n, i: -elemIdx.i, c: -1 - elemIdx.c, ok: true}
		if !ret.eq(want) {
			probs = append(probs, fmt.Sprintf("the returned depth is %s for stack index %s; the relative depth of stack index k is len-1-k (%s)", ret, elemIdx, want))
		}
		c.Check(len(probs) == 0, rule, "findLabelIndex: innermost match, depth = len-1-index", p.Pos(n.Pos()), "first examined index len-1, moving outwards, depth len-1-index", strings.Join(probs, "; "))
		return true
	})
	if !decided {
		c.Undecided(rule, "findLabelIndex: innermost match, depth = len-1-index", p.Pos(find.Pos()), "the label search loop fits none of the recognised shapes (for i := ...; if stack[E] == label { return R } / for i, s := range stack)")
	}

	// pairing and use in buildInstruction
	bi := p.MustFunc(rule, wu, "wat2wasmWorker.buildInstruction")
	if bi == nil {
		return
	}
	sws := FindSwitches(bi, func(ast.Expr) bool { return true })
	if len(sws) == 0 {
		c.Undecided(rule, "buildInstruction switch", p.Pos(bi.Pos()), "switch not found")
		return
	}
	nScope, nUse := 0, 0
	for _, arm := range SwitchArms(info, sws[0]) {
		for _, k := range arm.Consts {
			switch k.Name {
			case "INS_BLOCK", "INS_LOOP", "INS_IF":
				nScope++
				var enterPos, leavePos, recursePos token.Pos
				deferred := false
				enterArgLabel := false
				for _, s := range arm.Body {
					ast.Inspect(s, func(n ast.Node) bool {
						if d, ok := n.(*ast.DeferStmt); ok {
							if f := CalleeOf(info, d.Call); f != nil && f.Name() == "leaveLabelScope" {
								deferred = true
								leavePos = d.Pos()
							}
							return false
						}
						call, ok := n.(*ast.CallExpr)
						if !ok {
							return true
						}
						f := CalleeOf(info, call)
						if f == nil {
							return true
						}
						switch f.Name() {
						case "enterLabelScope":
							if enterPos == token.NoPos {
								enterPos = call.Pos()
							}
							if len(call.Args) == 1 {
								if se, ok := call.Args[0].(*ast.SelectorExpr); ok && se.Sel.Name == "Label" {
									enterArgLabel = true
								}
							}
						case "leaveLabelScope":
							leavePos = call.Pos()
						case "buildInstruction":
							if recursePos == token.NoPos {
								recursePos = call.Pos()
							}
						}
						return true
					})
				}
				var probs []string
				if enterPos == token.NoPos || !enterArgLabel {
					probs = append(probs, "does not push the instruction's own Label")
				}
				if leavePos == token.NoPos {
					probs = append(probs, "never pops the label")
				}
				if recursePos != token.NoPos && enterPos != token.NoPos && enterPos > recursePos {
					probs = append(probs, "pushes the label after translating the nested body")
				}
				if !deferred && leavePos != token.NoPos && recursePos != token.NoPos && leavePos < recursePos {
					probs = append(probs, "pops the label before translating the nested body")
				}
				c.Check(len(probs) == 0, rule, "scope pairing: "+k.Name, p.Pos(arm.Clause.Pos()), "label pushed before and popped after the nested body", "the arm for "+k.Name+" "+strings.Join(probs, "; ")+": branch depths inside or after this block are wrong")
			case "INS_BR", "INS_BR_IF", "INS_BR_TABLE":
				nUse++
				uses := false
				for _, call := range callsIn(info, arm.Body) {
					if f := CalleeOf(info, call); f != nil && f.Name() == "findLabelIndex" {
						uses = true
					}
				}
				c.Check(uses, rule, "label operand resolved: "+k.Name, p.Pos(arm.Clause.Pos()), "via findLabelIndex", "the arm for "+k.Name+" does not resolve its label operand through findLabelIndex")
			}
		}
	}
	c.Min(rule, "block-like arms", nScope, 3)
	c.Min(rule, "branch arms", nUse, 3)
}

// c04PointerAliasing: `&v` stored once per loop iteration must name a variable that is fresh in each iteration.
// The module's go.mod language version decides whether range/for variables are per-iteration (>= 1.22) or per-loop.
func c04PointerAliasing(c *Ctx, p *Prog, pks ...*packages.Package) {
	const rule = "pointer-aliasing"
	examined := 0
	for _, pk := range pks {
		if pk == nil {
			continue
		}
		perIter := false
		if pk.Module != nil && pk.Module.GoVersion != "" {
			var maj, min int
			fmt.Sscanf(pk.Module.GoVersion, "%d.%d", &maj, &min)
			perIter = maj > 1 || (maj == 1 && min >= 22)
		}
		info := pk.TypesInfo
		for _, f := range pk.Syntax {
			for _, d := range f.Decls {
				fd, ok := d.(*ast.FuncDecl)
				if !ok || fd.Body == nil {
					continue
				}
				// walk with a stack of enclosing loops
				var loops []ast.Stmt
				var walk func(n ast.Node)
				check := func(u *ast.UnaryExpr, how string) {
					id, ok := ast.Unparen(u.X).(*ast.Ident)
					if !ok || len(loops) == 0 {
						return
					}
					v, ok := info.ObjectOf(id).(*types.Var)
					if !ok || v.IsField() || v.Parent() == nil || v.Parent() == pk.Types.Scope() {
						return
					}
					examined++
					L := loops[len(loops)-1]
					var body *ast.BlockStmt
					loopVarOfL := false
					switch l := L.(type) {
					case *ast.ForStmt:
						body = l.Body
						if as, ok := l.Init.(*ast.AssignStmt); ok {
							for _, lh := range as.Lhs {
								if lid, ok := lh.(*ast.Ident); ok && info.ObjectOf(lid) == v {
									loopVarOfL = true
								}
							}
						}
					case *ast.RangeStmt:
						body = l.Body
						for _, e := range []ast.Expr{l.Key, l.Value} {
							if lid, ok := e.(*ast.Ident); ok && info.ObjectOf(lid) == v {
								loopVarOfL = true
							}
						}
					}
					fresh := v.Pos() >= body.Lbrace && v.Pos() <= body.Rbrace
					if loopVarOfL && perIter {
						fresh = true
					}
					if fresh {
						c.OK(rule, fmt.Sprintf("%s.%s: &%s %s", short(pk.PkgPath), declName(fd), id.Name, how), p.Pos(u.Pos()), "variable is declared inside the loop body: fresh per iteration")
						return
					}
					// assigned inside the loop?
					assigned := loopVarOfL
					ast.Inspect(body, func(m ast.Node) bool {
						if as, ok := m.(*ast.AssignStmt); ok {
							for _, lh := range as.Lhs {
								if lid, ok := lh.(*ast.Ident); ok && info.ObjectOf(lid) == v {
									assigned = true
								}
							}
						}
						if inc, ok := m.(*ast.IncDecStmt); ok {
							if lid, ok := inc.X.(*ast.Ident); ok && info.ObjectOf(lid) == v {
								assigned = true
							}
						}
						return true
					})
					c.Check(!assigned, rule, fmt.Sprintf("%s.%s: &%s %s", short(pk.PkgPath), declName(fd), id.Name, how), p.Pos(u.Pos()), "variable is not reassigned in the loop",
						fmt.Sprintf("&%s is %s once per iteration, but %s is declared outside the loop body and reassigned in it: every stored pointer aliases the same variable and ends up holding the last iteration's value (all entries of the emitted table become equal)", id.Name, how, id.Name))
				}
				walk = func(n ast.Node) {
					ast.Inspect(n, func(m ast.Node) bool {
						switch x := m.(type) {
						case *ast.ForStmt:
							loops = append(loops, x)
							if x.Init != nil {
								walk(x.Init)
							}
							walk(x.Body)
							loops = loops[:len(loops)-1]
							return false
						case *ast.RangeStmt:
							loops = append(loops, x)
							walk(x.Body)
							loops = loops[:len(loops)-1]
							return false
						case *ast.FuncLit:
							saved := loops
							loops = nil
							walk(x.Body)
							loops = saved
							return false
						case *ast.CallExpr:
							if id, ok := x.Fun.(*ast.Ident); ok && id.Name == "append" {
								for _, a := range x.Args[1:] {
									if u, ok := ast.Unparen(a).(*ast.UnaryExpr); ok && u.Op == token.AND {
										check(u, "appended")
									}
								}
							}
						case *ast.CompositeLit:
							for _, el := range x.Elts {
								v := el
								if kv, ok := el.(*ast.KeyValueExpr); ok {
									v = kv.Value
								}
								if u, ok := ast.Unparen(v).(*ast.UnaryExpr); ok && u.Op == token.AND {
									if _, isLit := ast.Unparen(u.X).(*ast.CompositeLit); !isLit {
										check(u, "stored in a composite literal")
									}
								}
							}
						case *ast.AssignStmt:
							for i, r := range x.Rhs {
								if u, ok := ast.Unparen(r).(*ast.UnaryExpr); ok && u.Op == token.AND && i < len(x.Lhs) {
									switch ast.Unparen(x.Lhs[i]).(type) {
									case *ast.IndexExpr, *ast.SelectorExpr:
										check(u, "stored")
									}
								}
							}
						}
						return true
					})
				}
				walk(fd.Body)
			}
		}
	}
	c.Min(rule, "address-of sites inside loops", examined, 1)
}
