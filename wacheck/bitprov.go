package main

import (
	"fmt"
	"go/ast"
	"go/constant"
	"go/token"
	"go/types"
	"sort"
	"strings"

	"golang.org/x/tools/go/packages"
)

// E4: bit-provenance abstract interpretation (known bits + provenance) over Go expressions.
// Every value is a vector of abstract bits; an abstract bit is 0, 1, the OR of a set of input bits, or ⊤.
// No path enumeration and no solver: transfer functions for shifts (logical/arithmetic by static type), masks, or,
// conversions (truncate / zero- / sign-extend), carry-free addition, subtraction of a power of two from a value with
// known-zero upper bits, inlining of package-local helpers, and one level of trace partitioning on a single-bit test.

type bitSrc struct {
	Name string
	Idx  int
}

func (s bitSrc) String() string { return fmt.Sprintf("%s[%d]", s.Name, s.Idx) }

type absBit struct {
	Top  bool
	One  bool
	Srcs []bitSrc // OR of these input bits (empty and !One and !Top = 0)
}

func (b absBit) isZero() bool { return !b.Top && !b.One && len(b.Srcs) == 0 }
func (b absBit) String() string {
	switch {
	case b.Top:
		return "⊤"
	case b.One:
		return "1"
	case len(b.Srcs) == 0:
		return "0"
	}
	var s []string
	for _, x := range b.Srcs {
		s = append(s, x.String())
	}
	return strings.Join(s, "|")
}
func bitEq(a, b absBit) bool {
	if a.Top != b.Top || a.One != b.One || len(a.Srcs) != len(b.Srcs) {
		return false
	}
	for i := range a.Srcs {
		if a.Srcs[i] != b.Srcs[i] {
			return false
		}
	}
	return true
}
func bitOr(a, b absBit) absBit {
	if a.One || b.One {
		return absBit{One: true}
	}
	if a.Top || b.Top {
		return absBit{Top: true}
	}
	m := map[bitSrc]bool{}
	for _, s := range a.Srcs {
		m[s] = true
	}
	for _, s := range b.Srcs {
		m[s] = true
	}
	var out []bitSrc
	for s := range m {
		out = append(out, s)
	}
	sort.Slice(out, func(i, j int) bool {
		if out[i].Name != out[j].Name {
			return out[i].Name < out[j].Name
		}
		return out[i].Idx < out[j].Idx
	})
	return absBit{Srcs: out}
}

type bvec struct {
	W      int
	Signed bool
	B      [64]absBit
}

func (v bvec) constVal() (uint64, bool) {
	var x uint64
	for i := 0; i < v.W; i++ {
		if v.B[i].Top || len(v.B[i].Srcs) > 0 {
			return 0, false
		}
		if v.B[i].One {
			x |= 1 << uint(i)
		}
	}
	return x, true
}
func constVec(x uint64, w int, signed bool) bvec {
	v := bvec{W: w, Signed: signed}
	for i := 0; i < w; i++ {
		if x>>uint(i)&1 == 1 {
			v.B[i] = absBit{One: true}
		}
	}
	return v
}
func inputVec(name string, bits, w int, signed bool) bvec {
	v := bvec{W: w, Signed: signed}
	for i := 0; i < bits && i < w; i++ {
		v.B[i] = absBit{Srcs: []bitSrc{{name, i}}}
	}
	return v
}
func topVec(w int, signed bool) bvec {
	v := bvec{W: w, Signed: signed}
	for i := 0; i < w; i++ {
		v.B[i] = absBit{Top: true}
	}
	return v
}
func (v bvec) resize(w int, signed bool) bvec {
	out := bvec{W: w, Signed: signed}
	for i := 0; i < w; i++ {
		switch {
		case i < v.W:
			out.B[i] = v.B[i]
		case v.Signed && v.W > 0:
			out.B[i] = v.B[v.W-1]
		}
	}
	return out
}
func (v bvec) shl(k int) bvec {
	out := bvec{W: v.W, Signed: v.Signed}
	for i := k; i < v.W; i++ {
		out.B[i] = v.B[i-k]
	}
	return out
}
func (v bvec) shr(k int) bvec {
	out := bvec{W: v.W, Signed: v.Signed}
	for i := 0; i < v.W; i++ {
		if i+k < v.W {
			out.B[i] = v.B[i+k]
		} else if v.Signed && v.W > 0 {
			out.B[i] = v.B[v.W-1]
		}
	}
	return out
}
func vecOr(a, b bvec) bvec {
	out := bvec{W: a.W, Signed: a.Signed}
	for i := 0; i < a.W; i++ {
		out.B[i] = bitOr(a.B[i], b.B[i])
	}
	return out
}
func vecAnd(a, b bvec) bvec {
	out := bvec{W: a.W, Signed: a.Signed}
	for i := 0; i < a.W; i++ {
		x, y := a.B[i], b.B[i]
		switch {
		case x.isZero() || y.isZero():
		case x.One:
			out.B[i] = y
		case y.One:
			out.B[i] = x
		case bitEq(x, y):
			out.B[i] = x
		default:
			out.B[i] = absBit{Top: true}
		}
	}
	return out
}
func vecAndNot(a, b bvec) bvec {
	out := bvec{W: a.W, Signed: a.Signed}
	for i := 0; i < a.W; i++ {
		x, y := a.B[i], b.B[i]
		switch {
		case x.isZero() || y.One:
		case y.isZero():
			out.B[i] = x
		default:
			out.B[i] = absBit{Top: true}
		}
	}
	return out
}

// nonZeroBits lists positions that are not known zero.
func (v bvec) nonZeroBits() []int {
	var out []int
	for i := 0; i < v.W; i++ {
		if !v.B[i].isZero() {
			out = append(out, i)
		}
	}
	return out
}

type bitEnv struct {
	pk     *packages.Package
	vars   map[types.Object]bvec
	inputs func(e ast.Expr) (bvec, bool) // hook: named inputs (selectors, calls) supplied by the rule
	notes  []string
	depth  int
	ret    *bvec
}

func typeWidth(t types.Type) (int, bool) {
	b, ok := t.Underlying().(*types.Basic)
	if !ok {
		return 32, false
	}
	signed := b.Info()&types.IsUnsigned == 0
	switch b.Kind() {
	case types.Int8, types.Uint8:
		return 8, signed
	case types.Int16, types.Uint16:
		return 16, signed
	case types.Int32, types.Uint32:
		return 32, signed
	case types.Int64, types.Uint64, types.Int, types.Uint, types.Uintptr, types.UntypedInt:
		return 64, signed
	}
	return 64, signed
}

func (e *bitEnv) typeOf(x ast.Expr) (int, bool) {
	if t := e.pk.TypesInfo.TypeOf(x); t != nil {
		return typeWidth(t)
	}
	return 64, true
}

func (e *bitEnv) eval(x ast.Expr) bvec {
	info := e.pk.TypesInfo
	w, signed := e.typeOf(x)
	if tv, ok := info.Types[x]; ok && tv.Value != nil && tv.Value.Kind() == constant.Int {
		if u, ok := constant.Uint64Val(tv.Value); ok {
			return constVec(u, w, signed)
		}
		if i, ok := constant.Int64Val(tv.Value); ok {
			return constVec(uint64(i), w, signed)
		}
	}
	if e.inputs != nil {
		if v, ok := e.inputs(x); ok {
			return v.resize(w, signed)
		}
	}
	switch n := x.(type) {
	case *ast.ParenExpr:
		return e.eval(n.X)
	case *ast.Ident:
		if o := info.ObjectOf(n); o != nil {
			if v, ok := e.vars[o]; ok {
				return v.resize(w, signed)
			}
		}
		return inputVec(n.Name, w, w, signed)
	case *ast.SelectorExpr:
		return inputVec(types.ExprString(n), w, w, signed)
	case *ast.UnaryExpr:
		if n.Op == token.XOR {
			v := e.eval(n.X)
			out := bvec{W: v.W, Signed: v.Signed}
			for i := 0; i < v.W; i++ {
				switch {
				case v.B[i].isZero():
					out.B[i] = absBit{One: true}
				case v.B[i].One:
				default:
					out.B[i] = absBit{Top: true}
				}
			}
			return out
		}
		if n.Op == token.SUB {
			v := e.eval(n.X)
			if c, ok := v.constVal(); ok {
				return constVec(-c, w, signed)
			}
		}
		return topVec(w, signed)
	case *ast.BinaryExpr:
		switch n.Op {
		case token.SHL, token.SHR:
			v := e.eval(n.X)
			k, ok := e.eval(n.Y).constVal()
			if !ok {
				return topVec(w, signed)
			}
			if n.Op == token.SHL {
				return v.shl(int(k))
			}
			return v.shr(int(k))
		case token.OR:
			return vecOr(e.eval(n.X).resize(w, signed), e.eval(n.Y).resize(w, signed))
		case token.AND:
			return vecAnd(e.eval(n.X).resize(w, signed), e.eval(n.Y).resize(w, signed))
		case token.AND_NOT:
			return vecAndNot(e.eval(n.X).resize(w, signed), e.eval(n.Y).resize(w, signed))
		case token.XOR:
			a, b := e.eval(n.X).resize(w, signed), e.eval(n.Y).resize(w, signed)
			if c, ok := b.constVal(); ok && c == 0 {
				return a
			}
			return topVec(w, signed)
		case token.ADD:
			a, b := e.eval(n.X).resize(w, signed), e.eval(n.Y).resize(w, signed)
			ca, okA := a.constVal()
			cb, okB := b.constVal()
			if okA && okB {
				return constVec(ca+cb, w, signed)
			}
			// carry-free: no position where both may be non-zero
			free := true
			for i := 0; i < w; i++ {
				if !a.B[i].isZero() && !b.B[i].isZero() {
					free = false
				}
			}
			if free {
				return vecOr(a, b)
			}
			return topVec(w, signed)
		case token.SUB:
			a, b := e.eval(n.X).resize(w, signed), e.eval(n.Y).resize(w, signed)
			ca, okA := a.constVal()
			cb, okB := b.constVal()
			if okA && okB {
				return constVec(ca-cb, w, signed)
			}
			if okB && cb != 0 && cb&(cb-1) == 0 {
				// A - 2^k where A < 2^k: low k bits unchanged, upper bits become 1
				k := 0
				for cb>>uint(k) != 1 {
					k++
				}
				small := true
				for i := k; i < w; i++ {
					if !a.B[i].isZero() {
						small = false
					}
				}
				if small {
					out := a
					for i := k; i < w; i++ {
						out.B[i] = absBit{One: true}
					}
					return out
				}
			}
			if okB && cb == 1 {
				// 2^k - 1 handled by constant folding above; (1<<n)-1 with symbolic n is not needed
			}
			return topVec(w, signed)
		case token.MUL:
			a, b := e.eval(n.X), e.eval(n.Y)
			ca, okA := a.constVal()
			cb, okB := b.constVal()
			if okA && okB {
				return constVec(ca*cb, w, signed)
			}
			return topVec(w, signed)
		}
		return topVec(w, signed)
	case *ast.CallExpr:
		// conversion
		if tv, ok := info.Types[n.Fun]; ok && tv.IsType() && len(n.Args) == 1 {
			return e.eval(n.Args[0]).resize(w, signed)
		}
		// package-local helper: inline
		if f := CalleeOf(info, n); f != nil && f.Pkg() == e.pk.Types && e.depth < 4 {
			if fd := findDeclOf(e.pk, f); fd != nil && fd.Body != nil {
				if v, ok := e.inline(fd, n); ok {
					return v.resize(w, signed)
				}
			}
		}
		return topVec(w, signed)
	}
	return topVec(w, signed)
}

func findDeclOf(pk *packages.Package, f *types.Func) *ast.FuncDecl {
	for _, file := range pk.Syntax {
		for _, d := range file.Decls {
			if fd, ok := d.(*ast.FuncDecl); ok && pk.TypesInfo.Defs[fd.Name] == types.Object(f) {
				return fd
			}
		}
	}
	return nil
}

func (e *bitEnv) inline(fd *ast.FuncDecl, call *ast.CallExpr) (bvec, bool) {
	sub := &bitEnv{pk: e.pk, vars: map[types.Object]bvec{}, inputs: e.inputs, depth: e.depth + 1}
	i := 0
	for _, fl := range fd.Type.Params.List {
		for _, nm := range fl.Names {
			if i < len(call.Args) {
				v := e.eval(call.Args[i])
				pw, ps := typeWidth(e.pk.TypesInfo.TypeOf(nm))
				sub.vars[e.pk.TypesInfo.ObjectOf(nm)] = v.resize(pw, ps)
			}
			i++
		}
	}
	// receiver methods: receiver fields are read through the inputs hook
	sub.exec(fd.Body.List)
	e.notes = append(e.notes, sub.notes...)
	if sub.ret != nil {
		return *sub.ret, true
	}
	return bvec{}, false
}

// singleBitCond: cond is equivalent to one abstract bit (or its negation).
func (e *bitEnv) singleBitCond(cond ast.Expr) (bit absBit, neg bool, ok bool) {
	be, isBE := ast.Unparen(cond).(*ast.BinaryExpr)
	if !isBE || (be.Op != token.NEQ && be.Op != token.EQL) {
		return absBit{}, false, false
	}
	l := e.eval(be.X)
	r, okR := e.eval(be.Y).constVal()
	if !okR {
		return absBit{}, false, false
	}
	nz := l.nonZeroBits()
	if len(nz) != 1 {
		return absBit{}, false, false
	}
	p := nz[0]
	b := l.B[p]
	if b.Top {
		return absBit{}, false, false
	}
	switch {
	case r == 0 && be.Op == token.NEQ:
		return b, false, true
	case r == 0 && be.Op == token.EQL:
		return b, true, true
	case r == 1<<uint(p) && be.Op == token.EQL:
		return b, false, true
	case r == 1<<uint(p) && be.Op == token.NEQ:
		return b, true, true
	}
	return absBit{}, false, false
}

func joinUnder(b absBit, t, f absBit) absBit {
	if bitEq(t, f) {
		return t
	}
	if t.One && f.isZero() && !b.One && !b.Top {
		return b
	}
	return absBit{Top: true}
}

func (e *bitEnv) exec(stmts []ast.Stmt) {
	info := e.pk.TypesInfo
	for _, s := range stmts {
		if e.ret != nil {
			return
		}
		switch st := s.(type) {
		case *ast.AssignStmt:
			if len(st.Lhs) != len(st.Rhs) {
				continue
			}
			for i, l := range st.Lhs {
				id, ok := l.(*ast.Ident)
				if !ok {
					continue
				}
				obj := info.ObjectOf(id)
				if obj == nil {
					continue
				}
				w, signed := typeWidth(obj.Type())
				rhs := e.eval(st.Rhs[i]).resize(w, signed)
				cur, has := e.vars[obj]
				if !has {
					cur = inputVec(id.Name, w, w, signed)
				}
				switch st.Tok {
				case token.DEFINE, token.ASSIGN:
					e.vars[obj] = rhs
				case token.OR_ASSIGN:
					e.vars[obj] = vecOr(cur, rhs)
				case token.AND_ASSIGN:
					e.vars[obj] = vecAnd(cur, rhs)
				case token.SHL_ASSIGN:
					if k, ok := rhs.constVal(); ok {
						e.vars[obj] = cur.shl(int(k))
					} else {
						e.vars[obj] = topVec(w, signed)
					}
				case token.SHR_ASSIGN:
					if k, ok := rhs.constVal(); ok {
						e.vars[obj] = cur.shr(int(k))
					} else {
						e.vars[obj] = topVec(w, signed)
					}
				default:
					e.vars[obj] = topVec(w, signed)
				}
			}
		case *ast.DeclStmt:
			// var x T [= v]
			if gd, ok := st.Decl.(*ast.GenDecl); ok {
				for _, sp := range gd.Specs {
					if vs, ok := sp.(*ast.ValueSpec); ok {
						for i, nm := range vs.Names {
							obj := info.ObjectOf(nm)
							w, signed := typeWidth(obj.Type())
							if i < len(vs.Values) {
								e.vars[obj] = e.eval(vs.Values[i]).resize(w, signed)
							} else {
								e.vars[obj] = constVec(0, w, signed)
							}
						}
					}
				}
			}
		case *ast.ReturnStmt:
			if len(st.Results) >= 1 {
				v := e.eval(st.Results[0])
				e.ret = &v
			} else {
				z := bvec{}
				e.ret = &z
			}
			return
		case *ast.IfStmt:
			if st.Init != nil {
				e.exec([]ast.Stmt{st.Init})
			}
			// constant condition?
			if tv, ok := info.Types[st.Cond]; ok && tv.Value != nil && tv.Value.Kind() == constant.Bool {
				if constant.BoolVal(tv.Value) {
					e.exec(st.Body.List)
				} else if eb, ok := st.Else.(*ast.BlockStmt); ok {
					e.exec(eb.List)
				}
				continue
			}
			bit, neg, single := e.singleBitCond(st.Cond)
			tEnv := e.fork()
			fEnv := e.fork()
			tEnv.exec(st.Body.List)
			switch el := st.Else.(type) {
			case *ast.BlockStmt:
				fEnv.exec(el.List)
			case *ast.IfStmt:
				fEnv.exec([]ast.Stmt{el})
			}
			if neg {
				tEnv, fEnv = fEnv, tEnv
			}
			// join variables
			for obj, tv := range tEnv.vars {
				fv, ok := fEnv.vars[obj]
				if !ok {
					continue
				}
				out := bvec{W: tv.W, Signed: tv.Signed}
				for i := 0; i < tv.W; i++ {
					if single {
						out.B[i] = joinUnder(bit, tv.B[i], fv.B[i])
					} else if bitEq(tv.B[i], fv.B[i]) {
						out.B[i] = tv.B[i]
					} else {
						out.B[i] = absBit{Top: true}
					}
				}
				e.vars[obj] = out
			}
			// join returns
			switch {
			case tEnv.ret != nil && fEnv.ret != nil:
				out := bvec{W: tEnv.ret.W, Signed: tEnv.ret.Signed}
				for i := 0; i < out.W; i++ {
					if single {
						out.B[i] = joinUnder(bit, tEnv.ret.B[i], fEnv.ret.B[i])
					} else if bitEq(tEnv.ret.B[i], fEnv.ret.B[i]) {
						out.B[i] = tEnv.ret.B[i]
					} else {
						out.B[i] = absBit{Top: true}
					}
				}
				e.ret = &out
				return
			case tEnv.ret != nil || fEnv.ret != nil:
				// one branch returns: continue with the other branch's state and remember the partition
				retEnv, contEnv := tEnv, fEnv
				retIsTrue := true
				if tEnv.ret == nil {
					retEnv, contEnv = fEnv, tEnv
					retIsTrue = false
				}
				e.vars = contEnv.vars
				e.exec(restAfter(stmts, s))
				if e.ret != nil {
					out := bvec{W: e.ret.W, Signed: e.ret.Signed}
					for i := 0; i < out.W; i++ {
						t, f := retEnv.ret.resize(out.W, out.Signed).B[i], e.ret.B[i]
						if !retIsTrue {
							t, f = f, t
						}
						if single {
							out.B[i] = joinUnder(bit, t, f)
						} else if bitEq(t, f) {
							out.B[i] = t
						} else {
							out.B[i] = absBit{Top: true}
						}
					}
					e.ret = &out
				}
				return
			}
		case *ast.ExprStmt:
			// assert(...) and similar: no effect on values
		case *ast.BlockStmt:
			e.exec(st.List)
		}
	}
}

func restAfter(stmts []ast.Stmt, s ast.Stmt) []ast.Stmt {
	for i, x := range stmts {
		if x == s {
			return stmts[i+1:]
		}
	}
	return nil
}

func (e *bitEnv) fork() *bitEnv {
	n := &bitEnv{pk: e.pk, vars: map[types.Object]bvec{}, inputs: e.inputs, depth: e.depth}
	for k, v := range e.vars {
		n.vars[k] = v
	}
	return n
}

// describe renders a vector as runs "31:25=funct7[6:0]".
func (v bvec) describe() string {
	var parts []string
	for i := v.W - 1; i >= 0; i-- {
		parts = append(parts, fmt.Sprintf("%d=%s", i, v.B[i]))
	}
	return strings.Join(parts, " ")
}
