package main

import (
	"fmt"
	"go/ast"
	"go/token"
	"go/types"
	"strings"

	"golang.org/x/tools/go/packages"
)

// C21 rules added after seeded changes were missed.
//
// range-end-validated — Mapper.RangeOffsets turns an LSP range into byte offsets. Both ends go through
// Mapper.PositionOffset, which is where a position is checked against the document (line exists, column not beyond the
// end of the line). A successful return hands out only offsets obtained from it; an end computed some other way
// (`start + column delta`) accepts a column past the end of its line and the edit eats into the next line.
//
// utf16-byte-mixing — LSP columns and the deprecated rangeLength count UTF-16 code units; the server's document is a
// byte slice and Mapper's results are byte offsets. Outside the Mapper (whose job the conversion is) a comparison or
// sum that puts a UTF-16 quantity next to a byte quantity is a unit error: it holds for ASCII text and fails for every
// edit that touches a non-ASCII character.

func c21Units(c *Ctx, p *Prog, lsp, proto *packages.Package) {
	if proto != nil {
		c21RangeEnd(c, p, proto)
	}
	if lsp != nil {
		c21UnitMixing(c, p, lsp)
	}
}

func c21RangeEnd(c *Ctx, p *Prog, proto *packages.Package) {
	const rule = "range-end-validated"
	info := proto.TypesInfo
	fd := p.MustFunc(rule, proto, "Mapper.RangeOffsets")
	if fd == nil {
		return
	}
	// definitions of each local: from PositionOffset or from something else
	fromPos := map[types.Object]bool{}
	other := map[types.Object][]string{}
	ast.Inspect(fd.Body, func(n ast.Node) bool {
		as, ok := n.(*ast.AssignStmt)
		if !ok {
			return true
		}
		isPos := false
		if len(as.Rhs) == 1 {
			if call, ok := ast.Unparen(as.Rhs[0]).(*ast.CallExpr); ok {
				if fn := CalleeOf(info, call); fn != nil && fn.Name() == "PositionOffset" {
					isPos = true
				}
			}
		}
		for i, l := range as.Lhs {
			o := identObj(info, l)
			if o == nil {
				continue
			}
			if isPos && i == 0 {
				fromPos[o] = true
			} else if !(isPos && i == 1) {
				rhs := as.Rhs[0]
				if i < len(as.Rhs) {
					rhs = as.Rhs[i]
				}
				other[o] = append(other[o], fmt.Sprintf("%s (%s)", types.ExprString(rhs), p.Pos(as.Pos())))
			}
		}
		return true
	})
	n := 0
	var probs []string
	ast.Inspect(fd.Body, func(nd ast.Node) bool {
		if _, isLit := nd.(*ast.FuncLit); isLit {
			return false
		}
		ret, ok := nd.(*ast.ReturnStmt)
		if !ok || len(ret.Results) != 3 || !isNilExpr(info, ret.Results[2]) {
			return true
		}
		n++
		for k, what := range []string{"start", "end"} {
			o := identObj(info, ret.Results[k])
			switch {
			case o == nil:
				probs = append(probs, fmt.Sprintf("%s: the %s offset returned is `%s`, not a result of PositionOffset", p.Pos(ret.Pos()), what, types.ExprString(ret.Results[k])))
			case !fromPos[o] || len(other[o]) > 0:
				probs = append(probs, fmt.Sprintf("%s: the %s offset `%s` is %s: that end of the range was not checked against the document (a column beyond the end of its line is accepted)", p.Pos(ret.Pos()), what, o.Name(), strings.Join(append([]string{"computed as"}, other[o]...), " ")))
			}
		}
		return true
	})
	c.Check(len(probs) == 0 && n > 0, rule, "Mapper.RangeOffsets", p.Pos(fd.Pos()), fmt.Sprintf("%d successful returns, both offsets from PositionOffset", n), "Mapper.RangeOffsets: "+strings.Join(probs, "; ")+": an invalid range is applied to the stored text instead of being rejected")
}

func c21UnitMixing(c *Ctx, p *Prog, lsp *packages.Package) {
	const rule = "utf16-byte-mixing"
	info := lsp.TypesInfo
	n := 0
	for _, f := range lsp.Syntax {
		for _, d := range f.Decls {
			fd, ok := d.(*ast.FuncDecl)
			if !ok || fd.Body == nil {
				continue
			}
			// byte-valued locals: results of RangeOffsets / PositionOffset / len(..)
			bytesVar := map[types.Object]bool{}
			ast.Inspect(fd.Body, func(nd ast.Node) bool {
				as, ok := nd.(*ast.AssignStmt)
				if !ok || len(as.Rhs) != 1 {
					return true
				}
				if call, ok := ast.Unparen(as.Rhs[0]).(*ast.CallExpr); ok {
					if fn := CalleeOf(info, call); fn != nil && (fn.Name() == "RangeOffsets" || fn.Name() == "PositionOffset" || fn.Name() == "OffsetPosition") {
						for _, l := range as.Lhs {
							if o := identObj(info, l); o != nil {
								if b, ok := o.Type().Underlying().(*types.Basic); ok && b.Info()&types.IsInteger != 0 {
									bytesVar[o] = true
								}
							}
						}
					}
				}
				return true
			})
			var unitOf func(e ast.Expr) string
			unitOf = func(e ast.Expr) string {
				switch x := ast.Unparen(e).(type) {
				case *ast.SelectorExpr:
					if sel, ok := info.Selections[x]; ok && sel.Kind() == types.FieldVal {
						switch {
						case x.Sel.Name == "Character" && namedTypeName(sel.Recv()) == "Position":
							return "utf16"
						case x.Sel.Name == "RangeLength":
							return "utf16"
						}
					}
				case *ast.Ident:
					if bytesVar[info.Uses[x]] {
						return "bytes"
					}
				case *ast.CallExpr:
					if tv, ok := info.Types[x.Fun]; ok && tv.IsType() && len(x.Args) == 1 {
						return unitOf(x.Args[0])
					}
					if id, ok := x.Fun.(*ast.Ident); ok && id.Name == "len" && len(x.Args) == 1 {
						if t := info.TypeOf(x.Args[0]); t != nil {
							switch u := t.Underlying().(type) {
							case *types.Slice:
								if b, ok := u.Elem().Underlying().(*types.Basic); ok && b.Kind() == types.Uint8 {
									return "bytes"
								}
							case *types.Basic:
								if u.Info()&types.IsString != 0 {
									return "bytes"
								}
							}
						}
					}
				case *ast.BinaryExpr:
					if x.Op == token.ADD || x.Op == token.SUB {
						a, b := unitOf(x.X), unitOf(x.Y)
						if a == b {
							return a
						}
						if a == "" {
							return b
						}
						if b == "" {
							return a
						}
						return "mixed"
					}
				}
				return ""
			}
			seq := 0
			ast.Inspect(fd.Body, func(nd ast.Node) bool {
				be, ok := nd.(*ast.BinaryExpr)
				if !ok {
					return true
				}
				switch be.Op {
				case token.EQL, token.NEQ, token.LSS, token.LEQ, token.GTR, token.GEQ, token.ADD, token.SUB:
				default:
					return true
				}
				a, b := unitOf(be.X), unitOf(be.Y)
				if a == "" || b == "" {
					return true
				}
				n++
				seq++
				c.Check(a == b && a != "mixed", rule, fmt.Sprintf("%s: `%s` #%d", declName(fd), types.ExprString(be), seq), p.Pos(be.Pos()), "both operands in the same unit",
					fmt.Sprintf("%s puts a quantity in %s next to a quantity in %s (`%s`): LSP columns and rangeLength are UTF-16 code units, document offsets are UTF-8 bytes, so the expression is right for ASCII text only — an edit that replaces or deletes a non-ASCII character is mis-positioned or rejected and the server's copy of the document falls out of step with the editor's", declName(fd), a, b, types.ExprString(be)))
				return true
			})
		}
	}
	c.Count("utf16_byte_expressions_examined", n)
}
