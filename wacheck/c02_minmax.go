package main

import (
	"fmt"
	"go/ast"
	"go/types"
	"math"
	"regexp"
	"strings"

	"golang.org/x/tools/go/packages"
)

// C02 rule x64-minmax-semantics (added after differential probing: minss/maxss answer their second operand when one
// operand is a NaN or when both are zeros, WebAssembly answers NaN and orders -0 below +0).
//
// The f32/f64 min/max arms of wat2x64 are read as a straight list of assembler lines and label definitions and
// interpreted — no code is assembled or run — over a small model of the SSE scalar instructions they use (loads and
// stores of the operand slots, movaps/movapd, min/max/add, orps/andps/xorps on the bit patterns, ucomis* setting
// ZF/PF/CF, conditional and unconditional jumps to the arm's own labels), for the 49 operand pairs from
// {NaN, -inf, -1.5, -0, +0, 2, +inf}. The stored result must be WebAssembly's. An instruction outside the model makes
// the arm undecided.

type x64Line struct {
	label string   // a label definition (the identifier passed to gasFuncLabel)
	text  string   // an instruction line, format text
	args  []string // its arguments (expression text)
	pos   ast.Node
}

func x64ArmLines(info *types.Info, arm Arm) ([]x64Line, bool) {
	var out []x64Line
	for _, s := range arm.Body {
		es, ok := s.(*ast.ExprStmt)
		if !ok {
			continue // definitions of slots and labels
		}
		call, ok := es.X.(*ast.CallExpr)
		if !ok {
			return nil, false
		}
		if f := fprintfFormat(info, call); f != "" {
			var args []string
			for _, a := range call.Args[2:] {
				args = append(args, types.ExprString(a))
			}
			out = append(out, x64Line{text: f, args: args, pos: call})
			continue
		}
		if se, ok := call.Fun.(*ast.SelectorExpr); ok && se.Sel.Name == "gasFuncLabel" && len(call.Args) == 2 {
			out = append(out, x64Line{label: types.ExprString(call.Args[1]), pos: call})
			continue
		}
		if fn := CalleeOf(info, call); fn != nil && fn.Pkg() != nil && fn.Pkg().Path() == "fmt" && fn.Name() == "Fprintln" {
			continue
		}
		return nil, false
	}
	return out, true
}

var reX64Ins = regexp.MustCompile(`^\s*([a-z0-9]+)\s*([^#\n]*?)\s*(#.*)?\n?$`)

type sseMachine struct {
	wide       bool // sd: 64-bit lanes
	xmm        map[string]float64
	zf, pf, cf bool
}

func (m *sseMachine) bits(v float64) uint64 {
	if m.wide {
		return math.Float64bits(v)
	}
	return uint64(math.Float32bits(float32(v)))
}
func (m *sseMachine) from(b uint64) float64 {
	if m.wide {
		return math.Float64frombits(b)
	}
	return float64(math.Float32frombits(uint32(b)))
}

// x64MinMaxRun interprets the lines for operands a (second popped, the left operand) and b; answers the stored value.
func x64MinMaxRun(lines []x64Line, wide bool, a, b float64, slotA, slotB, slotRet string) (float64, string) {
	m := &sseMachine{wide: wide, xmm: map[string]float64{}}
	labelAt := map[string]int{}
	for i, l := range lines {
		if l.label != "" {
			labelAt[l.label] = i
		}
	}
	var result *float64
	steps := 0
	for pc := 0; pc < len(lines); pc++ {
		steps++
		if steps > 200 {
			return 0, "the arm does not reach its end"
		}
		l := lines[pc]
		if l.label != "" {
			continue
		}
		mm := reX64Ins.FindStringSubmatch(l.text)
		if mm == nil {
			if strings.HasPrefix(strings.TrimSpace(l.text), "#") {
				continue
			}
			return 0, "line not read: " + strings.TrimSpace(l.text)
		}
		op := mm[1]
		// operands: split at the top-level comma; a memory operand is named by the line's argument
		var ops []string
		for _, o := range strings.Split(mm[2], ",") {
			if o = strings.TrimSpace(o); o != "" {
				ops = append(ops, o)
			}
		}
		argi := 0
		read := func(o string) (float64, bool) {
			if strings.Contains(o, "[rbp%") {
				if argi >= len(l.args) {
					return 0, false
				}
				name := l.args[argi]
				argi++
				switch name {
				case slotA:
					return a, true
				case slotB:
					return b, true
				}
				return 0, false
			}
			v, ok := m.xmm[o]
			return v, ok
		}
		jump := func(cond bool) string {
			if len(l.args) != 1 {
				return "jump without a label argument"
			}
			if !cond {
				return ""
			}
			at, ok := labelAt[l.args[0]]
			if !ok {
				return "jump to a label the arm does not define: " + l.args[0]
			}
			pc = at
			return ""
		}
		switch op {
		case "movss", "movsd":
			if len(ops) != 2 {
				return 0, "operands of " + op
			}
			if strings.Contains(ops[0], "[rbp%") {
				// a store
				v, ok := m.xmm[ops[1]]
				if !ok || len(l.args) != 1 {
					return 0, "store of an undefined register"
				}
				if l.args[0] == slotRet {
					r := v
					result = &r
				}
				continue
			}
			v, ok := read(ops[1])
			if !ok {
				return 0, "load from an unknown slot in `" + strings.TrimSpace(l.text) + "`"
			}
			m.xmm[ops[0]] = v
		case "movaps", "movapd":
			v, ok := read(ops[1])
			if !ok {
				return 0, "read of an undefined register in `" + strings.TrimSpace(l.text) + "`"
			}
			m.xmm[ops[0]] = v
		case "minss", "minsd", "maxss", "maxsd", "addss", "addsd", "subss", "subsd", "orps", "orpd", "andps", "andpd", "xorps", "xorpd":
			if len(ops) != 2 {
				return 0, "operands of " + op
			}
			x, ok1 := m.xmm[ops[0]]
			y, ok2 := read(ops[1])
			if !ok1 || !ok2 {
				return 0, "read of an undefined register in `" + strings.TrimSpace(l.text) + "`"
			}
			var r float64
			switch op[:3] {
			case "min":
				// SSE: the second operand when either is a NaN or both are zeros
				if x < y {
					r = x
				} else {
					r = y
				}
			case "max":
				if x > y {
					r = x
				} else {
					r = y
				}
			case "add":
				r = x + y
			case "sub":
				r = x - y
			case "orp":
				r = m.from(m.bits(x) | m.bits(y))
			case "and":
				r = m.from(m.bits(x) & m.bits(y))
			case "xor":
				r = m.from(m.bits(x) ^ m.bits(y))
			}
			if !m.wide {
				r = float64(float32(r))
			}
			m.xmm[ops[0]] = r
		case "ucomiss", "ucomisd", "comiss", "comisd":
			x, ok1 := m.xmm[ops[0]]
			y, ok2 := read(ops[1])
			if !ok1 || !ok2 {
				return 0, "read of an undefined register in `" + strings.TrimSpace(l.text) + "`"
			}
			if math.IsNaN(x) || math.IsNaN(y) {
				m.zf, m.pf, m.cf = true, true, true
			} else {
				m.zf, m.pf, m.cf = x == y, false, x < y
			}
		case "jmp":
			if e := jump(true); e != "" {
				return 0, e
			}
		case "jp":
			if e := jump(m.pf); e != "" {
				return 0, e
			}
		case "jnp":
			if e := jump(!m.pf); e != "" {
				return 0, e
			}
		case "je", "jz":
			if e := jump(m.zf); e != "" {
				return 0, e
			}
		case "jne", "jnz":
			if e := jump(!m.zf); e != "" {
				return 0, e
			}
		case "ja":
			if e := jump(!m.cf && !m.zf); e != "" {
				return 0, e
			}
		case "jae":
			if e := jump(!m.cf); e != "" {
				return 0, e
			}
		case "jb":
			if e := jump(m.cf); e != "" {
				return 0, e
			}
		case "jbe":
			if e := jump(m.cf || m.zf); e != "" {
				return 0, e
			}
		default:
			return 0, "instruction outside the model: " + op
		}
	}
	if result == nil {
		return 0, "no store to the result slot"
	}
	return *result, ""
}

func c02MinMax(c *Ctx, p *Prog, pk *packages.Package) {
	const rule = "x64-minmax-semantics"
	info := pk.TypesInfo
	fd := findBuildFuncIns(pk)
	if fd == nil {
		c.Undecided(rule, "anchor:wat2x64.buildFunc_ins", "", "instruction dispatcher not found")
		return
	}
	arms := map[string]Arm{}
	for _, sw := range FindSwitches(fd, func(ast.Expr) bool { return true }) {
		for _, arm := range SwitchArms(info, sw) {
			arms[arm.Names()] = arm
		}
	}
	dom := []float64{math.NaN(), math.Inf(-1), -1.5, math.Copysign(0, -1), 0, 2, math.Inf(1)}
	n := 0
	for _, k := range []string{"INS_F32_MIN", "INS_F32_MAX", "INS_F64_MIN", "INS_F64_MAX"} {
		arm, ok := arms[k]
		mn := strings.ToLower(strings.Replace(strings.TrimPrefix(k, "INS_"), "_", ".", 1))
		if !ok {
			c.Undecided(rule, mn, p.Pos(fd.Pos()), "arm not found")
			continue
		}
		loc := p.Pos(arm.Clause.Pos())
		lines, ok := x64ArmLines(info, arm)
		if !ok {
			c.Undecided(rule, mn, loc, "the arm is not a straight list of assembler lines and label definitions")
			continue
		}
		// the slots: first Pop is the right operand (sp0), second the left (sp1), Push the result
		var pops []string
		push := ""
		for _, s := range arm.Body {
			as, ok := s.(*ast.AssignStmt)
			if !ok || len(as.Lhs) != 1 || len(as.Rhs) != 1 {
				continue
			}
			txt := types.ExprString(as.Rhs[0])
			if strings.Contains(txt, ".Pop(") {
				pops = append(pops, types.ExprString(as.Lhs[0]))
			}
			if strings.Contains(txt, ".Push(") {
				push = types.ExprString(as.Lhs[0])
			}
		}
		if len(pops) != 2 || push == "" {
			c.Undecided(rule, mn, loc, "operand slots of the arm not recognised")
			continue
		}
		op := mn[4:]
		wide := strings.HasPrefix(mn, "f64")
		var bad []string
		und := ""
		for _, a := range dom {
			for _, b := range dom {
				got, why := x64MinMaxRun(lines, wide, a, b, pops[1], pops[0], push)
				if why != "" {
					und = why
					continue
				}
				want := wasmMinMax(op, a, b)
				same := (math.IsNaN(got) && math.IsNaN(want)) || (got == want && math.Signbit(got) == math.Signbit(want))
				if !same && len(bad) < 4 {
					bad = append(bad, fmt.Sprintf("%s(%s, %s) stores %s, WebAssembly answers %s", mn, fstr(a), fstr(b), fstr(got), fstr(want)))
				}
			}
		}
		n++
		if und != "" {
			c.Undecided(rule, mn, loc, und)
			continue
		}
		c.Check(len(bad) == 0, rule, mn, loc, "49 operand pairs agree with WebAssembly's "+op, "interpreting the emitted instructions: "+strings.Join(bad, "; "))
	}
	c.Min(rule, "float min/max arms of wat2x64", n, 4)
}
