package main

import (
	"fmt"
	"go/ast"
	"go/types"
	"math"
	"regexp"
	"strings"

	"golang.org/x/tools/go/packages"
)

// C02 rule x64-minmax-semantics (added after differential probing: minss/maxss answer their second operand when one
// operand is a NaN or when both are zeros, WebAssembly answers NaN and orders -0 below +0).
//
// The f32/f64 min/max arms of wat2x64 are read as a straight list of assembler lines and label definitions and
// interpreted — no code is assembled or run — over the instruction model of c02_x64sim.go, for the 49 operand pairs
// from {NaN, -inf, -1.5, -0, +0, 2, +inf}. The stored result must be WebAssembly's. An instruction outside the model
// makes the arm undecided.
//
// Rule x64-conversion-semantics does the same for the sixteen float<->integer conversion arms (added after probing
// showed cvttsd2si/cvtsi2sd used for the unsigned 64-bit conversions: wrong from 2^63 up): for a set of in-range
// operands that includes the boundaries of the signed and unsigned ranges, the stored result is the truncated /
// correctly rounded value. A 32-bit operand slot has a poisoned upper half, so a template that reads a 32-bit operand
// with a 64-bit load is seen as well.

type x64Line struct {
	label string   // a label definition (the identifier passed to gasFuncLabel)
	text  string   // an instruction line, format text
	args  []string // its arguments (expression text)
	pos   ast.Node
}

func x64ArmLines(info *types.Info, arm Arm) ([]x64Line, bool) {
	var out []x64Line
	for _, s := range arm.Body {
		es, ok := s.(*ast.ExprStmt)
		if !ok {
			continue // definitions of slots and labels
		}
		call, ok := es.X.(*ast.CallExpr)
		if !ok {
			return nil, false
		}
		if f := fprintfFormat(info, call); f != "" {
			var args []string
			for _, a := range call.Args[2:] {
				args = append(args, types.ExprString(a))
			}
			out = append(out, x64Line{text: f, args: args, pos: call})
			continue
		}
		if se, ok := call.Fun.(*ast.SelectorExpr); ok && se.Sel.Name == "gasFuncLabel" && len(call.Args) == 2 {
			out = append(out, x64Line{label: types.ExprString(call.Args[1]), pos: call})
			continue
		}
		if fn := CalleeOf(info, call); fn != nil && fn.Pkg() != nil && fn.Pkg().Path() == "fmt" && fn.Name() == "Fprintln" {
			continue
		}
		if id, ok := call.Fun.(*ast.Ident); ok && id.Name == "assert" {
			continue // a translation-time check, writes nothing
		}
		return nil, false
	}
	return out, true
}

var reX64Ins = regexp.MustCompile(`^\s*([a-z0-9]+)\s*([^#\n]*?)\s*(#.*)?\n?$`)

func c02MinMax(c *Ctx, p *Prog, pk *packages.Package) {
	const rule = "x64-minmax-semantics"
	info := pk.TypesInfo
	fd := findBuildFuncIns(pk)
	if fd == nil {
		c.Undecided(rule, "anchor:wat2x64.buildFunc_ins", "", "instruction dispatcher not found")
		return
	}
	arms := map[string]Arm{}
	for _, sw := range FindSwitches(fd, func(ast.Expr) bool { return true }) {
		for _, arm := range SwitchArms(info, sw) {
			arms[arm.Names()] = arm
		}
	}
	dom := []float64{math.NaN(), math.Inf(-1), -1.5, math.Copysign(0, -1), 0, 2, math.Inf(1)}
	n := 0
	for _, k := range []string{"INS_F32_MIN", "INS_F32_MAX", "INS_F64_MIN", "INS_F64_MAX"} {
		arm, ok := arms[k]
		mn := strings.ToLower(strings.Replace(strings.TrimPrefix(k, "INS_"), "_", ".", 1))
		if !ok {
			c.Undecided(rule, mn, p.Pos(fd.Pos()), "arm not found")
			continue
		}
		loc := p.Pos(arm.Clause.Pos())
		lines, ok := x64ArmLines(info, arm)
		if !ok {
			c.Undecided(rule, mn, loc, "the arm is not a straight list of assembler lines and label definitions")
			continue
		}
		// the slots: first Pop is the right operand (sp0), second the left (sp1), Push the result
		var pops []string
		push := ""
		for _, s := range arm.Body {
			as, ok := s.(*ast.AssignStmt)
			if !ok || len(as.Lhs) != 1 || len(as.Rhs) != 1 {
				continue
			}
			txt := types.ExprString(as.Rhs[0])
			if strings.Contains(txt, ".Pop(") {
				pops = append(pops, types.ExprString(as.Lhs[0]))
			}
			if strings.Contains(txt, ".Push(") {
				push = types.ExprString(as.Lhs[0])
			}
		}
		if len(pops) != 2 || push == "" {
			c.Undecided(rule, mn, loc, "operand slots of the arm not recognised")
			continue
		}
		op := mn[4:]
		wide := strings.HasPrefix(mn, "f64")
		var bad []string
		und := ""
		for _, a := range dom {
			for _, b := range dom {
				const poison = uint64(0xDEADBEEF) << 32
				sa, sb := x64Slot{math.Float64bits(a), 64}, x64Slot{math.Float64bits(b), 64}
				if !wide {
					sa = x64Slot{uint64(math.Float32bits(float32(a))) | poison, 32}
					sb = x64Slot{uint64(math.Float32bits(float32(b))) | poison, 32}
				}
				bits, w, why := x64Run(lines, map[string]x64Slot{pops[1]: sa, pops[0]: sb}, push)
				if why != "" {
					und = why
					continue
				}
				var got float64
				switch {
				case wide && w == 64:
					got = math.Float64frombits(bits)
				case !wide && w == 32:
					got = float64(math.Float32frombits(uint32(bits)))
				default:
					und = fmt.Sprintf("the result is stored with a %d-bit operand", w)
					continue
				}
				want := wasmMinMax(op, a, b)
				same := (math.IsNaN(got) && math.IsNaN(want)) || (got == want && math.Signbit(got) == math.Signbit(want))
				if !same && len(bad) < 4 {
					bad = append(bad, fmt.Sprintf("%s(%s, %s) stores %s, WebAssembly answers %s", mn, fstr(a), fstr(b), fstr(got), fstr(want)))
				}
			}
		}
		n++
		if und != "" {
			c.Undecided(rule, mn, loc, und)
			continue
		}
		c.Check(len(bad) == 0, rule, mn, loc, "49 operand pairs agree with WebAssembly's "+op, "interpreting the emitted instructions: "+strings.Join(bad, "; "))
	}
	c.Min(rule, "float min/max arms of wat2x64", n, 4)
}

// x64ArmSlots: the Go variables that hold the offsets of the popped slots (in pop order) and of the pushed slot.
func x64ArmSlots(arm Arm) (pops []string, push string) {
	for _, s := range arm.Body {
		as, ok := s.(*ast.AssignStmt)
		if !ok || len(as.Lhs) != 1 || len(as.Rhs) != 1 {
			continue
		}
		txt := types.ExprString(as.Rhs[0])
		if strings.Contains(txt, ".Pop(") {
			pops = append(pops, types.ExprString(as.Lhs[0]))
		}
		if strings.Contains(txt, ".Push(") {
			push = types.ExprString(as.Lhs[0])
		}
	}
	return
}

func c02Conversions(c *Ctx, p *Prog, pk *packages.Package) {
	const rule = "x64-conversion-semantics"
	info := pk.TypesInfo
	fd := findBuildFuncIns(pk)
	if fd == nil {
		c.Undecided(rule, "anchor:wat2x64.buildFunc_ins", "", "instruction dispatcher not found")
		return
	}
	arms := map[string]Arm{}
	for _, sw := range FindSwitches(fd, func(ast.Expr) bool { return true }) {
		for _, arm := range SwitchArms(info, sw) {
			arms[arm.Names()] = arm
		}
	}
	const poison = uint64(0xDEADBEEF) << 32
	two63 := math.Ldexp(1, 63)
	floatCands := []float64{0, math.Copysign(0, -1), 0.99, -0.99, 1.5, -1.5, 65536.75, -65536.75, 2147483520, 2147483647.5, -2147483648, -2147483648.9, 2147483648, 4294967040, 4294967295.9,
		1e15, -1e15, two63 / 2, two63 - 1024, two63 - math.Ldexp(1, 39), -two63, two63, two63 + 2048, two63 + math.Ldexp(1, 40), 1.8e19, math.Ldexp(1, 64) - 2048, math.Ldexp(1, 64) - math.Ldexp(1, 40)}
	intCands := []uint64{0, 1, 0xFFFFFFFFFFFFFFFF, 0x7FFFFFFF, 0x80000000, 0xFFFFFFFF, 0x1000001, 0x20000000000001, 0x7FFFFFFFFFFFFFFF, 0x8000000000000000, 0x8000000000000401, 0x8000008000000001, 0xFFFFFFFFFFFFFBFF, 0xFFFFFF7FFFFFFFFF, 0x123456789ABCDEF0}
	n := 0
	for _, it := range []string{"I32", "I64"} {
		for _, ft := range []string{"F32", "F64"} {
			for _, sg := range []string{"S", "U"} {
				for _, dir := range []string{"trunc", "convert"} {
					k := "INS_" + it + "_TRUNC_" + ft + "_" + sg
					mn := strings.ToLower(it) + ".trunc_" + strings.ToLower(ft) + "_" + strings.ToLower(sg)
					if dir == "convert" {
						k = "INS_" + ft + "_CONVERT_" + it + "_" + sg
						mn = strings.ToLower(ft) + ".convert_" + strings.ToLower(it) + "_" + strings.ToLower(sg)
					}
					arm, ok := arms[k]
					if !ok {
						c.Undecided(rule, mn, p.Pos(fd.Pos()), "arm not found")
						continue
					}
					loc := p.Pos(arm.Clause.Pos())
					lines, ok := x64ArmLines(info, arm)
					pops, push := x64ArmSlots(arm)
					if !ok || len(pops) != 1 || push == "" {
						c.Undecided(rule, mn, loc, "the arm is not a straight list of assembler lines with one operand slot")
						continue
					}
					n++
					iw := 32
					if it == "I64" {
						iw = 64
					}
					var bad []string
					und := ""
					cases := 0
					if dir == "trunc" {
						for _, x := range floatCands {
							if ft == "F32" {
								x = float64(float32(x))
							}
							t := math.Trunc(x)
							// in range for the target type (out-of-range operands trap in WebAssembly: not modelled)
							var want uint64
							switch {
							case sg == "S" && iw == 32 && t >= -2147483648 && t <= 2147483647:
								want = uint64(uint32(int32(t)))
							case sg == "U" && iw == 32 && t >= 0 && t <= 4294967295:
								want = uint64(uint32(t))
							case sg == "S" && iw == 64 && t >= -two63 && t < two63:
								want = uint64(int64(t))
							case sg == "U" && iw == 64 && t >= 0 && t < 2*two63:
								want = uint64(t)
							default:
								continue
							}
							sl := x64Slot{math.Float64bits(x), 64}
							if ft == "F32" {
								sl = x64Slot{uint64(math.Float32bits(float32(x))) | poison, 32}
							}
							got, w, why := x64Run(lines, map[string]x64Slot{pops[0]: sl}, push)
							if why != "" {
								und = why
								break
							}
							cases++
							if (w != iw || got != want) && len(bad) < 3 {
								bad = append(bad, fmt.Sprintf("%s(%v) stores %#x (%d-bit store), WebAssembly answers %#x", mn, x, got, w, want))
							}
						}
					} else {
						for _, v := range intCands {
							v &= maskBits(iw)
							var f float64
							switch {
							case sg == "S" && iw == 32:
								f = float64(int32(uint32(v)))
							case sg == "U" && iw == 32:
								f = float64(uint32(v))
							case sg == "S" && iw == 64 && ft == "F32":
								f = float64(float32(int64(v)))
							case sg == "S" && iw == 64:
								f = float64(int64(v))
							case ft == "F32":
								f = float64(float32(v))
							default:
								f = float64(v)
							}
							want := math.Float64bits(f)
							fw := 64
							if ft == "F32" {
								want, fw = uint64(math.Float32bits(float32(f))), 32
							}
							sl := x64Slot{v, 64}
							if iw == 32 {
								sl = x64Slot{v | poison, 32}
							}
							got, w, why := x64Run(lines, map[string]x64Slot{pops[0]: sl}, push)
							if why != "" {
								und = why
								break
							}
							cases++
							if (w != fw || got != want) && len(bad) < 3 {
								bad = append(bad, fmt.Sprintf("%s(%#x) stores the bits %#x (%d-bit store), WebAssembly answers %#x (%v)", mn, v, got, w, want, f))
							}
						}
					}
					if und != "" {
						c.Undecided(rule, mn, loc, und)
						continue
					}
					c.Check(len(bad) == 0 && cases > 0, rule, mn, loc, fmt.Sprintf("%d in-range operands agree with WebAssembly", cases), "interpreting the emitted instructions: "+strings.Join(bad, "; "))
				}
			}
		}
	}
	c.Min(rule, "conversion arms of wat2x64", n, 16)
}

// Rule x64-template-semantics: every numeric arm of wat2x64 with a fixed signature (integer and float arithmetic,
// comparisons, bit counting, shifts and rotates, sign/zero extension, wrap, reinterpret, promote/demote, rounding) is
// interpreted over the instruction model for a grid of boundary operands (all pairs for binary instructions) and the
// stored result is compared with WebAssembly's (wasmnum.go). Operands WebAssembly traps on are skipped (the
// translators have no trap model); a divide fault of the model on operands that do not trap is a violation.
func c02TemplateSemantics(c *Ctx, p *Prog, pk *packages.Package) {
	const rule = "x64-template-semantics"
	info := pk.TypesInfo
	fd := findBuildFuncIns(pk)
	if fd == nil {
		c.Undecided(rule, "anchor:wat2x64.buildFunc_ins", "", "instruction dispatcher not found")
		return
	}
	arms := map[string]Arm{}
	for _, sw := range FindSwitches(fd, func(ast.Expr) bool { return true }) {
		for _, arm := range SwitchArms(info, sw) {
			arms[arm.Names()] = arm
		}
	}
	const poison = uint64(0xDEADBEEF) << 32
	dom := map[string][]uint64{
		"i32": {0, 1, 2, 3, 31, 32, 33, 0x7F, 0x80, 0xFF, 0x7FFF, 0x8000, 0xFFFF, 0x7FFFFFFF, 0x80000000, 0x80000001, 0xFFFFFFFE, 0xFFFFFFFF, 0xDEADBEEF, 0x12345678},
		"i64": {0, 1, 2, 31, 32, 63, 64, 65, 0x7FFFFFFF, 0x80000000, 0xFFFFFFFF, 0x100000000, 0x7FFFFFFFFFFFFFFF, 0x8000000000000000, 0x8000000000000001, 0xFFFFFFFFFFFFFFFE, 0xFFFFFFFFFFFFFFFF, 0xDEADBEEFCAFEBABE, 0x0123456789ABCDEF},
	}
	for _, f := range []float64{math.NaN(), math.Inf(-1), -2.5, -1.5, -0.5, math.Copysign(0, -1), 0, 0.5, 1.5, 2.5, 3, 1e10, math.Inf(1), 16777217, 0.1} {
		dom["f32"] = append(dom["f32"], uint64(math.Float32bits(float32(f))))
		dom["f64"] = append(dom["f64"], math.Float64bits(f))
	}
	dom["f32"] = append(dom["f32"], 0x7F7FFFFF, 0x00000001, 0xFFC00001)
	dom["f64"] = append(dom["f64"], 0x7FEFFFFFFFFFFFFF, 0x0000000000000001, 0xFFF8000000000001)
	width := map[string]int{"i32": 32, "f32": 32, "i64": 64, "f64": 64}
	isNaN := func(t string, b uint64) bool {
		switch t {
		case "f32":
			return math.IsNaN(float64(math.Float32frombits(uint32(b))))
		case "f64":
			return math.IsNaN(math.Float64frombits(b))
		}
		return false
	}
	n := 0
	for _, m := range wasmSpecOrder {
		sp := wasmSpec[m]
		if len(sp.Pushes) != 1 || len(sp.Pops) == 0 || len(sp.Pops) > 2 || sp.Imm != "" {
			continue
		}
		if strings.Contains(m, "trunc_f") || strings.Contains(m, "convert_i") || strings.Contains(m, "trunc_sat") {
			continue // x64-conversion-semantics
		}
		probe := make([]uint64, len(sp.Pops))
		if _, _, ok := wasmNumeric(m, probe); !ok {
			continue
		}
		k := "INS_" + strings.ToUpper(strings.ReplaceAll(m, ".", "_"))
		arm, ok := arms[k]
		if !ok {
			continue // exhaustiveness is another rule's business
		}
		loc := p.Pos(arm.Clause.Pos())
		lines, okL := x64ArmLines(info, arm)
		pops, push := x64ArmSlots(arm)
		if !okL || len(pops) != len(sp.Pops) || push == "" {
			c.Undecided(rule, m, loc, "the arm is not a straight list of assembler lines with the instruction's operand slots")
			continue
		}
		n++
		aliased := false
		for _, st := range arm.Body {
			if es, ok := st.(*ast.ExprStmt); ok {
				if call, ok := es.X.(*ast.CallExpr); ok {
					if id, ok := call.Fun.(*ast.Ident); ok && id.Name == "assert" && len(call.Args) == 1 {
						if t := strings.ReplaceAll(types.ExprString(call.Args[0]), " ", ""); t == pops[0]+"=="+push || t == push+"=="+pops[0] {
							aliased = true
						}
					}
				}
			}
		}
		slot := func(t string, v uint64) x64Slot {
			if width[t] == 32 {
				return x64Slot{(v & 0xFFFFFFFF) | poison, 32}
			}
			return x64Slot{v, 64}
		}
		rt := sp.Pushes[0]
		var bad []string
		und := ""
		cases := 0
		try := func(a []uint64) {
			want, trap, _ := wasmNumeric(m, a)
			if trap || und != "" {
				return
			}
			slots := map[string]x64Slot{}
			// pops[0] is the last operand
			for i := range a {
				slots[pops[len(a)-1-i]] = slot(sp.Pops[i], a[i])
			}
			got, w, why := x64Run(lines, slots, push)
			cases++
			if why == "no store to the result slot" && aliased && len(a) == 1 {
				// the result slot is the operand slot (asserted by the arm): the value stays where it is
				got, w, why = a[0]&maskBits(width[rt]), width[rt], ""
				if width[sp.Pops[0]] != width[rt] {
					why = "operand and result of different widths share a slot and nothing is written"
				}
			}
			if strings.HasPrefix(why, "#DE") {
				if len(bad) < 3 {
					bad = append(bad, fmt.Sprintf("%s%s: %s (WebAssembly answers %#x)", m, fmtOperands(a), why, want))
				}
				return
			}
			if why != "" {
				und = why
				return
			}
			same := w == width[rt] && (got == want || (isNaN(rt, got) && isNaN(rt, want)))
			if !same && len(bad) < 3 {
				bad = append(bad, fmt.Sprintf("%s%s stores %#x (%d-bit store), WebAssembly answers %#x", m, fmtOperands(a), got, w, want))
			}
		}
		if len(sp.Pops) == 1 {
			for _, x := range dom[sp.Pops[0]] {
				try([]uint64{x})
			}
		} else {
			for _, x := range dom[sp.Pops[0]] {
				for _, y := range dom[sp.Pops[1]] {
					try([]uint64{x, y})
				}
			}
		}
		if und != "" {
			c.Undecided(rule, m, loc, und)
			continue
		}
		c.Check(len(bad) == 0 && cases > 0, rule, m, loc, fmt.Sprintf("%d operand tuples agree with WebAssembly", cases), "interpreting the emitted instructions: "+strings.Join(bad, "; "))
	}
	c.Min(rule, "numeric arms of wat2x64 interpreted", n, 100)
}

func fmtOperands(a []uint64) string {
	var s []string
	for _, v := range a {
		s = append(s, fmt.Sprintf("%#x", v))
	}
	return "(" + strings.Join(s, ", ") + ")"
}
