package main

import (
	"fmt"
	"go/ast"
	"go/types"
	"math"
	"regexp"
	"strings"

	"golang.org/x/tools/go/packages"
)

// C02 rule x64-minmax-semantics (added after differential probing: minss/maxss answer their second operand when one
// operand is a NaN or when both are zeros, WebAssembly answers NaN and orders -0 below +0).
//
// The f32/f64 min/max arms of wat2x64 are read as a straight list of assembler lines and label definitions and
// interpreted — no code is assembled or run — over the instruction model of c02_x64sim.go, for the 49 operand pairs
// from {NaN, -inf, -1.5, -0, +0, 2, +inf}. The stored result must be WebAssembly's. An instruction outside the model
// makes the arm undecided.
//
// Rule x64-conversion-semantics does the same for the sixteen float<->integer conversion arms (added after probing
// showed cvttsd2si/cvtsi2sd used for the unsigned 64-bit conversions: wrong from 2^63 up): for a set of in-range
// operands that includes the boundaries of the signed and unsigned ranges, the stored result is the truncated /
// correctly rounded value. A 32-bit operand slot has a poisoned upper half, so a template that reads a 32-bit operand
// with a 64-bit load is seen as well.

type x64Line struct {
	label string   // a label definition (the identifier passed to gasFuncLabel)
	text  string   // an instruction line, format text
	args  []string // its arguments (expression text)
	pos   ast.Node
}

func x64ArmLines(info *types.Info, arm Arm) ([]x64Line, bool) {
	var out []x64Line
	for _, s := range arm.Body {
		es, ok := s.(*ast.ExprStmt)
		if !ok {
			continue // definitions of slots and labels
		}
		call, ok := es.X.(*ast.CallExpr)
		if !ok {
			return nil, false
		}
		if f := fprintfFormat(info, call); f != "" {
			var args []string
			for _, a := range call.Args[2:] {
				args = append(args, types.ExprString(a))
			}
			out = append(out, x64Line{text: f, args: args, pos: call})
			continue
		}
		if se, ok := call.Fun.(*ast.SelectorExpr); ok && se.Sel.Name == "gasFuncLabel" && len(call.Args) == 2 {
			out = append(out, x64Line{label: types.ExprString(call.Args[1]), pos: call})
			continue
		}
		if fn := CalleeOf(info, call); fn != nil && fn.Pkg() != nil && fn.Pkg().Path() == "fmt" && fn.Name() == "Fprintln" {
			continue
		}
		if id, ok := call.Fun.(*ast.Ident); ok && id.Name == "assert" {
			continue // a translation-time check, writes nothing
		}
		return nil, false
	}
	return out, true
}

var reX64Ins = regexp.MustCompile(`^\s*([a-z0-9]+)\s*([^#\n]*?)\s*(#.*)?\n?$`)

func c02MinMax(c *Ctx, p *Prog, pk *packages.Package) {
	const rule = "x64-minmax-semantics"
	info := pk.TypesInfo
	fd := findBuildFuncIns(pk)
	if fd == nil {
		c.Undecided(rule, "anchor:wat2x64.buildFunc_ins", "", "instruction dispatcher not found")
		return
	}
	arms := map[string]Arm{}
	for _, sw := range FindSwitches(fd, func(ast.Expr) bool { return true }) {
		for _, arm := range SwitchArms(info, sw) {
			arms[arm.Names()] = arm
		}
	}
	dom := []float64{math.NaN(), math.Inf(-1), -1.5, math.Copysign(0, -1), 0, 2, math.Inf(1)}
	n := 0
	for _, k := range []string{"INS_F32_MIN", "INS_F32_MAX", "INS_F64_MIN", "INS_F64_MAX"} {
		arm, ok := arms[k]
		mn := strings.ToLower(strings.Replace(strings.TrimPrefix(k, "INS_"), "_", ".", 1))
		if !ok {
			c.Undecided(rule, mn, p.Pos(fd.Pos()), "arm not found")
			continue
		}
		loc := p.Pos(arm.Clause.Pos())
		lines, ok := x64ArmLines(info, arm)
		if !ok {
			c.Undecided(rule, mn, loc, "the arm is not a straight list of assembler lines and label definitions")
			continue
		}
		// the slots: first Pop is the right operand (sp0), second the left (sp1), Push the result
		var pops []string
		push := ""
		for _, s := range arm.Body {
			as, ok := s.(*ast.AssignStmt)
			if !ok || len(as.Lhs) != 1 || len(as.Rhs) != 1 {
				continue
			}
			txt := types.ExprString(as.Rhs[0])
			if strings.Contains(txt, ".Pop(") {
				pops = append(pops, types.ExprString(as.Lhs[0]))
			}
			if strings.Contains(txt, ".Push(") {
				push = types.ExprString(as.Lhs[0])
			}
		}
		if len(pops) != 2 || push == "" {
			c.Undecided(rule, mn, loc, "operand slots of the arm not recognised")
			continue
		}
		op := mn[4:]
		wide := strings.HasPrefix(mn, "f64")
		var bad []string
		und := ""
		for _, a := range dom {
			for _, b := range dom {
				const poison = uint64(0xDEADBEEF) << 32
				sa, sb := x64Slot{math.Float64bits(a), 64}, x64Slot{math.Float64bits(b), 64}
				if !wide {
					sa = x64Slot{uint64(math.Float32bits(float32(a))) | poison, 32}
					sb = x64Slot{uint64(math.Float32bits(float32(b))) | poison, 32}
				}
				bits, w, why := x64Run(lines, map[string]x64Slot{pops[1]: sa, pops[0]: sb}, push)
				if why != "" {
					und = why
					continue
				}
				var got float64
				switch {
				case wide && w == 64:
					got = math.Float64frombits(bits)
				case !wide && w == 32:
					got = float64(math.Float32frombits(uint32(bits)))
				default:
					und = fmt.Sprintf("the result is stored with a %d-bit operand", w)
					continue
				}
				want := wasmMinMax(op, a, b)
				same := (math.IsNaN(got) && math.IsNaN(want)) || (got == want && math.Signbit(got) == math.Signbit(want))
				if !same && len(bad) < 4 {
					bad = append(bad, fmt.Sprintf("%s(%s, %s) stores %s, WebAssembly answers %s", mn, fstr(a), fstr(b), fstr(got), fstr(want)))
				}
			}
		}
		n++
		if und != "" {
			c.Undecided(rule, mn, loc, und)
			continue
		}
		c.Check(len(bad) == 0, rule, mn, loc, "49 operand pairs agree with WebAssembly's "+op, "interpreting the emitted instructions: "+strings.Join(bad, "; "))
	}
	c.Min(rule, "float min/max arms of wat2x64", n, 4)
}

// x64ArmSlots: the Go variables that hold the offsets of the popped slots (in pop order) and of the pushed slot.
func x64ArmSlots(arm Arm) (pops []string, push string) {
	for _, s := range arm.Body {
		as, ok := s.(*ast.AssignStmt)
		if !ok || len(as.Lhs) != 1 || len(as.Rhs) != 1 {
			continue
		}
		txt := types.ExprString(as.Rhs[0])
		if strings.Contains(txt, ".Pop(") {
			pops = append(pops, types.ExprString(as.Lhs[0]))
		}
		if strings.Contains(txt, ".Push(") {
			push = types.ExprString(as.Lhs[0])
		}
	}
	return
}

func c02Conversions(c *Ctx, p *Prog, pk *packages.Package) map[string]bool {
	decided := map[string]bool{}
	const rule = "x64-conversion-semantics"
	info := pk.TypesInfo
	fd := findBuildFuncIns(pk)
	if fd == nil {
		c.Undecided(rule, "anchor:wat2x64.buildFunc_ins", "", "instruction dispatcher not found")
		return decided
	}
	arms := map[string]Arm{}
	for _, sw := range FindSwitches(fd, func(ast.Expr) bool { return true }) {
		for _, arm := range SwitchArms(info, sw) {
			arms[arm.Names()] = arm
		}
	}
	const poison = uint64(0xDEADBEEF) << 32
	two63 := math.Ldexp(1, 63)
	floatCands := []float64{0, math.Copysign(0, -1), 0.99, -0.99, 1.5, -1.5, 65536.75, -65536.75, 2147483520, 2147483647.5, -2147483648, -2147483648.9, 2147483648, 4294967040, 4294967295.9,
		1e15, -1e15, two63 / 2, two63 - 1024, two63 - math.Ldexp(1, 39), -two63, two63, two63 + 2048, two63 + math.Ldexp(1, 40), 1.8e19, math.Ldexp(1, 64) - 2048, math.Ldexp(1, 64) - math.Ldexp(1, 40)}
	intCands := []uint64{0, 1, 0xFFFFFFFFFFFFFFFF, 0x7FFFFFFF, 0x80000000, 0xFFFFFFFF, 0x1000001, 0x20000000000001, 0x7FFFFFFFFFFFFFFF, 0x8000000000000000, 0x8000000000000401, 0x8000008000000001, 0xFFFFFFFFFFFFFBFF, 0xFFFFFF7FFFFFFFFF, 0x123456789ABCDEF0}
	n := 0
	for _, it := range []string{"I32", "I64"} {
		for _, ft := range []string{"F32", "F64"} {
			for _, sg := range []string{"S", "U"} {
				for _, dir := range []string{"trunc", "convert"} {
					k := "INS_" + it + "_TRUNC_" + ft + "_" + sg
					mn := strings.ToLower(it) + ".trunc_" + strings.ToLower(ft) + "_" + strings.ToLower(sg)
					if dir == "convert" {
						k = "INS_" + ft + "_CONVERT_" + it + "_" + sg
						mn = strings.ToLower(ft) + ".convert_" + strings.ToLower(it) + "_" + strings.ToLower(sg)
					}
					arm, ok := arms[k]
					if !ok {
						c.Undecided(rule, mn, p.Pos(fd.Pos()), "arm not found")
						continue
					}
					loc := p.Pos(arm.Clause.Pos())
					lines, ok := x64ArmLines(info, arm)
					pops, push := x64ArmSlots(arm)
					if !ok || len(pops) != 1 || push == "" {
						c.Undecided(rule, mn, loc, "the arm is not a straight list of assembler lines with one operand slot")
						continue
					}
					n++
					iw := 32
					if it == "I64" {
						iw = 64
					}
					var bad []string
					und := ""
					cases := 0
					if dir == "trunc" {
						for _, x := range floatCands {
							if ft == "F32" {
								x = float64(float32(x))
							}
							t := math.Trunc(x)
							// in range for the target type (out-of-range operands trap in WebAssembly: not modelled)
							var want uint64
							switch {
							case sg == "S" && iw == 32 && t >= -2147483648 && t <= 2147483647:
								want = uint64(uint32(int32(t)))
							case sg == "U" && iw == 32 && t >= 0 && t <= 4294967295:
								want = uint64(uint32(t))
							case sg == "S" && iw == 64 && t >= -two63 && t < two63:
								want = uint64(int64(t))
							case sg == "U" && iw == 64 && t >= 0 && t < 2*two63:
								want = uint64(t)
							default:
								continue
							}
							sl := x64Slot{math.Float64bits(x), 64}
							if ft == "F32" {
								sl = x64Slot{uint64(math.Float32bits(float32(x))) | poison, 32}
							}
							got, w, why := x64Run(lines, map[string]x64Slot{pops[0]: sl}, push)
							if why != "" {
								und = why
								break
							}
							cases++
							if (w != iw || got != want) && len(bad) < 3 {
								bad = append(bad, fmt.Sprintf("%s(%v) stores %#x (%d-bit store), WebAssembly answers %#x", mn, x, got, w, want))
							}
						}
					} else {
						for _, v := range intCands {
							v &= maskBits(iw)
							var f float64
							switch {
							case sg == "S" && iw == 32:
								f = float64(int32(uint32(v)))
							case sg == "U" && iw == 32:
								f = float64(uint32(v))
							case sg == "S" && iw == 64 && ft == "F32":
								f = float64(float32(int64(v)))
							case sg == "S" && iw == 64:
								f = float64(int64(v))
							case ft == "F32":
								f = float64(float32(v))
							default:
								f = float64(v)
							}
							want := math.Float64bits(f)
							fw := 64
							if ft == "F32" {
								want, fw = uint64(math.Float32bits(float32(f))), 32
							}
							sl := x64Slot{v, 64}
							if iw == 32 {
								sl = x64Slot{v | poison, 32}
							}
							got, w, why := x64Run(lines, map[string]x64Slot{pops[0]: sl}, push)
							if why != "" {
								und = why
								break
							}
							cases++
							if (w != fw || got != want) && len(bad) < 3 {
								bad = append(bad, fmt.Sprintf("%s(%#x) stores the bits %#x (%d-bit store), WebAssembly answers %#x (%v)", mn, v, got, w, want, f))
							}
						}
					}
					if und != "" {
						c.Undecided(rule, mn, loc, und)
						continue
					}
					decided[mn] = true
					c.Check(len(bad) == 0 && cases > 0, rule, mn, loc, fmt.Sprintf("%d in-range operands agree with WebAssembly", cases), "interpreting the emitted instructions: "+strings.Join(bad, "; "))
				}
			}
		}
	}
	c.Min(rule, "conversion arms of wat2x64", n, 12)
	return decided
}

func c02TemplateSemantics(c *Ctx, p *Prog, pk *packages.Package) map[string]bool {
	decided := map[string]bool{}
	const rule = "x64-template-semantics"
	info := pk.TypesInfo
	fd := findBuildFuncIns(pk)
	if fd == nil {
		c.Undecided(rule, "anchor:wat2x64.buildFunc_ins", "", "instruction dispatcher not found")
		return decided
	}
	arms := map[string]Arm{}
	for _, sw := range FindSwitches(fd, func(ast.Expr) bool { return true }) {
		for _, arm := range SwitchArms(info, sw) {
			arms[arm.Names()] = arm
		}
	}
	const poison = uint64(0xDEADBEEF) << 32
	dom := map[string][]uint64{
		"i32": {0, 1, 2, 3, 31, 32, 33, 0x7F, 0x80, 0xFF, 0x7FFF, 0x8000, 0xFFFF, 0x7FFFFFFF, 0x80000000, 0x80000001, 0xFFFFFFFE, 0xFFFFFFFF, 0xDEADBEEF, 0x12345678},
		"i64": {0, 1, 2, 31, 32, 63, 64, 65, 0x7FFFFFFF, 0x80000000, 0xFFFFFFFF, 0x100000000, 0x7FFFFFFFFFFFFFFF, 0x8000000000000000, 0x8000000000000001, 0xFFFFFFFFFFFFFFFE, 0xFFFFFFFFFFFFFFFF, 0xDEADBEEFCAFEBABE, 0x0123456789ABCDEF},
	}
	for _, f := range []float64{math.NaN(), math.Inf(-1), -2.5, -1.5, -0.5, math.Copysign(0, -1), 0, 0.5, 1.5, 2.5, 3, 1e10, math.Inf(1), 16777217, 0.1} {
		dom["f32"] = append(dom["f32"], uint64(math.Float32bits(float32(f))))
		dom["f64"] = append(dom["f64"], math.Float64bits(f))
	}
	dom["f32"] = append(dom["f32"], 0x7F7FFFFF, 0x00000001, 0xFFC00001)
	dom["f64"] = append(dom["f64"], 0x7FEFFFFFFFFFFFFF, 0x0000000000000001, 0xFFF8000000000001)
	width := map[string]int{"i32": 32, "f32": 32, "i64": 64, "f64": 64}
	isNaN := func(t string, b uint64) bool {
		switch t {
		case "f32":
			return math.IsNaN(float64(math.Float32frombits(uint32(b))))
		case "f64":
			return math.IsNaN(math.Float64frombits(b))
		}
		return false
	}
	n := 0
	for _, m := range wasmSpecOrder {
		sp := wasmSpec[m]
		if len(sp.Pushes) != 1 || len(sp.Pops) == 0 || len(sp.Pops) > 2 || sp.Imm != "" {
			continue
		}
		if strings.Contains(m, "trunc_f") || strings.Contains(m, "convert_i") || strings.Contains(m, "trunc_sat") {
			continue // x64-conversion-semantics
		}
		probe := make([]uint64, len(sp.Pops))
		if _, _, ok := wasmNumeric(m, probe); !ok {
			continue
		}
		k := "INS_" + strings.ToUpper(strings.ReplaceAll(m, ".", "_"))
		arm, ok := arms[k]
		if !ok {
			continue // exhaustiveness is another rule's business
		}
		loc := p.Pos(arm.Clause.Pos())
		lines, okL := x64ArmLines(info, arm)
		pops, push := x64ArmSlots(arm)
		if !okL || len(pops) != len(sp.Pops) || push == "" {
			c.Undecided(rule, m, loc, "the arm is not a straight list of assembler lines with the instruction's operand slots")
			continue
		}
		n++
		aliased := false
		for _, st := range arm.Body {
			if es, ok := st.(*ast.ExprStmt); ok {
				if call, ok := es.X.(*ast.CallExpr); ok {
					if id, ok := call.Fun.(*ast.Ident); ok && id.Name == "assert" && len(call.Args) == 1 {
						if t := strings.ReplaceAll(types.ExprString(call.Args[0]), " ", ""); t == pops[0]+"=="+push || t == push+"=="+pops[0] {
							aliased = true
						}
					}
				}
			}
		}
		slot := func(t string, v uint64) x64Slot {
			if width[t] == 32 {
				return x64Slot{(v & 0xFFFFFFFF) | poison, 32}
			}
			return x64Slot{v, 64}
		}
		rt := sp.Pushes[0]
		var bad []string
		und := ""
		cases := 0
		try := func(a []uint64) {
			want, trap, _ := wasmNumeric(m, a)
			if trap || und != "" {
				return
			}
			slots := map[string]x64Slot{}
			// pops[0] is the last operand
			for i := range a {
				slots[pops[len(a)-1-i]] = slot(sp.Pops[i], a[i])
			}
			got, w, why := x64Run(lines, slots, push)
			cases++
			if why == "no store to the result slot" && aliased && len(a) == 1 {
				// the result slot is the operand slot (asserted by the arm): the value stays where it is
				got, w, why = a[0]&maskBits(width[rt]), width[rt], ""
				if width[sp.Pops[0]] != width[rt] {
					why = "operand and result of different widths share a slot and nothing is written"
				}
			}
			if strings.HasPrefix(why, "#DE") {
				if len(bad) < 3 {
					bad = append(bad, fmt.Sprintf("%s%s: %s (WebAssembly answers %#x)", m, fmtOperands(a), why, want))
				}
				return
			}
			if why != "" {
				und = why
				return
			}
			same := w == width[rt] && (got == want || (isNaN(rt, got) && isNaN(rt, want)))
			if !same && len(bad) < 3 {
				bad = append(bad, fmt.Sprintf("%s%s stores %#x (%d-bit store), WebAssembly answers %#x", m, fmtOperands(a), got, w, want))
			}
		}
		if len(sp.Pops) == 1 {
			for _, x := range dom[sp.Pops[0]] {
				try([]uint64{x})
			}
		} else {
			for _, x := range dom[sp.Pops[0]] {
				for _, y := range dom[sp.Pops[1]] {
					try([]uint64{x, y})
				}
			}
		}
		if und != "" {
			c.Undecided(rule, m, loc, und)
			continue
		}
		decided[m] = true
		c.Check(len(bad) == 0 && cases > 0, rule, m, loc, fmt.Sprintf("%d operand tuples agree with WebAssembly", cases), "interpreting the emitted instructions: "+strings.Join(bad, "; "))
	}
	c.Min(rule, "numeric arms of wat2x64 interpreted", n, 80)
	return decided
}

func fmtOperands(a []uint64) string {
	var s []string
	for _, v := range a {
		s = append(s, fmt.Sprintf("%#x", v))
	}
	return "(" + strings.Join(s, ", ") + ")"
}

// Rule x64-memory-access-semantics: the 23 load and store arms of wat2x64 are interpreted with a linear memory behind
// the memory-base symbol. A load must answer the bytes at address + offset, little endian, extended as the mnemonic
// says, whatever the upper half of the address slot holds; a store must write exactly the low bytes of the value at
// address + offset and nothing else.
func c02MemoryAccess(c *Ctx, p *Prog, pk *packages.Package) map[string]bool {
	const rule = "x64-memory-access-semantics"
	decided := map[string]bool{}
	info := pk.TypesInfo
	fd := findBuildFuncIns(pk)
	if fd == nil {
		c.Undecided(rule, "anchor:wat2x64.buildFunc_ins", "", "instruction dispatcher not found")
		return decided
	}
	arms := map[string]Arm{}
	for _, sw := range FindSwitches(fd, func(ast.Expr) bool { return true }) {
		for _, arm := range SwitchArms(info, sw) {
			arms[arm.Names()] = arm
		}
	}
	const poison = uint64(0xDEADBEEF) << 32
	const memBase = uint64(0x0000100000000000)
	pattern := []byte{0x80, 0x7F, 0xFF, 0x01, 0xFE, 0x00, 0x81, 0x55, 0xAA, 0x33}
	n := 0
	for _, m := range wasmSpecOrder {
		sp := wasmSpec[m]
		dot := strings.IndexByte(m, '.')
		if dot < 0 {
			continue
		}
		t, op := m[:dot], m[dot+1:]
		isLoad, isStore := strings.HasPrefix(op, "load"), strings.HasPrefix(op, "store")
		if !isLoad && !isStore || sp == nil {
			continue
		}
		k := "INS_" + strings.ToUpper(strings.ReplaceAll(m, ".", "_"))
		arm, ok := arms[k]
		if !ok {
			continue
		}
		loc := p.Pos(arm.Clause.Pos())
		lines, okL := x64ArmLines(info, arm)
		pops, push := x64ArmSlots(arm)
		if !okL || (isLoad && (len(pops) != 1 || push == "")) || (isStore && len(pops) != 2) {
			c.Undecided(rule, m, loc, "the arm is not a straight list of assembler lines with the instruction's operand slots")
			continue
		}
		// the template argument that carries the memarg offset, and the memory-base symbol
		offArg, symArg := "", ""
		for _, l := range lines {
			for _, a := range l.args {
				if strings.HasSuffix(a, ".Offset") {
					offArg = a
				}
				if strings.Contains(a, "MemoryAddr") {
					symArg = a
				}
			}
		}
		if symArg == "" {
			c.Undecided(rule, m, loc, "no read of the memory-base symbol in the arm")
			continue
		}
		n++
		tw := 32
		if t == "i64" || t == "f64" {
			tw = 64
		}
		// access width in bytes
		nb := tw / 8
		for _, w := range []string{"8", "16", "32"} {
			if strings.HasPrefix(op, "load"+w) || strings.HasPrefix(op, "store"+w) {
				nb = map[string]int{"8": 1, "16": 2, "32": 4}[w]
			}
		}
		signed := strings.HasSuffix(op, "_s")
		var bad []string
		und := ""
		cases := 0
		for _, addr := range []uint64{0, 5, 0x7FFFFFF0, 0x80000000, 0xFFFFFF00} {
			for _, off := range []int64{0, 16, 65536} {
				if offArg == "" && off != 0 {
					continue
				}
				for shift := 0; shift < 3 && und == ""; shift++ {
					ea := memBase + addr + uint64(off)
					world := &x64World{Syms: map[string]uint64{symArg: memBase}, Imms: map[string]int64{offArg: off}, Mem: map[uint64]byte{}, Written: map[uint64]byte{}}
					var val uint64
					for i := 0; i < 8; i++ {
						b := pattern[(i+shift*3)%len(pattern)]
						world.Mem[ea+uint64(i)] = b
						if i < nb {
							val |= uint64(b) << (8 * uint(i))
						}
					}
					slots := map[string]x64Slot{}
					if isLoad {
						slots[pops[0]] = x64Slot{addr | poison, 32}
						want := val
						if signed && val>>(uint(nb*8)-1)&1 == 1 {
							want |= ^maskBits(nb * 8)
						}
						want &= maskBits(tw)
						got, w, why := x64RunW(lines, slots, push, world)
						cases++
						if why != "" {
							und = why
							break
						}
						if (got != want || w != tw || len(world.Written) != 0) && len(bad) < 3 {
							bad = append(bad, fmt.Sprintf("%s at address %#x offset %d over the bytes % x stores %#x (%d-bit store), WebAssembly answers %#x", m, addr, off, []byte{world.Mem[ea], world.Mem[ea+1], world.Mem[ea+2], world.Mem[ea+3], world.Mem[ea+4], world.Mem[ea+5], world.Mem[ea+6], world.Mem[ea+7]}, got, w, want))
						}
						continue
					}
					// store: pops[0] is the value, pops[1] the address
					v := uint64(0x8877665544332211) + uint64(shift)*0x0101010101010101
					if tw == 32 {
						slots[pops[0]] = x64Slot{(v & 0xFFFFFFFF) | poison, 32}
					} else {
						slots[pops[0]] = x64Slot{v, 64}
					}
					slots[pops[1]] = x64Slot{addr | poison, 32}
					_, _, why := x64RunW(lines, slots, "", world)
					cases++
					if why != "" && why != "no store to the result slot" {
						und = why
						break
					}
					okw := len(world.Written) == nb
					for i := 0; i < nb && okw; i++ {
						if b, has := world.Written[ea+uint64(i)]; !has || b != byte(v>>(8*uint(i))) {
							okw = false
						}
					}
					if !okw && len(bad) < 3 {
						var wr []string
						for a, b := range world.Written {
							wr = append(wr, fmt.Sprintf("[%#x]=%02x", a-memBase, b))
						}
						sortStrings(wr)
						bad = append(bad, fmt.Sprintf("%s of %#x at address %#x offset %d writes %s; WebAssembly writes the %d low bytes at %#x", m, v&maskBits(tw), addr, off, strings.Join(wr, " "), nb, addr+uint64(off)))
					}
				}
			}
		}
		if und != "" {
			c.Undecided(rule, m, loc, und)
			continue
		}
		decided[m] = true
		c.Check(len(bad) == 0 && cases > 0, rule, m, loc, fmt.Sprintf("%d (address, offset, content) cases agree with WebAssembly", cases), "interpreting the emitted instructions: "+strings.Join(bad, "; "))
	}
	c.Min(rule, "load and store arms of wat2x64 interpreted", n, 18)
	return decided
}
