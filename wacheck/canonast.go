package main

import (
	"fmt"
	"reflect"
	"strings"
)

// canonAST prints a syntax tree of either go/ast or the repository's Wa ast (the latter is derived from the former
// and keeps its node and field names) in one canonical form, so that a Wa function ported from Go can be compared
// with the Go function it was ported from. Positions, comments, resolution data and the keyword tokens the Wa nodes
// carry for their bilingual spellings are left out; Wa's short numeric type names are spelled as Go's.

var canonSkipField = map[string]bool{"Doc": true, "Comment": true, "Obj": true, "Scope": true, "Incomplete": true, "Unresolved": true, "Comments": true,
	"TypeParams": true, "Lparen": true, "Rparen": true, "Ellipsis": false}

// node types whose Tok field is only the spelling of a keyword
var canonKeywordTok = map[string]bool{"CaseClause": true, "DeferStmt": true, "ForStmt": true, "FuncLit": true, "FuncType": true, "IfStmt": true,
	"InterfaceType": true, "ReturnStmt": true, "StructType": true, "SwitchStmt": true, "TypeSwitchStmt": true, "MapType": true, "ArrayType": true}

var canonTypeName = map[string]string{"i8": "int8", "i16": "int16", "i32": "int32", "i64": "int64", "u8": "uint8", "u16": "uint16", "u32": "uint32", "u64": "uint64",
	"f32": "float32", "f64": "float64", "byte": "uint8", "c64": "complex64", "c128": "complex128"}

type canonOpts struct {
	Rename map[string]string // identifier renaming (e.g. this -> receiver name)
}

func canonAST(n any, o *canonOpts) string {
	var sb strings.Builder
	canonWrite(&sb, reflect.ValueOf(n), o)
	return sb.String()
}

func canonWrite(sb *strings.Builder, v reflect.Value, o *canonOpts) {
	if !v.IsValid() {
		sb.WriteString("nil")
		return
	}
	switch v.Kind() {
	case reflect.Interface, reflect.Ptr:
		if v.IsNil() {
			sb.WriteString("nil")
			return
		}
		canonWrite(sb, v.Elem(), o)
	case reflect.Slice:
		sb.WriteString("[")
		for i := 0; i < v.Len(); i++ {
			if i > 0 {
				sb.WriteString(" ")
			}
			canonWrite(sb, v.Index(i), o)
		}
		sb.WriteString("]")
	case reflect.Struct:
		t := v.Type()
		name := t.Name()
		switch name {
		case "Ident":
			id := v.FieldByName("Name").String()
			if r, ok := o.Rename[id]; ok {
				id = r
			}
			if r, ok := canonTypeName[id]; ok {
				id = r
			}
			sb.WriteString(id)
			return
		case "BasicLit":
			sb.WriteString(canonLit(v.FieldByName("Value").String()))
			return
		case "SelectorExpr":
			// the selected name is a field or method, never a local: it is not renamed
			sb.WriteString("Sel{")
			canonWrite(sb, v.FieldByName("X"), o)
			sb.WriteString(" . ")
			if sel := v.FieldByName("Sel"); sel.IsValid() && !sel.IsNil() {
				sb.WriteString(sel.Elem().FieldByName("Name").String())
			}
			sb.WriteString("}")
			return
		case "KeyValueExpr":
			// a bare identifier key may be a field name: printed as written
			sb.WriteString("KV{")
			k := v.FieldByName("Key")
			if k.IsValid() && !k.IsNil() && k.Elem().Kind() == reflect.Ptr && k.Elem().Elem().Type().Name() == "Ident" {
				sb.WriteString(k.Elem().Elem().FieldByName("Name").String())
			} else {
				canonWrite(sb, k, o)
			}
			sb.WriteString(" : ")
			canonWrite(sb, v.FieldByName("Value"), o)
			sb.WriteString("}")
			return
		case "IfStmt":
			// `if !c {A} else {B}` is printed as `if c {B} else {A}`
			cond, els := canonDeref(v.FieldByName("Cond")), canonDeref(v.FieldByName("Else"))
			for cond.IsValid() && cond.Kind() == reflect.Struct && cond.Type().Name() == "ParenExpr" {
				cond = canonDeref(cond.FieldByName("X"))
			}
			if cond.IsValid() && cond.Kind() == reflect.Struct && cond.Type().Name() == "UnaryExpr" && fmt.Sprint(cond.FieldByName("Op").Interface()) == "!" &&
				els.IsValid() && els.Kind() == reflect.Struct && els.Type().Name() == "BlockStmt" {
				sb.WriteString("IfStmt{")
				if init := v.FieldByName("Init"); init.IsValid() && !init.IsNil() {
					sb.WriteString("Init:")
					canonWrite(sb, init, o)
					sb.WriteString(" ")
				}
				sb.WriteString("Cond:")
				canonWrite(sb, cond.FieldByName("X"), o)
				sb.WriteString(" Body:")
				canonWrite(sb, v.FieldByName("Else"), o)
				sb.WriteString(" Else:")
				canonWrite(sb, v.FieldByName("Body"), o)
				sb.WriteString("}")
				return
			}
		case "ParenExpr":
			canonWrite(sb, v.FieldByName("X"), o)
			return
		case "ExprStmt":
			canonWrite(sb, v.FieldByName("X"), o)
			return
		case "CommentGroup", "Comment":
			return
		}
		sb.WriteString(name)
		sb.WriteString("{")
		first := true
		for i := 0; i < t.NumField(); i++ {
			f := t.Field(i)
			if canonSkipField[f.Name] || !f.IsExported() {
				continue
			}
			ft := f.Type
			if ft.Name() == "Pos" {
				// CallExpr.Ellipsis and the like: only whether it is set
				if f.Name == "Ellipsis" && v.Field(i).Int() != 0 {
					sb.WriteString(" variadic")
				}
				continue
			}
			if ft.Name() == "Token" {
				if canonKeywordTok[name] || f.Name == "ForTok" {
					continue
				}
				tok := fmt.Sprint(v.Field(i).Interface())
				if tok == "global" {
					tok = "var"
				}
				if !first {
					sb.WriteString(" ")
				}
				first = false
				sb.WriteString(f.Name + ":" + tok)
				continue
			}
			fv := v.Field(i)
			// drop empty optional children so that nil and absent look alike
			if (fv.Kind() == reflect.Ptr || fv.Kind() == reflect.Interface || fv.Kind() == reflect.Slice) && fv.IsNil() {
				continue
			}
			if fv.Kind() == reflect.Slice && fv.Len() == 0 {
				continue
			}
			if fv.Kind() == reflect.Bool {
				if fv.Bool() {
					if !first {
						sb.WriteString(" ")
					}
					first = false
					sb.WriteString(f.Name)
				}
				continue
			}
			if !first {
				sb.WriteString(" ")
			}
			first = false
			sb.WriteString(f.Name + ":")
			canonWrite(sb, fv, o)
		}
		sb.WriteString("}")
	case reflect.String:
		sb.WriteString(v.String())
	case reflect.Int, reflect.Int64, reflect.Int32:
		fmt.Fprint(sb, v.Int())
	default:
		fmt.Fprint(sb, v.Interface())
	}
}

func canonDeref(v reflect.Value) reflect.Value {
	for v.IsValid() && (v.Kind() == reflect.Ptr || v.Kind() == reflect.Interface) {
		if v.IsNil() {
			return reflect.Value{}
		}
		v = v.Elem()
	}
	return v
}

// canonLocals returns a renaming of the names a function declares itself (parameters, results, `:=` and var
// declarations, range variables) to positional names, in order of declaration. Printing both sides of a comparison
// under their own renaming makes the comparison insensitive to what locals are called.
func canonLocals(pre map[string]string, nodes ...any) map[string]string {
	ren := map[string]string{}
	for k, v := range pre {
		ren[k] = v
	}
	n := 0
	add := func(id reflect.Value) {
		for id.IsValid() && (id.Kind() == reflect.Ptr || id.Kind() == reflect.Interface) {
			if id.IsNil() {
				return
			}
			id = id.Elem()
		}
		if !id.IsValid() || id.Kind() != reflect.Struct || id.Type().Name() != "Ident" {
			return
		}
		name := id.FieldByName("Name").String()
		if name == "_" || name == "" {
			return
		}
		if _, ok := ren[name]; !ok {
			n++
			ren[name] = fmt.Sprintf("$%d", n)
		}
	}
	addAll := func(list reflect.Value) {
		for list.IsValid() && (list.Kind() == reflect.Ptr || list.Kind() == reflect.Interface) {
			if list.IsNil() {
				return
			}
			list = list.Elem()
		}
		if list.IsValid() && list.Kind() == reflect.Slice {
			for i := 0; i < list.Len(); i++ {
				add(list.Index(i))
			}
		}
	}
	var walk func(v reflect.Value)
	walk = func(v reflect.Value) {
		if !v.IsValid() {
			return
		}
		switch v.Kind() {
		case reflect.Interface, reflect.Ptr:
			if !v.IsNil() {
				walk(v.Elem())
			}
		case reflect.Slice:
			for i := 0; i < v.Len(); i++ {
				walk(v.Index(i))
			}
		case reflect.Struct:
			t := v.Type()
			switch t.Name() {
			case "Field", "ValueSpec":
				addAll(v.FieldByName("Names"))
			case "AssignStmt":
				if fmt.Sprint(v.FieldByName("Tok").Interface()) == ":=" {
					addAll(v.FieldByName("Lhs"))
				}
			case "RangeStmt":
				if fmt.Sprint(v.FieldByName("Tok").Interface()) == ":=" {
					add(v.FieldByName("Key"))
					add(v.FieldByName("Value"))
				}
			case "StructType", "InterfaceType":
				return // field and method names are not locals
			case "IfStmt":
				// same arm order as the printer's canonical form
				cond, els := canonDeref(v.FieldByName("Cond")), canonDeref(v.FieldByName("Else"))
				for cond.IsValid() && cond.Kind() == reflect.Struct && cond.Type().Name() == "ParenExpr" {
					cond = canonDeref(cond.FieldByName("X"))
				}
				if cond.IsValid() && cond.Kind() == reflect.Struct && cond.Type().Name() == "UnaryExpr" && fmt.Sprint(cond.FieldByName("Op").Interface()) == "!" &&
					els.IsValid() && els.Kind() == reflect.Struct && els.Type().Name() == "BlockStmt" {
					walk(v.FieldByName("Init"))
					walk(v.FieldByName("Cond"))
					walk(v.FieldByName("Else"))
					walk(v.FieldByName("Body"))
					return
				}
			}
			for i := 0; i < t.NumField(); i++ {
				f := t.Field(i)
				if !f.IsExported() || canonSkipField[f.Name] || f.Type.Name() == "Pos" || f.Type.Name() == "Token" {
					continue
				}
				switch f.Type.Kind() {
				case reflect.Interface, reflect.Ptr, reflect.Slice:
					walk(v.Field(i))
				}
			}
		}
	}
	for _, nd := range nodes {
		walk(reflect.ValueOf(nd))
	}
	return ren
}

// canonFunc prints a function's signature and body with its locals renamed positionally.
func canonFunc(typ, body any, pre map[string]string) string {
	o := &canonOpts{Rename: canonLocals(pre, typ, body)}
	return canonAST(typ, o) + "\n" + canonAST(body, o)
}

// canonLit normalises literal spellings that mean the same value in both languages.
func canonLit(s string) string {
	return s
}
