package main

import (
	"fmt"
	"reflect"
	"strings"
)

// canonAST prints a syntax tree of either go/ast or the repository's Wa ast (the latter is derived from the former
// and keeps its node and field names) in one canonical form, so that a Wa function ported from Go can be compared
// with the Go function it was ported from. Positions, comments, resolution data and the keyword tokens the Wa nodes
// carry for their bilingual spellings are left out; Wa's short numeric type names are spelled as Go's.

var canonSkipField = map[string]bool{"Doc": true, "Comment": true, "Obj": true, "Scope": true, "Incomplete": true, "Unresolved": true, "Comments": true,
	"TypeParams": true, "Lparen": true, "Rparen": true, "Ellipsis": false}

// node types whose Tok field is only the spelling of a keyword
var canonKeywordTok = map[string]bool{"CaseClause": true, "DeferStmt": true, "ForStmt": true, "FuncLit": true, "FuncType": true, "IfStmt": true,
	"InterfaceType": true, "ReturnStmt": true, "StructType": true, "SwitchStmt": true, "TypeSwitchStmt": true, "MapType": true, "ArrayType": true}

var canonTypeName = map[string]string{"i8": "int8", "i16": "int16", "i32": "int32", "i64": "int64", "u8": "uint8", "u16": "uint16", "u32": "uint32", "u64": "uint64",
	"f32": "float32", "f64": "float64", "byte": "uint8", "c64": "complex64", "c128": "complex128"}

type canonOpts struct {
	Rename map[string]string        // identifier renaming (e.g. this -> receiver name)
	Inline map[string]reflect.Value // temporaries printed as their defining expression (canonInlinable)
	busy   map[string]bool
}

func canonAST(n any, o *canonOpts) string {
	var sb strings.Builder
	canonWrite(&sb, reflect.ValueOf(n), o)
	return sb.String()
}

func canonWrite(sb *strings.Builder, v reflect.Value, o *canonOpts) {
	if !v.IsValid() {
		sb.WriteString("nil")
		return
	}
	switch v.Kind() {
	case reflect.Interface, reflect.Ptr:
		if v.IsNil() {
			sb.WriteString("nil")
			return
		}
		canonWrite(sb, v.Elem(), o)
	case reflect.Slice:
		sb.WriteString("[")
		n := 0
		for i := 0; i < v.Len(); i++ {
			var el strings.Builder
			canonWrite(&el, v.Index(i), o)
			if el.Len() == 0 {
				continue // the definition of an inlined temporary
			}
			if n > 0 {
				sb.WriteString(" ")
			}
			n++
			sb.WriteString(el.String())
		}
		sb.WriteString("]")
	case reflect.Struct:
		t := v.Type()
		name := t.Name()
		switch name {
		case "AssignStmt":
			if len(o.Inline) > 0 && fmt.Sprint(v.FieldByName("Tok").Interface()) == ":=" {
				if lhs := v.FieldByName("Lhs"); lhs.Len() == 1 {
					if id := canonDeref(lhs.Index(0)); id.IsValid() && id.Kind() == reflect.Struct && id.Type().Name() == "Ident" {
						if _, ok := o.Inline[id.FieldByName("Name").String()]; ok {
							return // printed at its uses
						}
					}
				}
			}
		case "Ident":
			id := v.FieldByName("Name").String()
			if def, ok := o.Inline[id]; ok && !o.busy[id] {
				if o.busy == nil {
					o.busy = map[string]bool{}
				}
				o.busy[id] = true
				canonWrite(sb, def, o)
				o.busy[id] = false
				return
			}
			if r, ok := o.Rename[id]; ok {
				id = r
			}
			if r, ok := canonTypeName[id]; ok {
				id = r
			}
			// the ports flatten Go's internal/bytealg package into prefixed names: bytealg_IndexByte ≡ bytealg.IndexByte
			if rest, ok := strings.CutPrefix(id, "bytealg_"); ok && rest != "" {
				sb.WriteString("Sel{bytealg . " + rest + "}")
				return
			}
			sb.WriteString(id)
			return
		case "BasicLit":
			sb.WriteString(canonLit(v.FieldByName("Value").String()))
			return
		case "SelectorExpr":
			// the selected name is a field or method, never a local: it is not renamed
			sb.WriteString("Sel{")
			canonWrite(sb, v.FieldByName("X"), o)
			sb.WriteString(" . ")
			if sel := v.FieldByName("Sel"); sel.IsValid() && !sel.IsNil() {
				sb.WriteString(sel.Elem().FieldByName("Name").String())
			}
			sb.WriteString("}")
			return
		case "KeyValueExpr":
			// a bare identifier key may be a field name: printed as written
			sb.WriteString("KV{")
			k := v.FieldByName("Key")
			if k.IsValid() && !k.IsNil() && k.Elem().Kind() == reflect.Ptr && k.Elem().Elem().Type().Name() == "Ident" {
				sb.WriteString(k.Elem().Elem().FieldByName("Name").String())
			} else {
				canonWrite(sb, k, o)
			}
			sb.WriteString(" : ")
			canonWrite(sb, v.FieldByName("Value"), o)
			sb.WriteString("}")
			return
		case "IfStmt":
			// `if !c {A} else {B}` is printed as `if c {B} else {A}`
			cond, els := canonDeref(v.FieldByName("Cond")), canonDeref(v.FieldByName("Else"))
			for cond.IsValid() && cond.Kind() == reflect.Struct && cond.Type().Name() == "ParenExpr" {
				cond = canonDeref(cond.FieldByName("X"))
			}
			if cond.IsValid() && cond.Kind() == reflect.Struct && cond.Type().Name() == "UnaryExpr" && fmt.Sprint(cond.FieldByName("Op").Interface()) == "!" &&
				els.IsValid() && els.Kind() == reflect.Struct && els.Type().Name() == "BlockStmt" {
				sb.WriteString("IfStmt{")
				if init := v.FieldByName("Init"); init.IsValid() && !init.IsNil() {
					sb.WriteString("Init:")
					canonWrite(sb, init, o)
					sb.WriteString(" ")
				}
				sb.WriteString("Cond:")
				canonWrite(sb, cond.FieldByName("X"), o)
				sb.WriteString(" Body:")
				canonWrite(sb, v.FieldByName("Else"), o)
				sb.WriteString(" Else:")
				canonWrite(sb, v.FieldByName("Body"), o)
				sb.WriteString("}")
				return
			}
		case "ParenExpr":
			canonWrite(sb, v.FieldByName("X"), o)
			return
		case "ExprStmt":
			canonWrite(sb, v.FieldByName("X"), o)
			return
		case "CommentGroup", "Comment":
			return
		}
		sb.WriteString(name)
		sb.WriteString("{")
		first := true
		for i := 0; i < t.NumField(); i++ {
			f := t.Field(i)
			if canonSkipField[f.Name] || !f.IsExported() {
				continue
			}
			ft := f.Type
			if ft.Name() == "Pos" {
				// CallExpr.Ellipsis and the like: only whether it is set
				if f.Name == "Ellipsis" && v.Field(i).Int() != 0 {
					sb.WriteString(" variadic")
				}
				continue
			}
			if ft.Name() == "Token" {
				if canonKeywordTok[name] || f.Name == "ForTok" {
					continue
				}
				tok := fmt.Sprint(v.Field(i).Interface())
				if tok == "global" {
					tok = "var"
				}
				if !first {
					sb.WriteString(" ")
				}
				first = false
				sb.WriteString(f.Name + ":" + tok)
				continue
			}
			fv := v.Field(i)
			// drop empty optional children so that nil and absent look alike
			if (fv.Kind() == reflect.Ptr || fv.Kind() == reflect.Interface || fv.Kind() == reflect.Slice) && fv.IsNil() {
				continue
			}
			if fv.Kind() == reflect.Slice && fv.Len() == 0 {
				continue
			}
			if fv.Kind() == reflect.Bool {
				if fv.Bool() {
					if !first {
						sb.WriteString(" ")
					}
					first = false
					sb.WriteString(f.Name)
				}
				continue
			}
			if !first {
				sb.WriteString(" ")
			}
			first = false
			sb.WriteString(f.Name + ":")
			canonWrite(sb, fv, o)
		}
		sb.WriteString("}")
	case reflect.String:
		sb.WriteString(v.String())
	case reflect.Int, reflect.Int64, reflect.Int32:
		fmt.Fprint(sb, v.Int())
	default:
		fmt.Fprint(sb, v.Interface())
	}
}

func canonDeref(v reflect.Value) reflect.Value {
	for v.IsValid() && (v.Kind() == reflect.Ptr || v.Kind() == reflect.Interface) {
		if v.IsNil() {
			return reflect.Value{}
		}
		v = v.Elem()
	}
	return v
}

// canonLocals returns a renaming of the names a function declares itself (parameters, results, `:=` and var
// declarations, range variables) to positional names, in order of declaration. Printing both sides of a comparison
// under their own renaming makes the comparison insensitive to what locals are called.
func canonLocals(pre map[string]string, nodes ...any) map[string]string {
	ren := map[string]string{}
	for k, v := range pre {
		ren[k] = v
	}
	n := 0
	add := func(id reflect.Value) {
		for id.IsValid() && (id.Kind() == reflect.Ptr || id.Kind() == reflect.Interface) {
			if id.IsNil() {
				return
			}
			id = id.Elem()
		}
		if !id.IsValid() || id.Kind() != reflect.Struct || id.Type().Name() != "Ident" {
			return
		}
		name := id.FieldByName("Name").String()
		if name == "_" || name == "" {
			return
		}
		if _, ok := ren[name]; !ok {
			n++
			ren[name] = fmt.Sprintf("$%d", n)
		}
	}
	addAll := func(list reflect.Value) {
		for list.IsValid() && (list.Kind() == reflect.Ptr || list.Kind() == reflect.Interface) {
			if list.IsNil() {
				return
			}
			list = list.Elem()
		}
		if list.IsValid() && list.Kind() == reflect.Slice {
			for i := 0; i < list.Len(); i++ {
				add(list.Index(i))
			}
		}
	}
	var walk func(v reflect.Value)
	walk = func(v reflect.Value) {
		if !v.IsValid() {
			return
		}
		switch v.Kind() {
		case reflect.Interface, reflect.Ptr:
			if !v.IsNil() {
				walk(v.Elem())
			}
		case reflect.Slice:
			for i := 0; i < v.Len(); i++ {
				walk(v.Index(i))
			}
		case reflect.Struct:
			t := v.Type()
			switch t.Name() {
			case "Field", "ValueSpec":
				addAll(v.FieldByName("Names"))
			case "AssignStmt":
				if fmt.Sprint(v.FieldByName("Tok").Interface()) == ":=" {
					addAll(v.FieldByName("Lhs"))
				}
			case "RangeStmt":
				if fmt.Sprint(v.FieldByName("Tok").Interface()) == ":=" {
					add(v.FieldByName("Key"))
					add(v.FieldByName("Value"))
				}
			case "StructType", "InterfaceType":
				return // field and method names are not locals
			case "IfStmt":
				// same arm order as the printer's canonical form
				cond, els := canonDeref(v.FieldByName("Cond")), canonDeref(v.FieldByName("Else"))
				for cond.IsValid() && cond.Kind() == reflect.Struct && cond.Type().Name() == "ParenExpr" {
					cond = canonDeref(cond.FieldByName("X"))
				}
				if cond.IsValid() && cond.Kind() == reflect.Struct && cond.Type().Name() == "UnaryExpr" && fmt.Sprint(cond.FieldByName("Op").Interface()) == "!" &&
					els.IsValid() && els.Kind() == reflect.Struct && els.Type().Name() == "BlockStmt" {
					walk(v.FieldByName("Init"))
					walk(v.FieldByName("Cond"))
					walk(v.FieldByName("Else"))
					walk(v.FieldByName("Body"))
					return
				}
			}
			for i := 0; i < t.NumField(); i++ {
				f := t.Field(i)
				if !f.IsExported() || canonSkipField[f.Name] || f.Type.Name() == "Pos" || f.Type.Name() == "Token" {
					continue
				}
				switch f.Type.Kind() {
				case reflect.Interface, reflect.Ptr, reflect.Slice:
					walk(v.Field(i))
				}
			}
		}
	}
	for _, nd := range nodes {
		walk(reflect.ValueOf(nd))
	}
	return ren
}

// canonInlinable finds the temporaries of a piece of code that can be printed as their defining expression: a name
// defined exactly once, by `x := e` with one variable on the left, never assigned, incremented, ranged over or
// address-taken anywhere else, where e is pure arithmetic over literals and over names that are themselves never
// written after their definition (parameters included), plus len/cap of such a name and conversions. Introducing or
// removing such a temporary does not change what the code computes, and printing both sides with their temporaries
// expanded makes the comparison blind to it. Name-based and conservative: a name declared twice is never expanded.
func canonInlinable(nodes ...any) map[string]reflect.Value {
	defs := map[string]reflect.Value{} // candidate definitions
	writes := map[string]int{}         // how often a name is written (definitions included)
	bad := map[string]bool{}
	identName := func(v reflect.Value) string {
		v = canonDeref(v)
		if v.IsValid() && v.Kind() == reflect.Struct && v.Type().Name() == "Ident" {
			return v.FieldByName("Name").String()
		}
		return ""
	}
	var walk func(v reflect.Value)
	walk = func(v reflect.Value) {
		if !v.IsValid() {
			return
		}
		switch v.Kind() {
		case reflect.Interface, reflect.Ptr:
			if !v.IsNil() {
				walk(v.Elem())
			}
		case reflect.Slice:
			for i := 0; i < v.Len(); i++ {
				walk(v.Index(i))
			}
		case reflect.Struct:
			t := v.Type()
			switch t.Name() {
			case "AssignStmt":
				lhs, rhs := v.FieldByName("Lhs"), v.FieldByName("Rhs")
				tok := fmt.Sprint(v.FieldByName("Tok").Interface())
				for i := 0; i < lhs.Len(); i++ {
					if n := identName(lhs.Index(i)); n != "" {
						writes[n]++
						if tok == ":=" && lhs.Len() == 1 && rhs.Len() == 1 {
							defs[n] = rhs.Index(0)
						} else {
							bad[n] = true
						}
					}
				}
			case "IncDecStmt":
				if n := identName(v.FieldByName("X")); n != "" {
					writes[n]++
					bad[n] = true
				}
			case "RangeStmt":
				for _, f := range []string{"Key", "Value"} {
					if n := identName(v.FieldByName(f)); n != "" {
						writes[n]++
						bad[n] = true
					}
				}
			case "ValueSpec", "Field":
				names := v.FieldByName("Names")
				for i := 0; names.IsValid() && i < names.Len(); i++ {
					if n := identName(names.Index(i)); n != "" {
						writes[n]++
						if t.Name() == "ValueSpec" {
							bad[n] = true
						}
					}
				}
			case "UnaryExpr":
				if fmt.Sprint(v.FieldByName("Op").Interface()) == "&" {
					if n := identName(v.FieldByName("X")); n != "" {
						bad[n] = true
					}
				}
			}
			for i := 0; i < t.NumField(); i++ {
				f := t.Field(i)
				if !f.IsExported() || canonSkipField[f.Name] {
					continue
				}
				switch f.Type.Kind() {
				case reflect.Interface, reflect.Ptr, reflect.Slice:
					walk(v.Field(i))
				}
			}
		}
	}
	for _, nd := range nodes {
		walk(reflect.ValueOf(nd))
	}
	// stable: written at most once (its definition, or being a parameter)
	stable := func(n string) bool { return writes[n] <= 1 && !bad[n] }
	var pure func(v reflect.Value, self string) bool
	pure = func(v reflect.Value, self string) bool {
		v = canonDeref(v)
		if !v.IsValid() || v.Kind() != reflect.Struct {
			return false
		}
		switch v.Type().Name() {
		case "BasicLit":
			return true
		case "Ident":
			n := v.FieldByName("Name").String()
			return n != self && writes[n] >= 1 && stable(n) // a local or parameter that is never rewritten
		case "ParenExpr":
			return pure(v.FieldByName("X"), self)
		case "BinaryExpr":
			op := fmt.Sprint(v.FieldByName("Op").Interface())
			if op == "/" || op == "%" {
				return false // may trap: moving it changes where
			}
			return pure(v.FieldByName("X"), self) && pure(v.FieldByName("Y"), self)
		case "UnaryExpr":
			op := fmt.Sprint(v.FieldByName("Op").Interface())
			return (op == "-" || op == "+" || op == "^" || op == "!") && pure(v.FieldByName("X"), self)
		case "CallExpr":
			fn := identName(v.FieldByName("Fun"))
			args := v.FieldByName("Args")
			if args.Len() != 1 {
				return false
			}
			switch fn {
			case "len", "cap":
				return identName(args.Index(0)) != "" && pure(args.Index(0), self)
			case "int", "int8", "int16", "int32", "int64", "uint", "uint8", "uint16", "uint32", "uint64", "uintptr", "byte", "rune",
				"i8", "i16", "i32", "i64", "u8", "u16", "u32", "u64":
				return pure(args.Index(0), self)
			}
		}
		return false
	}
	out := map[string]reflect.Value{}
	for n, d := range defs {
		if writes[n] == 1 && !bad[n] && pure(d, n) {
			out[n] = d
		}
	}
	return out
}

// canonOptsFor builds the printing options for a piece of code: temporaries expanded, the remaining names the code
// declares itself renamed positionally.
func canonOptsFor(pre map[string]string, nodes ...any) *canonOpts {
	inl := canonInlinable(nodes...)
	skip := map[string]string{}
	for k, v := range pre {
		skip[k] = v
	}
	for n := range inl {
		if _, has := skip[n]; !has {
			skip[n] = n // keeps the name out of the positional numbering; it is never printed
		}
	}
	return &canonOpts{Rename: canonLocals(skip, nodes...), Inline: inl}
}

// canonFunc prints a function's signature and body with its locals renamed positionally.
func canonFunc(typ, body any, pre map[string]string) string {
	o := canonOptsFor(pre, typ, body)
	return canonAST(typ, o) + "\n" + canonAST(body, o)
}

// canonLit normalises literal spellings that mean the same value in both languages.
func canonLit(s string) string {
	return s
}
