package main

import (
	"fmt"
	"reflect"
	"strings"
)

// canonAST prints a syntax tree of either go/ast or the repository's Wa ast (the latter is derived from the former
// and keeps its node and field names) in one canonical form, so that a Wa function ported from Go can be compared
// with the Go function it was ported from. Positions, comments, resolution data and the keyword tokens the Wa nodes
// carry for their bilingual spellings are left out; Wa's short numeric type names are spelled as Go's.

var canonSkipField = map[string]bool{"Doc": true, "Comment": true, "Obj": true, "Scope": true, "Incomplete": true, "Unresolved": true, "Comments": true,
	"TypeParams": true, "Lparen": true, "Rparen": true, "Ellipsis": false}

// node types whose Tok field is only the spelling of a keyword
var canonKeywordTok = map[string]bool{"CaseClause": true, "DeferStmt": true, "ForStmt": true, "FuncLit": true, "FuncType": true, "IfStmt": true,
	"InterfaceType": true, "ReturnStmt": true, "StructType": true, "SwitchStmt": true, "TypeSwitchStmt": true, "MapType": true, "ArrayType": true}

var canonTypeName = map[string]string{"i8": "int8", "i16": "int16", "i32": "int32", "i64": "int64", "u8": "uint8", "u16": "uint16", "u32": "uint32", "u64": "uint64",
	"f32": "float32", "f64": "float64", "byte": "uint8", "c64": "complex64", "c128": "complex128"}

type canonOpts struct {
	Rename map[string]string // identifier renaming (e.g. this -> receiver name)
}

func canonAST(n any, o *canonOpts) string {
	var sb strings.Builder
	canonWrite(&sb, reflect.ValueOf(n), o)
	return sb.String()
}

func canonWrite(sb *strings.Builder, v reflect.Value, o *canonOpts) {
	if !v.IsValid() {
		sb.WriteString("nil")
		return
	}
	switch v.Kind() {
	case reflect.Interface, reflect.Ptr:
		if v.IsNil() {
			sb.WriteString("nil")
			return
		}
		canonWrite(sb, v.Elem(), o)
	case reflect.Slice:
		sb.WriteString("[")
		for i := 0; i < v.Len(); i++ {
			if i > 0 {
				sb.WriteString(" ")
			}
			canonWrite(sb, v.Index(i), o)
		}
		sb.WriteString("]")
	case reflect.Struct:
		t := v.Type()
		name := t.Name()
		switch name {
		case "Ident":
			id := v.FieldByName("Name").String()
			if r, ok := o.Rename[id]; ok {
				id = r
			}
			if r, ok := canonTypeName[id]; ok {
				id = r
			}
			sb.WriteString(id)
			return
		case "BasicLit":
			sb.WriteString(canonLit(v.FieldByName("Value").String()))
			return
		case "ParenExpr":
			canonWrite(sb, v.FieldByName("X"), o)
			return
		case "ExprStmt":
			canonWrite(sb, v.FieldByName("X"), o)
			return
		case "CommentGroup", "Comment":
			return
		}
		sb.WriteString(name)
		sb.WriteString("{")
		first := true
		for i := 0; i < t.NumField(); i++ {
			f := t.Field(i)
			if canonSkipField[f.Name] || !f.IsExported() {
				continue
			}
			ft := f.Type
			if ft.Name() == "Pos" {
				// CallExpr.Ellipsis and the like: only whether it is set
				if f.Name == "Ellipsis" && v.Field(i).Int() != 0 {
					sb.WriteString(" variadic")
				}
				continue
			}
			if ft.Name() == "Token" {
				if canonKeywordTok[name] || f.Name == "ForTok" {
					continue
				}
				tok := fmt.Sprint(v.Field(i).Interface())
				if tok == "global" {
					tok = "var"
				}
				if !first {
					sb.WriteString(" ")
				}
				first = false
				sb.WriteString(f.Name + ":" + tok)
				continue
			}
			fv := v.Field(i)
			// drop empty optional children so that nil and absent look alike
			if (fv.Kind() == reflect.Ptr || fv.Kind() == reflect.Interface || fv.Kind() == reflect.Slice) && fv.IsNil() {
				continue
			}
			if fv.Kind() == reflect.Slice && fv.Len() == 0 {
				continue
			}
			if fv.Kind() == reflect.Bool {
				if fv.Bool() {
					if !first {
						sb.WriteString(" ")
					}
					first = false
					sb.WriteString(f.Name)
				}
				continue
			}
			if !first {
				sb.WriteString(" ")
			}
			first = false
			sb.WriteString(f.Name + ":")
			canonWrite(sb, fv, o)
		}
		sb.WriteString("}")
	case reflect.String:
		sb.WriteString(v.String())
	case reflect.Int, reflect.Int64, reflect.Int32:
		fmt.Fprint(sb, v.Int())
	default:
		fmt.Fprint(sb, v.Interface())
	}
}

// canonLit normalises literal spellings that mean the same value in both languages.
func canonLit(s string) string {
	return s
}
