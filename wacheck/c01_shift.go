package main

import (
	"fmt"
	"go/ast"
	"go/types"
	"strings"

	"golang.org/x/tools/go/packages"
)

// shiftAdaptProblem decides the count adaptation of a shift arm of EmitBinOp by evaluating the arm (emiteval.go) for
// every combination of operand sizes {1,2,4,8} x {1,2,4,8}: wasm's shift takes both operands at one width, so a 64-bit
// count is wrapped for a 32-bit value, a 32-bit count zero-extended (a count is never negative in Go) for a 64-bit
// value, and nothing is converted when the widths agree. How the arm is written — an if chain in place, a helper that
// answers the conversion, a switch — does not matter: only the emitted sequence for each combination does.
func shiftAdaptProblem(wir *packages.Package, arm []ast.Stmt, shiftCtor string) string {
	info := wir.TypesInfo
	// the accumulator the arm appends to
	var acc types.Object
	ast.Inspect(&ast.BlockStmt{List: arm}, func(n ast.Node) bool {
		if as, ok := n.(*ast.AssignStmt); ok && acc == nil && len(as.Lhs) == 1 && len(as.Rhs) == 1 {
			if call, ok := as.Rhs[0].(*ast.CallExpr); ok {
				if id, ok := call.Fun.(*ast.Ident); ok && id.Name == "append" && len(call.Args) > 0 && types.ExprString(call.Args[0]) == types.ExprString(as.Lhs[0]) {
					acc = identObj(info, as.Lhs[0])
				}
			}
		}
		return acc == nil
	})
	if acc == nil {
		return "no instruction list is appended to"
	}
	var probs []string
	for _, xs := range []int64{1, 2, 4, 8} {
		for _, ys := range []int64{1, 2, 4, 8} {
			ev := newEmitEval(wir)
			ev.Hook = func(e ast.Expr) (evVal, bool) {
				call, ok := ast.Unparen(e).(*ast.CallExpr)
				if !ok {
					return evVal{}, false
				}
				switch s := strings.ReplaceAll(types.ExprString(call), " ", ""); {
				case strings.HasSuffix(s, ".Type().Size()"):
					// whose size: the operand the receiver chain starts from (x / y by position in EmitBinOp's
					// signature, or a helper's parameter bound to it: resolved through the name's role)
					switch root := strings.SplitN(s, ".", 2)[0]; root {
					case "x":
						return evVal{K: evInt, I: xs}, true
					case "y":
						return evVal{K: evInt, I: ys}, true
					}
				case strings.HasSuffix(types.ExprString(call.Fun), ".Equal"):
					return evVal{K: evBool, B: false}, true // not one of the narrow result types (masking is another rule)
				}
				return evVal{}, false
			}
			env := evEnv{acc: evVal{K: evNil}}
			ev.run(arm, env)
			at := fmt.Sprintf("value %d bytes, count %d bytes", xs, ys)
			if ev.Und != "" {
				return at + ": not decided: " + ev.Und
			}
			seq := env[acc].L
			var conv []string
			shiftAt, last := -1, ""
			for i, tkn := range seq {
				if strings.HasPrefix(tkn, "NewInstConvert_") {
					conv = append(conv, tkn[:strings.Index(tkn, "(")])
				}
				if strings.HasPrefix(tkn, shiftCtor+"(") {
					shiftAt = i
				}
			}
			if shiftAt > 0 {
				last = seq[shiftAt-1]
			}
			want := ""
			switch {
			case xs <= 4 && ys == 8:
				want = "NewInstConvert_i32_wrap_i64"
			case xs == 8 && ys <= 4:
				want = "NewInstConvert_i64_extend_i32_u"
			}
			switch {
			case shiftAt < 0:
				probs = append(probs, at+": no "+shiftCtor+" is emitted")
			case want == "" && len(conv) > 0:
				probs = append(probs, at+": the widths agree but "+strings.Join(conv, ",")+" is emitted")
			case want != "" && !(len(conv) == 1 && conv[0] == want && strings.HasPrefix(last, want)):
				probs = append(probs, fmt.Sprintf("%s: the count must pass through %s immediately before the shift; emitted: %v", at, want, conv))
			}
		}
	}
	if len(probs) > 3 {
		probs = append(probs[:3], fmt.Sprintf("… %d more", len(probs)-3))
	}
	return strings.Join(probs, "; ")
}
