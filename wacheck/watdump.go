package main

import (
	"fmt"
	"os"
	"strings"
)

// watDumpPaths is a debugging aid: VERIF_WAT_DUMP=<file>:<func> prints the symbolic path summaries of one function.
func watDumpPaths(c *Ctx) bool {
	spec := os.Getenv("VERIF_WAT_DUMP")
	if spec == "" {
		return false
	}
	i := strings.LastIndex(spec, ":")
	rel, fn := spec[:i], spec[i+1:]
	m := &watModule{}
	for _, r := range strings.Split(rel, ",") {
		src, err := c.ReadFile(r)
		if err != nil {
			fmt.Println(err)
			return true
		}
		if err := parseWatFragments(r, string(src), m); err != nil {
			fmt.Println(err)
			return true
		}
	}
	f := m.ByName[fn]
	if f == nil {
		fmt.Println("no such function")
		return true
	}
	ps, err := watPaths(m, f)
	fmt.Printf("== %s %s: %d paths (%v)\n", rel, fn, len(ps), err)
	for i, p := range ps {
		fmt.Printf(" path %d end=%s %s results=%v\n", i, p.End, p.Label, p.Results)
		for _, cd := range p.Conds {
			fmt.Printf("    cond %v %s (line %d)\n", cd.Taken, cd.T, cd.Line)
		}
		for _, ev := range p.Events {
			fmt.Printf("    %s %s %v off=%d (line %d)\n", ev.Kind, ev.Name, ev.Args, ev.Off, ev.Line)
		}
	}
	return true
}
