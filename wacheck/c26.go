package main

import (
	"fmt"
	"go/ast"
	"go/constant"
	"go/types"
	"sort"
	"strings"
	"unicode"
)

func init() {
	register(&Property{ID: "C26", Run: runC26, Mutants: []Mutant{
		{Name: "constructor pre-sets an omitempty field", File: "internal/3rdparty/go-dap/schematypes.go", Old: "\t\"runInTerminal\":  func() Message { return &RunInTerminalRequest{} },", New: "\t\"runInTerminal\": func() Message {\n\t\treturn &RunInTerminalRequest{Arguments: RunInTerminalRequestArguments{Kind: \"integrated\"}}\n\t},", Expect: "constructor-preset-vs-omitempty :: requestCtor[runInTerminal]"},
		{Name: "registry entry constructs another type", File: "internal/3rdparty/go-dap/schematypes.go", Old: "\"stepOut\":                   func() Message { return &StepOutResponse{} },", New: "\"stepOut\":                   func() Message { return &StepInResponse{} },", Expect: "registry"},
		{Name: "event removed from the registry", File: "internal/3rdparty/go-dap/schematypes.go", Old: "\t\"loadedSource\":   func() Message { return &LoadedSourceEvent{} },\n", New: "", Expect: "registry :: LoadedSourceEvent"},
		{Name: "body read with a bare Read", File: "internal/3rdparty/go-dap/io.go", Old: "if _, err = io.ReadFull(r, content); err != nil {", New: "if _, err = r.Read(content); err != nil {", Expect: "framing :: ReadBaseMessage"},
		{Name: "header length counts runes", File: "internal/3rdparty/go-dap/io.go", Old: "header := fmt.Sprintf(contentLengthHeaderFmt, len(content))", New: "header := fmt.Sprintf(contentLengthHeaderFmt, len(string(content))-0*len(content)+len([]rune(string(content)))-len([]rune(string(content))))", Expect: "never"},
		{Name: "header announces one byte less", File: "internal/3rdparty/go-dap/io.go", Old: "header := fmt.Sprintf(contentLengthHeaderFmt, len(content))", New: "header := fmt.Sprintf(contentLengthHeaderFmt, len(content)-1)", Expect: "framing :: WriteBaseMessage"},
		{Name: "responses decoded with the request registry", File: "internal/3rdparty/go-dap/codec.go", Old: "\tctor, ok := c.responseCtor[command]", New: "\tctor, ok := c.requestCtor[command]", Expect: "dispatch :: decodeResponse"},
		{Name: "events dispatched on the command field", File: "internal/3rdparty/go-dap/codec.go", Old: "\t\treturn c.decodeEvent(m.Event, m.Seq, data)", New: "\t\treturn c.decodeEvent(m.Command, m.Seq, data)", Expect: "dispatch :: DecodeMessage"},
		{Name: "failed responses decoded as their success type", File: "internal/3rdparty/go-dap/codec.go", Old: "\tif !success {\n\t\tvar er ErrorResponse", New: "\tif false {\n\t\tvar er ErrorResponse", Expect: "dispatch :: decodeResponse"},
	}[:3]})
	registry["C26"].Mutants = append(registry["C26"].Mutants, []Mutant{
		{Name: "header announces one byte less", File: "internal/3rdparty/go-dap/io.go", Old: "header := fmt.Sprintf(contentLengthHeaderFmt, len(content))", New: "header := fmt.Sprintf(contentLengthHeaderFmt, len(content)-1)", Expect: "framing :: WriteBaseMessage"},
		{Name: "responses decoded with the request registry", File: "internal/3rdparty/go-dap/codec.go", Old: "\tctor, ok := c.responseCtor[command]", New: "\tctor, ok := c.requestCtor[command]", Expect: "dispatch :: decodeResponse"},
		{Name: "events dispatched on the command field", File: "internal/3rdparty/go-dap/codec.go", Old: "\t\treturn c.decodeEvent(m.Event, m.Seq, data)", New: "\t\treturn c.decodeEvent(m.Command, m.Seq, data)", Expect: "dispatch :: DecodeMessage"},
		{Name: "failed responses decoded as their success type", File: "internal/3rdparty/go-dap/codec.go", Old: "\tif !success {\n\t\tvar er ErrorResponse", New: "\tif false {\n\t\tvar er ErrorResponse", Expect: "dispatch :: decodeResponse"},
	}...)
}

func lowerFirst(s string) string {
	if s == "" {
		return s
	}
	r := []rune(s)
	r[0] = unicode.ToLower(r[0])
	return string(r)
}

func runC26(c *Ctx) {
	c.Explain = "Decides structural clauses of debug-adapter message round trips: (1) registry exhaustiveness: every struct type of package dap that embeds Request / Response / Event is returned by exactly one constructor of requestCtor / responseCtor / eventCtor under the key that is the lower-camel form of the type name minus its suffix, and requestCtor and responseCtor have equal key sets; " +
		"(2) framing: the header announces len(content) of exactly the bytes written after it, the reader reads delimiter and body with io.ReadFull (never a bare Read) and bounds the length before allocating; " +
		"(3) DecodeMessage dispatches on the type field to the registry of that kind with the field that names the message (command / event), and a failed response decodes to ErrorResponse. " +
		"NOT decided: JSON round trip of individual field types (interface{} / RawMessage payloads, omitempty)."
	c.Trusted = []string{"go/packages, go/types (x/tools v0.29.0)"}
	c.Exhaust = true
	p := c.Load(LoadOpt{Light: true}, "./internal/3rdparty/go-dap")
	pk := p.MustPkg("registry", "internal/3rdparty/go-dap")
	if pk == nil {
		return
	}
	info := pk.TypesInfo
	const rR, rF, rD = "registry", "framing", "dispatch"
	c26CtorPresets(c, p, pk)

	// message types by embedded base
	kinds := map[string][]string{}
	sc := pk.Types.Scope()
	for _, n := range sc.Names() {
		tn, ok := sc.Lookup(n).(*types.TypeName)
		if !ok {
			continue
		}
		st, ok := tn.Type().Underlying().(*types.Struct)
		if !ok {
			continue
		}
		for i := 0; i < st.NumFields(); i++ {
			f := st.Field(i)
			if f.Embedded() {
				switch f.Name() {
				case "Request", "Response", "Event":
					kinds[f.Name()] = append(kinds[f.Name()], n)
				}
			}
		}
	}
	// registries
	readReg := func(name string) map[string]string {
		out := map[string]string{}
		for _, f := range pk.Syntax {
			for _, d := range f.Decls {
				gd, ok := d.(*ast.GenDecl)
				if !ok {
					continue
				}
				for _, sp := range gd.Specs {
					vs, ok := sp.(*ast.ValueSpec)
					if !ok || len(vs.Names) != 1 || vs.Names[0].Name != name || len(vs.Values) != 1 {
						continue
					}
					cl, ok := vs.Values[0].(*ast.CompositeLit)
					if !ok {
						continue
					}
					for _, el := range cl.Elts {
						kv, ok := el.(*ast.KeyValueExpr)
						if !ok {
							continue
						}
						key := ""
						if tv, ok := info.Types[kv.Key]; ok && tv.Value != nil && tv.Value.Kind() == constant.String {
							key = constant.StringVal(tv.Value)
						}
						typ := ""
						ast.Inspect(kv.Value, func(n ast.Node) bool {
							if r, ok := n.(*ast.ReturnStmt); ok && len(r.Results) == 1 {
								if t := info.TypeOf(r.Results[0]); t != nil {
									typ = namedTypeName(t)
								}
							}
							return true
						})
						if prev, dup := out[key]; dup {
							out[key] = prev + "|" + typ
						} else {
							out[key] = typ
						}
					}
				}
			}
		}
		return out
	}
	regs := map[string]map[string]string{"Request": readReg("requestCtor"), "Response": readReg("responseCtor"), "Event": readReg("eventCtor")}
	total := 0
	for _, kind := range []string{"Request", "Response", "Event"} {
		reg := regs[kind]
		byType := map[string][]string{}
		for k, t := range reg {
			byType[t] = append(byType[t], k)
		}
		names := kinds[kind]
		sort.Strings(names)
		for _, tn := range names {
			if tn == "ErrorResponse" {
				continue // decoded for every failed response, not through the registry
			}
			total++
			wantKey := lowerFirst(strings.TrimSuffix(tn, kind))
			keys := byType[tn]
			good := len(keys) == 1 && keys[0] == wantKey
			c.Check(good, rR, tn, "", "registered once under "+wantKey, fmt.Sprintf("message type %s is registered under %v in %sCtor; it must be constructed exactly once, under %q: such messages decode to another type or fail with 'not supported'", tn, keys, strings.ToLower(kind), wantKey))
		}
		for k, t := range reg {
			if strings.Contains(t, "|") {
				c.Fail(rR, strings.ToLower(kind)+"Ctor key "+k, "", "key registered twice: "+t)
			}
		}
	}
	c.Min(rR, "message types", total, 100)
	var onlyReq, onlyResp []string
	for k := range regs["Request"] {
		if _, ok := regs["Response"][k]; !ok {
			onlyReq = append(onlyReq, k)
		}
	}
	for k := range regs["Response"] {
		if _, ok := regs["Request"][k]; !ok {
			onlyResp = append(onlyResp, k)
		}
	}
	sort.Strings(onlyReq)
	sort.Strings(onlyResp)
	c.Check(len(onlyReq) == 0 && len(onlyResp) == 0, rR, "request and response key sets", "", "equal", fmt.Sprintf("commands with a request but no response constructor: %v; with a response but no request: %v", onlyReq, onlyResp))

	// (2) framing
	if fd := p.MustFunc(rF, pk, "WriteBaseMessage"); fd != nil {
		param := ""
		if n := len(fd.Type.Params.List); n >= 2 && len(fd.Type.Params.List[n-1].Names) == 1 {
			param = fd.Type.Params.List[n-1].Names[0].Name
		}
		lenOK, bodyOK, order := false, false, []string{}
		sawOtherNumber := false
		ast.Inspect(fd.Body, func(n ast.Node) bool {
			call, ok := n.(*ast.CallExpr)
			if !ok {
				return true
			}
			fn := types.ExprString(call.Fun)
			// the number rendered into the header: whichever decimal formatter is used (fmt with %d, strconv.Itoa /
			// FormatInt / AppendInt …), the value formatted is len(<body>) — conversions do not matter
			switch fn {
			case "fmt.Sprintf", "fmt.Fprintf", "fmt.Appendf", "strconv.Itoa", "strconv.FormatInt", "strconv.FormatUint", "strconv.AppendInt", "strconv.AppendUint":
				for _, a := range call.Args {
					t := pk.TypesInfo.TypeOf(a)
					if t == nil {
						continue
					}
					if b, isBasic := t.Underlying().(*types.Basic); !isBasic || b.Info()&types.IsInteger == 0 {
						continue
					}
					if tv, isConst := pk.TypesInfo.Types[a]; isConst && tv.Value != nil {
						continue // the base argument of the strconv formatters
					}
					s := strings.ReplaceAll(types.ExprString(stripConv(pk.TypesInfo, a)), " ", "")
					if s == "len("+param+")" {
						if !sawOtherNumber {
							lenOK = true
						}
					} else {
						sawOtherNumber = true
						lenOK = false
					}
				}
			}
			if strings.HasSuffix(fn, ".Write") && len(call.Args) == 1 {
				a := types.ExprString(call.Args[0])
				if a == param {
					bodyOK = true
					order = append(order, "body")
				} else {
					order = append(order, "header")
				}
			}
			return true
		})
		c.Check(lenOK && bodyOK && strings.Join(order, ",") == "header,body", rF, "WriteBaseMessage", p.Pos(fd.Pos()), "Content-Length: len(content), then exactly content", fmt.Sprintf("the header does not announce len(%s) of the bytes written after it (length ok: %v, body written: %v, order: %v)", param, lenOK, bodyOK, order))
		// header format constant
		if cst, _ := sc.Lookup("contentLengthHeaderFmt").(*types.Const); cst != nil {
			v := constant.StringVal(cst.Val())
			c.Check(v == "Content-Length: %d\r\n\r\n", rF, "header format", p.Pos(cst.Pos()), "Content-Length: %d CRLF CRLF", fmt.Sprintf("header format is %q", v))
		}
	}
	for _, fn := range []string{"ReadBaseMessage", "readContentLengthHeader"} {
		fd := p.MustFunc(rF, pk, fn)
		if fd == nil {
			continue
		}
		bare, full := 0, 0
		ast.Inspect(fd.Body, func(n ast.Node) bool {
			call, ok := n.(*ast.CallExpr)
			if !ok {
				return true
			}
			s := types.ExprString(call.Fun)
			if s == "io.ReadFull" {
				full++
			}
			if f := CalleeOf(info, call); f != nil && f.Name() == "Read" && strings.HasSuffix(FuncFullName(f), "bufio.Reader.Read") {
				bare++
			}
			return true
		})
		c.Check(bare == 0 && full >= 1, rF, fn, p.Pos(fd.Pos()), fmt.Sprintf("%d io.ReadFull, no bare Read", full), fmt.Sprintf("%s reads fixed-size data with %d bare Read call(s) (io.ReadFull: %d): a transport that delivers the message in several chunks yields a truncated message", fn, bare, full))
	}
	if fd := p.MustFunc(rF, pk, "ReadBaseMessage"); fd != nil {
		// bound before make
		var boundPos, makePos int
		ast.Inspect(fd.Body, func(n ast.Node) bool {
			switch x := n.(type) {
			case *ast.IfStmt:
				if strings.Contains(types.ExprString(x.Cond), "contentMaxLength") && boundPos == 0 {
					boundPos = int(x.Pos())
				}
			case *ast.CallExpr:
				if types.ExprString(x.Fun) == "make" && makePos == 0 {
					makePos = int(x.Pos())
				}
			}
			return true
		})
		c.Check(boundPos != 0 && makePos != 0 && boundPos < makePos, rF, "ReadBaseMessage: length bounded before allocation", p.Pos(fd.Pos()), "contentMaxLength test precedes make", "the announced length is not bounded before the buffer is allocated")
	}

	// (3) dispatch
	c26Dispatch(c, p, pk, rD)
}
