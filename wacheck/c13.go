package main

import (
	"fmt"
	"regexp"
	"strings"

	waast "wa-lang.org/wa/internal/ast"
)

// C13 — runtime maps behave as finite maps.
//
// The map is a red-black tree written in Wa (waroot/src/runtime/map.wa). Decided here, from its parsed source:
// the left/right mirror symmetry the source itself declares for the fix-up and rotation code, the orientation of
// the key comparisons in insert and search, the transfer of the successor's entry when a node with two children is
// deleted, the routing of the back end's map operations to the runtime entry points, and the completeness of the
// generated struct key comparator.

func init() {
	mw := "waroot/src/runtime/map.wa"
	register(&Property{ID: "C13", Run: runC13, Mutants: []Mutant{
		{Name: "one-sided edit of insertFixup (else arm rotates the wrong way)", File: mw, Old: "\t\t\t\tif z == z.Parent(this).Left {\n\t\t\t\t\tz = z.Parent(this)\n\t\t\t\t\tthis.rightRotate(z)", New: "\t\t\t\tif z == z.Parent(this).Left {\n\t\t\t\t\tz = z.Parent(this)\n\t\t\t\t\tthis.leftRotate(z)", Expect: "mirror-symmetry :: mapImp.insertFixup"},
		{Name: "one-sided edit of deleteFixup (sibling colour test)", File: mw, Old: "\t\t\t\tif w.Left.Color == mapBLACK {\n\t\t\t\t\tw.Right.Color = mapBLACK", New: "\t\t\t\tif w.Right.Color == mapBLACK {\n\t\t\t\t\tw.Right.Color = mapBLACK", Expect: "mirror-symmetry :: mapImp.deleteFixup"},
		{Name: "rightRotate forgets to re-parent the moved subtree", File: mw, Old: "\ty := x.Left\n\tx.Left = y.Right\n\tif y.Right != this.NIL {\n\t\ty.Right.SetParent(x)\n\t}\n", New: "\ty := x.Left\n\tx.Left = y.Right\n", Expect: "mirror-symmetry :: mapImp.leftRotate / mapImp.rightRotate"},
		{Name: "delete keeps the wrong entry (successor's payload not moved)", File: mw, Old: "\tif y != z {\n\t\tz.Key = y.Key\n\t\tz.Val = y.Val\n\t}\n", New: "\tif y != z {\n\t\tz = y\n\t}\n", Expect: "successor-transfer"},
		{Name: "delete moves the key but not the value", File: mw, Old: "\t\tz.Key = y.Key\n\t\tz.Val = y.Val\n", New: "\t\tz.Key = y.Key\n", Expect: "successor-transfer"},
		{Name: "Delete compacts the slot of the searched node, not of the unlinked one", File: mw, Old: "\tz = this.delete(z)\n", New: "\tthis.delete(z)\n", Expect: "successor-transfer"},
		{Name: "search descends the wrong way", File: mw, Old: "\t\tif cmp := Compare(p.Key, key); cmp < 0 {\n\t\t\tp = p.Right", New: "\t\tif cmp := Compare(p.Key, key); cmp < 0 {\n\t\t\tp = p.Left", Expect: "descent-orientation :: mapImp.search"},
		{Name: "mapDelete routed to Lookup", File: mw, Old: "func mapDelete(m: *mapImp, k: interface{}) {\n\tif m == nil {\n\t\treturn\n\t}\n\tm.Delete(k)", New: "func mapDelete(m: *mapImp, k: interface{}) {\n\tif m == nil {\n\t\treturn\n\t}\n\tm.Lookup(k)", Expect: "operation-routing :: mapDelete"},
		{Name: "Compare returns -1 both ways for different comparison ids", File: "waroot/src/runtime/interface.wat.ws", Old: "\tif (result i32) ;;if l.comp > r.comp\n\t  i32.const 1", New: "\tif (result i32) ;;if l.comp > r.comp\n\t  i32.const -1", Expect: "compare-antisymmetric"},
		{Name: "Delete re-parents the left child twice after compaction", File: mw, Old: "\t\tif lastNode.Right != this.NIL {\n\t\t\tlastNode.Right.SetParent(lastNode)", New: "\t\tif lastNode.Right != this.NIL {\n\t\t\tlastNode.Left.SetParent(lastNode)", Expect: "nil-guard-target"},
		{Name: "map delete helper wraps an interface key instead of converting it", File: "internal/backends/compiler_wat/wir/value_map.go", Old: "\t\tki := NewLocal(\"ki\", ei_type)\n\t\tf.Locals = append(f.Locals, ki)\n\n\t\tif k_is_iface {\n\t\t\tf.Insts = append(f.Insts, module.EmitGenChangeInterface(k, ei_type)...)\n\t\t} else {\n\t\t\tf.Insts = append(f.Insts, module.EmitGenMakeInterface(k, ei_type)...)\n\t\t}\n\t\tf.Insts = append(f.Insts, ki.EmitPop()...)\n\n\t\tf.Insts = append(f.Insts, m.EmitPushNoRetain()...)\n\t\tf.Insts = append(f.Insts, ki.EmitPushNoRetain()...)\n\t\tf.Insts = append(f.Insts, wat.NewInstCall(\"runtime.mapDelete\"))", New: "\t\tki := NewLocal(\"ki\", ei_type)\n\t\tf.Locals = append(f.Locals, ki)\n\n\t\tf.Insts = append(f.Insts, module.EmitGenMakeInterface(k, ei_type)...)\n\t\tf.Insts = append(f.Insts, ki.EmitPop()...)\n\n\t\tf.Insts = append(f.Insts, m.EmitPushNoRetain()...)\n\t\tf.Insts = append(f.Insts, ki.EmitPushNoRetain()...)\n\t\tf.Insts = append(f.Insts, wat.NewInstCall(\"runtime.mapDelete\"))", Expect: "interface-boxing-guard"},
		{Name: "map update helper tests the value's type for the key", File: "internal/backends/compiler_wat/wir/value_map.go", Old: "\t\tif k_is_iface {\n\t\t\tf.Insts = append(f.Insts, module.EmitGenChangeInterface(k, ei_type)...)\n\t\t} else {\n\t\t\tf.Insts = append(f.Insts, module.EmitGenMakeInterface(k, ei_type)...)\n\t\t}\n\t\tf.Insts = append(f.Insts, ki.EmitPop()...)\n\n\t\tif v_is_iface {", New: "\t\tif v_is_iface {\n\t\t\tf.Insts = append(f.Insts, module.EmitGenChangeInterface(k, ei_type)...)\n\t\t} else {\n\t\t\tf.Insts = append(f.Insts, module.EmitGenMakeInterface(k, ei_type)...)\n\t\t}\n\t\tf.Insts = append(f.Insts, ki.EmitPop()...)\n\n\t\tif v_is_iface {", Expect: "interface-boxing-guard"},
		{Name: "struct key comparison skips later fields", File: "internal/backends/compiler_wat/wir/value_struct.go", Old: "\t\tblock.Insts = append(block.Insts, t1.emitCompare(t2)...)\n", New: "\t\tif i == 0 {\n\t\t\tblock.Insts = append(block.Insts, t1.emitCompare(t2)...)\n\t\t}\n", Expect: "comparator-completeness"},
	}})
}

var waTokRe = regexp.MustCompile(`[A-Za-z_\x80-\xff][A-Za-z_0-9\x80-\xff]*|[0-9][0-9a-zA-Z_.]*|"(?:[^"\\]|\\.)*"|'(?:[^'\\]|\\.)*'|==|!=|<=|>=|:=|&&|\|\||=>|\+\+|--|[^\s]`)

// waTokens tokenizes Wa source text, dropping comments.
func waTokens(src string) []string {
	var sb strings.Builder
	for i := 0; i < len(src); i++ {
		if src[i] == '/' && i+1 < len(src) && src[i+1] == '/' {
			for i < len(src) && src[i] != '\n' {
				i++
			}
			sb.WriteByte('\n')
			continue
		}
		if src[i] == '/' && i+1 < len(src) && src[i+1] == '*' {
			i += 2
			for i+1 < len(src) && !(src[i] == '*' && src[i+1] == '/') {
				i++
			}
			i++
			continue
		}
		if src[i] == '"' {
			j := i + 1
			for j < len(src) && src[j] != '"' {
				if src[j] == '\\' {
					j++
				}
				j++
			}
			sb.WriteString(src[i:min(j+1, len(src))])
			i = j
			continue
		}
		sb.WriteByte(src[i])
	}
	return waTokRe.FindAllString(sb.String(), -1)
}

var mirrorSwap = map[string]string{"Left": "Right", "Right": "Left", "leftRotate": "rightRotate", "rightRotate": "leftRotate"}

var childSlotRe = regexp.MustCompile(`(\w+) == ([^{} ]+(?: [^{} ]+)*?) \. (Left|Right) \{ ((?:[^{} ]+ )+?)\. (Left|Right) = (\w+) \} else \{ ((?:[^{} ]+ )+?)\. (Left|Right) = (\w+) \}`)

var condAndRe = regexp.MustCompile(`if ([\w .=!]+ && [\w .=!&]+?) \{`)

func sortStrings(s []string) {
	for i := 1; i < len(s); i++ {
		for j := i; j > 0 && s[j] < s[j-1]; j-- {
			s[j], s[j-1] = s[j-1], s[j]
		}
	}
}

// mirrorNorm swaps left/right names and rewrites the self-symmetric "replace x in its parent's child slot" chain to a canonical form.
func mirrorNorm(toks []string, swap bool) string {
	out := make([]string, len(toks))
	for i, t := range toks {
		if s, ok := mirrorSwap[t]; ok && swap {
			out[i] = s
		} else {
			out[i] = t
		}
	}
	s := strings.Join(out, " ")
	// `a && b` over side-effect-free comparisons is commutative: order the operands
	s = condAndRe.ReplaceAllStringFunc(s, func(m string) string {
		g := condAndRe.FindStringSubmatch(m)
		parts := strings.Split(g[1], " && ")
		sortStrings(parts)
		return "if " + strings.Join(parts, " && ") + " {"
	})
	s = childSlotRe.ReplaceAllStringFunc(s, func(m string) string {
		g := childSlotRe.FindStringSubmatch(m)
		// g[1]=x g[2]=P g[3]=side g[4]=P' g[5]=side' g[6]=rhs g[7]=P'' g[8]=side'' g[9]=rhs'
		if strings.TrimSpace(g[2]) == strings.TrimSpace(g[4]) && strings.TrimSpace(g[4]) == strings.TrimSpace(g[7]) && g[3] == g[5] && g[8] != g[3] && g[6] == g[9] {
			return "CHILDSLOT ( " + g[1] + " , " + strings.TrimSpace(g[2]) + " ) = " + g[6]
		}
		return m
	})
	return s
}

func waSrc(std *waStd, f *waFile, n waast.Node) string {
	a, b := std.Fset.Position(n.Pos()).Offset, std.Fset.Position(n.End()).Offset
	if a < 0 || b > len(f.Src) || a >= b {
		return ""
	}
	return string(f.Src[a:b])
}

func firstDiff(a, b string) string {
	ta, tb := strings.Fields(a), strings.Fields(b)
	for i := 0; i < len(ta) && i < len(tb); i++ {
		if ta[i] != tb[i] {
			lo := max(0, i-6)
			return fmt.Sprintf("…%s  ≠  …%s", strings.Join(ta[lo:min(len(ta), i+6)], " "), strings.Join(tb[lo:min(len(tb), i+6)], " "))
		}
	}
	return fmt.Sprintf("one side has %d tokens, the other %d", len(ta), len(tb))
}

func runC13(c *Ctx) {
	c.Explain = "Decides structural clauses of the runtime map (a red-black tree in waroot/src/runtime/map.wa) from its parsed source: (1) mirror-symmetry: the else arms of insertFixup and deleteFixup equal their then arms with Left/Right and leftRotate/rightRotate exchanged (the source states this invariant), and leftRotate equals rightRotate under the same exchange; " +
		"(2) descent-orientation: insert and search descend left exactly when the probe key compares below the node's key and right when above; (3) successor-transfer: when delete unlinks the successor of a node with two children, every payload field (Key, Val) of the successor is moved into the node, delete returns the unlinked node, and Delete compacts the node list for that returned node; " +
		"(4) operation-routing: each runtime entry point the back end calls (mapMake, mapUpdate, mapLookup, mapDelete, mapLen, mapNext) exists with the arity the back end uses and forwards to the method of its role; (5) comparator-completeness: the generated struct key comparison compares every field unconditionally, in order; " +
		"(6) nil-guard-target: every `if X.Left != this.NIL {…}` (or .Right) in map.wa works on the child it tested, not on the other one; (7) interface-boxing-guard: every MakeInterface site of the generated map helpers is the else arm of the `is interface` test of that operand's type, with ChangeInterface in the then arm. " +
		"(8) range-stable-under-delete: the iterator does not walk by slot number a node list that Delete compacts by moving elements (known finding). NOT decided: the red-black rebalancing itself, insertion during iteration, hashing-free complexity."
	c.Trusted = []string{"the repository's Wa parser as front end", "go/packages, go/types for the Go side of rule 5"}
	std := LoadWaStd(c, "mirror-symmetry")
	var mf *waFile
	for _, f := range std.Pkgs["runtime"] {
		if f.Name == "map.wa" {
			mf = f
		}
	}
	if mf == nil {
		c.Undecided("mirror-symmetry", "waroot/src/runtime/map.wa", "", "file not found")
		return
	}
	fns := map[string]*waFuncDecl{}
	for _, fd := range std.Funcs(mf) {
		k := fd.Name
		if fd.Recv != "" {
			k = fd.Recv + "." + fd.Name
		}
		fns[k] = fd
	}
	need := func(rule, name string) *waFuncDecl {
		fd := fns[name]
		if fd == nil || fd.Decl.Body == nil {
			c.Undecided(rule, name, mf.Rel, "function not found in map.wa")
			return nil
		}
		return fd
	}

	// (1) fix-ups
	for _, name := range []string{"mapImp.insertFixup", "mapImp.deleteFixup"} {
		fd := need("mirror-symmetry", name)
		if fd == nil {
			continue
		}
		var ifs *waast.IfStmt
		waast.Inspect(fd.Decl.Body, func(n waast.Node) bool {
			if x, ok := n.(*waast.IfStmt); ok && ifs == nil {
				if _, isBlock := x.Else.(*waast.BlockStmt); isBlock {
					ifs = x
					return false
				}
			}
			return ifs == nil
		})
		if ifs == nil {
			c.Undecided("mirror-symmetry", name, std.Pos(mf, fd.Decl.Pos()), "the left/right if-else was not found")
			continue
		}
		// condition must test which child the parent is
		cond := mirrorNorm(waTokens(waSrc(std, mf, ifs.Cond)), false)
		thenS := mirrorNorm(waTokens(waSrc(std, mf, ifs.Body)), true)
		elseS := mirrorNorm(waTokens(waSrc(std, mf, ifs.Else)), false)
		ok := thenS == elseS && strings.HasSuffix(cond, ". Left")
		detail := ""
		if thenS != elseS {
			detail = "the else arm is not the mirror image of the then arm (first difference, then-arm mirrored vs else-arm: " + firstDiff(thenS, elseS) + ")"
		} else if !ok {
			detail = "the condition does not test the left child: " + cond
		}
		c.Check(ok, "mirror-symmetry", name, std.Pos(mf, ifs.Pos()), "else arm = then arm with left and right exchanged", name+": "+detail+": one side of the tree is rebalanced differently from the other, which breaks the red-black invariants for some insertion/deletion orders")
	}
	// rotations
	if l, r := need("mirror-symmetry", "mapImp.leftRotate"), need("mirror-symmetry", "mapImp.rightRotate"); l != nil && r != nil {
		ls := mirrorNorm(waTokens(waSrc(std, mf, l.Decl.Body)), true)
		rs := mirrorNorm(waTokens(waSrc(std, mf, r.Decl.Body)), false)
		c.Check(ls == rs, "mirror-symmetry", "mapImp.leftRotate / mapImp.rightRotate", std.Pos(mf, r.Decl.Pos()), "rightRotate = leftRotate with left and right exchanged", "the two rotations are not mirror images (leftRotate mirrored vs rightRotate: "+firstDiff(ls, rs)+"): a rotation that forgets a link or a parent update corrupts the tree")
	}

	c13NilGuardTarget(c, std, mf)
	c13RangeUnderDelete(c, std, mf, fns)
	c13CompareAntisymmetric(c)

	// (2) descent orientation
	c13Descent(c, std, mf, need("descent-orientation", "mapImp.insert"), "mapImp.insert")
	c13Descent(c, std, mf, need("descent-orientation", "mapImp.search"), "mapImp.search")

	// (3) successor transfer
	if del := need("successor-transfer", "mapImp.delete"); del != nil {
		src := strings.Join(waTokens(waSrc(std, mf, del.Decl.Body)), " ")
		var probs []string
		if !strings.Contains(src, "y = this . successor ( z )") {
			c.Undecided("successor-transfer", "mapImp.delete", std.Pos(mf, del.Decl.Pos()), "the successor selection `y = this.successor(z)` was not recognised")
		} else {
			// payload fields of mapNode: every field that is not structural
			payload := []string{}
			waast.Inspect(mf.AST, func(n waast.Node) bool {
				ts, ok := n.(*waast.TypeSpec)
				if !ok || ts.Name.Name != "mapNode" {
					return true
				}
				if st, ok := ts.Type.(*waast.StructType); ok {
					for _, fl := range st.Fields.List {
						for _, nm := range fl.Names {
							switch nm.Name {
							case "parentIdx", "NodeIdx", "Left", "Right", "Color":
							default:
								payload = append(payload, nm.Name)
							}
						}
					}
				}
				return false
			})
			if len(payload) < 2 {
				c.Undecided("successor-transfer", "mapNode payload fields", mf.Rel, "fewer than two payload fields found")
			}
			// inside `if y != z { ... }`
			m := regexp.MustCompile(`if y != z \{ ([^{}]*) \}`).FindStringSubmatch(src)
			if m == nil {
				probs = append(probs, "there is no `if y != z { … }` that handles the unlinked successor")
			} else {
				for _, f := range payload {
					if !strings.Contains(m[1], "z . "+f+" = y . "+f) {
						probs = append(probs, "the successor's "+f+" is not moved into the node that stays in the tree")
					}
				}
			}
			if !regexp.MustCompile(`return y\b`).MatchString(src) {
				probs = append(probs, "delete does not return the node it unlinked")
			}
			if len(del.Results) != 1 || del.Results[0] != "*mapNode" {
				probs = append(probs, "delete's result is not the unlinked *mapNode")
			}
			if D := need("successor-transfer", "mapImp.Delete"); D != nil {
				ds := strings.Join(waTokens(waSrc(std, mf, D.Decl.Body)), " ")
				if !strings.Contains(ds, "z = this . delete ( z )") {
					probs = append(probs, "Delete keeps compacting the slot of the searched node instead of the node delete unlinked")
				}
			}
			c.Check(len(probs) == 0, "successor-transfer", "mapImp.delete / mapImp.Delete", std.Pos(mf, del.Decl.Pos()), "payload "+strings.Join(payload, ",")+" moved; unlinked node returned and compacted", "deleting a key whose node has two children: "+strings.Join(probs, "; ")+": the map then loses a different key than the one deleted")
		}
	}

	// (4) routing
	routes := []struct {
		fn     string
		params int
		method string
	}{{"mapMake", 0, ""}, {"mapUpdate", 3, "Update"}, {"mapLookup", 2, "Lookup"}, {"mapDelete", 2, "Delete"}, {"mapLen", 1, "Len"}, {"mapNext", 1, ""}}
	for _, r := range routes {
		fd := need("operation-routing", r.fn)
		if fd == nil {
			continue
		}
		var probs []string
		if len(fd.Params) != r.params {
			probs = append(probs, fmt.Sprintf("takes %d parameters, the back end passes %d", len(fd.Params), r.params))
		}
		if r.method != "" {
			src := strings.Join(waTokens(waSrc(std, mf, fd.Decl.Body)), " ")
			if !strings.Contains(src, "m . "+r.method+" (") {
				probs = append(probs, "does not forward to m."+r.method)
			}
			for _, other := range []string{"Update", "Lookup", "Delete"} {
				if other != r.method && strings.Contains(src, "m . "+other+" (") {
					probs = append(probs, "calls m."+other)
				}
			}
		}
		c.Check(len(probs) == 0, "operation-routing", r.fn, std.Pos(mf, fd.Decl.Pos()), "exists, arity and role as the back end expects", "runtime."+r.fn+" "+strings.Join(probs, "; "))
	}

	// (5) comparator completeness (Go side)
	p := c.Load(LoadOpt{Light: true}, "./internal/backends/compiler_wat/wir")
	if wp := p.MustPkg("comparator-completeness", "internal/backends/compiler_wat/wir"); wp != nil {
		c13InterfaceBoxing(c, p, wp)
		s, fd := seqOf(p, wp, "aStruct.emitCompare")
		if fd == nil {
			c.Undecided("comparator-completeness", "aStruct.emitCompare", "", "function not found")
		} else {
			good := false
			for _, e := range s.Events {
				if e.Kind == "deleg" && e.Name == "emitCompare" && e.Loop != nil && strings.HasSuffix(e.Loop.Over, "typ.fields") && len(e.Guards) == 0 {
					good = true
				}
			}
			c.Check(good, "comparator-completeness", "aStruct.emitCompare", p.Pos(fd.Pos()), "every field compared unconditionally", "the generated comparison of struct keys does not compare every field unconditionally (sequence: "+s.String()+"): two different keys compare equal and collide in the map")
		}
	}
}

// c13Descent checks `Compare(a, b) <op> 0` arms against the child they descend into.
func c13Descent(c *Ctx, std *waStd, mf *waFile, fd *waFuncDecl, name string) {
	if fd == nil {
		return
	}
	// Every assignment `V = W.Left|Right` whose direct guard (the condition of the enclosing if / else-if / case of a
	// tagless switch) is `Compare(A, B) <op> 0`, with the call written in place or bound to a local first.
	type arm struct{ a, b, op, v, side string }
	var arms []arm
	bound := map[string]*waast.CallExpr{}
	compareCall := func(e waast.Expr) *waast.CallExpr {
		for {
			pe, ok := e.(*waast.ParenExpr)
			if !ok {
				break
			}
			e = pe.X
		}
		switch x := e.(type) {
		case *waast.CallExpr:
			if id, ok := x.Fun.(*waast.Ident); ok && id.Name == "Compare" && len(x.Args) == 2 {
				return x
			}
		case *waast.Ident:
			return bound[x.Name]
		}
		return nil
	}
	bind := func(s waast.Stmt) {
		if as, ok := s.(*waast.AssignStmt); ok && len(as.Lhs) == 1 && len(as.Rhs) == 1 {
			if id, ok := as.Lhs[0].(*waast.Ident); ok {
				if call := compareCall(as.Rhs[0]); call != nil {
					bound[id.Name] = call
				} else {
					delete(bound, id.Name)
				}
			}
		}
	}
	operand := func(e waast.Expr) string { // `x.Key` or `key` -> the variable
		if se, ok := e.(*waast.SelectorExpr); ok && se.Sel.Name == "Key" {
			e = se.X
		}
		if id, ok := e.(*waast.Ident); ok {
			return id.Name
		}
		return waSrc(std, mf, e)
	}
	var walk func(list []waast.Stmt, guard waast.Expr)
	visit := func(s waast.Stmt, guard waast.Expr) {
		switch x := s.(type) {
		case *waast.AssignStmt:
			bind(x)
			if guard == nil || len(x.Lhs) != 1 || len(x.Rhs) != 1 {
				return
			}
			v, ok := x.Lhs[0].(*waast.Ident)
			se, ok2 := x.Rhs[0].(*waast.SelectorExpr)
			if !ok || !ok2 || (se.Sel.Name != "Left" && se.Sel.Name != "Right") {
				return
			}
			be, ok := guard.(*waast.BinaryExpr)
			if !ok {
				return
			}
			op := be.Op.String()
			call := compareCall(be.X)
			if lit, isLit := be.Y.(*waast.BasicLit); call == nil || !isLit || lit.Value != "0" || (op != "<" && op != ">") {
				return
			}
			arms = append(arms, arm{operand(call.Args[0]), operand(call.Args[1]), op, v.Name, se.Sel.Name})
		}
	}
	walk = func(list []waast.Stmt, guard waast.Expr) {
		for _, s := range list {
			switch x := s.(type) {
			case *waast.BlockStmt:
				walk(x.List, guard)
			case *waast.ForStmt:
				walk(x.Body.List, nil)
			case *waast.RangeStmt:
				walk(x.Body.List, nil)
			case *waast.IfStmt:
				if x.Init != nil {
					bind(x.Init)
				}
				walk(x.Body.List, x.Cond)
				switch e := x.Else.(type) {
				case *waast.IfStmt:
					walk([]waast.Stmt{e}, nil)
				case *waast.BlockStmt:
					walk(e.List, nil)
				}
			case *waast.SwitchStmt:
				if x.Init != nil {
					bind(x.Init)
				}
				if x.Tag != nil {
					continue
				}
				for _, cc := range x.Body.List {
					if cl, ok := cc.(*waast.CaseClause); ok {
						var g waast.Expr
						if len(cl.List) == 1 {
							g = cl.List[0]
						}
						walk(cl.Body, g)
					}
				}
			default:
				visit(s, guard)
			}
		}
	}
	walk(fd.Decl.Body.List, nil)
	if len(arms) < 2 {
		c.Undecided("descent-orientation", name, std.Pos(mf, fd.Decl.Pos()), "the comparison arms were not recognised")
		return
	}
	var probs []string
	for _, a := range arms {
		// which operand is the node being walked (the variable that is reassigned)?
		nodeIsA := a.a == a.v
		nodeIsB := a.b == a.v
		if nodeIsA == nodeIsB {
			probs = append(probs, "cannot tell which operand is the current node in Compare("+a.a+", "+a.b+")")
			continue
		}
		// probe < node  => Left ; probe > node => Right
		probeLess := (nodeIsB && a.op == "<") || (nodeIsA && a.op == ">")
		want := "Right"
		if probeLess {
			want = "Left"
		}
		if a.side != want {
			probs = append(probs, fmt.Sprintf("when Compare(%s, %s) %s 0 the walk goes %s; the search key is then %s than the node's key and lives in the %s subtree", a.a, a.b, a.op, a.side, map[bool]string{true: "smaller", false: "larger"}[probeLess], want))
		}
	}
	c.Check(len(probs) == 0, "descent-orientation", name, std.Pos(mf, fd.Decl.Pos()), "smaller keys to the left, larger to the right", name+": "+strings.Join(probs, "; ")+": keys inserted by one routine are not found by the other")
}
