package main

import "strings"

// E2: embedded WebAssembly 1.0 (+ bulk memory subset, typed select) instruction table.
// Source: WebAssembly Core Specification, binary format / instructions and validation.
// mnemonic -> opcode bytes, operand stack signature, natural alignment (bytes) for memory instructions.

type WasmIns struct {
	Name   string
	Op     []byte   // opcode (with 0xfc prefix for misc)
	Full   []byte   // complete encoding when the instruction has no variable immediates (else nil)
	Pops   []string // in pop order (top of stack first); nil+Poly for operand-dependent
	Pushes []string
	Poly   bool // signature depends on an immediate/operand (locals, calls, blocks, select, drop)
	Align  int  // natural alignment in bytes for loads/stores, 0 otherwise
	Imm    string
}

var wasmSpec = map[string]*WasmIns{}
var wasmSpecOrder []string

func addIns(name string, op []byte, pops, pushes []string, poly bool, align int, imm string, full bool) {
	w := &WasmIns{Name: name, Op: op, Pops: pops, Pushes: pushes, Poly: poly, Align: align, Imm: imm}
	if full {
		w.Full = op
	}
	wasmSpec[name] = w
	wasmSpecOrder = append(wasmSpecOrder, name)
}

func rep(t string, n int) []string {
	var s []string
	for i := 0; i < n; i++ {
		s = append(s, t)
	}
	return s
}

func init() {
	b := func(x ...byte) []byte { return x }
	// control
	addIns("unreachable", b(0x00), nil, nil, true, 0, "", true)
	addIns("nop", b(0x01), nil, nil, false, 0, "", true)
	addIns("block", b(0x02), nil, nil, true, 0, "blocktype", false)
	addIns("loop", b(0x03), nil, nil, true, 0, "blocktype", false)
	addIns("if", b(0x04), []string{"i32"}, nil, true, 0, "blocktype", false)
	addIns("else", b(0x05), nil, nil, true, 0, "", true)
	addIns("end", b(0x0b), nil, nil, true, 0, "", true)
	addIns("br", b(0x0c), nil, nil, true, 0, "label", false)
	addIns("br_if", b(0x0d), []string{"i32"}, nil, true, 0, "label", false)
	addIns("br_table", b(0x0e), []string{"i32"}, nil, true, 0, "labels", false)
	addIns("return", b(0x0f), nil, nil, true, 0, "", true)
	addIns("call", b(0x10), nil, nil, true, 0, "func", false)
	addIns("call_indirect", b(0x11), nil, nil, true, 0, "type,table", false)
	addIns("drop", b(0x1a), nil, nil, true, 0, "", true)
	addIns("select", b(0x1b), nil, nil, true, 0, "", false)
	addIns("local.get", b(0x20), nil, nil, true, 0, "local", false)
	addIns("local.set", b(0x21), nil, nil, true, 0, "local", false)
	addIns("local.tee", b(0x22), nil, nil, true, 0, "local", false)
	addIns("global.get", b(0x23), nil, nil, true, 0, "global", false)
	addIns("global.set", b(0x24), nil, nil, true, 0, "global", false)
	addIns("table.get", b(0x25), nil, nil, true, 0, "table", false)
	addIns("table.set", b(0x26), nil, nil, true, 0, "table", false)
	// memory
	type mem struct {
		n     string
		op    byte
		t     string
		align int
	}
	for _, m := range []mem{
		{"i32.load", 0x28, "i32", 4}, {"i64.load", 0x29, "i64", 8}, {"f32.load", 0x2a, "f32", 4}, {"f64.load", 0x2b, "f64", 8},
		{"i32.load8_s", 0x2c, "i32", 1}, {"i32.load8_u", 0x2d, "i32", 1}, {"i32.load16_s", 0x2e, "i32", 2}, {"i32.load16_u", 0x2f, "i32", 2},
		{"i64.load8_s", 0x30, "i64", 1}, {"i64.load8_u", 0x31, "i64", 1}, {"i64.load16_s", 0x32, "i64", 2}, {"i64.load16_u", 0x33, "i64", 2},
		{"i64.load32_s", 0x34, "i64", 4}, {"i64.load32_u", 0x35, "i64", 4},
	} {
		addIns(m.n, b(m.op), []string{"i32"}, []string{m.t}, false, m.align, "memarg", false)
	}
	for _, m := range []mem{
		{"i32.store", 0x36, "i32", 4}, {"i64.store", 0x37, "i64", 8}, {"f32.store", 0x38, "f32", 4}, {"f64.store", 0x39, "f64", 8},
		{"i32.store8", 0x3a, "i32", 1}, {"i32.store16", 0x3b, "i32", 2}, {"i64.store8", 0x3c, "i64", 1}, {"i64.store16", 0x3d, "i64", 2}, {"i64.store32", 0x3e, "i64", 4},
	} {
		addIns(m.n, b(m.op), []string{m.t, "i32"}, nil, false, m.align, "memarg", false)
	}
	addIns("memory.size", b(0x3f, 0x00), nil, []string{"i32"}, false, 0, "", true)
	addIns("memory.grow", b(0x40, 0x00), []string{"i32"}, []string{"i32"}, false, 0, "", true)
	addIns("memory.init", b(0xfc, 0x08), rep("i32", 3), nil, false, 0, "data", false)
	addIns("memory.copy", b(0xfc, 0x0a, 0x00, 0x00), rep("i32", 3), nil, false, 0, "", true)
	addIns("memory.fill", b(0xfc, 0x0b, 0x00), rep("i32", 3), nil, false, 0, "", true)
	// constants
	addIns("i32.const", b(0x41), nil, []string{"i32"}, false, 0, "i32", false)
	addIns("i64.const", b(0x42), nil, []string{"i64"}, false, 0, "i64", false)
	addIns("f32.const", b(0x43), nil, []string{"f32"}, false, 0, "f32", false)
	addIns("f64.const", b(0x44), nil, []string{"f64"}, false, 0, "f64", false)
	// numeric, in opcode order
	op := byte(0x45)
	un := func(n, in, out string) { addIns(n, b(op), []string{in}, []string{out}, false, 0, "", true); op++ }
	bin := func(n, in, out string) { addIns(n, b(op), []string{in, in}, []string{out}, false, 0, "", true); op++ }
	for _, t := range []string{"i32", "i64"} {
		un(t+".eqz", t, "i32")
		for _, s := range []string{"eq", "ne", "lt_s", "lt_u", "gt_s", "gt_u", "le_s", "le_u", "ge_s", "ge_u"} {
			bin(t+"."+s, t, "i32")
		}
	}
	for _, t := range []string{"f32", "f64"} {
		for _, s := range []string{"eq", "ne", "lt", "gt", "le", "ge"} {
			bin(t+"."+s, t, "i32")
		}
	}
	for _, t := range []string{"i32", "i64"} {
		for _, s := range []string{"clz", "ctz", "popcnt"} {
			un(t+"."+s, t, t)
		}
		for _, s := range []string{"add", "sub", "mul", "div_s", "div_u", "rem_s", "rem_u", "and", "or", "xor", "shl", "shr_s", "shr_u", "rotl", "rotr"} {
			bin(t+"."+s, t, t)
		}
	}
	for _, t := range []string{"f32", "f64"} {
		for _, s := range []string{"abs", "neg", "ceil", "floor", "trunc", "nearest", "sqrt"} {
			un(t+"."+s, t, t)
		}
		for _, s := range []string{"add", "sub", "mul", "div", "min", "max", "copysign"} {
			bin(t+"."+s, t, t)
		}
	}
	// conversions 0xa7..0xbf
	for _, c := range [][3]string{
		{"i32.wrap_i64", "i64", "i32"},
		{"i32.trunc_f32_s", "f32", "i32"}, {"i32.trunc_f32_u", "f32", "i32"}, {"i32.trunc_f64_s", "f64", "i32"}, {"i32.trunc_f64_u", "f64", "i32"},
		{"i64.extend_i32_s", "i32", "i64"}, {"i64.extend_i32_u", "i32", "i64"},
		{"i64.trunc_f32_s", "f32", "i64"}, {"i64.trunc_f32_u", "f32", "i64"}, {"i64.trunc_f64_s", "f64", "i64"}, {"i64.trunc_f64_u", "f64", "i64"},
		{"f32.convert_i32_s", "i32", "f32"}, {"f32.convert_i32_u", "i32", "f32"}, {"f32.convert_i64_s", "i64", "f32"}, {"f32.convert_i64_u", "i64", "f32"},
		{"f32.demote_f64", "f64", "f32"},
		{"f64.convert_i32_s", "i32", "f64"}, {"f64.convert_i32_u", "i32", "f64"}, {"f64.convert_i64_s", "i64", "f64"}, {"f64.convert_i64_u", "i64", "f64"},
		{"f64.promote_f32", "f32", "f64"},
		{"i32.reinterpret_f32", "f32", "i32"}, {"i64.reinterpret_f64", "f64", "i64"}, {"f32.reinterpret_i32", "i32", "f32"}, {"f64.reinterpret_i64", "i64", "f64"},
	} {
		un(c[0], c[1], c[2])
	}
	if op != 0xc0 {
		panic("wasmspec: numeric opcode table is inconsistent")
	}
}

// mnemonicToOpcodeConstName maps "i32.div_s" to "OpcodeI32DivS" (the vendored wasm package naming).
func mnemonicToOpcodeConstName(m string) string {
	var sb strings.Builder
	sb.WriteString("Opcode")
	up := true
	for _, r := range m {
		if r == '.' || r == '_' {
			up = true
			continue
		}
		if up && r >= 'a' && r <= 'z' {
			r = r - 'a' + 'A'
		}
		up = false
		sb.WriteRune(r)
	}
	return sb.String()
}
