package main

import (
	"fmt"
	"go/ast"
	"math"
	"regexp"
	"sort"
	"strconv"
	"strings"

	"golang.org/x/tools/go/packages"
)

// C03 rules c-prelude-minmax and c-prelude-emitted-for-users (added after differential probing: fminf/fmaxf return the
// other operand when one is a NaN and do not order -0 below +0; the repair routes min/max through F_MIN/F_MAX of the
// prelude, and the prelude is only written into the C file when an instruction that needs it was seen).
//
//   c-prelude-minmax — the bodies of F_MIN and F_MAX in _math_x.c are read as C expressions and evaluated, without
//       running any C, for every pair of operands from {NaN, -inf, -1.5, -0, +0, 2, +inf}: the value must be
//       WebAssembly's fmin/fmax (NaN if either operand is a NaN, -0 < +0, otherwise the smaller/larger).
//   c-prelude-emitted-for-users — every instruction arm whose template calls a macro or function the prelude defines
//       is an instruction for which ifUseMathX answers true; otherwise the generated file does not compile (or, with
//       an implicit declaration, calls the wrong thing).

type cTok struct {
	k string // "id", "num", "op", "eof"
	s string
}

func cLex(src string) ([]cTok, bool) {
	var out []cTok
	for i := 0; i < len(src); {
		ch := src[i]
		switch {
		case ch == ' ' || ch == '\t' || ch == '\n' || ch == '\r':
			i++
		case ch == '_' || (ch >= 'a' && ch <= 'z') || (ch >= 'A' && ch <= 'Z'):
			j := i
			for j < len(src) && (src[j] == '_' || (src[j] >= 'a' && src[j] <= 'z') || (src[j] >= 'A' && src[j] <= 'Z') || (src[j] >= '0' && src[j] <= '9')) {
				j++
			}
			out = append(out, cTok{"id", src[i:j]})
			i = j
		case ch >= '0' && ch <= '9':
			j := i
			for j < len(src) && ((src[j] >= '0' && src[j] <= '9') || src[j] == '.') {
				j++
			}
			for j < len(src) && strings.IndexByte("fFuUlL", src[j]) >= 0 {
				j++
			}
			out = append(out, cTok{"num", strings.TrimRight(src[i:j], "fFuUlL")})
			i = j
		default:
			for _, op := range []string{"||", "&&", "==", "!=", "<=", ">=", "<", ">", "?", ":", "(", ")", "+", "-", "!", ",", "*", "/"} {
				if strings.HasPrefix(src[i:], op) {
					out = append(out, cTok{"op", op})
					i += len(op)
					goto next
				}
			}
			return nil, false
		next:
		}
	}
	return append(out, cTok{"eof", ""}), true
}

type cExpr struct {
	op   string // "num", "var", "call", "?:", binary/unary operator
	s    string
	v    float64
	args []*cExpr
}

type cParser struct {
	t   []cTok
	i   int
	bad bool
}

func (p *cParser) peek() cTok { return p.t[p.i] }
func (p *cParser) eat(s string) bool {
	if p.t[p.i].k == "op" && p.t[p.i].s == s {
		p.i++
		return true
	}
	return false
}

func (p *cParser) ternary() *cExpr {
	c := p.binary(0)
	if p.eat("?") {
		a := p.ternary()
		if !p.eat(":") {
			p.bad = true
			return c
		}
		b := p.ternary()
		return &cExpr{op: "?:", args: []*cExpr{c, a, b}}
	}
	return c
}

var cPrec = []([]string){{"||"}, {"&&"}, {"==", "!="}, {"<", ">", "<=", ">="}, {"+", "-"}, {"*", "/"}}

func (p *cParser) binary(level int) *cExpr {
	if level == len(cPrec) {
		return p.unary()
	}
	l := p.binary(level + 1)
	for {
		matched := false
		for _, op := range cPrec[level] {
			if p.eat(op) {
				r := p.binary(level + 1)
				l = &cExpr{op: op, args: []*cExpr{l, r}}
				matched = true
				break
			}
		}
		if !matched {
			return l
		}
	}
}

func (p *cParser) unary() *cExpr {
	if p.eat("!") {
		return &cExpr{op: "!", args: []*cExpr{p.unary()}}
	}
	if p.eat("-") {
		return &cExpr{op: "neg", args: []*cExpr{p.unary()}}
	}
	if p.eat("(") {
		// a cast `(float)` / `(double)` or a parenthesised expression
		if t := p.peek(); t.k == "id" && (t.s == "float" || t.s == "double") && p.t[p.i+1].k == "op" && p.t[p.i+1].s == ")" {
			p.i += 2
			return p.unary()
		}
		e := p.ternary()
		if !p.eat(")") {
			p.bad = true
		}
		return e
	}
	t := p.peek()
	switch t.k {
	case "num":
		p.i++
		v, err := strconv.ParseFloat(t.s, 64)
		if err != nil {
			p.bad = true
		}
		return &cExpr{op: "num", v: v}
	case "id":
		p.i++
		if p.eat("(") {
			e := &cExpr{op: "call", s: t.s}
			if !p.eat(")") {
				for {
					e.args = append(e.args, p.ternary())
					if p.eat(")") {
						break
					}
					if !p.eat(",") {
						p.bad = true
						break
					}
				}
			}
			return e
		}
		return &cExpr{op: "var", s: t.s}
	}
	p.bad = true
	p.i++
	return &cExpr{op: "num"}
}

func cTruth(b bool) float64 {
	if b {
		return 1
	}
	return 0
}

// cEval evaluates with IEEE semantics (Go's float64 operators are C's on IEEE hardware); ok=false for a construct the
// evaluator does not know.
func cEval(e *cExpr, env map[string]float64) (float64, bool) {
	switch e.op {
	case "num":
		return e.v, true
	case "var":
		if e.s == "NAN" {
			return math.NaN(), true
		}
		v, ok := env[e.s]
		return v, ok
	case "?:":
		c, ok := cEval(e.args[0], env)
		if !ok {
			return 0, false
		}
		if c != 0 {
			return cEval(e.args[1], env)
		}
		return cEval(e.args[2], env)
	case "!":
		v, ok := cEval(e.args[0], env)
		return cTruth(v == 0), ok
	case "neg":
		v, ok := cEval(e.args[0], env)
		return -v, ok
	case "||", "&&":
		a, ok := cEval(e.args[0], env)
		if !ok {
			return 0, false
		}
		if e.op == "||" && a != 0 {
			return 1, true
		}
		if e.op == "&&" && a == 0 {
			return 0, true
		}
		b, ok := cEval(e.args[1], env)
		return cTruth(b != 0), ok
	case "call":
		var a []float64
		for _, x := range e.args {
			v, ok := cEval(x, env)
			if !ok {
				return 0, false
			}
			a = append(a, v)
		}
		switch {
		case e.s == "signbit" && len(a) == 1:
			return cTruth(math.Signbit(a[0])), true
		case e.s == "isnan" && len(a) == 1:
			return cTruth(math.IsNaN(a[0])), true
		case (e.s == "fmin" || e.s == "fminf") && len(a) == 2:
			// C: a NaN operand is treated as missing data; the order of the zeros is unspecified (glibc answers the first)
			switch {
			case math.IsNaN(a[0]):
				return a[1], true
			case math.IsNaN(a[1]):
				return a[0], true
			case a[0] < a[1]:
				return a[0], true
			case a[1] < a[0]:
				return a[1], true
			}
			return a[0], true
		case (e.s == "fmax" || e.s == "fmaxf") && len(a) == 2:
			switch {
			case math.IsNaN(a[0]):
				return a[1], true
			case math.IsNaN(a[1]):
				return a[0], true
			case a[0] > a[1]:
				return a[0], true
			case a[1] > a[0]:
				return a[1], true
			}
			return a[0], true
		}
		return 0, false
	}
	a, ok1 := cEval(e.args[0], env)
	b, ok2 := cEval(e.args[1], env)
	if !ok1 || !ok2 {
		return 0, false
	}
	switch e.op {
	case "==":
		return cTruth(a == b), true
	case "!=":
		return cTruth(a != b), true
	case "<":
		return cTruth(a < b), true
	case ">":
		return cTruth(a > b), true
	case "<=":
		return cTruth(a <= b), true
	case ">=":
		return cTruth(a >= b), true
	case "+":
		return a + b, true
	case "-":
		return a - b, true
	case "*":
		return a * b, true
	case "/":
		return a / b, true
	}
	return 0, false
}

// cMacros: function-like macros of a C source, continuation lines joined: name -> (params, body).
func cMacros(src string) map[string][2]string {
	src = strings.ReplaceAll(src, "\\\r\n", " ")
	src = strings.ReplaceAll(src, "\\\n", " ")
	re := regexp.MustCompile(`(?m)^\s*#\s*define\s+(\w+)\(([^)]*)\)\s+(.*)$`)
	out := map[string][2]string{}
	for _, m := range re.FindAllStringSubmatch(src, -1) {
		out[m[1]] = [2]string{m[2], m[3]}
	}
	return out
}

func wasmMinMax(op string, x, y float64) float64 {
	switch {
	case math.IsNaN(x) || math.IsNaN(y):
		return math.NaN()
	case x == 0 && y == 0:
		if op == "min" {
			if math.Signbit(x) {
				return x
			}
			return y
		}
		if math.Signbit(x) {
			return y
		}
		return x
	case op == "min":
		return math.Min(x, y)
	}
	return math.Max(x, y)
}

func fstr(v float64) string {
	if v == 0 && math.Signbit(v) {
		return "-0"
	}
	return strconv.FormatFloat(v, 'g', -1, 64)
}

func c03PreludeMinMax(c *Ctx) {
	const rule = "c-prelude-minmax"
	rel := "internal/wat/watutil/wat2c/_math_x.c"
	src, err := c.ReadFile(rel)
	if err != nil {
		c.Undecided(rule, "anchor:"+rel, rel, "not readable: "+err.Error())
		return
	}
	macros := cMacros(string(src))
	dom := []float64{math.NaN(), math.Inf(-1), -1.5, math.Copysign(0, -1), 0, 2, math.Inf(1)}
	n := 0
	for _, name := range []string{"F_MIN", "F_MAX"} {
		m, ok := macros[name]
		loc := rel
		if i := strings.Index(string(src), "#define "+name+"("); i >= 0 {
			loc = fmt.Sprintf("%s:%d", rel, 1+strings.Count(string(src)[:i], "\n"))
		}
		if !ok {
			c.Undecided(rule, name, loc, "macro not found in the prelude")
			continue
		}
		params := strings.Split(strings.ReplaceAll(m[0], " ", ""), ",")
		toks, lexed := cLex(m[1])
		if !lexed || len(params) != 2 {
			c.Undecided(rule, name, loc, "the macro body is not in the expression subset the evaluator reads")
			continue
		}
		ps := &cParser{t: toks}
		e := ps.ternary()
		if ps.bad || ps.peek().k != "eof" {
			c.Undecided(rule, name, loc, "the macro body is not in the expression subset the evaluator reads")
			continue
		}
		op := strings.ToLower(strings.TrimPrefix(name, "F_"))
		var bad []string
		und := false
		for _, x := range dom {
			for _, y := range dom {
				got, ok := cEval(e, map[string]float64{params[0]: x, params[1]: y})
				if !ok {
					und = true
					continue
				}
				want := wasmMinMax(op, x, y)
				same := (math.IsNaN(got) && math.IsNaN(want)) || (got == want && math.Signbit(got) == math.Signbit(want))
				if !same && len(bad) < 4 {
					bad = append(bad, fmt.Sprintf("%s(%s, %s) is %s, WebAssembly's f.%s answers %s", name, fstr(x), fstr(y), fstr(got), op, fstr(want)))
				}
			}
		}
		n++
		if und {
			c.Undecided(rule, name, loc, "the macro body uses a function the evaluator does not know")
			continue
		}
		c.Check(len(bad) == 0, rule, name, loc, "49 operand pairs agree with WebAssembly's "+op, strings.Join(bad, "; "))
	}
	c.Min(rule, "min/max macros of the C prelude", n, 2)
}

// c03PreludeUsers: arms whose templates call something the prelude defines are arms ifUseMathX answers true for.
func c03PreludeUsers(c *Ctx, p *Prog, pk *packages.Package, by map[string]TemplArm) {
	const rule = "c-prelude-emitted-for-users"
	rel := "internal/wat/watutil/wat2c/_math_x.c"
	src, err := c.ReadFile(rel)
	if err != nil {
		c.Undecided(rule, "anchor:"+rel, rel, "not readable: "+err.Error())
		return
	}
	defined := map[string]bool{}
	for name := range cMacros(string(src)) {
		defined[name] = true
	}
	for _, m := range regexp.MustCompile(`(?m)^static inline \w[\w ]*\s+(\w+)\(`).FindAllStringSubmatch(string(src), -1) {
		defined[m[1]] = true
	}
	for _, m := range regexp.MustCompile(`(?m)^POPCOUNT_DEFINE_PORTABLE\((\w+),`).FindAllStringSubmatch(string(src), -1) {
		defined[m[1]] = true
	}
	// the instructions ifUseMathX answers true for
	var fd *ast.FuncDecl
	for name, d := range AllFuncDecls(pk) {
		if strings.HasSuffix(name, ".ifUseMathX") {
			fd = d
		}
	}
	if fd == nil {
		c.Undecided(rule, "anchor:ifUseMathX", "", "function not found")
		return
	}
	enabled := map[string]bool{}
	for _, sw := range FindSwitches(fd, func(ast.Expr) bool { return true }) {
		for _, arm := range SwitchArms(pk.TypesInfo, sw) {
			ret := false
			for _, s := range arm.Body {
				if r, ok := s.(*ast.ReturnStmt); ok && len(r.Results) == 1 {
					if id, ok := r.Results[0].(*ast.Ident); ok && id.Name == "true" {
						ret = true
					}
				}
			}
			if ret {
				for _, k := range arm.Consts {
					enabled[k.Name] = true
				}
			}
		}
	}
	reCall := regexp.MustCompile(`\b([A-Za-z_]\w*)\(`)
	var toks []string
	for k := range by {
		toks = append(toks, k)
	}
	sort.Strings(toks)
	n := 0
	for _, k := range toks {
		a := by[k]
		used := map[string]bool{}
		for _, v := range a.Variants {
			for _, l := range v.Lines {
				code := l.Format
				if i := strings.Index(code, "//"); i >= 0 {
					code = code[:i]
				}
				for _, m := range reCall.FindAllStringSubmatch(code, -1) {
					if defined[m[1]] {
						used[m[1]] = true
					}
				}
			}
		}
		if len(used) == 0 {
			continue
		}
		n++
		var names []string
		for u := range used {
			names = append(names, u)
		}
		sort.Strings(names)
		c.Check(enabled[k], rule, a.Mnemonic, p.Pos(a.Arm.Clause.Pos()), "ifUseMathX answers true: the prelude is written",
			"the template calls "+strings.Join(names, ", ")+", which only the prelude (_math_x.c) defines, but ifUseMathX does not answer true for "+k+": a module that uses "+a.Mnemonic+" and none of the listed instructions gets a C file without the definition, which does not link")
	}
	c.Min(rule, "instruction templates that call into the prelude", n, 14)
}
