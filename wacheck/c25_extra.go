package main

import (
	"fmt"
	"go/ast"
	"go/constant"
	"go/token"
	"go/types"
	"strings"

	"golang.org/x/tools/go/packages"
)

// C25 extra rules (added after seeded changes were missed):
//
//   mux-ip-frame-range — IsIpv4Frame / IsIpv6Frame are evaluated for all 256 byte values (finite domain) and must be
//       true exactly on 0x45..0x4f / 0x60..0x6f (slipmux: the first byte of an IPv4 header with IHL >= 5, the IPv6
//       version nibble). The writer omits the frame byte for these types and the reader recognises them by the first
//       payload byte, so any other set breaks the round trip for the extra or missing values.
//   writer-buffer-fresh — the buffer a packet is encoded into is fresh for each WritePacket call (declared in the
//       function, or reset before use): bytes left over from a failed call are otherwise sent ahead of the next packet.

// evalByte evaluates a boolean / integer expression over one byte parameter.
func evalByte(info *types.Info, e ast.Expr, param types.Object, v int64) (int64, bool, bool) { // value, boolValue, ok
	e = ast.Unparen(e)
	if tv, ok := info.Types[e]; ok && tv.Value != nil {
		switch tv.Value.Kind() {
		case constant.Int:
			x, ok := constant.Int64Val(tv.Value)
			return x, false, ok
		case constant.Bool:
			return 0, constant.BoolVal(tv.Value), true
		}
	}
	switch x := e.(type) {
	case *ast.Ident:
		if info.ObjectOf(x) == param {
			return v, false, true
		}
	case *ast.CallExpr:
		// conversions byte(x), int(x)
		if len(x.Args) == 1 {
			if tv, ok := info.Types[x.Fun]; ok && tv.IsType() {
				a, _, ok := evalByte(info, x.Args[0], param, v)
				if w, _ := typeWidth(tv.Type); ok && w == 8 {
					a &= 0xff
				}
				return a, false, ok
			}
		}
	case *ast.UnaryExpr:
		if x.Op == token.NOT {
			_, b, ok := evalByte(info, x.X, param, v)
			return 0, !b, ok
		}
	case *ast.BinaryExpr:
		la, lb, ok1 := evalByte(info, x.X, param, v)
		ra, rb, ok2 := evalByte(info, x.Y, param, v)
		if !ok1 || !ok2 {
			return 0, false, false
		}
		switch x.Op {
		case token.LAND:
			return 0, lb && rb, true
		case token.LOR:
			return 0, lb || rb, true
		case token.EQL:
			return 0, la == ra, true
		case token.NEQ:
			return 0, la != ra, true
		case token.LSS:
			return 0, la < ra, true
		case token.LEQ:
			return 0, la <= ra, true
		case token.GTR:
			return 0, la > ra, true
		case token.GEQ:
			return 0, la >= ra, true
		case token.SHR:
			return (la & 0xff) >> uint(ra), false, true
		case token.SHL:
			return (la << uint(ra)) & 0xff, false, true
		case token.AND:
			return la & ra, false, true
		case token.OR:
			return la | ra, false, true
		case token.SUB:
			return (la - ra) & 0xff, false, true
		case token.ADD:
			return (la + ra) & 0xff, false, true
		}
	}
	return 0, false, false
}

func c25Extra(c *Ctx, p *Prog, pk *packages.Package) {
	info := pk.TypesInfo
	const r1, r2 = "mux-ip-frame-range", "writer-buffer-fresh"
	for _, w := range []struct {
		fn     string
		lo, hi int64
	}{{"IsIpv4Frame", 0x45, 0x4f}, {"IsIpv6Frame", 0x60, 0x6f}} {
		fd := p.MustFunc(r1, pk, w.fn)
		if fd == nil {
			continue
		}
		var ret ast.Expr
		if len(fd.Body.List) == 1 {
			if r, ok := fd.Body.List[0].(*ast.ReturnStmt); ok && len(r.Results) == 1 {
				ret = r.Results[0]
			}
		}
		var param types.Object
		if fd.Type.Params != nil && len(fd.Type.Params.List) == 1 && len(fd.Type.Params.List[0].Names) == 1 {
			param = info.ObjectOf(fd.Type.Params.List[0].Names[0])
		}
		if ret == nil || param == nil {
			c.Undecided(r1, w.fn, p.Pos(fd.Pos()), "the predicate is not a single return over one byte parameter")
			continue
		}
		var wrong []string
		decided := true
		for b := int64(0); b < 256; b++ {
			_, got, ok := evalByte(info, ret, param, b)
			if !ok {
				decided = false
				break
			}
			if got != (b >= w.lo && b <= w.hi) && len(wrong) < 8 {
				wrong = append(wrong, fmt.Sprintf("%#02x", b))
			}
		}
		if !decided {
			c.Undecided(r1, w.fn, p.Pos(fd.Pos()), "the predicate uses an operation the finite evaluator does not know")
			continue
		}
		c.Check(len(wrong) == 0, r1, w.fn, p.Pos(fd.Pos()), fmt.Sprintf("true exactly on %#02x..%#02x (all 256 values evaluated)", w.lo, w.hi),
			fmt.Sprintf("%s disagrees with the frame-type range %#02x..%#02x for %s: the writer omits (or the reader expects) the frame byte for the wrong frame types, and such frames do not come back as sent", w.fn, w.lo, w.hi, strings.Join(wrong, ", ")))
	}

	// writer buffer
	if fd := p.MustFunc(r2, pk, "Writer.WritePacket"); fd != nil {
		// the buffer whose Bytes() goes to the transport
		var bufObj types.Object
		ast.Inspect(fd.Body, func(n ast.Node) bool {
			call, ok := n.(*ast.CallExpr)
			if !ok {
				return true
			}
			if se, ok := call.Fun.(*ast.SelectorExpr); ok && se.Sel.Name == "Write" {
				for _, a := range call.Args {
					if ac, ok := a.(*ast.CallExpr); ok {
						if ase, ok := ac.Fun.(*ast.SelectorExpr); ok && ase.Sel.Name == "Bytes" {
							if id, ok := ase.X.(*ast.Ident); ok {
								bufObj = info.ObjectOf(id)
							}
						}
					}
					// the byte slice the packet was appended to
					if id, ok := ast.Unparen(a).(*ast.Ident); ok && appendAccumulators(info, fd.Body)[info.ObjectOf(id)] {
						bufObj = info.ObjectOf(id)
					}
				}
			}
			return true
		})
		if bufObj == nil {
			c.Undecided(r2, "Writer.WritePacket", p.Pos(fd.Pos()), "the buffer handed to the transport was not recognised")
			return
		}
		// its definition
		fresh, resetFirst := false, false
		for i, s := range fd.Body.List {
			if as, ok := s.(*ast.AssignStmt); ok && as.Tok == token.DEFINE && len(as.Lhs) == 1 && len(as.Rhs) == 1 {
				if id, ok := as.Lhs[0].(*ast.Ident); ok && info.ObjectOf(id) == bufObj {
					rhs := ast.Unparen(as.Rhs[0])
					if u, ok := rhs.(*ast.UnaryExpr); ok && u.Op == token.AND {
						if _, isLit := u.X.(*ast.CompositeLit); isLit {
							fresh = true
						}
					}
					if freshBufferDef(info, rhs) {
						fresh = true
					}
					if call, ok := rhs.(*ast.CallExpr); ok {
						n := types.ExprString(call.Fun)
						if n == "new" || strings.HasSuffix(n, "NewBuffer") || strings.HasSuffix(n, "NewBufferString") {
							fresh = true
						}
					}
					// a reset as the very next statement
					if i+1 < len(fd.Body.List) {
						if es, ok := fd.Body.List[i+1].(*ast.ExprStmt); ok {
							if call, ok := es.X.(*ast.CallExpr); ok {
								if se, ok := call.Fun.(*ast.SelectorExpr); ok && (se.Sel.Name == "Reset" || se.Sel.Name == "Truncate") {
									if rid, ok := se.X.(*ast.Ident); ok && info.ObjectOf(rid) == bufObj {
										resetFirst = true
									}
								}
							}
						}
					}
				}
			}
			if ds, ok := s.(*ast.DeclStmt); ok {
				if gd, ok := ds.Decl.(*ast.GenDecl); ok {
					for _, sp := range gd.Specs {
						if vs, ok := sp.(*ast.ValueSpec); ok {
							for _, nm := range vs.Names {
								if info.ObjectOf(nm) == bufObj && len(vs.Values) == 0 {
									fresh = true
								}
							}
						}
					}
				}
			}
		}
		c.Check(fresh || resetFirst, r2, "Writer.WritePacket", p.Pos(fd.Pos()), "each packet is encoded into a fresh (or freshly reset) buffer",
			"Writer.WritePacket encodes into a buffer that outlives the call and is not reset before use: after a transport error the bytes of the failed packet are still in it and are sent in front of the next packet")
	}
}
