package main

import (
	"fmt"
	"go/ast"
	"go/constant"
	"go/parser"
	"go/token"
	"go/types"
	"os"
	"path/filepath"
	"sort"
	"strconv"
	"strings"

	"golang.org/x/tools/go/packages"
)

// C17, independent-disassembler clause. The pre-installed Go 1.26 tree vendors golang.org/x/arch's loong64asm and
// riscv64asm disassemblers, whose decode tables ({mask, value, op}) are generated from the ISA manuals. They are read
// here as data (go/parser; nothing is built or run) and are the independent reference for the opcode bits Wa's
// tables assign to each mnemonic: a row that differs from the reference under the reference's mask assembles to bytes
// that an independent disassembler shows as another instruction.

type refRow struct {
	Op          string
	Mask, Value uint64
	Args        []string
}

func refGoroots() []string {
	var out []string
	if v := os.Getenv("VERIF_REF_GOROOT"); v != "" {
		out = append(out, v)
	}
	out = append(out, "/opt/veriftools/go1.26.8")
	return out
}

// readRefTable parses x/arch/<dir>/tables.go and returns the instFormats rows.
func readRefTable(dir string) ([]refRow, string, error) {
	var lastErr error
	for _, root := range refGoroots() {
		path := filepath.Join(root, "src/cmd/vendor/golang.org/x/arch", dir, "tables.go")
		fset := token.NewFileSet()
		f, err := parser.ParseFile(fset, path, nil, 0)
		if err != nil {
			lastErr = err
			continue
		}
		var rows []refRow
		ast.Inspect(f, func(n ast.Node) bool {
			vs, ok := n.(*ast.ValueSpec)
			if !ok || len(vs.Names) != 1 || vs.Names[0].Name != "instFormats" || len(vs.Values) != 1 {
				return true
			}
			cl, ok := vs.Values[0].(*ast.CompositeLit)
			if !ok {
				return false
			}
			for _, el := range cl.Elts {
				row, ok := el.(*ast.CompositeLit)
				if !ok {
					continue
				}
				var r refRow
				for _, fe := range row.Elts {
					kv, ok := fe.(*ast.KeyValueExpr)
					if !ok {
						continue
					}
					switch types.ExprString(kv.Key) {
					case "mask", "value":
						if bl, ok := kv.Value.(*ast.BasicLit); ok {
							v, err := strconv.ParseUint(strings.ReplaceAll(bl.Value, "_", ""), 0, 64)
							if err == nil {
								if types.ExprString(kv.Key) == "mask" {
									r.Mask = v
								} else {
									r.Value = v
								}
							}
						}
					case "op":
						r.Op = types.ExprString(kv.Value)
					case "args":
						if acl, ok := kv.Value.(*ast.CompositeLit); ok {
							for _, a := range acl.Elts {
								r.Args = append(r.Args, types.ExprString(a))
							}
						}
					}
				}
				if r.Op != "" && r.Mask != 0 {
					rows = append(rows, r)
				}
			}
			return false
		})
		if len(rows) > 0 {
			return rows, path, nil
		}
		lastErr = fmt.Errorf("%s: instFormats table not found", path)
	}
	return nil, "", lastErr
}

func c17Reference(c *Ctx, p *Prog, rv, la *packages.Package) {
	const rLA, rRV, rRVop = "loong64-reference-opcode", "riscv-reference-opcode", "riscv-reference-fixed-operand"
	// ---- LoongArch
	if la != nil {
		ref, path, err := readRefTable("loong64/loong64asm")
		if err != nil {
			c.Undecided(rLA, "reference table x/arch loong64asm", "", "the independent disassembler table could not be read: "+err.Error())
		} else {
			c.Note("independent LoongArch reference: %s (%d rows)", path, len(ref))
			byOp := map[string]refRow{}
			for _, r := range ref {
				byOp[r.Op] = r
			}
			rows := laTable(la)
			matched := 0
			var absent []string
			for _, r := range rows {
				name := strings.TrimPrefix(r.As, "A")
				rr, ok := byOp[name]
				if !ok {
					absent = append(absent, name)
					continue
				}
				matched++
				c.Check(rr.Mask == r.Mask && rr.Value == r.Value, rLA, "row "+r.As, "", fmt.Sprintf("mask %#08x value %#08x", r.Mask, r.Value),
					fmt.Sprintf("Wa's table gives %s mask %#08x value %#08x; the independent disassembler table (x/arch loong64asm, generated from the LoongArch manual) has mask %#08x value %#08x: the bytes Wa emits for %s decode as a different instruction", name, r.Mask, r.Value, rr.Mask, rr.Value, name))
			}
			sort.Strings(absent)
			c.Min(rLA, "rows matched with the reference by mnemonic", matched, 300)
			if len(absent) > 0 {
				c.Note("loong64 rows without a same-named reference row (not compared): %s", strings.Join(absent, " "))
			}
		}
	}
	// ---- RISC-V
	if rv != nil {
		ref, path, err := readRefTable("riscv64/riscv64asm")
		if err != nil {
			c.Undecided(rRV, "reference table x/arch riscv64asm", "", "the independent disassembler table could not be read: "+err.Error())
			return
		}
		c.Note("independent RISC-V reference: %s (%d rows)", path, len(ref))
		byOp := map[string]refRow{}
		for _, r := range ref {
			byOp[r.Op] = r
		}
		rows, format := rvTable(c, p, rv)
		rs2 := rvFixedRs2(rv)
		// the table's rs2 templates count only if the encoder reads them
		if !rvEncoderReadsRs2Template(rv) {
			c.Note("the encoder never reads the table's Rs2 template field: rs2 function codes are not part of what Wa assembles")
			rs2 = map[string]uint64{}
		}
		matched := 0
		var absent []string
		for _, r := range rows {
			if r.Pseudo {
				continue
			}
			name := strings.TrimPrefix(r.As, "A")
			rr, ok := byOp[name]
			if !ok {
				absent = append(absent, name)
				continue
			}
			F := format[r.Opcode]
			fixed := r.OpVal & 0x7f
			fmask := uint64(0x7f)
			switch F {
			case "R":
				fixed |= r.Funct3<<12 | r.Funct7<<25
				fmask |= 0x7000 | 0xfe000000
			case "R4":
				fixed |= r.Funct3<<12 | (r.Funct7&3)<<25
				fmask |= 0x7000 | 0x06000000
			case "I", "S", "B":
				fixed |= r.Funct3 << 12
				fmask |= 0x7000
				if r.HasShamt {
					fixed |= (r.Funct7 >> 1) << 26
					fmask |= 0xfc000000
				}
			case "U", "J":
			default:
				c.Undecided(rRV, "row "+r.As, p.Pos(r.Pos), "format of opcode "+r.Opcode+" not resolved")
				continue
			}
			if k, ok := rs2[r.As]; ok {
				fixed |= (k & 0x1f) << 20
				fmask |= 0x01f00000
			}
			matched++
			// floating-point rows whose funct3 is the rounding mode: the reference leaves those bits free
			diff := (fixed ^ rr.Value) & rr.Mask & fmask
			c.Check(diff == 0, rRV, "row "+r.As, p.Pos(r.Pos), fmt.Sprintf("fixed bits %#08x agree with the reference under mask %#08x", fixed, rr.Mask&fmask),
				fmt.Sprintf("Wa's table fixes the bits %#08x for %s (opcode/funct3/funct7%s); the independent disassembler table (x/arch riscv64asm) requires %#08x under mask %#08x: they differ in bits %#08x, so the bytes Wa emits for %s decode as a different instruction", fixed, name, map[bool]string{true: "/rs2", false: ""}[fmask&0x01f00000 != 0], rr.Value, rr.Mask, diff, name))
			// bits the reference fixes to 1 in a field Wa fills from an operand
			need := rr.Value & rr.Mask &^ fmask
			if need != 0 {
				c.Check(rvSpecialCased(rv, r.As), rRVop, "row "+r.As, p.Pos(r.Pos), "special-cased in the encoder",
					fmt.Sprintf("the reference encoding of %s has the fixed bits %#08x inside an operand field (e.g. a function code in rs2 or imm) that Wa's table row does not provide: the instruction cannot be told apart from its sibling after assembly", name, need))
			}
		}
		sort.Strings(absent)
		c.Min(rRV, "rows matched with the reference by mnemonic", matched, 120)
		if len(absent) > 0 {
			c.Note("riscv rows without a same-named reference row (not compared): %s", strings.Join(absent, " "))
		}
	}
}

// rvEncoderReadsRs2Template: does any function of the package other than the table literal read <ctx>.Rs2 of the table row type?
func rvEncoderReadsRs2Template(pk *packages.Package) bool {
	found := false
	for _, f := range pk.Syntax {
		for _, d := range f.Decls {
			fd, ok := d.(*ast.FuncDecl)
			if !ok || fd.Body == nil {
				continue
			}
			ast.Inspect(fd.Body, func(n ast.Node) bool {
				se, ok := n.(*ast.SelectorExpr)
				if !ok || se.Sel.Name != "Rs2" {
					return true
				}
				if sel, ok := pk.TypesInfo.Selections[se]; ok && namedTypeName(sel.Recv()) == "_OpContextType" {
					found = true
				}
				return true
			})
		}
	}
	return found
}

// rvFixedRs2 reads the optional `Rs2: newU32(k)` field of the opcode table rows.
func rvFixedRs2(pk *packages.Package) map[string]uint64 {
	out := map[string]uint64{}
	info := pk.TypesInfo
	for _, f := range pk.Syntax {
		ast.Inspect(f, func(n ast.Node) bool {
			kv, ok := n.(*ast.KeyValueExpr)
			if !ok {
				return true
			}
			row, ok := kv.Value.(*ast.CompositeLit)
			if !ok {
				return true
			}
			for _, fe := range row.Elts {
				fkv, ok := fe.(*ast.KeyValueExpr)
				if !ok || types.ExprString(fkv.Key) != "Rs2" {
					continue
				}
				if call, ok := fkv.Value.(*ast.CallExpr); ok && len(call.Args) == 1 {
					if tv, ok := info.Types[call.Args[0]]; ok && tv.Value != nil && tv.Value.Kind() == constant.Int {
						v, _ := constant.Uint64Val(tv.Value)
						out[types.ExprString(kv.Key)] = v
					}
				}
			}
			return true
		})
	}
	return out
}

// rvSpecialCased: the encoder's own switch on the mnemonic gives the row a dedicated arm (ECALL/EBREAK style).
func rvSpecialCased(pk *packages.Package, as string) bool {
	found := false
	for _, name := range []string{"_OpContextType.encodeRaw", "_OpContextType.encodeI", "encodeRaw"} {
		fd := FuncDecl(pk, name)
		if fd == nil {
			continue
		}
		ast.Inspect(fd.Body, func(n ast.Node) bool {
			cc, ok := n.(*ast.CaseClause)
			if !ok {
				return true
			}
			for _, e := range cc.List {
				if types.ExprString(e) == as {
					found = true
				}
			}
			return true
		})
	}
	return found
}
