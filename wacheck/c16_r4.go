package main

import (
	"fmt"
	"go/ast"
	"go/token"
	"go/types"
	"sort"
	"strings"

	"golang.org/x/tools/go/packages"
)

// C16 rules added after three compiler stops on well-typed programs were found by probing (all repaired):
//
//   embedded-peer-method-overridden — several wir value kinds embed aStruct. aStruct's methods that take a peer value
//       (emitEq, emitCompare: they assert the peer to *aStruct and compare the struct types) cannot serve the embedding
//       kind: its Type() is the outer type and its peer is the outer value. Every embedding kind overrides every such
//       method (aArray did not: `a == b` on arrays, array map keys and values, arrays in interfaces stopped the compiler).
//   next-unused-slot-types — the SSA builder types the slots of a map iterator's Next tuple that the loop does not use
//       as invalid; the back end may not compile those slot types as they are (`for k := range m` stopped the compiler).
//   anonymous-callee-generated-once — an anonymous function that is called statically is generated when it is first
//       needed; every site that does so looks it up first (generating it twice registers its inner closures' capture
//       structs twice: `f := func(){ g := func(){..} }; f(); f()` stopped the compiler).

func c16Round4(c *Ctx, p *Prog, bk, wp, ssap *packages.Package) {
	if wp != nil {
		c16MemberlessCompare(c, p, wp)
	}
	c16EmbeddedPeerMethods(c, p, wp)
	c16NextSlots(c, p, bk, ssap)
	c16AnonymousOnce(c, p, bk)
	c16SigKey(c, p, wp)
	c16SanityConvert(c, p, ssap)
}

// c16PeerExceptions: kinds that embed aStruct and are never compared, one reason each.
var c16PeerExceptions = map[string]string{
	"aTuple": "a tuple is the multi-value result of a call: it is only ever destructured (Extract), the language has no expression of tuple type that could be compared, used as a map key or boxed in an interface",
}

func c16EmbeddedPeerMethods(c *Ctx, p *Prog, wp *packages.Package) {
	const rule = "embedded-peer-method-overridden"
	info := wp.TypesInfo
	decls := AllFuncDecls(wp)
	// peer methods of aStruct: a parameter of interface type Value is asserted to *aStruct
	var peer []string
	for name, fd := range decls {
		if !strings.HasPrefix(name, "aStruct.") || fd.Body == nil {
			continue
		}
		asserts := false
		ast.Inspect(fd.Body, func(n ast.Node) bool {
			if ta, ok := n.(*ast.TypeAssertExpr); ok && ta.Type != nil {
				if st, ok := ta.Type.(*ast.StarExpr); ok && types.ExprString(st.X) == "aStruct" {
					if o := identObj(info, ta.X); o != nil {
						if _, isParam := o.(*types.Var); isParam && fd.Type.Params != nil {
							for _, fl := range fd.Type.Params.List {
								for _, nm := range fl.Names {
									if info.Defs[nm] == o {
										asserts = true
									}
								}
							}
						}
					}
				}
			}
			return true
		})
		if asserts {
			peer = append(peer, strings.TrimPrefix(name, "aStruct."))
		}
	}
	sort.Strings(peer)
	c.Min(rule, "aStruct methods that assert their peer to *aStruct", len(peer), 2)
	// kinds embedding aStruct
	n := 0
	scope := wp.Types.Scope()
	for _, tn := range scope.Names() {
		obj, ok := scope.Lookup(tn).(*types.TypeName)
		if !ok {
			continue
		}
		st, ok := obj.Type().Underlying().(*types.Struct)
		if !ok {
			continue
		}
		embeds := false
		for i := 0; i < st.NumFields(); i++ {
			if f := st.Field(i); f.Embedded() && namedTypeName(f.Type()) == "aStruct" {
				embeds = true
			}
		}
		if !embeds {
			continue
		}
		n++
		for _, m := range peer {
			_, has := decls[tn+"."+m]
			loc := p.Pos(obj.Pos())
			if why, ok := c16PeerExceptions[tn]; ok && !has {
				c.OK(rule, tn+"."+m, loc, "confirmed exception: "+why)
				continue
			}
			c.Check(has, rule, tn+"."+m, loc, "overridden",
				fmt.Sprintf("%s embeds aStruct but does not override %s: the embedded method compares %s's own type with the underlying struct type and asserts the peer to *aStruct, so every comparison of two values of this kind (==, map keys, values boxed in interfaces) stops the compiler with \"v.Type() != r.Type()\" on a well-typed program", tn, m, tn))
		}
	}
	c.Min(rule, "value kinds embedding aStruct", n, 4)
}

func c16NextSlots(c *Ctx, p *Prog, bk, ssap *packages.Package) {
	const rule = "next-unused-slot-types"
	// producer: the builder assigns the invalid type to unused key/value slots
	produced := 0
	for _, f := range ssap.Syntax {
		ast.Inspect(f, func(n ast.Node) bool {
			if as, ok := n.(*ast.AssignStmt); ok && len(as.Rhs) == 1 {
				if id, ok := as.Rhs[0].(*ast.Ident); ok && id.Name == "tInvalid" {
					produced++
				}
			}
			return true
		})
	}
	if produced == 0 {
		c.OK(rule, "genNext: unused slots", "", "the SSA builder no longer types unused iterator slots as invalid")
		return
	}
	fd := p.MustFunc(rule, bk, "functionGenerator.genNext")
	if fd == nil {
		return
	}
	info := bk.TypesInfo
	// does genNext hand a slot type of the Next tuple straight to the type compiler?
	tupleVars := map[types.Object]bool{}
	ast.Inspect(fd.Body, func(n ast.Node) bool {
		if as, ok := n.(*ast.AssignStmt); ok && len(as.Lhs) == 1 && len(as.Rhs) == 1 {
			if ta, ok := as.Rhs[0].(*ast.TypeAssertExpr); ok && strings.HasSuffix(types.ExprString(ta.Type), "types.Tuple") {
				if o := identObj(info, as.Lhs[0]); o != nil {
					tupleVars[o] = true
				}
			}
		}
		return true
	})
	isSlotType := func(e ast.Expr) bool { // t.At(i).Type()
		call, ok := ast.Unparen(e).(*ast.CallExpr)
		if !ok {
			return false
		}
		se, ok := call.Fun.(*ast.SelectorExpr)
		if !ok || se.Sel.Name != "Type" {
			return false
		}
		at, ok := ast.Unparen(se.X).(*ast.CallExpr)
		if !ok {
			return false
		}
		se2, ok := at.Fun.(*ast.SelectorExpr)
		return ok && se2.Sel.Name == "At" && tupleVars[identObj(info, se2.X)]
	}
	var direct []string
	ast.Inspect(fd.Body, func(n ast.Node) bool {
		call, ok := n.(*ast.CallExpr)
		if !ok || len(call.Args) != 1 {
			return true
		}
		if se, ok := call.Fun.(*ast.SelectorExpr); ok && se.Sel.Name == "compile" && isSlotType(call.Args[0]) {
			direct = append(direct, p.Pos(call.Pos()))
		}
		return true
	})
	c.Check(len(direct) == 0, rule, "genNext: unused slots", p.Pos(fd.Pos()), "slot types are not compiled as they are",
		fmt.Sprintf("genNext compiles a slot type of the Next tuple as it is (%s) while the SSA builder types the slots the loop does not use as invalid (%d assignments of tInvalid): `for k := range m`, `for _, v := range m` and `for range m` stop the compiler with \"Unknown type:invalid type\"", strings.Join(direct, ", "), produced))
}

func c16AnonymousOnce(c *Ctx, p *Prog, bk *packages.Package) {
	const rule = "anonymous-callee-generated-once"
	info := bk.TypesInfo
	n := 0
	for _, f := range bk.Syntax {
		for _, d := range f.Decls {
			fd, ok := d.(*ast.FuncDecl)
			if !ok || fd.Body == nil {
				continue
			}
			fname := declName(fd)
			k := 0
			// walk with the stack of enclosing if conditions
			var walk func(list []ast.Stmt, conds []ast.Expr)
			visitCalls := func(s ast.Stmt, conds []ast.Expr) {
				ast.Inspect(s, func(m ast.Node) bool {
					if _, isLit := m.(*ast.FuncLit); isLit {
						return false
					}
					call, ok := m.(*ast.CallExpr)
					if !ok || len(call.Args) != 1 {
						return true
					}
					se, ok := call.Fun.(*ast.SelectorExpr)
					if !ok || se.Sel.Name != "genFunction" {
						return true
					}
					arg := identObj(info, call.Args[0])
					if arg == nil {
						return true
					}
					// is this the "anonymous" path: some enclosing condition tests <arg>.Parent() != nil
					anon, looked := false, false
					for _, cd := range conds {
						s := strings.ReplaceAll(types.ExprString(cd), " ", "")
						if strings.Contains(s, arg.Name()+".Parent()!=nil") {
							anon = true
						}
						if strings.Contains(s, "FindFunc(") && strings.Contains(s, "==nil") {
							looked = true
						}
					}
					if !anon {
						return true
					}
					n++
					k++
					c.Check(looked, rule, fmt.Sprintf("%s: anonymous callee #%d", fname, k), p.Pos(call.Pos()), "generated only when the module does not have it yet",
						fmt.Sprintf("%s generates the anonymous function %s at this site without looking it up first: a function literal that is called (or deferred) at two sites is generated twice, its inner closures are compiled twice, and the second registration of their capture struct stops the compiler (\"$warpdata already registered\") on a well-typed program", fname, arg.Name()))
					return true
				})
			}
			walk = func(list []ast.Stmt, conds []ast.Expr) {
				for _, s := range list {
					switch x := s.(type) {
					case *ast.BlockStmt:
						walk(x.List, conds)
					case *ast.IfStmt:
						inner := append(conds[:len(conds):len(conds)], x.Cond)
						if x.Init != nil {
							visitCalls(x.Init, conds)
						}
						walk(x.Body.List, inner)
						if x.Else != nil {
							walk([]ast.Stmt{x.Else}, conds)
						}
					case *ast.ForStmt:
						walk(x.Body.List, conds)
					case *ast.RangeStmt:
						walk(x.Body.List, conds)
					case *ast.SwitchStmt:
						for _, cc := range x.Body.List {
							walk(cc.(*ast.CaseClause).Body, conds)
						}
					case *ast.TypeSwitchStmt:
						for _, cc := range x.Body.List {
							walk(cc.(*ast.CaseClause).Body, conds)
						}
					default:
						visitCalls(s, conds)
					}
				}
			}
			walk(fd.Body.List, nil)
		}
	}
	c.Min(rule, "sites that generate an anonymous callee", n, 3)
}

// C16 signature-key-separated (added after a seeded change was missed): FnSig.String() is the identity of a function
// signature — the wasm type table, the closure value types and the type-info records are all keyed by it. The key lists
// the parameter types and then the result types; without a separator between the two lists `func(A)` and `func() => A`
// (any two signatures whose lists concatenate alike) get the same key, the second silently re-uses the first's wasm
// type, and call_indirect is emitted with the wrong type: the module no longer validates.
func c16SigKey(c *Ctx, p *Prog, wp *packages.Package) {
	const rule = "signature-key-separated"
	fd := p.MustFunc(rule, wp, "FnSig.String")
	if fd == nil {
		return
	}
	info := wp.TypesInfo
	iParams, iResults := -1, -1
	sepBetween := false
	for i, s := range fd.Body.List {
		switch x := s.(type) {
		case *ast.RangeStmt:
			switch {
			case strings.HasSuffix(types.ExprString(x.X), ".Params"):
				iParams = i
			case strings.HasSuffix(types.ExprString(x.X), ".Results"):
				iResults = i
			}
		case *ast.AssignStmt:
			// acc += "<non-empty constant>" after the parameter loop and before the result loop
			if iParams >= 0 && iResults < 0 && len(x.Rhs) == 1 {
				if tv, ok := info.Types[x.Rhs[0]]; ok && tv.Value != nil && len(tv.Value.ExactString()) > 2 {
					sepBetween = true
				}
			}
		}
	}
	if iParams < 0 || iResults < 0 || iResults < iParams {
		c.Undecided(rule, "FnSig.String", p.Pos(fd.Pos()), "the loops over Params and Results were not found in that order")
		return
	}
	c.Check(sepBetween, rule, "FnSig.String", p.Pos(fd.Pos()), "a constant separates the parameter list from the result list",
		"FnSig.String appends the parameter types and the result types with nothing in between: signatures whose two lists concatenate to the same sequence (func(i32) and func() => i32) share one key, so the second re-uses the wasm function type and closure type of the first and call_indirect is emitted with a type the callee does not have — the module fails validation")
}

// C16 sanity-convert-symmetric (added after a seeded change was missed): the SSA sanity check runs on every load and
// panics on a violation, so an over-strict test stops the compiler on a well-typed program. For Convert it demands that
// the operand or the result is of basic type; both sides are read through Underlying() (a named string is a string).
func c16SanityConvert(c *Ctx, p *Prog, ssap *packages.Package) {
	const rule = "sanity-convert-symmetric"
	fd := p.MustFunc(rule, ssap, "sanity.checkInstr")
	if fd == nil {
		return
	}
	info := ssap.TypesInfo
	found := false
	ast.Inspect(fd.Body, func(n ast.Node) bool {
		cc, ok := n.(*ast.CaseClause)
		if !ok || len(cc.List) != 1 || !strings.HasSuffix(types.ExprString(cc.List[0]), "Convert") {
			return true
		}
		found = true
		var direct []string
		nAssert := 0
		for _, s := range cc.Body {
			ast.Inspect(s, func(m ast.Node) bool {
				ta, ok := m.(*ast.TypeAssertExpr)
				if !ok || ta.Type == nil || !strings.HasSuffix(types.ExprString(ta.Type), "types.Basic") {
					return true
				}
				nAssert++
				if call, ok := ast.Unparen(ta.X).(*ast.CallExpr); ok {
					if se, ok := call.Fun.(*ast.SelectorExpr); ok && se.Sel.Name == "Underlying" {
						return true
					}
				}
				direct = append(direct, types.ExprString(ta.X))
				return true
			})
		}
		_ = info
		c.Check(len(direct) == 0 && nAssert >= 2, rule, "checkInstr: Convert", p.Pos(cc.Pos()), "operand and result are tested through Underlying()",
			fmt.Sprintf("the sanity check of Convert tests %v for a basic type without Underlying() (%d tests found): a conversion from or to a *named* basic type ([]byte(x) with x of type `type Name string`) fails the check, and the loader panics with \"SanityCheck failed\" on a well-typed program", direct, nAssert))
		return false
	})
	if !found {
		c.Undecided(rule, "checkInstr: Convert", p.Pos(fd.Pos()), "case *Convert not found")
	}
}

// C16 rule memberless-compare-handled (added after a defect was found on the unchanged tree by differential probing:
// aStruct.emitEq / emitCompare build their result inside a loop over the fields and emitted nothing for a type without
// fields — struct{}, [0]T — where an i32 is expected; comparing, boxing or using such a value as a map element gave a
// module that does not validate). A comparison emitter that builds its result in a loop over a member list handles the
// empty list explicitly (`if len(<list>) == 0 { … append … }`).
func c16MemberlessCompare(c *Ctx, p *Prog, wir *packages.Package) {
	const rule = "memberless-compare-handled"
	info := wir.TypesInfo
	n := 0
	for _, name := range sortedDeclNames(wir) {
		if !strings.HasSuffix(name, ".emitEq") && !strings.HasSuffix(name, ".emitCompare") {
			continue
		}
		fd := AllFuncDecls(wir)[name]
		if fd.Body == nil {
			continue
		}
		// loops over a member list that append instructions
		var lists []string
		for _, s := range fd.Body.List {
			var x ast.Expr
			var body *ast.BlockStmt
			switch l := s.(type) {
			case *ast.RangeStmt:
				x, body = l.X, l.Body
			default:
				continue
			}
			appends := false
			ast.Inspect(body, func(m ast.Node) bool {
				if call, ok := m.(*ast.CallExpr); ok {
					if id, ok := call.Fun.(*ast.Ident); ok && id.Name == "append" {
						appends = true
					}
				}
				return true
			})
			if appends {
				if t := info.TypeOf(x); t != nil {
					if _, ok := t.Underlying().(*types.Slice); ok {
						lists = append(lists, types.ExprString(x))
					}
				}
			}
		}
		for _, l := range lists {
			n++
			handled := false
			ast.Inspect(fd.Body, func(m ast.Node) bool {
				ifs, ok := m.(*ast.IfStmt)
				if !ok {
					return true
				}
				cond := strings.ReplaceAll(types.ExprString(ifs.Cond), " ", "")
				if cond == "len("+strings.ReplaceAll(l, " ", "")+")==0" {
					ast.Inspect(ifs.Body, func(q ast.Node) bool {
						if call, ok := q.(*ast.CallExpr); ok {
							if id, ok := call.Fun.(*ast.Ident); ok && id.Name == "append" {
								handled = true
							}
						}
						return true
					})
				}
				return true
			})
			c.Check(handled, rule, name+": loop over "+l, p.Pos(fd.Pos()), "the empty member list yields a constant result",
				name+" builds the comparison's result inside a loop over "+l+" and has no case for an empty list: for a type without members (struct{}, [0]T) nothing is emitted where an i32 is expected, and every program that compares such a value, boxes it in an interface or keeps it in a map compiles to a module that does not validate")
		}
	}
	c.Min(rule, "comparison emitters that loop over a member list", n, 2)
}

// C16 rule type-branch-not-shadowed (added after a defect found by Wa-vs-Go probing: the type checker's missingMethod
// returns early for every operand that is not a *Pointer — only pointer types have methods in Wa — and a few lines
// below handles operands whose underlying type is an *Interface; interfaces are not pointers, so that branch was dead
// and assigning a value of one interface type to another interface type was rejected).
//
// In a function of the type checker, an unconditional-on-the-class exit `if _, ok := V.(*A); !ok { return … }` must
// not precede a branch that handles `V` (or V.Underlying()) being a *B with B another type than A, unless the exit
// itself excludes B (tests that V is not a *B).
func c16TypeBranchShadow(c *Ctx, p *Prog, tp *packages.Package) {
	const rule = "type-branch-not-shadowed"
	_ = tp.TypesInfo
	n := 0
	for _, name := range sortedDeclNames(tp) {
		fd := AllFuncDecls(tp)[name]
		if fd.Body == nil {
			continue
		}
		// exits: position, operand text, asserted type, the types the exit's own body excludes
		type exit struct {
			pos      token.Pos
			operand  string
			typ      string
			excludes map[string]bool
		}
		var exits []exit
		ast.Inspect(fd.Body, func(nd ast.Node) bool {
			ifs, ok := nd.(*ast.IfStmt)
			if !ok || ifs.Init == nil {
				return true
			}
			as, ok := ifs.Init.(*ast.AssignStmt)
			if !ok || len(as.Rhs) != 1 || len(as.Lhs) != 2 {
				return true
			}
			ta, ok := ast.Unparen(as.Rhs[0]).(*ast.TypeAssertExpr)
			if !ok || ta.Type == nil {
				return true
			}
			okID, _ := as.Lhs[1].(*ast.Ident)
			if okID == nil || strings.ReplaceAll(types.ExprString(ifs.Cond), " ", "") != "!"+okID.Name {
				return true
			}
			// the body returns, possibly under tests that exclude other types
			returnsAlways := false
			excl := map[string]bool{}
			for _, s := range ifs.Body.List {
				switch x := s.(type) {
				case *ast.ReturnStmt:
					returnsAlways = true
				case *ast.IfStmt:
					// if _, isB := V…(*B); !isB { return }
					if ias, ok := x.Init.(*ast.AssignStmt); ok && len(ias.Rhs) == 1 {
						if ita, ok := ast.Unparen(ias.Rhs[0]).(*ast.TypeAssertExpr); ok && ita.Type != nil && strings.HasPrefix(strings.ReplaceAll(types.ExprString(x.Cond), " ", ""), "!") {
							for _, bs := range x.Body.List {
								if _, isRet := bs.(*ast.ReturnStmt); isRet {
									excl[types.ExprString(ita.Type)] = true
									returnsAlways = true
								}
							}
						}
					}
				}
			}
			if returnsAlways {
				exits = append(exits, exit{ifs.Pos(), types.ExprString(ta.X), types.ExprString(ta.Type), excl})
			}
			return true
		})
		if len(exits) == 0 {
			continue
		}
		// later branches on the same operand (or its Underlying()) with another asserted type
		ast.Inspect(fd.Body, func(nd ast.Node) bool {
			ta, ok := nd.(*ast.TypeAssertExpr)
			if !ok || ta.Type == nil {
				return true
			}
			operand := strings.TrimSuffix(types.ExprString(ta.X), ".Underlying()")
			typ := types.ExprString(ta.Type)
			for _, e := range exits {
				if ta.Pos() <= e.pos || operand != e.operand || typ == e.typ {
					continue
				}
				// only concrete pointer-to-struct assertions are disjoint classes
				if !strings.HasPrefix(typ, "*") || !strings.HasPrefix(e.typ, "*") {
					continue
				}
				n++
				c.Check(e.excludes[typ], rule, name+": "+operand+".("+typ+") after the exit for non-"+e.typ, p.Pos(ta.Pos()), "the exit leaves "+typ+" operands alone",
					name+" returns early for every "+operand+" that is not a "+e.typ+" ("+p.Pos(e.pos)+") and then handles "+operand+" being a "+typ+": a "+typ+" is never a "+e.typ+", so this branch cannot be reached — operands of that type get the early answer (a value of interface type is rejected as \"missing method\" where Go accepts it)")
			}
			return true
		})
	}
	c.Min(rule, "type branches after a type-class exit in the type checker", n, 1)
}
