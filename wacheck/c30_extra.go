package main

import (
	"go/ast"
	"go/constant"
	"go/token"
	"go/types"
	"strings"

	"golang.org/x/tools/go/packages"
)

// C30 extra rules (added after seeded changes were missed):
//
//   pass-after-error-check — in every test loop of runTest, the shortcut "the output equals the declared // Output:,
//       so the test passed" may only be taken after the run's error was examined: a test that prints the expected text
//       and then traps must not be reported ok.
//   output-directive-language — the English `// Output:` / `// Output(panic):` directives are recognised in every test
//       file; only the additional Chinese spellings depend on the file's language.

func c30Extra(c *Ctx, p *Prog, ap *packages.Package, ld *packages.Package) {
	const r1, r2 = "pass-after-error-check", "output-directive-language"
	info := ap.TypesInfo
	if fd := p.MustFunc(r1, ap, "runTest"); fd != nil {
		n := 0
		ast.Inspect(fd.Body, func(nd ast.Node) bool {
			var loopBody *ast.BlockStmt
			loopName := ""
			switch l := nd.(type) {
			case *ast.RangeStmt:
				loopBody, loopName = l.Body, types.ExprString(l.X)
			case *ast.ForStmt:
				loopBody = l.Body
				if l.Cond != nil {
					loopName = types.ExprString(l.Cond)
				}
			default:
				return true
			}
			rs := struct {
				Body *ast.BlockStmt
				X    string
			}{loopBody, loopName}
			// loops that run a test function
			runIdx := -1
			for i, s := range rs.Body.List {
				ast.Inspect(s, func(m ast.Node) bool {
					if call, ok := m.(*ast.CallExpr); ok {
						if fn := CalleeOf(info, call); fn != nil && fn.Name() == "RunFunc" && runIdx < 0 {
							runIdx = i
						}
					}
					return true
				})
				if runIdx >= 0 {
					break
				}
			}
			if runIdx < 0 {
				return true
			}
			n++
			errIdx, passIdx := -1, -1
			for i := runIdx + 1; i < len(rs.Body.List); i++ {
				ifs, ok := rs.Body.List[i].(*ast.IfStmt)
				if !ok {
					continue
				}
				cond := strings.ReplaceAll(types.ExprString(ifs.Cond), " ", "")
				if cond == "err!=nil" && errIdx < 0 {
					errIdx = i
				}
				// the pass shortcut: compares the declared output with the produced one and continues
				if strings.Contains(cond, ".Output==") || strings.Contains(cond, "==t.Output") {
					for _, bs := range ifs.Body.List {
						if br, ok := bs.(*ast.BranchStmt); ok && br.Tok == token.CONTINUE && passIdx < 0 {
							passIdx = i
						}
					}
				}
			}
			key := "runTest: loop " + rs.X
			switch {
			case passIdx < 0:
				c.OK(r1, key, p.Pos(rs.Body.Pos()), "no output-equality shortcut in this loop")
			case errIdx < 0 || errIdx > passIdx:
				c.Fail(r1, key, p.Pos(rs.Body.List[passIdx].Pos()), "the loop takes the `output equals the declared // Output:` shortcut before the error returned by the run is examined: a test that prints the expected text and then traps or exits non-zero is reported ok")
			default:
				c.OK(r1, key, p.Pos(rs.Body.Pos()), "the run's error is examined before the output-equality shortcut")
			}
			return true
		})
		c.Min(r1, "test loops in runTest", n, 2)
	}
	if ld != nil {
		fd := p.MustFunc(r2, ld, "_Loader.parseExampleOutputComment")
		if fd == nil {
			return
		}
		linfo := ld.TypesInfo
		found := false
		var walk func(list []ast.Stmt, conds []string)
		walk = func(list []ast.Stmt, conds []string) {
			for _, s := range list {
				switch x := s.(type) {
				case *ast.IfStmt:
					cnd := strings.ReplaceAll(types.ExprString(x.Cond), " ", "")
					walk(x.Body.List, append(append([]string{}, conds...), cnd))
					switch el := x.Else.(type) {
					case *ast.BlockStmt:
						walk(el.List, append(append([]string{}, conds...), "!("+cnd+")"))
					case *ast.IfStmt:
						walk([]ast.Stmt{el}, append(append([]string{}, conds...), "!("+cnd+")"))
					}
				case *ast.RangeStmt:
					walk(x.Body.List, conds)
				case *ast.ForStmt:
					walk(x.Body.List, conds)
				case *ast.BlockStmt:
					walk(x.List, conds)
				case *ast.SwitchStmt:
					english := false
					for _, cc := range x.Body.List {
						for _, e := range cc.(*ast.CaseClause).List {
							if tv, ok := linfo.Types[e]; ok && tv.Value != nil && tv.Value.Kind() == constant.String && constant.StringVal(tv.Value) == "// Output:" {
								english = true
							}
						}
					}
					if english {
						found = true
						bad := ""
						for _, g := range conds {
							if strings.Contains(g, "W2Mode") {
								bad = g
							}
						}
						c.Check(bad == "", r2, "parseExampleOutputComment: `// Output:` directives", p.Pos(x.Pos()), "recognised for every file",
							"the English `// Output:` / `// Output(panic):` directives are only recognised under "+bad+": a .wz test file that uses them has no expected output, so a wrong output passes and a declared panic is reported as a failure")
					}
					for _, cc := range x.Body.List {
						walk(cc.(*ast.CaseClause).Body, conds)
					}
				}
			}
		}
		walk(fd.Body.List, nil)
		if !found {
			c.Undecided(r2, "parseExampleOutputComment: `// Output:` directives", p.Pos(fd.Pos()), "the switch over the directive comments was not found")
		}
	}
}
