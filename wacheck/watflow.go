package main

import (
	"fmt"
	"sort"
	"strconv"
	"strings"
)

// Symbolic path summaries of hand-written WAT functions.
//
// A function body (flat instruction list from watsrc.go) is rebuilt into its structured form and every control-flow
// path through it is followed with a symbolic operand stack: values are terms over the function's parameters, the
// globals and memory at entry, and the results of calls. A path records the branch conditions it took, the calls,
// global writes, stores and memory.grow it performed (with their operand terms) and how it ended (return with result
// terms, branch back to a loop head, unreachable). Leaf callees with straight-line bodies (field accessors, rounding
// helpers) are expanded in place. Loops are followed once: at a loop head every local and global written in the loop
// becomes an unknown. Nothing is executed; rules compare the recorded terms, mostly as linear forms.

type wterm struct {
	Op   string // const, param, local0 (entry value of a local: zero), global, load, call, op, unknown
	K    int64
	Name string
	Args []*wterm
	Idx  int // call result index
	ID   int // instance number for load / call / unknown
	Off  int64
}

func wConst(k int64) *wterm { return &wterm{Op: "const", K: k} }

func (t *wterm) String() string {
	if t == nil {
		return "?"
	}
	switch t.Op {
	case "const":
		return strconv.FormatInt(t.K, 10)
	case "param", "global":
		return t.Name
	case "unknown":
		return fmt.Sprintf("%s'%d", t.Name, t.ID)
	case "load":
		return fmt.Sprintf("mem%d[%s+%d]", t.ID, t.Args[0], t.Off)
	case "call":
		var a []string
		for _, x := range t.Args {
			a = append(a, x.String())
		}
		s := fmt.Sprintf("%s#%d(%s)", t.Name, t.ID, strings.Join(a, ", "))
		if t.Idx > 0 {
			s += fmt.Sprintf(".%d", t.Idx)
		}
		return s
	case "op":
		var a []string
		for _, x := range t.Args {
			a = append(a, x.String())
		}
		return t.Name + "(" + strings.Join(a, ", ") + ")"
	}
	return t.Op
}

type wevent struct {
	Kind string // call, gset, store, grow
	Name string
	Args []*wterm
	Off  int64
	Line int
}

type wcond struct {
	T     *wterm
	Taken bool
	Line  int
}

type wpath struct {
	Conds   []wcond
	Events  []wevent
	End     string // return, backedge, unreachable, fall
	Label   string
	Results []*wterm
	Line    int
}

type wnode struct {
	Kind    string // ins, if, block, loop
	Ins     watIns
	Label   string
	Arity   int
	Then    []*wnode
	Else    []*wnode
	Body    []*wnode
	EndLine int
}

// buildWatTree rebuilds the nesting of a flat instruction list.
func buildWatTree(body []watIns) ([]*wnode, error) {
	pos := 0
	var parse func(stop map[string]bool) ([]*wnode, string, error)
	parse = func(stop map[string]bool) ([]*wnode, string, error) {
		var out []*wnode
		for pos < len(body) {
			in := body[pos]
			if stop[in.Op] {
				pos++
				return out, in.Op, nil
			}
			pos++
			switch in.Op {
			case "block", "loop", "if":
				n := &wnode{Kind: in.Op, Ins: in}
				for _, a := range in.Args {
					if strings.HasPrefix(a, "$") {
						n.Label = a
					}
					if strings.HasPrefix(a, "result:") {
						n.Arity++
					}
				}
				if in.Op == "if" {
					th, end, err := parse(map[string]bool{"else": true, "end": true})
					if err != nil {
						return nil, "", err
					}
					n.Then = th
					if end == "else" {
						el, _, err := parse(map[string]bool{"end": true})
						if err != nil {
							return nil, "", err
						}
						n.Else = el
					}
				} else {
					b, _, err := parse(map[string]bool{"end": true})
					if err != nil {
						return nil, "", err
					}
					n.Body = b
				}
				out = append(out, n)
			default:
				out = append(out, &wnode{Kind: "ins", Ins: in})
			}
		}
		if len(stop) > 0 {
			return nil, "", fmt.Errorf("unterminated block")
		}
		return out, "", nil
	}
	out, _, err := parse(nil)
	return out, err
}

type wstate struct {
	stack   []*wterm
	locals  map[string]*wterm
	globals map[string]*wterm
	mem     []wevent // stores so far (for forwarding)
	memVer  int
	conds   []wcond
	events  []wevent
}

func (s *wstate) clone() *wstate {
	n := &wstate{memVer: s.memVer}
	n.stack = append([]*wterm(nil), s.stack...)
	n.locals = map[string]*wterm{}
	for k, v := range s.locals {
		n.locals[k] = v
	}
	n.globals = map[string]*wterm{}
	for k, v := range s.globals {
		n.globals[k] = v
	}
	n.mem = append([]wevent(nil), s.mem...)
	n.conds = append([]wcond(nil), s.conds...)
	n.events = append([]wevent(nil), s.events...)
	return n
}

type wflow struct {
	mod     *watModule
	ids     int
	limit   int
	err     string
	inlined map[string]bool
}

func (w *wflow) fresh(name string) *wterm {
	w.ids++
	return &wterm{Op: "unknown", Name: name, ID: w.ids}
}

func (s *wstate) pop() *wterm {
	if len(s.stack) == 0 {
		return &wterm{Op: "unknown", Name: "underflow"}
	}
	t := s.stack[len(s.stack)-1]
	s.stack = s.stack[:len(s.stack)-1]
	return t
}

func (s *wstate) push(t *wterm) { s.stack = append(s.stack, t) }

func wTermEqual(a, b *wterm) bool {
	if a == b {
		return true
	}
	if a == nil || b == nil || a.Op != b.Op || a.K != b.K || a.Name != b.Name || a.Idx != b.Idx || a.ID != b.ID || a.Off != b.Off || len(a.Args) != len(b.Args) {
		return false
	}
	for i := range a.Args {
		if !wTermEqual(a.Args[i], b.Args[i]) {
			return false
		}
	}
	return true
}

// isLeaf reports whether f can be expanded in place: straight-line, no calls.
func isLeafWat(f *watFunc) bool {
	if f == nil || f.Import[0] != "" || len(f.Body) == 0 || len(f.Body) > 24 {
		return false
	}
	for _, in := range f.Body {
		switch in.Op {
		case "if", "else", "block", "loop", "br", "br_if", "br_table", "call", "call_indirect", "return", "unreachable", "memory.grow", "global.set":
			return false
		}
	}
	return true
}

type wctl struct {
	st    *wstate
	ctl   string // "", br, return, unreachable
	label string
	line  int
}

func watImm(in watIns, key string) int64 {
	for _, a := range in.Args {
		if strings.HasPrefix(a, key+"=") {
			v, _ := strconv.ParseInt(strings.TrimPrefix(a, key+"="), 0, 64)
			return v
		}
	}
	return 0
}

func watConstArg(in watIns) (int64, bool) {
	for _, a := range in.Args {
		s := strings.ReplaceAll(a, "_", "")
		if v, err := strconv.ParseInt(s, 0, 64); err == nil {
			return v, true
		}
		if v, err := strconv.ParseUint(s, 0, 64); err == nil {
			return int64(v), true
		}
	}
	return 0, false
}

func watNameArg(in watIns) string {
	for _, a := range in.Args {
		if strings.HasPrefix(a, "$") {
			return a
		}
	}
	if len(in.Args) > 0 {
		return in.Args[0]
	}
	return ""
}

var watBinOps = map[string]bool{"add": true, "sub": true, "mul": true, "div_s": true, "div_u": true, "rem_s": true, "rem_u": true, "and": true, "or": true, "xor": true,
	"shl": true, "shr_s": true, "shr_u": true, "rotl": true, "rotr": true, "eq": true, "ne": true, "lt_s": true, "lt_u": true, "gt_s": true, "gt_u": true, "le_s": true, "le_u": true, "ge_s": true, "ge_u": true}

// step executes one plain instruction on st.
func (w *wflow) step(in watIns, st *wstate, paramNames map[string]bool) {
	op := in.Op
	switch {
	case op == "nop":
	case op == "drop":
		st.pop()
	case op == "i32.const" || op == "i64.const":
		v, _ := watConstArg(in)
		st.push(wConst(v))
	case op == "local.get":
		n := watNameArg(in)
		if t, ok := st.locals[n]; ok {
			st.push(t)
		} else if paramNames[n] {
			st.push(&wterm{Op: "param", Name: n})
		} else {
			st.push(wConst(0))
		}
	case op == "local.set":
		st.locals[watNameArg(in)] = st.pop()
	case op == "local.tee":
		t := st.pop()
		st.locals[watNameArg(in)] = t
		st.push(t)
	case op == "global.get":
		n := watNameArg(in)
		if t, ok := st.globals[n]; ok {
			st.push(t)
		} else {
			st.push(&wterm{Op: "global", Name: n})
		}
	case op == "global.set":
		n := watNameArg(in)
		v := st.pop()
		st.globals[n] = v
		st.events = append(st.events, wevent{Kind: "gset", Name: n, Args: []*wterm{v}, Line: in.Line})
	case strings.HasSuffix(op, ".load") || strings.Contains(op, ".load"):
		addr := st.pop()
		off := watImm(in, "offset")
		// store-to-load forwarding on a syntactically identical address
		for i := len(st.mem) - 1; i >= 0; i-- {
			m := st.mem[i]
			if m.Off == off && wTermEqual(m.Args[0], addr) {
				st.push(m.Args[1])
				return
			}
			if wLinEqual(m.Args[0], addr) && m.Off == off {
				st.push(m.Args[1])
				return
			}
		}
		st.push(&wterm{Op: "load", Args: []*wterm{addr}, Off: off, ID: 0})
	case strings.Contains(op, ".store"):
		v := st.pop()
		addr := st.pop()
		ev := wevent{Kind: "store", Name: op, Args: []*wterm{addr, v}, Off: watImm(in, "offset"), Line: in.Line}
		st.events = append(st.events, ev)
		st.mem = append(st.mem, ev)
	case op == "memory.size":
		st.push(&wterm{Op: "global", Name: "memory.size"})
	case op == "memory.grow":
		n := st.pop()
		st.events = append(st.events, wevent{Kind: "grow", Args: []*wterm{n}, Line: in.Line})
		w.ids++
		st.push(&wterm{Op: "call", Name: "memory.grow", Args: []*wterm{n}, ID: w.ids})
	case op == "memory.fill" || op == "memory.copy":
		c, b, a := st.pop(), st.pop(), st.pop()
		st.events = append(st.events, wevent{Kind: "call", Name: op, Args: []*wterm{a, b, c}, Line: in.Line})
	case op == "i32.eqz" || op == "i64.eqz":
		a := st.pop()
		st.push(&wterm{Op: "op", Name: "eqz", Args: []*wterm{a}})
	case op == "select":
		c, b, a := st.pop(), st.pop(), st.pop()
		st.push(&wterm{Op: "op", Name: "select", Args: []*wterm{a, b, c}})
	case strings.HasPrefix(op, "i32.") || strings.HasPrefix(op, "i64."):
		name := op[4:]
		if watBinOps[name] {
			b, a := st.pop(), st.pop()
			st.push(&wterm{Op: "op", Name: name, Args: []*wterm{a, b}})
		} else {
			a := st.pop()
			st.push(&wterm{Op: "op", Name: name, Args: []*wterm{a}})
		}
	case op == "call_indirect":
		// the callee's type is not in the source: the table index is popped and one opaque result is pushed; the
		// arguments stay below it (rules look at the top of the stack only)
		idx := st.pop()
		st.events = append(st.events, wevent{Kind: "call", Name: "call_indirect", Args: []*wterm{idx}, Line: in.Line})
		st.mem = nil
		st.push(w.fresh("indirect"))
	case op == "call":
		callee := watNameArg(in)
		f := w.mod.ByName[callee]
		if f == nil {
			w.err = "call to unknown function " + callee
			return
		}
		args := make([]*wterm, len(f.Params))
		for i := len(args) - 1; i >= 0; i-- {
			args[i] = st.pop()
		}
		if isLeafWat(f) {
			// expand in place
			sub := &wstate{locals: map[string]*wterm{}, globals: st.globals, mem: st.mem}
			pn := watParamNames(f)
			for i, n := range pn {
				if i < len(args) {
					sub.locals[n] = args[i]
				}
			}
			pset := map[string]bool{}
			for _, n := range pn {
				pset[n] = true
			}
			for _, ci := range f.Body {
				w.step(ci, sub, pset)
			}
			st.events = append(st.events, wevent{Kind: "call", Name: callee, Args: args, Line: in.Line})
			for _, ev := range sub.events {
				ev.Line = in.Line
				st.events = append(st.events, ev)
			}
			st.mem = sub.mem
			for i := 0; i < len(f.Results); i++ {
				idx := len(sub.stack) - len(f.Results) + i
				if idx >= 0 {
					st.push(sub.stack[idx])
				} else {
					st.push(w.fresh("result"))
				}
			}
			return
		}
		w.ids++
		id := w.ids
		st.events = append(st.events, wevent{Kind: "call", Name: callee, Args: args, Line: in.Line})
		// an opaque call may write memory: forget forwarded stores
		st.mem = nil
		for i := range f.Results {
			st.push(&wterm{Op: "call", Name: callee, Args: args, Idx: i, ID: id})
		}
	default:
		w.err = fmt.Sprintf("line %d: instruction %s is not modelled", in.Line, op)
	}
}

// watParamNames recovers parameter names: the reader keeps only types, names are read from local.get/set usage order is
// not reliable, so the names are taken from the source's (param $name type) order recorded in Args of a pseudo entry.
func watParamNames(f *watFunc) []string { return f.ParamNames }

func assignedIn(nodes []*wnode, locals, globals map[string]bool) {
	for _, n := range nodes {
		switch n.Kind {
		case "ins":
			switch n.Ins.Op {
			case "local.set", "local.tee":
				locals[watNameArg(n.Ins)] = true
			case "global.set":
				globals[watNameArg(n.Ins)] = true
			}
		case "if":
			assignedIn(n.Then, locals, globals)
			assignedIn(n.Else, locals, globals)
		default:
			assignedIn(n.Body, locals, globals)
		}
	}
}

func (w *wflow) exec(nodes []*wnode, in []*wstate, params map[string]bool, done *[]wctl) []*wstate {
	cur := in
	for _, n := range nodes {
		if len(cur) == 0 || w.err != "" {
			return nil
		}
		if len(cur)+len(*done) > w.limit {
			w.err = "path limit exceeded"
			return nil
		}
		var next []*wstate
		switch n.Kind {
		case "ins":
			switch n.Ins.Op {
			case "return":
				for _, s := range cur {
					*done = append(*done, wctl{st: s, ctl: "return", line: n.Ins.Line})
				}
				cur = nil
				continue
			case "unreachable":
				for _, s := range cur {
					*done = append(*done, wctl{st: s, ctl: "unreachable", line: n.Ins.Line})
				}
				cur = nil
				continue
			case "br":
				for _, s := range cur {
					*done = append(*done, wctl{st: s, ctl: "br", label: watNameArg(n.Ins), line: n.Ins.Line})
				}
				cur = nil
				continue
			case "br_if":
				for _, s := range cur {
					c := s.pop()
					t := s.clone()
					t.conds = append(t.conds, wcond{c, true, n.Ins.Line})
					*done = append(*done, wctl{st: t, ctl: "br", label: watNameArg(n.Ins), line: n.Ins.Line})
					s.conds = append(s.conds, wcond{c, false, n.Ins.Line})
					next = append(next, s)
				}
				cur = next
				continue
			}
			for _, s := range cur {
				w.step(n.Ins, s, params)
			}
		case "if":
			for _, s := range cur {
				c := s.pop()
				t, e := s.clone(), s
				t.conds = append(t.conds, wcond{c, true, n.Ins.Line})
				e.conds = append(e.conds, wcond{c, false, n.Ins.Line})
				var inner []wctl
				outT := w.exec(n.Then, []*wstate{t}, params, &inner)
				outE := w.exec(n.Else, []*wstate{e}, params, &inner)
				next = append(next, outT...)
				next = append(next, outE...)
				for _, d := range inner {
					if d.ctl == "br" && n.Label != "" && d.label == n.Label {
						next = append(next, d.st)
					} else {
						*done = append(*done, d)
					}
				}
			}
			cur = next
		case "block":
			var inner []wctl
			out := w.exec(n.Body, cur, params, &inner)
			next = append(next, out...)
			for _, d := range inner {
				if d.ctl == "br" && d.label == n.Label && n.Label != "" {
					next = append(next, d.st)
				} else {
					*done = append(*done, d)
				}
			}
			cur = next
		case "loop":
			ls, gs := map[string]bool{}, map[string]bool{}
			assignedIn(n.Body, ls, gs)
			var heads []*wstate
			for _, s := range cur {
				h := s.clone()
				var names []string
				for l := range ls {
					names = append(names, l)
				}
				sort.Strings(names)
				for _, l := range names {
					// the value the variable has when the loop is entered, for rules that reason by induction
					var entry *wterm
					if t, ok := h.locals[l]; ok {
						entry = t
					} else if params[l] {
						entry = &wterm{Op: "param", Name: l}
					} else {
						entry = wConst(0)
					}
					fv := w.fresh(l)
					h.locals[l] = fv
					h.events = append(h.events, wevent{Kind: "loopinit", Name: l, Args: []*wterm{entry, fv}, Line: n.Ins.Line})
				}
				names = names[:0]
				for g := range gs {
					names = append(names, g)
				}
				sort.Strings(names)
				for _, g := range names {
					h.globals[g] = w.fresh(g)
				}
				h.mem = nil
				h.conds = append(h.conds, wcond{&wterm{Op: "unknown", Name: "loop-head " + n.Label}, true, n.Ins.Line})
				heads = append(heads, h)
			}
			var inner []wctl
			out := w.exec(n.Body, heads, params, &inner)
			next = append(next, out...)
			for _, d := range inner {
				if d.ctl == "br" && d.label == n.Label && n.Label != "" {
					d.ctl = "backedge"
				}
				*done = append(*done, d)
			}
			cur = next
		}
	}
	return cur
}

// watPaths enumerates the paths of f.
func watPaths(mod *watModule, f *watFunc) ([]wpath, error) {
	tree, err := buildWatTree(f.Body)
	if err != nil {
		return nil, err
	}
	w := &wflow{mod: mod, limit: 4000}
	params := map[string]bool{}
	for _, n := range f.ParamNames {
		params[n] = true
	}
	st := &wstate{locals: map[string]*wterm{}, globals: map[string]*wterm{}}
	var done []wctl
	out := w.exec(tree, []*wstate{st}, params, &done)
	if w.err != "" {
		return nil, fmt.Errorf("%s: %s", f.Name, w.err)
	}
	for _, s := range out {
		done = append(done, wctl{st: s, ctl: "fall"})
	}
	var paths []wpath
	for _, d := range done {
		p := wpath{Conds: d.st.conds, Events: d.st.events, End: d.ctl, Label: d.label, Line: d.line}
		if d.ctl == "return" || d.ctl == "fall" {
			n := len(f.Results)
			if len(d.st.stack) >= n {
				p.Results = append([]*wterm(nil), d.st.stack[len(d.st.stack)-n:]...)
			}
			if d.ctl == "fall" {
				p.End = "return"
			}
		}
		paths = append(paths, p)
	}
	return paths, nil
}

// ---- linear forms over terms

type wlin struct {
	C     int64
	Atoms map[string]int64
}

func (l wlin) String() string {
	var ks []string
	for k, v := range l.Atoms {
		if v != 0 {
			ks = append(ks, fmt.Sprintf("%+d·%s", v, k))
		}
	}
	sort.Strings(ks)
	return strings.Join(ks, " ") + fmt.Sprintf(" %+d", l.C)
}

func wLin(t *wterm) wlin {
	l := wlin{Atoms: map[string]int64{}}
	wLinAdd(&l, t, 1)
	for k, v := range l.Atoms {
		if v == 0 {
			delete(l.Atoms, k)
		}
	}
	return l
}

func wLinAdd(l *wlin, t *wterm, k int64) {
	switch {
	case t == nil:
		l.Atoms["?"] += k
	case t.Op == "const":
		l.C += k * t.K
	case t.Op == "op" && t.Name == "add":
		wLinAdd(l, t.Args[0], k)
		wLinAdd(l, t.Args[1], k)
	case t.Op == "op" && t.Name == "sub":
		wLinAdd(l, t.Args[0], k)
		wLinAdd(l, t.Args[1], -k)
	case t.Op == "op" && t.Name == "mul" && t.Args[1].Op == "const":
		wLinAdd(l, t.Args[0], k*t.Args[1].K)
	case t.Op == "op" && t.Name == "mul" && t.Args[0].Op == "const":
		wLinAdd(l, t.Args[1], k*t.Args[0].K)
	case t.Op == "op" && t.Name == "shl" && t.Args[1].Op == "const" && t.Args[1].K >= 0 && t.Args[1].K < 32:
		wLinAdd(l, t.Args[0], k<<uint(t.Args[1].K))
	default:
		l.Atoms[wAtomKey(t)] += k
	}
}

// wAtomKey prints a non-linear term with its linear sub-terms in normal form, so that equal values get equal keys.
func wAtomKey(t *wterm) string {
	switch t.Op {
	case "load":
		return fmt.Sprintf("mem[%s +%d]", wLin(t.Args[0]), t.Off)
	case "op":
		var a []string
		for _, x := range t.Args {
			a = append(a, wLin(x).String())
		}
		return t.Name + "(" + strings.Join(a, "; ") + ")"
	}
	return t.String()
}

func wLinSub(a, b wlin) wlin {
	r := wlin{C: a.C - b.C, Atoms: map[string]int64{}}
	for k, v := range a.Atoms {
		r.Atoms[k] += v
	}
	for k, v := range b.Atoms {
		r.Atoms[k] -= v
	}
	for k, v := range r.Atoms {
		if v == 0 {
			delete(r.Atoms, k)
		}
	}
	return r
}

func (l wlin) isConst() (int64, bool) { return l.C, len(l.Atoms) == 0 }

func wLinEqual(a, b *wterm) bool {
	d := wLinSub(wLin(a), wLin(b))
	k, ok := d.isConst()
	return ok && k == 0
}

// wEval evaluates a term concretely given values for parameters (32-bit wrapping, signed interpretation).
func wEval(t *wterm, env map[string]int64) (int64, bool) {
	w := func(v int64) int64 { return int64(int32(v)) }
	switch t.Op {
	case "const":
		return w(t.K), true
	case "param", "global":
		v, ok := env[t.Name]
		return v, ok
	case "op":
		var a []int64
		for _, x := range t.Args {
			v, ok := wEval(x, env)
			if !ok {
				return 0, false
			}
			a = append(a, v)
		}
		b2i := func(b bool) int64 {
			if b {
				return 1
			}
			return 0
		}
		switch t.Name {
		case "add":
			return w(a[0] + a[1]), true
		case "sub":
			return w(a[0] - a[1]), true
		case "mul":
			return w(a[0] * a[1]), true
		case "div_s":
			if a[1] == 0 {
				return 0, false
			}
			return w(a[0] / a[1]), true
		case "div_u":
			if a[1] == 0 {
				return 0, false
			}
			return w(int64(uint32(a[0]) / uint32(a[1]))), true
		case "rem_s":
			if a[1] == 0 {
				return 0, false
			}
			return w(a[0] % a[1]), true
		case "and":
			return w(a[0] & a[1]), true
		case "or":
			return w(a[0] | a[1]), true
		case "xor":
			return w(a[0] ^ a[1]), true
		case "shl":
			return w(a[0] << uint(a[1]&31)), true
		case "shr_s":
			return w(a[0] >> uint(a[1]&31)), true
		case "shr_u":
			return w(int64(uint32(a[0]) >> uint(a[1]&31))), true
		case "eqz":
			return b2i(a[0] == 0), true
		case "eq":
			return b2i(a[0] == a[1]), true
		case "ne":
			return b2i(a[0] != a[1]), true
		case "lt_s":
			return b2i(a[0] < a[1]), true
		case "le_s":
			return b2i(a[0] <= a[1]), true
		case "gt_s":
			return b2i(a[0] > a[1]), true
		case "ge_s":
			return b2i(a[0] >= a[1]), true
		case "lt_u":
			return b2i(uint32(a[0]) < uint32(a[1])), true
		case "le_u":
			return b2i(uint32(a[0]) <= uint32(a[1])), true
		case "gt_u":
			return b2i(uint32(a[0]) > uint32(a[1])), true
		case "ge_u":
			return b2i(uint32(a[0]) >= uint32(a[1])), true
		case "select":
			if a[2] != 0 {
				return a[0], true
			}
			return a[1], true
		}
	}
	return 0, false
}
