package main

import (
	"go/ast"
	"go/constant"
	"go/types"
	"strings"

	"golang.org/x/tools/go/packages"
)

// Extraction of instruction-template dispatchers (wat2x64, wat2c, wat2la, wat2rv, wat2arm64):
// per arm, the ordered operand-stack effects and the emitted template lines.

type StackOp struct {
	Kind string // "pop" | "push"
	Type string // i32 i64 f32 f64
	Var  string // variable bound to the slot ("" when unused)
}

type TemplLine struct {
	Format string
	Args   []string // printed argument expressions after the format
	Pos    ast.Node
}

type TemplVariant struct {
	Cond  string // printed guard of the variant ("" for the only variant)
	Ops   []StackOp
	Lines []TemplLine
	Dyn   bool // contains stack operations with a non-constant type or inside loops/nested switches
}

type TemplArm struct {
	Tok      string
	Mnemonic string
	Arm      Arm
	Variants []TemplVariant
	Fatal    bool // arm only panics / returns an "unsupported" error
}

func tokTypeName(info *types.Info, e ast.Expr) string {
	k := constOfExpr(info, e)
	switch k.Name {
	case "I32", "I64", "F32", "F64":
		return strings.ToLower(k.Name)
	}
	return ""
}

// stackCall recognises <x>.Pop(T) / <x>.Push(T) calls.
func stackCall(info *types.Info, e ast.Expr) (kind, typ string, ok bool) {
	call, isCall := e.(*ast.CallExpr)
	if !isCall {
		return
	}
	se, isSel := call.Fun.(*ast.SelectorExpr)
	if !isSel || (se.Sel.Name != "Pop" && se.Sel.Name != "Push") || len(call.Args) != 1 {
		return
	}
	if !strings.Contains(namedTypeName(info.TypeOf(se.X)), "alueTypeStack") {
		return
	}
	return strings.ToLower(se.Sel.Name), tokTypeName(info, call.Args[0]), true
}

func findStackCall(info *types.Info, n ast.Node) (kind, typ string, ok bool) {
	ast.Inspect(n, func(m ast.Node) bool {
		if ok {
			return false
		}
		if e, isE := m.(ast.Expr); isE {
			if k, t, o := stackCall(info, e); o {
				kind, typ, ok = k, t, true
				return false
			}
		}
		return true
	})
	return
}

// extractVariant walks a straight-line statement list.
func extractVariant(info *types.Info, stmts []ast.Stmt, v *TemplVariant) {
	for _, s := range stmts {
		switch x := s.(type) {
		case *ast.AssignStmt:
			if k, t, ok := findStackCall(info, x); ok {
				name := ""
				if id, isId := x.Lhs[0].(*ast.Ident); isId && id.Name != "_" {
					name = id.Name
				}
				if t == "" {
					v.Dyn = true
				}
				v.Ops = append(v.Ops, StackOp{k, t, name})
			}
		case *ast.ExprStmt:
			if k, t, ok := stackCall(info, x.X); ok {
				if t == "" {
					v.Dyn = true
				}
				v.Ops = append(v.Ops, StackOp{k, t, ""})
				continue
			}
			if call, ok := x.X.(*ast.CallExpr); ok {
				if f := CalleeOf(info, call); f != nil && f.Pkg() != nil && f.Pkg().Path() == "fmt" && f.Name() == "Fprintf" && len(call.Args) >= 2 {
					if tv, ok := info.Types[call.Args[1]]; ok && tv.Value != nil && tv.Value.Kind() == constant.String {
						l := TemplLine{Format: constant.StringVal(tv.Value), Pos: call}
						for _, a := range call.Args[2:] {
							l.Args = append(l.Args, types.ExprString(a))
						}
						v.Lines = append(v.Lines, l)
					}
				}
			}
		case *ast.IfStmt, *ast.ForStmt, *ast.RangeStmt, *ast.SwitchStmt, *ast.BlockStmt:
			if _, _, ok := findStackCall(info, x); ok {
				v.Dyn = true
			}
			// still collect template lines inside (for content rules), flattened
			ast.Inspect(x, func(m ast.Node) bool {
				if es, ok := m.(*ast.ExprStmt); ok {
					var tmp TemplVariant
					extractVariant(info, []ast.Stmt{es}, &tmp)
					v.Lines = append(v.Lines, tmp.Lines...)
				}
				return true
			})
		}
	}
}

// ExtractTemplArms reads the instruction switch of fn (switch on i.Token()).
func ExtractTemplArms(pk *packages.Package, fd *ast.FuncDecl, ins map[string]string) ([]TemplArm, *ast.SwitchStmt) {
	info := pk.TypesInfo
	var sw *ast.SwitchStmt
	for _, s := range fd.Body.List {
		if x, ok := s.(*ast.SwitchStmt); ok {
			sw = x
		}
	}
	if sw == nil {
		return nil, nil
	}
	var out []TemplArm
	for _, arm := range SwitchArms(info, sw) {
		if arm.Default {
			continue
		}
		for _, k := range arm.Consts {
			m, ok := ins[k.Name]
			if !ok {
				continue
			}
			ta := TemplArm{Tok: k.Name, Mnemonic: m, Arm: arm}
			if isPanicOnly(info, arm.Body) || isUnsupportedReturn(info, arm.Body) {
				ta.Fatal = true
				out = append(out, ta)
				continue
			}
			// variants: a single top-level if/else whose branches both perform stack operations
			var pre, post []ast.Stmt
			var fork *ast.IfStmt
			for i, s := range arm.Body {
				if ifs, ok := s.(*ast.IfStmt); ok && ifs.Else != nil && fork == nil {
					if _, _, has := findStackCall(info, ifs.Body); has {
						if eb, ok := ifs.Else.(*ast.BlockStmt); ok {
							if _, _, has2 := findStackCall(info, eb); has2 {
								fork = ifs
								pre = arm.Body[:i]
								post = arm.Body[i+1:]
								continue
							}
						}
					}
				}
			}
			if fork != nil {
				for bi, blk := range []*ast.BlockStmt{fork.Body, fork.Else.(*ast.BlockStmt)} {
					v := TemplVariant{Cond: types.ExprString(fork.Cond)}
					if bi == 1 {
						v.Cond = "!(" + v.Cond + ")"
					}
					all := append(append(append([]ast.Stmt{}, pre...), blk.List...), post...)
					extractVariant(info, all, &v)
					ta.Variants = append(ta.Variants, v)
				}
			} else {
				v := TemplVariant{}
				extractVariant(info, arm.Body, &v)
				ta.Variants = append(ta.Variants, v)
			}
			out = append(out, ta)
		}
	}
	return out, sw
}

func isUnsupportedReturn(info *types.Info, stmts []ast.Stmt) bool {
	if len(stmts) != 1 {
		return false
	}
	ret, ok := stmts[0].(*ast.ReturnStmt)
	if !ok || len(ret.Results) != 1 {
		return false
	}
	call, ok := ret.Results[0].(*ast.CallExpr)
	if !ok {
		return false
	}
	f := CalleeOf(info, call)
	return f != nil && f.Pkg() != nil && f.Pkg().Path() == "fmt" && f.Name() == "Errorf"
}

func (v TemplVariant) pops() []string {
	var s []string
	for _, o := range v.Ops {
		if o.Kind == "pop" {
			s = append(s, o.Type)
		}
	}
	return s
}
func (v TemplVariant) pushes() []string {
	var s []string
	for _, o := range v.Ops {
		if o.Kind == "push" {
			s = append(s, o.Type)
		}
	}
	return s
}

// varOf returns the variable bound to the n-th pop (0 = first popped = top of stack) or push.
func (v TemplVariant) varOf(kind string, n int) string {
	i := 0
	for _, o := range v.Ops {
		if o.Kind == kind {
			if i == n {
				return o.Var
			}
			i++
		}
	}
	return ""
}

func sliceEq(a, b []string) bool {
	if len(a) != len(b) {
		return false
	}
	for i := range a {
		if a[i] != b[i] {
			return false
		}
	}
	return true
}
