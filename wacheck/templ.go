package main

import (
	"go/ast"
	"go/constant"
	"go/types"
	"strings"

	"golang.org/x/tools/go/packages"
)

// Extraction of instruction-template dispatchers (wat2x64, wat2c, wat2la, wat2rv, wat2arm64):
// per arm, the ordered operand-stack effects and the emitted template lines.

type StackOp struct {
	Kind string // "pop" | "push"
	Type string // i32 i64 f32 f64
	Var  string // variable bound to the slot ("" when unused)
}

type TemplLine struct {
	Format string
	Args   []string // printed argument expressions after the format
	Pos    ast.Node
}

type TemplVariant struct {
	Cond  string // printed guard of the variant ("" for the only variant)
	Ops   []StackOp
	Lines []TemplLine
	Dyn   bool // contains stack operations with a non-constant type or inside loops/nested switches
}

type TemplArm struct {
	Tok      string
	Mnemonic string
	Arm      Arm
	Variants []TemplVariant
	Fatal    bool // arm only panics / returns an "unsupported" error
}

func tokTypeName(info *types.Info, e ast.Expr) string {
	k := constOfExpr(info, e)
	switch k.Name {
	case "I32", "I64", "F32", "F64":
		return strings.ToLower(k.Name)
	}
	return ""
}

// stackCall recognises <x>.Pop(T) / <x>.Push(T) calls.
func stackCall(info *types.Info, e ast.Expr) (kind, typ string, ok bool) {
	call, isCall := e.(*ast.CallExpr)
	if !isCall {
		return
	}
	se, isSel := call.Fun.(*ast.SelectorExpr)
	if !isSel || (se.Sel.Name != "Pop" && se.Sel.Name != "Push") || len(call.Args) != 1 {
		return
	}
	if !strings.Contains(namedTypeName(info.TypeOf(se.X)), "alueTypeStack") {
		return
	}
	return strings.ToLower(se.Sel.Name), tokTypeName(info, call.Args[0]), true
}

func findStackCall(info *types.Info, n ast.Node) (kind, typ string, ok bool) {
	ast.Inspect(n, func(m ast.Node) bool {
		if ok {
			return false
		}
		if e, isE := m.(ast.Expr); isE {
			if k, t, o := stackCall(info, e); o {
				kind, typ, ok = k, t, true
				return false
			}
		}
		return true
	})
	return
}

// extractVariant walks a straight-line statement list.
func extractVariant(info *types.Info, stmts []ast.Stmt, v *TemplVariant) {
	for _, s := range stmts {
		switch x := s.(type) {
		case *ast.AssignStmt:
			if k, t, ok := findStackCall(info, x); ok {
				name := ""
				if id, isId := x.Lhs[0].(*ast.Ident); isId && id.Name != "_" {
					name = id.Name
				}
				if t == "" {
					v.Dyn = true
				}
				v.Ops = append(v.Ops, StackOp{k, t, name})
			}
		case *ast.ExprStmt:
			if k, t, ok := stackCall(info, x.X); ok {
				if t == "" {
					v.Dyn = true
				}
				v.Ops = append(v.Ops, StackOp{k, t, ""})
				continue
			}
			if call, ok := x.X.(*ast.CallExpr); ok {
				if f := CalleeOf(info, call); f != nil && f.Pkg() != nil && f.Pkg().Path() == "fmt" && f.Name() == "Fprintf" && len(call.Args) >= 2 {
					if tv, ok := info.Types[call.Args[1]]; ok && tv.Value != nil && tv.Value.Kind() == constant.String {
						l := TemplLine{Format: constant.StringVal(tv.Value), Pos: call}
						args := call.Args[2:]
						if templResolve != nil {
							l.Format, args = templSubstitute(l.Format, args)
						}
						for _, a := range args {
							l.Args = append(l.Args, types.ExprString(a))
						}
						v.Lines = append(v.Lines, l)
					}
				}
			}
		case *ast.IfStmt, *ast.ForStmt, *ast.RangeStmt, *ast.SwitchStmt, *ast.BlockStmt:
			if _, _, ok := findStackCall(info, x); ok {
				v.Dyn = true
			}
			// still collect template lines inside (for content rules), flattened
			ast.Inspect(x, func(m ast.Node) bool {
				if es, ok := m.(*ast.ExprStmt); ok {
					var tmp TemplVariant
					extractVariant(info, []ast.Stmt{es}, &tmp)
					v.Lines = append(v.Lines, tmp.Lines...)
				}
				return true
			})
		}
	}
}

// ExtractTemplArms reads the instruction switch of fn (switch on i.Token()).
func ExtractTemplArms(pk *packages.Package, fd *ast.FuncDecl, ins map[string]string) ([]TemplArm, *ast.SwitchStmt) {
	info := pk.TypesInfo
	var sw *ast.SwitchStmt
	for _, s := range fd.Body.List {
		if x, ok := s.(*ast.SwitchStmt); ok {
			sw = x
		}
	}
	if sw == nil {
		return nil, nil
	}
	var out []TemplArm
	for _, arm := range SwitchArms(info, sw) {
		if arm.Default {
			continue
		}
		for _, k := range arm.Consts {
			m, ok := ins[k.Name]
			if !ok {
				continue
			}
			ta := TemplArm{Tok: k.Name, Mnemonic: m, Arm: arm}
			templResolve = templTableResolver(pk, sw, arm.Body, k.Name)
			if isPanicOnly(info, arm.Body) || isUnsupportedReturn(info, arm.Body) {
				ta.Fatal = true
				out = append(out, ta)
				continue
			}
			// variants: a single top-level if/else whose branches both perform stack operations
			var pre, post []ast.Stmt
			var fork *ast.IfStmt
			for i, s := range arm.Body {
				if ifs, ok := s.(*ast.IfStmt); ok && ifs.Else != nil && fork == nil {
					if _, _, has := findStackCall(info, ifs.Body); has {
						if eb, ok := ifs.Else.(*ast.BlockStmt); ok {
							if _, _, has2 := findStackCall(info, eb); has2 {
								fork = ifs
								pre = arm.Body[:i]
								post = arm.Body[i+1:]
								continue
							}
						}
					}
				}
			}
			if fork != nil {
				for bi, blk := range []*ast.BlockStmt{fork.Body, fork.Else.(*ast.BlockStmt)} {
					v := TemplVariant{Cond: types.ExprString(fork.Cond)}
					if bi == 1 {
						v.Cond = "!(" + v.Cond + ")"
					}
					all := append(append(append([]ast.Stmt{}, pre...), blk.List...), post...)
					extractVariant(info, all, &v)
					ta.Variants = append(ta.Variants, v)
				}
			} else {
				v := TemplVariant{}
				extractVariant(info, arm.Body, &v)
				ta.Variants = append(ta.Variants, v)
			}
			out = append(out, ta)
		}
	}
	templResolve = nil
	return out, sw
}

// templResolve answers the string a `%s` argument stands for in the arm being read, when that is a static fact: the
// arm serves several instruction tokens and takes the varying part of its text from a package-level table indexed by
// the token (`op := cmpTable[tok]; fmt.Fprintf(w, "    %s al\n", op.setcc)`). For the token under consideration the
// table entry is read from the table's composite literal.
var templResolve func(ast.Expr) (string, bool)

// templSubstitute replaces the `%s` verbs whose arguments resolve; the other verbs keep their arguments.
func templSubstitute(format string, args []ast.Expr) (string, []ast.Expr) {
	var out strings.Builder
	var rest []ast.Expr
	ai := 0
	for i := 0; i < len(format); i++ {
		if format[i] != '%' || i+1 >= len(format) {
			out.WriteByte(format[i])
			continue
		}
		if format[i+1] == '%' {
			out.WriteString("%%")
			i++
			continue
		}
		// a verb: flags/width up to the verb letter
		j := i + 1
		for j < len(format) && strings.IndexByte("+-# 0123456789.", format[j]) >= 0 {
			j++
		}
		if j >= len(format) || ai >= len(args) {
			out.WriteString(format[i:])
			break
		}
		if format[j] == 's' && j == i+1 {
			if s, ok := templResolve(args[ai]); ok {
				out.WriteString(strings.ReplaceAll(s, "%", "%%"))
				ai++
				i = j
				continue
			}
		}
		out.WriteString(format[i : j+1])
		rest = append(rest, args[ai])
		ai++
		i = j
	}
	return out.String(), append(rest, args[min(ai, len(args)):]...)
}

// templTableResolver builds the resolver for one arm and one token constant.
func templTableResolver(pk *packages.Package, sw *ast.SwitchStmt, body []ast.Stmt, tokName string) func(ast.Expr) (string, bool) {
	info := pk.TypesInfo
	tag := ""
	if sw.Tag != nil {
		tag = types.ExprString(sw.Tag)
	}
	// the table entry for tokName: value expression of the element keyed by that constant
	entryOf := func(tbl ast.Expr) ast.Expr {
		id, ok := ast.Unparen(tbl).(*ast.Ident)
		if !ok {
			return nil
		}
		v, ok := info.Uses[id].(*types.Var)
		if !ok || v.Parent() != pk.Types.Scope() {
			return nil
		}
		for _, f := range pk.Syntax {
			for _, d := range f.Decls {
				gd, ok := d.(*ast.GenDecl)
				if !ok {
					continue
				}
				for _, sp := range gd.Specs {
					vs, ok := sp.(*ast.ValueSpec)
					if !ok {
						continue
					}
					for i, nm := range vs.Names {
						if info.Defs[nm] != v || i >= len(vs.Values) {
							continue
						}
						cl, ok := vs.Values[i].(*ast.CompositeLit)
						if !ok {
							return nil
						}
						for _, el := range cl.Elts {
							if kv, ok := el.(*ast.KeyValueExpr); ok && constOfExpr(info, kv.Key).Name == tokName {
								return kv.Value
							}
						}
					}
				}
			}
		}
		return nil
	}
	// locals defined as table[tag]
	entries := map[types.Object]ast.Expr{}
	for _, s := range body {
		as, ok := s.(*ast.AssignStmt)
		if !ok || len(as.Lhs) < 1 || len(as.Rhs) != 1 {
			continue
		}
		ix, ok := ast.Unparen(as.Rhs[0]).(*ast.IndexExpr)
		if !ok || tag == "" || types.ExprString(ix.Index) != tag {
			continue
		}
		if e := entryOf(ix.X); e != nil {
			if o := identObj(info, as.Lhs[0]); o != nil {
				entries[o] = e
			}
		}
	}
	str := func(e ast.Expr) (string, bool) {
		if tv, ok := info.Types[e]; ok && tv.Value != nil && tv.Value.Kind() == constant.String {
			return constant.StringVal(tv.Value), true
		}
		return "", false
	}
	return func(a ast.Expr) (string, bool) {
		switch x := ast.Unparen(a).(type) {
		case *ast.IndexExpr: // table[tag] with string values
			if tag != "" && types.ExprString(x.Index) == tag {
				if e := entryOf(x.X); e != nil {
					return str(e)
				}
			}
		case *ast.SelectorExpr: // entry.field
			e := entries[identObj(info, x.X)]
			if e == nil {
				if ix, ok := ast.Unparen(x.X).(*ast.IndexExpr); ok && tag != "" && types.ExprString(ix.Index) == tag {
					e = entryOf(ix.X)
				}
			}
			cl, ok := e.(*ast.CompositeLit)
			if !ok {
				return "", false
			}
			sel, ok := info.Selections[x]
			if !ok || sel.Kind() != types.FieldVal || len(sel.Index()) != 1 {
				return "", false
			}
			fi := sel.Index()[0]
			for i, el := range cl.Elts {
				if kv, ok := el.(*ast.KeyValueExpr); ok {
					if k, ok := kv.Key.(*ast.Ident); ok && k.Name == x.Sel.Name {
						return str(kv.Value)
					}
					continue
				}
				if i == fi {
					return str(el)
				}
			}
		case *ast.Ident: // a local entry that is itself a string
			if e := entries[identObj(info, x)]; e != nil {
				return str(e)
			}
		}
		return "", false
	}
}

func isUnsupportedReturn(info *types.Info, stmts []ast.Stmt) bool {
	if len(stmts) != 1 {
		return false
	}
	ret, ok := stmts[0].(*ast.ReturnStmt)
	if !ok || len(ret.Results) != 1 {
		return false
	}
	call, ok := ret.Results[0].(*ast.CallExpr)
	if !ok {
		return false
	}
	f := CalleeOf(info, call)
	return f != nil && f.Pkg() != nil && f.Pkg().Path() == "fmt" && f.Name() == "Errorf"
}

func (v TemplVariant) pops() []string {
	var s []string
	for _, o := range v.Ops {
		if o.Kind == "pop" {
			s = append(s, o.Type)
		}
	}
	return s
}
func (v TemplVariant) pushes() []string {
	var s []string
	for _, o := range v.Ops {
		if o.Kind == "push" {
			s = append(s, o.Type)
		}
	}
	return s
}

// varOf returns the variable bound to the n-th pop (0 = first popped = top of stack) or push.
func (v TemplVariant) varOf(kind string, n int) string {
	i := 0
	for _, o := range v.Ops {
		if o.Kind == kind {
			if i == n {
				return o.Var
			}
			i++
		}
	}
	return ""
}

func sliceEq(a, b []string) bool {
	if len(a) != len(b) {
		return false
	}
	for i := range a {
		if a[i] != b[i] {
			return false
		}
	}
	return true
}
