package main

import (
	"fmt"
	"go/ast"
	"go/token"
	"go/types"
	"strings"

	"golang.org/x/tools/go/packages"
)

// C09 init-name-counter (added after a seeded change was missed): a package may declare several initialisers
// (`func init` in .wa, `函数 准备` in .wz). The SSA builder gives each a distinct member name, `init#1`, `init#2`, … /
// `准备#1`, …, from one per-package counter. Members and the back end are keyed by that name, so in every branch that
// builds such a name the counter is advanced before it is used and the name is built from the counter itself; a branch
// that formats `counter+1` without storing it names every initialiser of the package alike — all but the last are
// dropped and the last one runs once per declaration.

func c09InitNameCounter(c *Ctx, p *Prog, ssap *packages.Package) {
	const rule = "init-name-counter"
	info := ssap.TypesInfo
	fd := p.MustFunc(rule, ssap, "memberFromObject")
	if fd == nil {
		return
	}
	n := 0
	var walk func(list []ast.Stmt)
	walk = func(list []ast.Stmt) {
		for i, s := range list {
			// recurse
			switch x := s.(type) {
			case *ast.BlockStmt:
				walk(x.List)
			case *ast.IfStmt:
				walk(x.Body.List)
				if x.Else != nil {
					walk([]ast.Stmt{x.Else})
				}
			case *ast.SwitchStmt:
				for _, cc := range x.Body.List {
					walk(cc.(*ast.CaseClause).Body)
				}
			case *ast.TypeSwitchStmt:
				for _, cc := range x.Body.List {
					walk(cc.(*ast.CaseClause).Body)
				}
			case *ast.AssignStmt:
				if len(x.Rhs) != 1 {
					continue
				}
				call, ok := x.Rhs[0].(*ast.CallExpr)
				if !ok || len(call.Args) < 2 {
					continue
				}
				if fn := CalleeOf(info, call); fn == nil || FuncFullName(fn) != "fmt.Sprintf" {
					continue
				}
				// the format mentions "#%d" (a numbered member name)
				if !strings.Contains(types.ExprString(call.Args[0]), "#%d") {
					continue
				}
				arg := ast.Unparen(call.Args[len(call.Args)-1])
				n++
				construct := fmt.Sprintf("memberFromObject: numbered name #%d (%s)", n, strings.TrimSpace(types.ExprString(call.Args[0])))
				// the counter: a field selector used as the last argument
				se, isSel := arg.(*ast.SelectorExpr)
				if !isSel {
					c.Fail(rule, construct, p.Pos(call.Pos()), fmt.Sprintf("the number in the name is `%s`, not the stored counter: unless the counter itself is advanced first every initialiser of the package gets the same name, and since members are keyed by name all but the last are dropped while the last runs once per declaration", types.ExprString(arg)))
					continue
				}
				advanced := false
				for _, prev := range list[:i] {
					if inc, ok := prev.(*ast.IncDecStmt); ok && inc.Tok == token.INC && types.ExprString(inc.X) == types.ExprString(se) {
						advanced = true
					}
					if as, ok := prev.(*ast.AssignStmt); ok && as.Tok == token.ADD_ASSIGN && len(as.Lhs) == 1 && types.ExprString(as.Lhs[0]) == types.ExprString(se) {
						advanced = true
					}
				}
				c.Check(advanced, rule, construct, p.Pos(call.Pos()), "counter advanced before the name is built",
					fmt.Sprintf("the name is numbered with %s but the counter is not advanced in this branch: two initialisers of one package get the same member name", types.ExprString(se)))
			}
		}
	}
	walk(fd.Body.List)
	c.Min(rule, "numbered initialiser names", n, 2)
}
