package main

import (
	"go/types"
	"strings"

	"golang.org/x/tools/go/callgraph"
	"golang.org/x/tools/go/ssa"
)

// Purity summaries on SSA: a function is "pure" when it performs no store to memory it did not allocate itself,
// no map update on a map it did not make, no channel/goroutine operation, and calls only pure functions
// (all VTA callees for dynamic calls). Recursion is resolved optimistically. Panics are not effects.

type Purity struct {
	p     *Prog
	cg    *callgraph.Graph
	memo  map[*ssa.Function]int // 0 unknown, 1 in progress/pure, 2 impure
	why   map[*ssa.Function]string
	depth int
}

func NewPurity(p *Prog) *Purity {
	return &Purity{p: p, cg: p.CallGraph(), memo: map[*ssa.Function]int{}, why: map[*ssa.Function]string{}}
}

var purePkgs = map[string]bool{"strings": true, "strconv": true, "unicode": true, "unicode/utf8": true, "unicode/utf16": true, "bytes": true, "math": true, "math/bits": true,
	"path": true, "path/filepath": true, "sort": false, "errors": true, "go/constant": true, "math/big": true, "reflect": true}

func rootOfAddr(v ssa.Value) ssa.Value {
	for i := 0; i < 20; i++ {
		switch x := v.(type) {
		case *ssa.FieldAddr:
			v = x.X
		case *ssa.IndexAddr:
			v = x.X
		case *ssa.Slice:
			v = x.X
		case *ssa.ChangeType:
			v = x.X
		case *ssa.Convert:
			v = x.X
		case *ssa.Phi:
			return x
		default:
			return v
		}
	}
	return v
}

func isLocalRoot(v ssa.Value) bool {
	switch x := rootOfAddr(v).(type) {
	case *ssa.Alloc:
		return true
	case *ssa.MakeMap, *ssa.MakeSlice:
		return true
	case *ssa.UnOp:
		// load of a pointer held in a local slot (e.g. a freshly allocated struct stored in a local)
		if _, ok := rootOfAddr(x.X).(*ssa.Alloc); ok {
			return false
		}
	}
	return false
}

func (u *Purity) Pure(fn *ssa.Function) bool {
	if fn == nil {
		return false
	}
	switch u.memo[fn] {
	case 1:
		return true
	case 2:
		return false
	}
	u.memo[fn] = 1
	if len(fn.Blocks) == 0 {
		// external / library function without a body in this program
		pk := ""
		if fn.Pkg != nil {
			pk = fn.Pkg.Pkg.Path()
		}
		if purePkgs[pk] || (pk == "fmt" && (strings.HasPrefix(fn.Name(), "Sprint") || fn.Name() == "Errorf")) {
			return true
		}
		u.memo[fn] = 2
		u.why[fn] = "no body"
		return false
	}
	if fn.Pkg != nil && !strings.HasPrefix(fn.Pkg.Pkg.Path(), modPath) {
		pk := fn.Pkg.Pkg.Path()
		if purePkgs[pk] || (pk == "fmt" && (strings.HasPrefix(fn.Name(), "Sprint") || fn.Name() == "Errorf")) {
			return true
		}
		if pk == "sync" || pk == "sync/atomic" {
			// locking is not an ordering effect on the output
			return true
		}
	}
	bad := ""
	node := u.cg.Nodes[fn]
	calleesAt := func(site ssa.CallInstruction) []*ssa.Function {
		var out []*ssa.Function
		if node != nil {
			for _, e := range node.Out {
				if e.Site == site {
					out = append(out, e.Callee.Func)
				}
			}
		}
		return out
	}
	for _, b := range fn.Blocks {
		for _, ins := range b.Instrs {
			switch x := ins.(type) {
			case *ssa.Store:
				if !isLocalRoot(x.Addr) {
					bad = "store to non-local memory"
				}
			case *ssa.MapUpdate:
				if _, ok := x.Map.(*ssa.MakeMap); !ok {
					bad = "update of a non-local map"
				}
			case *ssa.Send, *ssa.Go:
				bad = "channel/goroutine operation"
			case ssa.CallInstruction:
				cc := x.Common()
				if bi, ok := cc.Value.(*ssa.Builtin); ok {
					switch bi.Name() {
					case "copy":
						if !isLocalRoot(cc.Args[0]) {
							bad = "copy into non-local memory"
						}
					case "delete":
						if _, ok := cc.Args[0].(*ssa.MakeMap); !ok {
							bad = "delete on a non-local map"
						}
					case "print", "println":
						bad = "print"
					case "close":
						bad = "close"
					}
					continue
				}
				cs := calleesAt(x)
				if len(cs) == 0 {
					if sc := cc.StaticCallee(); sc != nil {
						cs = []*ssa.Function{sc}
					} else {
						bad = "call with no resolved callee"
					}
				}
				for _, callee := range cs {
					if !u.Pure(callee) {
						bad = "calls " + short(callee.String())
						break
					}
				}
			}
			if bad != "" {
				break
			}
		}
		if bad != "" {
			break
		}
	}
	if bad != "" {
		u.memo[fn] = 2
		u.why[fn] = bad
		return false
	}
	return true
}

// PureObj: purity of the function denoted by a types.Func.
func (u *Purity) PureObj(f *types.Func) bool {
	if f == nil {
		return false
	}
	fn := u.p.SSA.FuncValue(f)
	if fn == nil {
		// interface method: all implementations reachable in the call graph would be needed; be conservative
		return false
	}
	return u.Pure(fn)
}
