package main

import (
	"bytes"
	"go/ast"
	"go/printer"
)

// nodeString prints an AST node in canonical gofmt form (comments dropped).
func nodeString(p *Prog, n ast.Node) string {
	var buf bytes.Buffer
	cfg := printer.Config{Mode: printer.RawFormat}
	if err := cfg.Fprint(&buf, p.Fset, n); err != nil {
		return ""
	}
	return buf.String()
}
