package main

import (
	"fmt"
	"go/ast"
	"go/types"
	"sort"
	"strings"
	"unicode"
)

func init() {
	f := "internal/token/serialize.go"
	register(&Property{ID: "C23", Run: runC23, Mutants: []Mutant{
		{Name: "content update validates the new line table against the old size", File: "internal/token/position.go", Old: "\t// set lines table\n\tf.mutex.Lock()\n\tf.size = len(content)\n\tf.lines = lines\n\tf.mutex.Unlock()\n}", New: "\tf.SetLines(lines)\n\n\tf.mutex.Lock()\n\tf.size = len(content)\n\tf.mutex.Unlock()\n}", Expect: "content-update-installs-table"},
		{Name: "serialized files sorted by name", File: "internal/token/serialize.go", Old: "\treturn encode(ss)\n}", New: "\tsort.SliceStable(ss.Files, func(i, j int) bool {\n\t\treturn ss.Files[i].Name < ss.Files[j].Name\n\t})\n\n\treturn encode(ss)\n}", Old2: "\t\"fmt\"\n)", New2: "\t\"fmt\"\n\t\"sort\"\n)", Expect: "file-order-by-base"},
		{Name: "the next file's base ignores this file's spare capacity", File: "internal/token/position.go", Old: "\tbase += cap + 1 // +1 because EOF also has a position", New: "\tbase += size + 1 // +1 because EOF also has a position", Expect: "fileset-range-reserved"},
		{Name: "Read keeps the lookup cache of the old file list", File: "internal/token/serialize.go", Old: "\ts.files = files\n\ts.last = nil\n", New: "\ts.files = files\n", Expect: "fileset-cache-invalidation"},
		{Name: "two serialized fields share a JSON name", File: "internal/token/position.go", Old: "\tLine, Column int", New: "\tLine   int `json:\"line\"`\n\tColumn int `json:\"line\"`", Expect: "serialized-name-unique :: token.lineInfo"},
		{Name: "nil-check panic block shared per function", File: "internal/ssa/emit.go", Old: "\tpanicInstr := &Panic{X: panicMsg}\n\tpanicInstr.pos = pos\n\tf.emit(panicInstr)", New: "\tif len(panicBlock.Instrs) == 0 {\n\t\tpanicInstr := &Panic{X: panicMsg}\n\t\tpanicInstr.pos = pos\n\t\tf.emit(panicInstr)\n\t}", Expect: "panic-position-per-site :: internal/ssa.emitNilCheck"},
		{Name: "line table not serialized", File: f, Old: "\t\t\tLines: append([]int(nil), f.lines...),\n", New: "", Expect: "position-field-coverage :: File.lines"},
		{Name: "size restored from base", File: f, Old: "\t\t\tsize:  f.Size,", New: "\t\t\tsize:  f.Base,", Expect: "position-field-coverage :: File.size"},
		{Name: "alternative positions (//line infos) restored from nothing", File: f, Old: "\t\t\tinfos: f.Infos,\n", New: "", Expect: "position-field-coverage :: File.infos"},
		{Name: "file list not restored", File: f, Old: "\ts.files = files\n", New: "\t_ = files\n", Expect: "position-field-coverage :: FileSet.files"},
		{Name: "panic position taken from the enclosing function", File: "internal/backends/compiler_wat/compile_func.go", Old: "callPos := g.prog.Fset.Position(panic_.Pos())", New: "callPos := g.prog.Fset.Position(panic_.Parent().Pos())", Expect: "panic-position-provenance"},
		{Name: "panic position string dropped", File: "internal/backends/compiler_wat/compile_func.go", Old: "\t\tcallPos := g.prog.Fset.Position(panic_.Pos())\n\t\ts := wir.NewConst(callPos.String(), g.module.STRING)", New: "\t\tcallPos := g.prog.Fset.Position(panic_.Pos())\n\t\ts := wir.NewConst(callPos.Filename, g.module.STRING)", Expect: "panic-position-provenance"},
	}})
}

func runC23(c *Ctx) {
	c.Explain = "Decides two structural clauses: (1) every field of token.File / token.FileSet that the position-computing functions read (Position, PositionFor, position, unpack, Line, Offset, Pos, file lookup and the search helpers) is copied by FileSet.Write into an exported field of the serialized form and restored by FileSet.Read from that same field, so a JSON round trip cannot lose or permute position data; " +
		"(2) the position string compiled into a run-time panic (and assert) is Fset.Position(<the panicking instruction>.Pos()).String(), pushed before the call to $runtime.panic_. " +
		"NOT decided: the line-table arithmetic itself (binary search, line/column computation), and that the host prints the emitted string."
	c.Trusted = []string{"go/packages, go/types (x/tools v0.29.0)"}
	p := c.Load(LoadOpt{Light: true}, "./internal/token", "./internal/backends/compiler_wat", "./internal/ssa")
	const r1, r2 = "position-field-coverage", "panic-position-provenance"
	tk := p.MustPkg(r1, "internal/token")
	cw := p.MustPkg(r2, "internal/backends/compiler_wat")
	if tk == nil || cw == nil {
		return
	}
	c23Extra(c, p, tk)
	c23FileSet(c, p, tk)
	c23Round4(c, p, tk)
	if sp := p.MustPkg("panic-position-per-site", "internal/ssa"); sp != nil {
		c23PanicSites(c, p, sp)
	}
	// P: fields read by position functions
	posFuncs := map[string]bool{"File.position": true, "File.unpack": true, "File.Offset": true, "File.Pos": true, "File.Line": true, "File.PositionFor": true, "File.Position": true, "File.LineCount": true,
		"FileSet.file": true, "FileSet.PositionFor": true, "FileSet.Position": true, "FileSet.File": true, "searchFiles": true, "searchInts": true, "searchLineInfos": true}
	reads, _ := FieldAccesses(tk, "internal/token", func(n string) bool { return posFuncs[n] })
	ignore := map[string]string{"File.mutex": "lock", "FileSet.mutex": "lock", "File.set": "back pointer, rebuilt by Read", "FileSet.last": "lookup cache, reset by Read"}
	var P []string
	for k := range reads {
		if (strings.HasPrefix(k, "File.") || strings.HasPrefix(k, "FileSet.")) && ignore[k] == "" {
			P = append(P, k)
		}
	}
	sort.Strings(P)
	c.Min(r1, "position-relevant fields", len(P), 6)

	wr := p.MustFunc(r1, tk, "FileSet.Write")
	rd := p.MustFunc(r1, tk, "FileSet.Read")
	if wr == nil || rd == nil {
		return
	}
	info := tk.TypesInfo
	// The two conversions may be written in Write / Read themselves or in helpers of the package they call
	// (`f.serialized()`, `sf.toFile(s)`): composite literals are collected from the function and from the package
	// functions it calls (two levels). Which field feeds which is read from the field selections in the value
	// expression (go/types), not from variable names.
	bodies := func(fd *ast.FuncDecl) []*ast.FuncDecl {
		decls := map[*types.Func]*ast.FuncDecl{}
		for _, f := range tk.Syntax {
			for _, d := range f.Decls {
				if x, ok := d.(*ast.FuncDecl); ok && x.Body != nil {
					if fo, ok := info.Defs[x.Name].(*types.Func); ok {
						decls[fo] = x
					}
				}
			}
		}
		out := []*ast.FuncDecl{fd}
		seen := map[*ast.FuncDecl]bool{fd: true}
		for level, frontier := 0, []*ast.FuncDecl{fd}; level < 2; level++ {
			var next []*ast.FuncDecl
			for _, g := range frontier {
				ast.Inspect(g.Body, func(n ast.Node) bool {
					if call, ok := n.(*ast.CallExpr); ok {
						if fn := CalleeOf(info, call); fn != nil && decls[fn] != nil && !seen[decls[fn]] {
							seen[decls[fn]] = true
							out = append(out, decls[fn])
							next = append(next, decls[fn])
						}
					}
					return true
				})
			}
			frontier = next
		}
		return out
	}
	// fieldsOf lists the fields of struct `owner` selected anywhere in e
	fieldsOf := func(e ast.Expr, owner string) []string {
		var out []string
		ast.Inspect(e, func(n ast.Node) bool {
			if se, ok := n.(*ast.SelectorExpr); ok {
				if sel, ok := info.Selections[se]; ok && sel.Kind() == types.FieldVal && namedTypeName(sel.Recv()) == owner {
					out = append(out, se.Sel.Name)
				}
			}
			return true
		})
		return out
	}
	// Write: serializedFile{X: ...f.x...}   serialized field -> File fields it is computed from
	writeMap := map[string][]string{}
	for _, fd := range bodies(wr) {
		ast.Inspect(fd.Body, func(n ast.Node) bool {
			cl, ok := n.(*ast.CompositeLit)
			if !ok || namedTypeName(info.TypeOf(cl)) != "serializedFile" {
				return true
			}
			for _, el := range cl.Elts {
				if kv, ok := el.(*ast.KeyValueExpr); ok {
					writeMap[types.ExprString(kv.Key)] = fieldsOf(kv.Value, "File")
				}
			}
			return true
		})
	}
	// Read: &File{x: f.X}   File field -> serialized field it is restored from (the value must be that field itself)
	readMap := map[string]string{}
	for _, fd := range bodies(rd) {
		ast.Inspect(fd.Body, func(n ast.Node) bool {
			cl, ok := n.(*ast.CompositeLit)
			if !ok || namedTypeName(info.TypeOf(cl)) != "File" {
				return true
			}
			for _, el := range cl.Elts {
				if kv, ok := el.(*ast.KeyValueExpr); ok {
					if se, ok := ast.Unparen(kv.Value).(*ast.SelectorExpr); ok {
						if fs := fieldsOf(se, "serializedFile"); len(fs) == 1 {
							readMap[types.ExprString(kv.Key)] = fs[0]
						}
					}
				}
			}
			return true
		})
	}
	assigns := func(fd *ast.FuncDecl) map[string]string {
		m := map[string]string{}
		ast.Inspect(fd.Body, func(n ast.Node) bool {
			if as, ok := n.(*ast.AssignStmt); ok && len(as.Lhs) == 1 && len(as.Rhs) == 1 {
				m[types.ExprString(as.Lhs[0])] = types.ExprString(as.Rhs[0])
			}
			return true
		})
		return m
	}
	wAs, rAs := assigns(wr), assigns(rd)
	serFields := StructFields(tk)
	exported := func(structName, field string) bool {
		v, ok := serFields[structName+"."+field]
		return ok && v.Exported()
	}
	for _, k := range P {
		owner, field := k[:strings.Index(k, ".")], k[strings.Index(k, ".")+1:]
		loc := p.Pos(wr.Pos())
		if owner == "File" {
			// which serialized field carries it?
			ser := ""
			for sf, src := range writeMap {
				for _, x := range src {
					if x == field {
						ser = sf
					}
				}
			}
			back := readMap[field]
			good := ser != "" && back == ser && exported("serializedFile", ser)
			detail := fmt.Sprintf("Write: %s <- f.%s; Read: %s <- %s", ser, field, field, back)
			bad := fmt.Sprintf("position-relevant field File.%s does not survive serialization: Write stores it in %q (exported: %v), Read restores %s from %q", field, ser, exported("serializedFile", ser), field, back)
			c.Check(good, r1, k, loc, detail, bad)
			continue
		}
		// FileSet
		switch field {
		case "files":
			good := wAs["ss.Files"] == "files" && rAs["s.files"] == "files" && exported("serializedFileSet", "Files")
			c.Check(good, r1, k, loc, "ss.Files = files / s.files = files", "the file list is not written to / restored from the exported field Files")
		default:
			ser := strings.ToUpper(field[:1]) + field[1:]
			good := wAs["ss."+ser] == "s."+field && rAs["s."+field] == "ss."+ser && exported("serializedFileSet", ser)
			c.Check(good, r1, k, loc, fmt.Sprintf("ss.%s = s.%s / s.%s = ss.%s", ser, field, field, ser), fmt.Sprintf("position-relevant field FileSet.%s is not written to and restored from the exported field %s", field, ser))
		}
	}
	// every field of the nested lineInfo must be exported (encoding/json drops unexported fields silently)
	for k, v := range serFields {
		if strings.HasPrefix(k, "lineInfo.") || strings.HasPrefix(k, "serializedFile.") || strings.HasPrefix(k, "serializedFileSet.") {
			name := k[strings.Index(k, ".")+1:]
			c.Check(v.Exported() && unicode.IsUpper(rune(name[0])), r1, "exported "+k, p.Pos(v.Pos()), "exported (encoded by encoding/json)", "field "+k+" is unexported: encoding/json silently drops it, so positions change after ToJson/FromJson")
		}
	}

	// (2) panic provenance
	c23PanicOrder(c, p, cw)
}
