package main

import (
	"fmt"
	"go/ast"
	"go/token"
	"go/types"
	"sort"
	"strings"

	"golang.org/x/tools/go/packages"
)

// C17 x64-modrm-form (added after a seeded change was missed): in the x86-64 ModRM byte some rm values do not name a
// register: with mod=00, rm=101 ([rbp] / [r13]) means "disp32, no base", and rm=100 ([rsp] / [r12]) announces a SIB byte
// in every memory mode. The assembler's addressing routine (asmandsz) therefore emits `mod<<6 | reg[base] | r<<3`
//   - without a SIB byte only on paths where base is none of SP, R12, and with mod=00 none of BP, R13 either;
//   - followed by a SIB byte (asmidx) only on paths where base is SP or R12;
// and a SIB byte after mod=00 names its base register only when that is not BP/R13 (base=101 there means "no base").
// Every disassembler reads the bytes this way, so a path that emits the forbidden form assembles `[r13]` as a
// RIP-relative access with the following bytes as displacement. The rule collects, flow-sensitively (flowwalk.go),
// which registers the path to each emission has excluded or selected.

type regFacts struct {
	notIn map[types.Object]map[string]bool
	in    map[types.Object]map[string]bool // nil entry: unknown
}

func newRegFacts() *regFacts {
	return &regFacts{notIn: map[types.Object]map[string]bool{}, in: map[types.Object]map[string]bool{}}
}

func (r *regFacts) Copy() flowFacts {
	n := newRegFacts()
	for o, s := range r.notIn {
		n.notIn[o] = map[string]bool{}
		for k := range s {
			n.notIn[o][k] = true
		}
	}
	for o, s := range r.in {
		n.in[o] = map[string]bool{}
		for k := range s {
			n.in[o][k] = true
		}
	}
	return n
}

func (r *regFacts) Reset() {
	r.notIn = map[types.Object]map[string]bool{}
	r.in = map[types.Object]map[string]bool{}
}

// excludes reports whether the facts establish that o is none of regs.
func (r *regFacts) excludes(o types.Object, regs ...string) bool {
	if in, ok := r.in[o]; ok {
		for _, g := range regs {
			if in[g] {
				return false
			}
		}
		return true
	}
	for _, g := range regs {
		if !r.notIn[o][g] {
			return false
		}
	}
	return true
}

func (r *regFacts) within(o types.Object, regs ...string) bool {
	in, ok := r.in[o]
	if !ok || len(in) == 0 {
		return false
	}
	allowed := map[string]bool{}
	for _, g := range regs {
		allowed[g] = true
	}
	for g := range in {
		if !allowed[g] {
			return false
		}
	}
	return true
}

func c17X64ModRM(c *Ctx, p *Prog, pk *packages.Package) {
	const rule = "x64-modrm-form"
	info := pk.TypesInfo
	fd := p.MustFunc(rule, pk, "AsmBuf.asmandsz")
	if fd == nil {
		return
	}
	objOf := func(e ast.Expr) types.Object {
		// int(a.Reg) copies and conversions are followed one step: the variable itself
		for {
			switch x := ast.Unparen(e).(type) {
			case *ast.CallExpr:
				if tv, ok := info.Types[x.Fun]; ok && tv.IsType() && len(x.Args) == 1 {
					e = x.Args[0]
					continue
				}
			case *ast.Ident:
				if o := info.Uses[x]; o != nil {
					return o
				}
				return info.Defs[x]
			}
			return nil
		}
	}
	regName := func(e ast.Expr) string {
		k := constOfExpr(info, e)
		if strings.HasPrefix(k.Name, "REG_") {
			return k.Name
		}
		return ""
	}
	// disjunction of equalities on one variable: v == K1 || v == K2
	var eqSet func(e ast.Expr) (types.Object, []string, bool)
	eqSet = func(e ast.Expr) (types.Object, []string, bool) {
		be, ok := ast.Unparen(e).(*ast.BinaryExpr)
		if !ok {
			return nil, nil, false
		}
		switch be.Op {
		case token.EQL:
			for _, pr := range [][2]ast.Expr{{be.X, be.Y}, {be.Y, be.X}} {
				if o, k := objOf(pr[0]), regName(pr[1]); o != nil && k != "" {
					return o, []string{k}, true
				}
			}
		case token.LOR:
			o1, s1, ok1 := eqSet(be.X)
			o2, s2, ok2 := eqSet(be.Y)
			if ok1 && ok2 && o1 == o2 {
				return o1, append(s1, s2...), true
			}
		}
		return nil, nil, false
	}
	hooks := &flowHooks{}
	hooks.Facts = func(cond ast.Expr, want bool, ff flowFacts) {
		f := ff.(*regFacts)
		cond = ast.Unparen(cond)
		if ue, ok := cond.(*ast.UnaryExpr); ok && ue.Op == token.NOT {
			hooks.Facts(ue.X, !want, ff)
			return
		}
		if o, set, ok := eqSet(cond); ok {
			if want {
				f.in[o] = map[string]bool{}
				for _, k := range set {
					f.in[o][k] = true
				}
			} else {
				if f.notIn[o] == nil {
					f.notIn[o] = map[string]bool{}
				}
				for _, k := range set {
					f.notIn[o][k] = true
				}
			}
			return
		}
		be, ok := cond.(*ast.BinaryExpr)
		if !ok {
			return
		}
		switch {
		case be.Op == token.LAND && want, be.Op == token.LOR && !want:
			hooks.Facts(be.X, want, ff)
			hooks.Facts(be.Y, want, ff)
		case be.Op == token.NEQ:
			for _, pr := range [][2]ast.Expr{{be.X, be.Y}, {be.Y, be.X}} {
				if o, k := objOf(pr[0]), regName(pr[1]); o != nil && k != "" {
					if want {
						if f.notIn[o] == nil {
							f.notIn[o] = map[string]bool{}
						}
						f.notIn[o][k] = true
					} else {
						f.in[o] = map[string]bool{k: true}
					}
				}
			}
		}
	}
	hooks.Assign = func(as *ast.AssignStmt, ff flowFacts) {
		f := ff.(*regFacts)
		for _, l := range as.Lhs {
			if o := objOf(l); o != nil {
				delete(f.in, o)
				delete(f.notIn, o)
			}
		}
	}
	// ModRM byte: byte(M<<6 | X<<0 | r<<3) possibly without the conversion
	type modrm struct {
		mod   int64
		rmReg types.Object // reg[base]
		rmK   int64        // constant rm (when rmReg == nil)
		pos   token.Pos
	}
	parse := func(e ast.Expr) (m modrm, ok bool) {
		e = ast.Unparen(e)
		if call, isCall := e.(*ast.CallExpr); isCall && len(call.Args) == 1 {
			if tv, ok := info.Types[call.Fun]; ok && tv.IsType() {
				e = ast.Unparen(call.Args[0])
			}
		}
		var terms []ast.Expr
		var split func(ast.Expr)
		split = func(x ast.Expr) {
			if be, ok := ast.Unparen(x).(*ast.BinaryExpr); ok && be.Op == token.OR {
				split(be.X)
				split(be.Y)
				return
			}
			terms = append(terms, ast.Unparen(x))
		}
		split(e)
		if len(terms) != 3 {
			return m, false
		}
		m.pos = e.Pos()
		seen := 0
		for _, t := range terms {
			be, isShift := t.(*ast.BinaryExpr)
			if !isShift || be.Op != token.SHL {
				return m, false
			}
			sh, okS := constIntOf(info, be.Y)
			if !okS {
				return m, false
			}
			switch sh {
			case 6:
				v, okV := constIntOf(info, be.X)
				if !okV {
					return m, false
				}
				m.mod = v
				seen |= 1
			case 0:
				if v, okV := constIntOf(info, be.X); okV {
					m.rmK = v
				} else if ix, isIx := ast.Unparen(be.X).(*ast.IndexExpr); isIx && types.ExprString(ix.X) == "reg" {
					m.rmReg = objOf(ix.Index)
					if m.rmReg == nil {
						return m, false
					}
				} else {
					return m, false
				}
				seen |= 2
			case 3:
				seen |= 4
			default:
				return m, false
			}
		}
		return m, seen == 7
	}
	n := 0
	seq := map[string]int{}
	check := func(m modrm, sib *ast.CallExpr, sibConst bool, ff flowFacts) {
		f := ff.(*regFacts)
		n++
		what := fmt.Sprintf("mod=%d rm=", m.mod)
		if m.rmReg != nil {
			what += "reg[" + m.rmReg.Name() + "]"
		} else {
			what += fmt.Sprint(m.rmK)
		}
		if sib != nil || sibConst {
			what += " +SIB"
		}
		seq[what]++
		construct := fmt.Sprintf("asmandsz: %s #%d", what, seq[what])
		var probs []string
		switch {
		case m.rmReg != nil && sib == nil && !sibConst:
			if !f.excludes(m.rmReg, "REG_SP", "REG_R12") {
				probs = append(probs, fmt.Sprintf("rm is taken from %s without a SIB byte, but the path has not excluded SP and R12 (rm=100 announces a SIB byte)", m.rmReg.Name()))
			}
			if m.mod == 0 && !f.excludes(m.rmReg, "REG_BP", "REG_R13") {
				probs = append(probs, fmt.Sprintf("mod=00 with rm taken from %s, but the path has not excluded BP and R13: rm=101 with mod=00 means disp32 / RIP-relative, so `[rbp]` or `[r13]` with displacement 0 is assembled as an access relative to RIP and the next four bytes of code are taken for its displacement; the mandatory form is mod=01 with an 8-bit displacement of 0", m.rmReg.Name()))
			}
		case m.rmReg != nil:
			if !f.within(m.rmReg, "REG_SP", "REG_R12") {
				probs = append(probs, fmt.Sprintf("rm is taken from %s and a SIB byte follows, but the path has not selected SP / R12: for any other register rm does not announce a SIB byte", m.rmReg.Name()))
			}
		default:
			if m.rmK == 4 && sib == nil && !sibConst {
				probs = append(probs, "rm=100 without a SIB byte following")
			}
			if m.rmK == 4 && m.mod == 0 && sib != nil && len(sib.Args) == 3 {
				if b := objOf(sib.Args[2]); b != nil && !f.excludes(b, "REG_BP", "REG_R13") && !f.within(b, "REG_NONE") {
					probs = append(probs, fmt.Sprintf("mod=00 with a SIB byte whose base is %s, but the path has not excluded BP and R13: base=101 with mod=00 means \"no base, disp32\"", b.Name()))
				}
			}
		}
		sort.Strings(probs)
		c.Check(len(probs) == 0, rule, construct, p.Pos(m.pos), "the registers this form cannot name are excluded on the path", "asmandsz emits "+what+": "+strings.Join(probs, "; "))
	}
	isAsmidx := func(s ast.Stmt) *ast.CallExpr {
		es, ok := s.(*ast.ExprStmt)
		if !ok {
			return nil
		}
		call, ok := es.X.(*ast.CallExpr)
		if !ok {
			return nil
		}
		if fn := CalleeOf(info, call); fn != nil && fn.Name() == "asmidx" {
			return call
		}
		return nil
	}
	hooks.Stmt = func(s ast.Stmt, rest []ast.Stmt, ff flowFacts) {
		es, ok := s.(*ast.ExprStmt)
		if !ok {
			return
		}
		call, ok := es.X.(*ast.CallExpr)
		if !ok {
			return
		}
		fn := CalleeOf(info, call)
		if fn == nil || !(fn.Name() == "Put1" || fn.Name() == "Put2" || fn.Name() == "Put3") || len(call.Args) == 0 {
			return
		}
		m, ok := parse(call.Args[0])
		if !ok {
			return
		}
		var sib *ast.CallExpr
		if len(rest) > 0 {
			sib = isAsmidx(rest[0])
		}
		// Put2(modrm, sib-constant): the second byte is a SIB byte when rm == 4
		sibConst := false
		if fn.Name() == "Put2" && len(call.Args) == 2 && m.rmReg == nil && m.rmK == 4 {
			if _, isConst := constIntOf(info, call.Args[1]); isConst {
				sibConst = true
			}
		}
		check(m, sib, sibConst, ff)
	}
	hooks.stmts(fd.Body.List, newRegFacts())
	c.Min(rule, "memory-form ModRM emissions in asmandsz", n, 11)
}
