package main

import (
	"go/ast"
	"go/types"
	"strings"

	"golang.org/x/tools/go/packages"
)

// C24 rule print-reparses (added after probing: NotExpr.String printed !(!a) as "!!a", which the parser rejects as a
// double negation — printing a parsed expression did not give a line that parses to an equivalent expression).
//
// The parser's unary rule takes `!` followed by an *atom* (a tag or a parenthesised expression), and panics on a
// second `!`. So whatever NotExpr.String puts behind "!" must be an atom: an operand that is an AndExpr or an OrExpr
// (lower precedence) and, because `!!` is rejected, an operand that is itself a NotExpr have to be wrapped in
// parentheses. The rule reads the type switch of NotExpr.String and the parser's `not` function.
func c24PrintReparses(c *Ctx, p *Prog, pk *packages.Package) {
	const rule = "print-reparses"
	decls := AllFuncDecls(pk)
	fd := decls["NotExpr.String"]
	if fd == nil || fd.Body == nil {
		c.Undecided(rule, "anchor:NotExpr.String", "", "method not found")
		return
	}
	// does the parser refuse `!` directly after `!`?
	rejectsDouble := false
	if nf := decls["exprParser.not"]; nf != nil && nf.Body != nil {
		ast.Inspect(nf.Body, func(n ast.Node) bool {
			ifs, ok := n.(*ast.IfStmt)
			if !ok {
				return true
			}
			if strings.Contains(types.ExprString(ifs.Cond), `"!"`) {
				for _, s := range ifs.Body.List {
					if inner, ok := s.(*ast.IfStmt); ok && strings.Contains(types.ExprString(inner.Cond), `"!"`) {
						ast.Inspect(inner.Body, func(m ast.Node) bool {
							if call, ok := m.(*ast.CallExpr); ok {
								if id, ok := call.Fun.(*ast.Ident); ok && id.Name == "panic" {
									rejectsDouble = true
								}
							}
							return true
						})
					}
				}
			}
			return true
		})
	} else {
		c.Undecided(rule, "anchor:exprParser.not", "", "the parser's unary rule was not found")
		return
	}
	wrapped := map[string]bool{}
	ast.Inspect(fd.Body, func(n ast.Node) bool {
		ts, ok := n.(*ast.TypeSwitchStmt)
		if !ok {
			return true
		}
		for _, cl := range ts.Body.List {
			cc := cl.(*ast.CaseClause)
			wraps := false
			for _, s := range cc.Body {
				if as, ok := s.(*ast.AssignStmt); ok && len(as.Rhs) == 1 {
					if t := types.ExprString(as.Rhs[0]); strings.Contains(t, `"("`) && strings.Contains(t, `")"`) {
						wraps = true
					}
				}
			}
			if wraps {
				for _, e := range cc.List {
					wrapped[strings.TrimPrefix(types.ExprString(e), "*")] = true
				}
			}
		}
		return true
	})
	need := []string{"AndExpr", "OrExpr"}
	if rejectsDouble {
		need = append(need, "NotExpr")
	}
	var missing []string
	for _, k := range need {
		if !wrapped[k] {
			missing = append(missing, k)
		}
	}
	c.Check(len(missing) == 0, rule, "NotExpr.String: operands printed as atoms", p.Pos(fd.Pos()), "And, Or and (the parser rejects `!!`) Not operands are parenthesised",
		"NotExpr.String writes an operand of kind "+strings.Join(missing, ", ")+" directly behind `!`: the parser's unary rule takes `!` followed by an atom and refuses a second `!`, so the printed line does not parse (`!(!a)` is printed as `!!a`) or parses to another expression (`!(a && b)` printed as `!a && b`)")
}

// C24 rule target-getters-read-config (added after probing: GetTargetArch answered the default "wasm" whatever
// cfg.TargetArch said, so with TargetArch = "x64" a file constrained by `wasm` was included and one constrained by
// `x64` left out). The tag predicate asks the loader's GetTarget* getters; siblings must agree: each returns the
// field of the configuration with its own name (cfg.TargetOS / cfg.TargetArch) when it is set, as GetTargetOS does.
func c24TargetGetters(c *Ctx, p *Prog, ld *packages.Package) {
	const rule = "target-getters-read-config"
	decls := AllFuncDecls(ld)
	n := 0
	for _, name := range sortedDeclNames(ld) {
		fd := decls[name]
		i := strings.Index(name, ".GetTarget")
		if i < 0 || fd.Body == nil {
			continue
		}
		what := name[i+len(".Get"):] // TargetOS, TargetArch
		n++
		reads := false
		for _, r := range returnsIn(fd.Body) {
			_ = r
		}
		ast.Inspect(fd.Body, func(m ast.Node) bool {
			if se, ok := m.(*ast.SelectorExpr); ok && se.Sel.Name == what {
				if inner, ok := se.X.(*ast.SelectorExpr); ok && inner.Sel.Name == "cfg" {
					reads = true
				}
			}
			return true
		})
		c.Check(reads, rule, name, p.Pos(fd.Pos()), "answers cfg."+what+" when it is set",
			name+" never reads the configuration's "+what+": the tag predicate compares a constraint's tags with a constant, so a file constrained by the configured "+strings.ToLower(strings.TrimPrefix(what, "Target"))+" is left out and files for the default one are included")
	}
	c.Min(rule, "GetTarget* getters of the loader", n, 2)
}

// C24 rule recursion-bounded (added after probing: a constraint line with five million nested parentheses ended the
// process with a fatal stack overflow, which recover cannot catch). The expression parser is recursive descent:
// methods of exprParser call each other in a cycle (or -> and -> not -> atom -> or). Some method on that cycle counts
// what it parses in a field of the parser and panics with the package's SyntaxError (which parseExpr recovers) when
// the count exceeds a constant.
func c24RecursionBounded(c *Ctx, p *Prog, bt *packages.Package) {
	const rule = "recursion-bounded"
	decls := AllFuncDecls(bt)
	// call edges among the methods of exprParser
	edges := map[string][]string{}
	for name, fd := range decls {
		if !strings.HasPrefix(name, "exprParser.") || fd.Body == nil {
			continue
		}
		ast.Inspect(fd.Body, func(m ast.Node) bool {
			if call, ok := m.(*ast.CallExpr); ok {
				if se, ok := call.Fun.(*ast.SelectorExpr); ok {
					if _, isM := decls["exprParser."+se.Sel.Name]; isM {
						edges[name] = append(edges[name], "exprParser."+se.Sel.Name)
					}
				}
			}
			return true
		})
	}
	reach := func(from string) map[string]bool {
		seen := map[string]bool{}
		var walk func(string)
		walk = func(n string) {
			for _, m := range edges[n] {
				if !seen[m] {
					seen[m] = true
					walk(m)
				}
			}
		}
		walk(from)
		return seen
	}
	var cycle []string
	for name := range edges {
		if reach(name)[name] {
			cycle = append(cycle, name)
		}
	}
	sortStrings(cycle)
	if len(cycle) == 0 {
		c.Check(true, rule, "exprParser: no recursion", "", "the parser's methods do not call each other in a cycle", "")
		return
	}
	guarded := ""
	for _, name := range cycle {
		fd := decls[name]
		ast.Inspect(fd.Body, func(m ast.Node) bool {
			ifs, ok := m.(*ast.IfStmt)
			if !ok || guarded != "" {
				return true
			}
			cond := types.ExprString(ifs.Cond)
			counts := false
			if ifs.Init != nil {
				if inc, ok := ifs.Init.(*ast.IncDecStmt); ok && strings.Contains(cond, types.ExprString(inc.X)) {
					counts = true
				}
			}
			if !counts {
				// the increment may precede the test
				ast.Inspect(fd.Body, func(q ast.Node) bool {
					if inc, ok := q.(*ast.IncDecStmt); ok && inc.End() <= ifs.Pos() && strings.Contains(cond, types.ExprString(inc.X)) {
						counts = true
					}
					return true
				})
			}
			panics := false
			ast.Inspect(ifs.Body, func(q ast.Node) bool {
				if call, ok := q.(*ast.CallExpr); ok {
					if id, ok := call.Fun.(*ast.Ident); ok && id.Name == "panic" && strings.Contains(types.ExprString(call), "SyntaxError") {
						panics = true
					}
				}
				return true
			})
			if counts && panics && strings.Contains(cond, ">") {
				guarded = name
			}
			return true
		})
	}
	c.Check(guarded != "", rule, "exprParser: "+strings.Join(cycle, " -> "), p.Pos(decls[cycle[0]].Pos()), "a method on the cycle counts and refuses past a limit",
		"the methods "+strings.Join(cycle, ", ")+" call each other recursively and none of them bounds the recursion (no counter field that is incremented, compared with a limit and answered with a SyntaxError panic): a constraint line of a few million `(` overflows the goroutine stack — a fatal error that parseExpr's recover cannot turn into a syntax error")
}
