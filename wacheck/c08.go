package main

import (
	"fmt"
	"go/ast"
	"go/constant"
	"go/token"
	"go/types"
	"sort"
	"strings"

	"golang.org/x/tools/go/callgraph"
	"golang.org/x/tools/go/packages"
	"golang.org/x/tools/go/ssa"
)

func init() {
	register(&Property{ID: "C08", Run: runC08, Mutants: []Mutant{
		{Name: "shift count asserted to be an integer constant whatever its value", File: "internal/types/expr.go", Old: "\t\tif yval.Kind() == constant.Unknown {", New: "\t\tif false {", Expect: "constant-kind-assert-guarded"},
		{Name: "the predeclared any is a bare interface value", File: "internal/types/universe_wa.go", Old: "token.K_any, (&Interface{}).Complete()))", New: "token.K_any, &Interface{}))", Expect: "universe-interfaces-complete"},
		{Name: "a string literal starts one byte before its body whatever the opener", File: "internal/scanner/scanner.go", Old: "\t// '\"' opening already consumed\n\toffs := s.offset - quoteWidth\n", New: "\t// '\"' opening already consumed\n\t_ = quoteWidth\n\toffs := s.offset - 1\n", Expect: "literal-start-matches-opener"},
		{Name: "the .wa printer reads the receiver's name without looking at the list", File: "internal/printer/nodes.go", Old: "\t\tif len(d.Recv.List) > 0 && len(d.Recv.List[0].Names) > 0 && d.Recv.List[0].Names[0].Name == \"this\" {", New: "\t\tif d.Recv.List[0].Names[0].Name == \"this\" {", Expect: "receiver-name-guarded"},
		{Name: "a declaration without names is built from `expr: type`", File: "internal/parser/parser.go", Old: "\t\tif len(idents) == 0 {\n\t\t\treturn &ast.BadStmt{From: x[0].Pos(), To: p.pos}, false\n\t\t}\n", New: "", Expect: "spec-names-nonempty"},
		{Name: "x64 assembly prologue loop loses its default arm", File: "internal/native/parser/parser_file.go", Old: "\n\t\t\tdefault:\n\t\t\t\t// the first token of the code proper ends the prologue\n\t\t\t\tbreak Prologue\n", New: "\n\t\t\tcase token.EOF:\n\t\t\t\tbreak Prologue\n", Expect: "token-loop-progress"},
		{Name: "native parser ignores tokens it does not know", File: "internal/native/parser/parser_file.go", Old: "\t\t\tdefault:\n\t\t\t\t// the first token of the code proper ends the prologue\n\t\t\t\tbreak Prologue\n", New: "\t\t\tdefault:\n\t\t\t\tcontinue Prologue\n", Expect: "token-loop-progress"},
		{Name: "line-comment test reads the second byte before the first", File: "internal/printer/printer.go", Old: "\treturn text[0] == '#' || len(text) > 1 && text[1] == '/'", New: "\treturn text[1] == '/' || text[0] == '#'", Expect: "comment-marker-index"},
		{Name: "comment text stripped of its marker before the '#' case", File: "internal/ast/ast.go", Old: "\t\tswitch {\n\t\tcase c[0] == '#':", New: "\t\tswitch {\n\t\tcase c[1] == '!':\n\t\t\tc = c[2:]\n\t\tcase c[0] == '#':", Expect: "comment-marker-index"},
		{Name: "bad-digit report indexes the literal with the absolute offset", File: "internal/scanner/scanner.go", Old: "lit[invalid-offs]", New: "lit[invalid]", Expect: "offset-frame"},
		{Name: "separator error reported at the literal-relative index", File: "internal/scanner/scanner.go", Old: "s.error(offs+i, \"'_' must separate successive digits\")", New: "s.error(i, \"'_' must separate successive digits\")", Expect: "offset-frame"},
		{Name: "embed pre-pass reads the type of the looked-up object before testing the scope", File: "internal/types/embed.go", Old: "\t\t\t\tif scope != WaUniverse || obj.Type() != waUniverseString {", New: "\t\t\t\tif typ := obj.Type(); scope != WaUniverse || typ != waUniverseString {", Expect: "lookup-result-nil-checked"},
		{Name: "interface lookup asserts the type name before the nil test", File: "internal/types/interfaces.go", Old: "\tif obj == nil {\n\t\treturn nil\n\t}\n\ttname, _ := obj.(*TypeName)", New: "\ttname := obj.(*TypeName)", Expect: "lookup-result-nil-checked"},
		{Name: "slice-expression colon loop bounded by the wrong array", File: "internal/parser/parser.go", Old: "for p.tok == token.COLON && ncolons < len(colons) {", New: "for p.tok == token.COLON && ncolons < len(index) {", Expect: "fixed-array-bound :: internal/parser.parser.parseIndexOrSlice"},
		{Name: "array elements resolved through the indirect resolver", File: "internal/types/typexpr.go", Old: "\t\t\ttyp.len = check.arrayLength(e.Len)\n\t\t\ttyp.elem = check.typ(e.Elt)", New: "\t\t\ttyp.len = check.arrayLength(e.Len)\n\t\t\ttyp.elem = check.indirectType(e.Elt)", Expect: "value-cycle-detection :: typInternal: array element type"},
		{Name: "format.File panics again on unknown language", File: "internal/format/format.go", Old: "\tdefault:\n\t\treturn nil, false, fmt.Errorf(", New: "\tdefault:\n\t\tpanic(\"unreachable\")\n\t\treturn nil, false, fmt.Errorf(", Expect: "dispatch-totality"},
		{Name: "parser entry loses its recover", File: "internal/parser/interface.go", Old: "if e := recover(); e != nil {\n\t\t\t// resume same panic if it's not a bailout\n\t\t\tif _, ok := e.(bailout); !ok {\n\t\t\t\tpanic(e)\n\t\t\t}\n\t\t}\n\n\t\t// set result values\n\t\tif f == nil {", New: "if e := error(nil); e != nil {\n\t\t\t// resume same panic if it's not a bailout\n\t\t\tpanic(e)\n\t\t}\n\n\t\t// set result values\n\t\tif f == nil {", Expect: "recover-boundary"},
		{Name: "loader exits the process on an unclassifiable file", File: "internal/loader/loader.go", Old: "\t\t\terr = fmt.Errorf(\"%s: unknown source type\", filename)", New: "\t\t\tfmt.Println(filename, \"unknown source type\")\n\t\t\tos.Exit(1)", Expect: "no-process-exit"},
		{Name: "loader panics again on an unclassifiable file", File: "internal/loader/loader.go", Old: "\t\t\terr = fmt.Errorf(\"%s: unknown source type\", filename)", New: "\t\t\tpanic(\"unreachable\")", Expect: "no-new-escaping-panic"},
		{Name: "new explicit panic on a parse path", File: "internal/parser/parser.go", Old: "func (p *parser) parseIdent() *ast.Ident {", New: "func (p *parser) parseIdent() *ast.Ident {\n\tif p.lit == \"\\x00bad\" {\n\t\tpanic(\"parser: bad identifier\")\n\t}", Expect: "no-new-escaping-panic"},
	}})
}

type entrySpec struct{ pkg, fn string }

var c08Entries = []entrySpec{
	{"api", "FormatCode"}, {"api", "GetCodeSyntax"},
	{"internal/format", "File"}, {"internal/xlang", "DetectLang"},
	{"internal/parser", "ParseFile"}, {"internal/parser/w2parser", "ParseFile"},
	{"internal/wat/parser", "ParseModule"}, {"internal/native/parser", "ParseFile"},
	{"internal/loader", "LoadProgramFile"},
}

// constReturnSet: if every return of fd returns a single named constant, the set of those names.
func constReturnSet(pk *packages.Package, fd *ast.FuncDecl) (map[string]bool, bool) {
	out := map[string]bool{}
	ok := true
	n := 0
	ast.Inspect(fd.Body, func(nd ast.Node) bool {
		if _, isLit := nd.(*ast.FuncLit); isLit {
			return false
		}
		r, isRet := nd.(*ast.ReturnStmt)
		if !isRet {
			return true
		}
		n++
		if len(r.Results) != 1 {
			ok = false
			return true
		}
		k := constOfExpr(pk.TypesInfo, r.Results[0])
		if k.Name == "" {
			ok = false
			return true
		}
		out[k.Name] = true
		return true
	})
	return out, ok && n > 0
}

func runC08(c *Ctx) {
	c.Explain = "Decides structural clauses of crash-freedom of the front ends (Wa/Wz parser, type checker via the loader, WAT parser, native assembly parser, formatter, language detection): " +
		"(1) dispatch totality: a switch whose tag is the result of a function that returns only named constants covers every constant that function can return unless its default arm does not panic; " +
		"(2) no call path from an entry point reaches os.Exit / log.Fatal / logger.Fatal; (3) every parsing entry point installs a deferred recover for its package's bail-out panic; " +
		"(4) the explicit panic sites reachable from the entry points (VTA call graph) outside recover-protected parser packages are exactly the triaged set frozen in the checker: a new reachable explicit panic is reported. " +
		"(5) fixed-array-bound: inside a loop guarded by `i < BOUND`, every index into a fixed-size array stays within its length, counting the increments of i that precede the use; (6) value-cycle-detection: the type checker resolves array elements and struct fields (held by value) with the direct resolver that takes part in cycle detection, so that by-value recursive types are rejected instead of sending later passes into unbounded recursion. " +
		"NOT decided: other implicit run-time panics (slices, nil dereference, failed type assertion), termination and time bounds in general."
	c.Trusted = []string{"go/packages, go/types, go/ssa, callgraph/vta (x/tools v0.29.0)", "frozen triage table of reachable explicit panics (c08_triage.go)"}
	c08Extra(c)
	p := c.Load(LoadOpt{}, "./api", "./internal/parser/...", "./internal/wat/parser", "./internal/native/parser", "./internal/format", "./internal/xlang", "./internal/loader")
	const rDisp, rExit, rRec, rPanic = "dispatch-totality", "no-process-exit", "recover-boundary", "no-new-escaping-panic"

	// ---- (1) dispatch totality over all loaded repository packages
	declOf := map[*types.Func]struct {
		pk *packages.Package
		fd *ast.FuncDecl
	}{}
	var repoPkgs []*packages.Package
	for path, pk := range p.All {
		if strings.HasPrefix(path, modPath) && !strings.Contains(path, "/3rdparty/") && len(pk.Syntax) > 0 {
			repoPkgs = append(repoPkgs, pk)
		}
	}
	sort.Slice(repoPkgs, func(i, j int) bool { return repoPkgs[i].PkgPath < repoPkgs[j].PkgPath })
	for _, pk := range repoPkgs {
		for _, f := range pk.Syntax {
			for _, d := range f.Decls {
				if fd, ok := d.(*ast.FuncDecl); ok && fd.Body != nil {
					if fn, ok := pk.TypesInfo.Defs[fd.Name].(*types.Func); ok {
						declOf[fn] = struct {
							pk *packages.Package
							fd *ast.FuncDecl
						}{pk, fd}
					}
				}
			}
		}
	}
	nDisp := 0
	for _, pk := range repoPkgs {
		for _, f := range pk.Syntax {
			for _, d := range f.Decls {
				fd, ok := d.(*ast.FuncDecl)
				if !ok || fd.Body == nil {
					continue
				}
				ast.Inspect(fd.Body, func(n ast.Node) bool {
					sw, ok := n.(*ast.SwitchStmt)
					if !ok || sw.Tag == nil {
						return true
					}
					call, ok := ast.Unparen(sw.Tag).(*ast.CallExpr)
					if !ok {
						return true
					}
					callee := CalleeOf(pk.TypesInfo, call)
					dc, ok := declOf[callee]
					if !ok {
						return true
					}
					rs, allConst := constReturnSet(dc.pk, dc.fd)
					if !allConst {
						return true
					}
					arms := SwitchArms(pk.TypesInfo, sw)
					covered := map[string]bool{}
					var def *Arm
					for i := range arms {
						if arms[i].Default {
							def = &arms[i]
						}
						for _, k := range arms[i].Consts {
							covered[k.Name] = true
						}
					}
					if def == nil || !isPanicOnly(pk.TypesInfo, def.Body) {
						return true // default is absent (no-op) or handles the rest gracefully
					}
					nDisp++
					var missing []string
					for r := range rs {
						if !covered[r] {
							missing = append(missing, r)
						}
					}
					sort.Strings(missing)
					construct := short(pk.PkgPath) + "." + declName(fd) + ": switch " + short(FuncFullName(callee)) + "(...)"
					c.Check(len(missing) == 0, rDisp, construct, p.Pos(sw.Pos()), "every constant the producer returns has a non-default arm",
						fmt.Sprintf("%s can return %v, which reach the panicking default arm", short(FuncFullName(callee)), missing))
					return true
				})
			}
		}
	}
	c.Count("dispatch_switches_with_panicking_default_on_constant_producers", nDisp)
	// the formatter's language dispatch is the confirmed instance: it must exist and be total or have a non-panicking default
	if fpk := p.MustPkg(rDisp, "internal/format"); fpk != nil {
		if fd := p.MustFunc(rDisp, fpk, "File"); fd != nil {
			found := false
			ast.Inspect(fd.Body, func(n ast.Node) bool {
				sw, ok := n.(*ast.SwitchStmt)
				if !ok || sw.Tag == nil {
					return true
				}
				if call, ok := ast.Unparen(sw.Tag).(*ast.CallExpr); ok {
					if f := CalleeOf(fpk.TypesInfo, call); f != nil && f.Name() == "DetectLang" {
						found = true
						arms := SwitchArms(fpk.TypesInfo, sw)
						panics := false
						for _, a := range arms {
							if a.Default && isPanicOnlyPrefix(fpk.TypesInfo, a.Body) {
								panics = true
							}
						}
						if !panics {
							c.OK(rDisp, "internal/format.File: default arm of the language switch", p.Pos(sw.Pos()), "default arm does not panic")
						} else {
							c.Fail(rDisp, "internal/format.File: default arm of the language switch", p.Pos(sw.Pos()), "the language switch panics in its default arm, and xlang.DetectLang returns LangType_Unknown for unrecognised input: FormatCode crashes on arbitrary text")
						}
					}
				}
				return true
			})
			if !found {
				c.Undecided(rDisp, "internal/format.File: language switch", p.Pos(fd.Pos()), "switch on xlang.DetectLang not found")
			}
		}
	}

	// ---- call graph
	p.BuildSSA()
	var roots []*ssa.Function
	for _, e := range c08Entries {
		pk := p.Pkg(e.pkg)
		var fn *ssa.Function
		if pk != nil {
			fn = p.SSAFunc(pk, e.fn)
		}
		if fn == nil {
			c.Undecided(rExit, "anchor:"+e.pkg+"."+e.fn, "", "entry point no longer resolves")
			continue
		}
		roots = append(roots, fn)
	}
	inRepo := func(f *ssa.Function) bool {
		return f != nil && f.Pkg != nil && strings.HasPrefix(f.Pkg.Pkg.Path(), modPath)
	}
	// do not walk into the standard library: its internals are not the subject (and reflect/fmt fan out into everything)
	skip := func(e *callgraph.Edge) bool {
		callee := e.Callee.Func
		// the property covers parsing and type checking; SSA construction after a successful check is C16's subject
		if strings.HasSuffix(callee.String(), "_Loader).buildSSA") {
			return true
		}
		if callee.Pkg == nil {
			// synthetic wrappers/bounds: follow
			return false
		}
		return !strings.HasPrefix(callee.Pkg.Pkg.Path(), modPath)
	}
	pred, order := p.Reachable(roots, skip)
	c.Count("functions_reachable_from_entry_points", len(order))
	c.Min(rExit, "reachable repository functions", len(order), 800)

	// ---- (2) process exits: direct calls in reachable functions
	exitCallees := map[string]bool{"os.Exit": true, "log.Fatal": true, "log.Fatalf": true, "log.Fatalln": true, "log.Panic": true, "log.Panicf": true,
		modPath + "/internal/logger.Fatal": true, modPath + "/internal/logger.Fatalf": true, modPath + "/internal/logger.Fatalln": true}
	nExit := 0
	exitSeen := map[string]bool{}
	for _, f := range order {
		if !inRepo(f) {
			continue
		}
		for _, b := range f.Blocks {
			for _, ins := range b.Instrs {
				cc := callOf(ins)
				if cc == nil {
					continue
				}
				name := calleeName(cc)
				if !exitCallees[name] {
					continue
				}
				key := short(f.String()) + " calls " + short(name)
				if exitSeen[key] {
					continue
				}
				exitSeen[key] = true
				nExit++
				if why, ok := c08ExitTriage[key]; ok {
					c.OK(rExit, key, p.Pos(ins.Pos()), "triaged: "+why)
					continue
				}
				c.Fail(rExit, key, p.Pos(ins.Pos()), "process exit reachable from a front-end entry point: "+short(CallPath(pred, f)))
			}
		}
	}
	c.Count("reachable_process_exit_sites", nExit)

	// ---- (3) recover boundaries
	for _, rb := range []struct{ pkg, fn, bail string }{
		{"internal/parser", "ParseFile", "bailout"},
		{"internal/parser/w2parser", "ParseFile", "bailout"},
		{"internal/wat/parser", "parser.ParseModule", ""},
		{"internal/native/parser", "parser.ParseFile", ""},
	} {
		pk := p.Pkg(rb.pkg)
		if pk == nil {
			continue
		}
		fn := p.SSAFunc(pk, rb.fn)
		if fn == nil {
			// try the package-level function of the same name
			if i := strings.Index(rb.fn, "."); i >= 0 {
				fn = p.SSAFunc(pk, rb.fn[i+1:])
			}
		}
		if fn == nil {
			c.Undecided(rRec, rb.pkg+"."+rb.fn, "", "parser entry point no longer resolves")
			continue
		}
		ok, detail := hasRecoverBoundary(fn, 3)
		c.Check(ok, rRec, rb.pkg+"."+rb.fn, p.Pos(fn.Pos()), detail, "the parsing entry point (or the method it delegates to) no longer defers a closure that calls recover(): the package's bail-out panic escapes to the caller on the first syntax error beyond the error limit")
	}

	// ---- (4) explicit panics reachable outside the recover-protected parser packages
	protected := map[string]bool{}
	for _, rb := range []string{"internal/parser", "internal/parser/w2parser", "internal/wat/parser", "internal/native/parser", "internal/scanner", "internal/wat/scanner", "internal/native/scanner"} {
		protected[modPath+"/"+rb] = true
	}
	type site struct {
		key, loc, path string
	}
	var sites []site
	seen := map[string]bool{}
	for _, f := range order {
		if !inRepo(f) {
			continue
		}
		pkgPath := f.Pkg.Pkg.Path()
		for _, b := range f.Blocks {
			for _, ins := range b.Instrs {
				pn, ok := ins.(*ssa.Panic)
				if !ok {
					continue
				}
				if deadAfterNoReturn(b, ins) {
					continue
				}
				msg := panicMessage(pn.X)
				fname := short(f.String())
				if f.Parent() != nil {
					fname = short(f.Parent().String()) + "$closure"
				}
				key := fname + ": panic(" + msg + ")"
				if seen[key] {
					continue
				}
				seen[key] = true
				if protected[pkgPath] && isBailoutValue(pn.X) {
					// the package's own bail-out value: caught by the recover frame checked under rule 3
					c.Count("bail_out_panics_in_recover_protected_parsers", 1)
					continue
				}
				if isRecoveredValue(pn.X) {
					// `if e := recover(); e != nil { if _, ok := e.(bailout); !ok { panic(e) } }`: the value being
					// thrown is the one recover() just answered — a panic that was already under way is resumed, no
					// new one is raised here (whatever the handler is called and wherever it is declared)
					c.Count("resumed_foreign_panics_in_recover_frames", 1)
					continue
				}
				sites = append(sites, site{key, p.Pos(pn.Pos()), short(CallPath(pred, f))})
			}
		}
	}
	sort.Slice(sites, func(i, j int) bool { return sites[i].key < sites[j].key })
	c.Count("explicit_panics_reachable_outside_parsers", len(sites))
	triaged := 0
	for _, s := range sites {
		if why, ok := c08PanicTriage[s.key]; ok {
			triaged++
			c.OK(rPanic, s.key, s.loc, "triaged: "+why)
			continue
		}
		if why := c08PanicClass(s.key); why != "" {
			triaged++
			c.OK(rPanic, s.key, s.loc, "triaged by class: "+why)
			continue
		}
		c.Fail(rPanic, s.key, s.loc, "explicit panic reachable from a front-end entry point and not in the triage table; call path: "+s.path)
	}
	c.Min(rPanic, "triaged reachable explicit panics", triaged, 50)
	_ = constant.MakeBool
	_ = token.NoPos
}

// isBailoutValue: the panic operand is one of the parser packages' bail-out types, the only values their
// recover frames swallow (`e.(bailout)`, `r.(*parserError)`); every other value is re-panicked.
func isBailoutValue(v ssa.Value) bool {
	if mi, ok := v.(*ssa.MakeInterface); ok {
		v = mi.X
	}
	switch namedTypeName(v.Type()) {
	case "bailout", "parserError":
		return true
	}
	return false
}

func isPanicOnlyPrefix(info *types.Info, stmts []ast.Stmt) bool {
	if len(stmts) == 0 {
		return false
	}
	return isPanicOnly(info, stmts[:1])
}

// hasRecoverBoundary: fn (or a function it calls directly, up to depth) defers a closure that calls recover().
func hasRecoverBoundary(fn *ssa.Function, depth int) (bool, string) {
	if fn == nil || depth == 0 {
		return false, ""
	}
	for _, b := range fn.Blocks {
		for _, ins := range b.Instrs {
			d, ok := ins.(*ssa.Defer)
			if !ok {
				continue
			}
			var target *ssa.Function
			switch v := d.Call.Value.(type) {
			case *ssa.MakeClosure:
				target, _ = v.Fn.(*ssa.Function)
			case *ssa.Function:
				target = v
			}
			if target != nil && callsRecover(target) {
				// it must swallow the package's bail-out type (or everything)
				repanics, catches := false, []string{}
				for _, tb := range target.Blocks {
					for _, ti := range tb.Instrs {
						switch x := ti.(type) {
						case *ssa.Panic:
							repanics = true
						case *ssa.TypeAssert:
							catches = append(catches, namedTypeName(x.AssertedType))
						}
					}
				}
				if !repanics || has(catches, "bailout") || has(catches, "parserError") {
					return true, fmt.Sprintf("deferred closure in %s calls recover() and swallows %v", short(fn.String()), catches)
				}
			}
		}
	}
	for _, b := range fn.Blocks {
		for _, ins := range b.Instrs {
			if call, ok := ins.(*ssa.Call); ok {
				if callee := call.Call.StaticCallee(); callee != nil && callee.Pkg == fn.Pkg {
					if ok, d := hasRecoverBoundary(callee, depth-1); ok {
						return true, d
					}
				}
			}
		}
	}
	return false, ""
}

func callsRecover(fn *ssa.Function) bool {
	for _, b := range fn.Blocks {
		for _, ins := range b.Instrs {
			if call, ok := ins.(*ssa.Call); ok {
				if bi, ok := call.Call.Value.(*ssa.Builtin); ok && bi.Name() == "recover" {
					return true
				}
			}
		}
	}
	return false
}

// deadAfterNoReturn: the panic is preceded in its block by a call to a function that never returns
// (a callee all of whose paths end in panic), e.g. `p.errorf(...); panic("unreachable")`.
func deadAfterNoReturn(b *ssa.BasicBlock, pn ssa.Instruction) bool {
	for _, ins := range b.Instrs {
		if ins == pn {
			return false
		}
		if call, ok := ins.(*ssa.Call); ok {
			if callee := call.Call.StaticCallee(); callee != nil && neverReturns(callee, 3) {
				return true
			}
		}
	}
	return false
}

var neverReturnsCache = map[*ssa.Function]int{}

func neverReturns(fn *ssa.Function, depth int) bool {
	if v, ok := neverReturnsCache[fn]; ok {
		return v == 1
	}
	if depth == 0 || len(fn.Blocks) == 0 {
		return false
	}
	neverReturnsCache[fn] = 0
	// no reachable Return instruction, where blocks after a no-return call are cut
	res := true
	seen := map[*ssa.BasicBlock]bool{}
	var walk func(b *ssa.BasicBlock)
	walk = func(b *ssa.BasicBlock) {
		if seen[b] || !res {
			return
		}
		seen[b] = true
		for _, ins := range b.Instrs {
			switch x := ins.(type) {
			case *ssa.Return:
				res = false
				return
			case *ssa.Panic:
				return
			case *ssa.Call:
				if noReturnCall(&x.Call) {
					return
				}
				if callee := x.Call.StaticCallee(); callee != nil && callee != fn && neverReturns(callee, depth-1) {
					return
				}
			}
		}
		for _, s := range b.Succs {
			walk(s)
		}
	}
	walk(fn.Blocks[0])
	if fn.Recover != nil {
		res = false
	}
	if res {
		neverReturnsCache[fn] = 1
	}
	return res
}

func panicMessage(v ssa.Value) string {
	switch x := v.(type) {
	case *ssa.MakeInterface:
		return panicMessage(x.X)
	case *ssa.Const:
		if x.Value != nil && x.Value.Kind() == constant.String {
			s := constant.StringVal(x.Value)
			if len(s) > 60 {
				s = s[:60]
			}
			return fmt.Sprintf("%q", s)
		}
		return x.String()
	case *ssa.Call:
		n := calleeName(&x.Call)
		if n == "fmt.Sprintf" || n == "fmt.Errorf" || n == "errors.New" {
			if len(x.Call.Args) > 0 {
				return short(n) + " " + panicMessage(x.Call.Args[0])
			}
		}
		return "call " + short(n)
	}
	return "<" + short(v.Type().String()) + ">"
}
