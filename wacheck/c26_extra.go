package main

import (
	"go/ast"
	"go/types"
	"reflect"
	"strings"

	"golang.org/x/tools/go/packages"
)

// C26 extra rule (added after a seeded change was missed): DecodeProtocolMessage unmarshals into the value the
// registry constructor returns. A constructor that pre-sets a field to a non-zero default, for a field whose JSON tag
// says omitempty, makes one message unrepresentable: the zero value is not written, and reading fills in the default.

func c26CtorPresets(c *Ctx, p *Prog, pk *packages.Package) {
	const rule = "constructor-preset-vs-omitempty"
	info := pk.TypesInfo
	n := 0
	for _, f := range pk.Syntax {
		ast.Inspect(f, func(nd ast.Node) bool {
			vs, ok := nd.(*ast.ValueSpec)
			if !ok || len(vs.Names) != 1 || !strings.HasSuffix(vs.Names[0].Name, "Ctor") || len(vs.Values) != 1 {
				return true
			}
			cl, ok := vs.Values[0].(*ast.CompositeLit)
			if !ok {
				return true
			}
			for _, el := range cl.Elts {
				kv, ok := el.(*ast.KeyValueExpr)
				if !ok {
					continue
				}
				fl, ok := kv.Value.(*ast.FuncLit)
				if !ok {
					continue
				}
				n++
				key := strings.Trim(types.ExprString(kv.Key), "\"")
				// presets: keyed fields of composite literals inside the constructor
				var walk func(lit *ast.CompositeLit, path string)
				walk = func(lit *ast.CompositeLit, path string) {
					t := info.TypeOf(lit)
					if t == nil {
						return
					}
					if pt, ok := t.(*types.Pointer); ok {
						t = pt.Elem()
					}
					st, ok := t.Underlying().(*types.Struct)
					if !ok {
						return
					}
					for _, e := range lit.Elts {
						fkv, ok := e.(*ast.KeyValueExpr)
						if !ok {
							continue
						}
						id, ok := fkv.Key.(*ast.Ident)
						if !ok {
							continue
						}
						if inner, ok := ast.Unparen(fkv.Value).(*ast.CompositeLit); ok {
							walk(inner, path+id.Name+".")
							continue
						}
						// a scalar preset: zero values are harmless
						if tv, ok := info.Types[fkv.Value]; ok && tv.Value != nil {
							s := tv.Value.ExactString()
							if s == "0" || s == "false" || s == "\"\"" {
								continue
							}
						}
						for i := 0; i < st.NumFields(); i++ {
							if st.Field(i).Name() != id.Name {
								continue
							}
							tag, _ := reflect.StructTag(st.Tag(i)).Lookup("json")
							omit := false
							for _, opt := range strings.Split(tag, ",")[1:] {
								if opt == "omitempty" {
									omit = true
								}
							}
							construct := vs.Names[0].Name + "[" + key + "]: " + path + id.Name
							c.Check(!omit, rule, construct, p.Pos(fkv.Pos()), "preset field is always written (no omitempty)",
								"the constructor registered for \""+key+"\" pre-sets "+path+id.Name+" to "+types.ExprString(fkv.Value)+", and the field is tagged omitempty: a message whose "+id.Name+" is empty is written without the field and read back with the preset, so it does not survive encode/decode")
						}
					}
				}
				ast.Inspect(fl.Body, func(m ast.Node) bool {
					if lit, ok := m.(*ast.CompositeLit); ok {
						walk(lit, "")
						return false
					}
					return true
				})
			}
			return false
		})
	}
	c.Min(rule, "registry constructors", n, 100)
}
