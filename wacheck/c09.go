package main

import (
	"fmt"
	"go/ast"
	"go/constant"
	"go/token"
	"go/types"
	"os"
	"sort"
	"strings"

	"golang.org/x/tools/go/packages"
)

func init() {
	register(&Property{ID: "C09", Run: runC09, Mutants: []Mutant{
		{Name: "the Chinese universe exports i8 again", File: "internal/types/universe_wz.go", Old: "\t{Int32, IsInteger, token.K_普整型},", New: "\t{Int8, IsInteger, token.K_微整型},\n\t{Int32, IsInteger, token.K_普整型},", Expect: "universe-visibility-agrees :: Chinese name 微整型"},
		{Name: "complex128 loses its Chinese name", File: "internal/types/universe_wz.go", Old: "\t{Complex128, IsComplex, token.K_双复},\n", New: "", Expect: "universe-visibility-agrees :: kind Complex128"},
		{Name: "the Chinese universe predeclares a bare Pointer", File: "internal/types/universe_wz.go", Old: "\t\tif t.kind == UnsafePointer {\n\t\t\tcontinue // 只能通过 洪荒·指针 访问\n\t\t}\n", New: "", Expect: "universe-visibility-agrees :: bare Pointer"},
		{Name: "Chinese initialisers all numbered from a counter that is never stored", File: "internal/ssa/create.go", Old: "\t\t\t\tpkg.ninit++\n\t\t\t\tname = fmt.Sprintf(token.K_准备+\"#%d\", pkg.ninit)", New: "\t\t\t\tname = fmt.Sprintf(token.K_准备+\"#%d\", pkg.ninit+1)", Expect: "init-name-counter"},
		{Name: "English initialisers numbered before the counter advances (first two collide with the Chinese scheme off by one)", File: "internal/ssa/create.go", Old: "\t\t\t\tpkg.ninit++\n\t\t\t\tname = fmt.Sprintf(token.K_init+\"#%d\", pkg.ninit)", New: "\t\t\t\tname = fmt.Sprintf(token.K_init+\"#%d\", pkg.ninit)", Expect: "init-name-counter"},
		{Name: "SSA builder forgets the Chinese break", File: "internal/ssa/builder.go", Old: "case token.BREAK, token.Zh_跳出:", New: "case token.BREAK:", Expect: "bilingual-case-completeness"},
		{Name: "type checker forgets the Chinese continue", File: "internal/types/stmt.go", Old: "case token.CONTINUE, token.Zh_继续:", New: "case token.CONTINUE:", Expect: "bilingual-case-completeness"},
		{Name: "wz parser never recognises a three-index slice", File: "internal/parser/w2parser/parser_expr.go", Old: "if ncolons == 2 {", New: "if ncolons == N {", Expect: "parser-sibling-agreement"},
		{Name: "Chinese u16 bound to 32 bits", File: "internal/types/universe_wz.go", Old: "{Uint16, IsInteger | IsUnsigned, token.K_短正整}", New: "{Uint32, IsInteger | IsUnsigned, token.K_短正整}", Expect: "universe-alias-kinds"},
		{Name: "Chinese i64 bound to int", File: "internal/types/universe_wz.go", Old: "{Int64, IsInteger, token.K_长整型}", New: "{Int, IsInteger, token.K_长整型}", Expect: "universe-alias-kinds"},
		{Name: "Chinese __LINE__ accessor returns the English object", File: "internal/types/universe.go", Old: "\tif p.pkg.W2Mode {\n\t\treturn wzUniverse__LINE__", New: "\tif p.pkg.W2Mode {\n\t\treturn waUniverse__LINE__", Expect: "language-accessor-pairing :: internal/types.Checker._universe__LINE__"},
		{Name: "Wz universe loses a builtin", File: "internal/types/universe_wz.go", Old: "\t_Len:     {token.K_长度, 1, false, expression},\n", New: "", Expect: "universe-bijection"},
		{Name: "Wz builtin arity differs", File: "internal/types/universe_wz.go", Old: "\t_Cap:     {token.K_容量, 1, false, expression},", New: "\t_Cap:     {token.K_容量, 2, false, expression},", Expect: "universe-bijection :: _Cap"},
		{Name: "Chinese keyword spelled like another", File: "internal/token/const_wz.go", Old: "\tK_继续 = \"继续\"", New: "\tK_继续 = \"跳出\"", Expect: "keyword-table"},
	}})
}

// twin pairs: English keyword token <-> Chinese keyword token (frozen; inferred from co-occurrence in existing case
// lists and the `// break` annotations in internal/token/token.go, confirmed by reading).
var c09Twins = [][2]string{
	{"IMPORT", "Zh_引入"}, {"CONST", "Zh_常量"}, {"GLOBAL", "Zh_全局"}, {"TYPE", "Zh_类型"}, {"FUNC", "Zh_函数"}, {"VAR", "Zh_设定"},
	{"STRUCT", "Zh_结构"}, {"MAP", "Zh_字典"}, {"INTERFACE", "Zh_接口"}, {"IF", "Zh_如果"}, {"ELSE", "Zh_否则"}, {"SWITCH", "Zh_找辙"}, {"CASE", "Zh_有辙"}, {"DEFAULT", "Zh_没辙"},
	{"FOR", "Zh_循环"}, {"RANGE", "Zh_迭代"}, {"CONTINUE", "Zh_继续"}, {"BREAK", "Zh_跳出"}, {"DEFER", "Zh_押后"}, {"RETURN", "Zh_返回"},
}

type tokSite struct {
	pk    *packages.Package
	fn    string
	field string // "GenDecl.Tok"
	pos   token.Pos
	// groups: each arm / disjunction is a set of token constant names handled alike
	groups [][]string
	kind   string
}

// fieldOfTokenExpr: for an expression of type token.Token that selects a struct field, "Struct.Field".
func fieldOfTokenExpr(info *types.Info, e ast.Expr) string {
	e = ast.Unparen(e)
	se, ok := e.(*ast.SelectorExpr)
	if !ok {
		return ""
	}
	sel, ok := info.Selections[se]
	if !ok || sel.Kind() != types.FieldVal {
		return ""
	}
	if !typeIsNamed(sel.Type(), "internal/token", "Token") {
		return ""
	}
	return namedTypeName(sel.Recv()) + "." + se.Sel.Name
}

func runC09(c *Ctx) {
	c.Explain = "Decides structural clauses of Wz/Wa equivalence: (1) bilingual case completeness: the Wz parser stores Chinese keyword tokens in the shared AST, so for every AST token field F the set W(F) of tokens the Wz parser can store there is computed from the parser (constants, one level of parameter passing, guards on the current token), and every switch arm or comparison on F in the consumers (type checker, SSA builder, AST utilities, loader, formatter, printer, back ends) that mentions one member of an English/Chinese twin pair must mention the other in the same arm or disjunction whenever F can hold it; today's paired arms are the confirmed instances, today's asymmetric sites are a frozen triaged table; " +
		"(2) universe bijection: universe_wa.go and universe_wz.go define the same builtin ids with equal (nargs, variadic, kind), and no name twice; (3) keyword table: every Zh_* token has one spelling, distinct from all other keywords; (4) language-accessor-pairing: every accessor of the shape `if W2Mode { return A } else { return B }` over per-language objects returns the wz twin of B in its Chinese branch. " +
		"NOT decided: that the two parsers build equal trees for equal programs; per-arm pairing of print/println with their Chinese names (the universe table and the docs disagree and the back end dispatches on the name, so behaviour is consistent)."
	c.Trusted = []string{"go/packages, go/types (x/tools v0.29.0)", "frozen twin-token table (c09.go)"}
	p := c.Load(LoadOpt{Light: true}, "./internal/token", "./internal/types", "./internal/ssa", "./internal/ast", "./internal/ast/astutil", "./internal/loader", "./internal/format", "./internal/printer",
		"./internal/backends/compiler_wat", "./internal/app/appgo2wa", "./internal/app/appgo2wz", "./internal/lsp", "./internal/parser/w2parser", "./internal/parser")
	c09ParserSiblings(c, p)
	if os.Getenv("VERIF_C09_DUMP") == "1" {
		return
	}
	const r1, r2, r3 = "bilingual-case-completeness", "universe-bijection", "keyword-table"
	if sp := p.MustPkg("init-name-counter", "internal/ssa"); sp != nil {
		c09InitNameCounter(c, p, sp)
	}
	twinOf := map[string]string{}
	for _, t := range c09Twins {
		twinOf[t[0]] = t[1]
		twinOf[t[1]] = t[0]
	}
	tk := p.MustPkg(r3, "internal/token")
	if tk == nil {
		return
	}
	c09AccessorPairing(c, p, p.Pkg("internal/types"), p.Pkg("internal/loader"), p.Pkg("internal/ssa"))
	c09AliasKinds(c, p, p.Pkg("internal/types"))
	// the twin table must name existing constants
	for _, t := range c09Twins {
		for _, n := range t {
			if _, ok := tk.Types.Scope().Lookup(n).(*types.Const); !ok {
				c.Undecided(r1, "twin table: "+n, "", "token constant no longer exists")
			}
		}
	}

	// ---- (1) sites
	var sites []tokSite
	var pkgs []*packages.Package
	for path, pk := range p.All {
		if strings.HasPrefix(path, modPath) && len(pk.Syntax) > 0 && !strings.Contains(path, "/parser") {
			pkgs = append(pkgs, pk)
		}
	}
	sort.Slice(pkgs, func(i, j int) bool { return pkgs[i].PkgPath < pkgs[j].PkgPath })
	for _, pk := range pkgs {
		info := pk.TypesInfo
		for _, f := range pk.Syntax {
			for _, d := range f.Decls {
				fd, ok := d.(*ast.FuncDecl)
				if !ok || fd.Body == nil {
					continue
				}
				fname := short(pk.PkgPath) + "." + declName(fd)
				ast.Inspect(fd.Body, func(n ast.Node) bool {
					switch x := n.(type) {
					case *ast.SwitchStmt:
						if x.Tag == nil {
							return true
						}
						fld := fieldOfTokenExpr(info, x.Tag)
						if fld == "" {
							return true
						}
						s := tokSite{pk: pk, fn: fname, field: fld, pos: x.Pos(), kind: "switch"}
						for _, arm := range SwitchArms(info, x) {
							var g []string
							for _, k := range arm.Consts {
								if k.Name != "" {
									g = append(g, k.Name)
								}
							}
							if len(g) > 0 {
								s.groups = append(s.groups, g)
							}
						}
						sites = append(sites, s)
					case *ast.BinaryExpr:
						// maximal ||-chains (for ==) and &&-chains (for !=)
						if x.Op != token.LOR && x.Op != token.LAND && x.Op != token.EQL && x.Op != token.NEQ {
							return true
						}
						fld, names, ok := tokenDisjunction(info, x)
						if !ok || fld == "" {
							return true
						}
						sites = append(sites, tokSite{pk: pk, fn: fname, field: fld, pos: x.Pos(), kind: "comparison", groups: [][]string{names}})
						return false // do not revisit sub-chains
					}
					return true
				})
			}
		}
	}
	// W(F): what the Wz parser can store in each token field of the shared AST
	wz := p.MustPkg(r1, "internal/parser/w2parser")
	if wz == nil {
		return
	}
	W := tokenFieldWrites(wz)
	var wk []string
	for f, set := range W {
		wk = append(wk, f+"={"+keysOf(set)+"}")
	}
	sort.Strings(wk)
	c.Note("token constants the Wz parser stores per AST field: %s", strings.Join(wk, "; "))
	c.Min(r1, "AST token fields written by the Wz parser", len(W), 10)

	nPaired, nAsym := 0, 0
	ord := map[string]int{}
	for _, s := range sites {
		for _, g := range s.groups {
			set := map[string]bool{}
			for _, n := range g {
				set[n] = true
			}
			for _, n := range g {
				tw, ok := twinOf[n]
				if !ok {
					continue
				}
				isZh := strings.HasPrefix(n, "Zh_")
				if isZh && set[tw] {
					continue // pair counted from the English side
				}
				// can the field hold the missing member? English tokens come from the Wa parser; Chinese ones only
				// when the Wz parser stores them in this field.
				if !isZh && !W[s.field][tw] && !set[tw] {
					continue
				}
				base := fmt.Sprintf("%s: %s on %s: %s", s.fn, s.kind, s.field, n)
				ord[base]++
				key := base
				if ord[base] > 1 {
					key = fmt.Sprintf("%s #%d", base, ord[base])
				}
				if set[tw] {
					nPaired++
					c.OK(r1, key, p.Pos(s.pos), "handled together with "+tw)
					continue
				}
				nAsym++
				if why, ok := c09Exceptions[key]; ok {
					c.OK(r1, key, p.Pos(s.pos), "exception: "+why)
					continue
				}
				c.Fail(r1, key, p.Pos(s.pos), fmt.Sprintf("%s handles %s on %s but not its twin %s in the same arm, and the %s parser does store %s in that field: the two surface syntaxes are treated differently here", s.fn, n, s.field, tw, map[bool]string{true: "Wa", false: "Wz"}[isZh], tw))
			}
		}
	}
	c.Min(r1, "paired arms (both twins handled together)", nPaired, 8)
	c.Count("asymmetric_sites", nAsym)
	c.Count("token_field_sites", len(sites))

	// ---- (2) universe bijection
	ty := p.MustPkg(r2, "internal/types")
	if ty != nil {
		wa := readBuiltinTable(ty, "waPredeclaredFuncs")
		wz := readBuiltinTable(ty, "wzPredeclaredFuncs")
		if len(wa) == 0 || len(wz) == 0 {
			c.Undecided(r2, "predeclared function tables", "", fmt.Sprintf("tables not found (wa: %d rows, wz: %d rows)", len(wa), len(wz)))
		}
		ids := map[string]bool{}
		for k := range wa {
			ids[k] = true
		}
		for k := range wz {
			ids[k] = true
		}
		var idl []string
		for k := range ids {
			idl = append(idl, k)
		}
		sort.Strings(idl)
		for _, id := range idl {
			a, okA := wa[id]
			z, okZ := wz[id]
			if !okA || !okZ {
				c.Fail(r2, id, "", fmt.Sprintf("builtin %s is defined in only one universe (wa: %v, wz: %v): a program using it compiles in one syntax only", id, okA, okZ))
				continue
			}
			c.Check(a.rest == z.rest, r2, id, "", "same (nargs, variadic, kind) in both universes: "+a.rest, fmt.Sprintf("builtin %s is (%s) in the Wa universe and (%s) in the Wz universe", id, a.rest, z.rest))
		}
		seenName := map[string]string{}
		for id, z := range wz {
			if prev, dup := seenName[z.name]; dup {
				c.Fail(r2, "wz name "+z.name, "", fmt.Sprintf("Chinese name %s is given to both %s and %s", z.name, prev, id))
			}
			seenName[z.name] = id
		}
		c.Min(r2, "builtin ids", len(idl), 15)
	}

	// ---- (3) keyword table
	kw, _ := KeyedStringTable(tk, "tokens")
	sp := map[string]string{}
	nz := 0
	for name, s := range kw {
		if !strings.HasPrefix(name, "Zh_") {
			continue
		}
		nz++
		c.Check(s != "", r3, name, "", "has a spelling", "Chinese keyword token "+name+" has an empty spelling")
	}
	// all keyword spellings distinct (English and Chinese)
	var all []string
	for name := range kw {
		all = append(all, name)
	}
	sort.Strings(all)
	for _, name := range all {
		s := kw[name]
		if s == "" || !(strings.HasPrefix(name, "Zh_") || isKeywordName(tk, name)) {
			continue
		}
		if prev, dup := sp[s]; dup {
			c.Fail(r3, "spelling "+s, "", fmt.Sprintf("tokens %s and %s are both spelled %q: the scanner can only produce one of them", prev, name, s))
		}
		sp[s] = name
	}
	if nz == 0 {
		// spellings given through K_* constants: resolve the table by value
		nz = c09KeywordByConst(c, p, tk, r3)
	}
	c.Min(r3, "Chinese keyword tokens", nz, 20)
	_ = constant.MakeBool
}

// Frozen triage of today's asymmetric sites (a consumer that handles one twin on a field that can hold the other).
// Each was read; none changes what a program means. A new asymmetric site is reported.
var c09Exceptions = map[string]string{
	"internal/ast.SortImports: comparison on GenDecl.Tok: IMPORT":                    "formatter helper: import sorting of the printed text only (C07 territory), not program meaning",
	"internal/ast/astutil.AddNamedImport: comparison on GenDecl.Tok: IMPORT":         "source-rewriting tool helper (go2wa / LSP code actions): not on the compile path",
	"internal/ast/astutil.AddNamedImport: comparison on GenDecl.Tok: IMPORT #2":      "source-rewriting tool helper: not on the compile path",
	"internal/ast/astutil.DeleteNamedImport: comparison on GenDecl.Tok: IMPORT":      "source-rewriting tool helper: not on the compile path",
	"internal/ast/astutil.Imports: comparison on GenDecl.Tok: IMPORT":                "tool helper grouping import specs for display: not on the compile path",
	"internal/ast/astutil.declImports: comparison on GenDecl.Tok: IMPORT":            "source-rewriting tool helper: not on the compile path",
	"internal/ast/astutil.NodeDescription: switch on GenDecl.Tok: CONST":             "human-readable node description for tooling (hover text): not on the compile path",
	"internal/ast/astutil.NodeDescription: switch on GenDecl.Tok: IMPORT":            "human-readable node description for tooling: not on the compile path",
	"internal/ast/astutil.NodeDescription: switch on GenDecl.Tok: TYPE":              "human-readable node description for tooling: not on the compile path",
	"internal/format.hasUnsortedImports: comparison on GenDecl.Tok: IMPORT":          "formatter: decides whether to sort imports of .wa text; .wz files are formatted by the w2 printer path",
	"internal/printer.printer.expr1: comparison on UnaryExpr.Op: RANGE":              "internal/printer prints .wa syntax only; format.File sends .wz sources to internal/printer/w2printer",
	"internal/printer.printer.genDecl: comparison on GenDecl.Tok: CONST":             "internal/printer prints .wa syntax only; .wz sources go to w2printer",
	"internal/ssa.membersFromDecl: switch on GenDecl.Tok: CONST":                     "SSA package member table for package-level constants: constants are folded by the type checker and never looked up through Members by the back end (not shown to change behaviour; listed so that only new sites are reported)",
	"internal/ssa.membersFromDecl: switch on GenDecl.Tok: TYPE":                      "SSA package member table for named types: the back end compiles types on demand from the type checker's objects; methods are created from FuncDecls (not shown to change behaviour; listed so that only new sites are reported)",
}

func isKeywordName(tk *packages.Package, name string) bool {
	switch name {
	case "BREAK", "CASE", "CONST", "CONTINUE", "DEFAULT", "DEFER", "ELSE", "FOR", "FUNC", "GLOBAL", "IF", "IMPORT", "INTERFACE", "MAP", "RANGE", "RETURN", "STRUCT", "SWITCH", "TYPE", "VAR":
		return true
	}
	return false
}

// c09KeywordByConst handles `tokens = [...]string{Zh_x: K_x}` where K_x are string constants.
func c09KeywordByConst(c *Ctx, p *Prog, tk *packages.Package, rule string) int {
	n := 0
	seen := map[string]string{}
	for _, f := range tk.Syntax {
		ast.Inspect(f, func(nd ast.Node) bool {
			kv, ok := nd.(*ast.KeyValueExpr)
			if !ok {
				return true
			}
			k := constOfExpr(tk.TypesInfo, kv.Key)
			if !strings.HasPrefix(k.Name, "Zh_") && !isKeywordName(tk, k.Name) {
				return true
			}
			tv, ok := tk.TypesInfo.Types[kv.Value]
			if !ok || tv.Value == nil || tv.Value.Kind() != constant.String {
				return true
			}
			s := constant.StringVal(tv.Value)
			if strings.HasPrefix(k.Name, "Zh_") {
				n++
			}
			if prev, dup := seen[s]; dup && prev != k.Name {
				c.Fail(rule, "spelling "+s, p.Pos(kv.Pos()), fmt.Sprintf("tokens %s and %s are both spelled %q: the scanner can only produce one of them", prev, k.Name, s))
			} else {
				c.OK(rule, k.Name, p.Pos(kv.Pos()), "spelled "+s)
			}
			seen[s] = k.Name
			return true
		})
	}
	return n
}

// tokenDisjunction flattens `f == A || f == B` (or `f != A && f != B`) on one token field.
func tokenDisjunction(info *types.Info, e ast.Expr) (field string, names []string, ok bool) {
	var leaves []*ast.BinaryExpr
	var op token.Token
	var walk func(x ast.Expr) bool
	walk = func(x ast.Expr) bool {
		x = ast.Unparen(x)
		be, isBE := x.(*ast.BinaryExpr)
		if !isBE {
			return false
		}
		switch be.Op {
		case token.LOR, token.LAND:
			if op == 0 {
				op = be.Op
			}
			if be.Op != op {
				return false
			}
			return walk(be.X) && walk(be.Y)
		case token.EQL, token.NEQ:
			leaves = append(leaves, be)
			return true
		}
		return false
	}
	if !walk(e) || len(leaves) == 0 {
		return "", nil, false
	}
	for _, l := range leaves {
		// == leaves combine with ||, != leaves with &&
		if op != 0 && ((l.Op == token.EQL && op != token.LOR) || (l.Op == token.NEQ && op != token.LAND)) {
			return "", nil, false
		}
		var fld string
		var k ArmConst
		if f := fieldOfTokenExpr(info, l.X); f != "" {
			fld, k = f, constOfExpr(info, l.Y)
		} else if f := fieldOfTokenExpr(info, l.Y); f != "" {
			fld, k = f, constOfExpr(info, l.X)
		} else {
			return "", nil, false
		}
		if k.Name == "" {
			return "", nil, false
		}
		if field == "" {
			field = fld
		} else if field != fld {
			return "", nil, false
		}
		names = append(names, k.Name)
	}
	return field, names, true
}

type builtinRow struct{ name, rest string }

// readBuiltinTable reads `var X = [...]struct{...}{ _Id: {name, nargs, variadic, kind}, ... }`.
func readBuiltinTable(pk *packages.Package, varName string) map[string]builtinRow {
	out := map[string]builtinRow{}
	for _, f := range pk.Syntax {
		for _, d := range f.Decls {
			gd, ok := d.(*ast.GenDecl)
			if !ok {
				continue
			}
			for _, sp := range gd.Specs {
				vs, ok := sp.(*ast.ValueSpec)
				if !ok || len(vs.Names) != 1 || vs.Names[0].Name != varName || len(vs.Values) != 1 {
					continue
				}
				cl, ok := vs.Values[0].(*ast.CompositeLit)
				if !ok {
					continue
				}
				for _, el := range cl.Elts {
					kv, ok := el.(*ast.KeyValueExpr)
					if !ok {
						continue
					}
					row, ok := kv.Value.(*ast.CompositeLit)
					if !ok || len(row.Elts) < 2 {
						continue
					}
					name := types.ExprString(row.Elts[0])
					if tv, ok := pk.TypesInfo.Types[row.Elts[0]]; ok && tv.Value != nil && tv.Value.Kind() == constant.String {
						name = constant.StringVal(tv.Value)
					}
					var rest []string
					for _, e := range row.Elts[1:] {
						rest = append(rest, types.ExprString(e))
					}
					out[types.ExprString(kv.Key)] = builtinRow{name, strings.Join(rest, ", ")}
				}
			}
		}
	}
	return out
}
