module wa-lang.org/wa/verifcheck

go 1.23

require (
	golang.org/x/tools v0.29.0
	wa-lang.org/wa v0.0.0-00010101000000-000000000000
)

require (
	golang.org/x/mod v0.22.0 // indirect
	golang.org/x/sync v0.10.0 // indirect
)

replace wa-lang.org/wa => /repo
