package main

import (
	"fmt"
	"go/ast"
	"go/constant"
	"go/types"
	"strings"

	"golang.org/x/tools/go/packages"
)

// c26Dispatch decides the dispatch of DecodeMessage on the message type, read with the package's helpers expanded
// (inline.go): whether the three decoders are methods of their own or written out in the switch arms is the same code.
// For each of "request", "response", "event": the arm looks the constructor up in that kind's registry, keyed by the
// field that names the kind's message (command / command / event); a response with success == false is decoded as
// ErrorResponse and never reaches the registry.
func c26Dispatch(c *Ctx, p *Prog, pk *packages.Package, rD string) {
	info := pk.TypesInfo
	fd := p.MustFunc(rD, pk, "Codec.DecodeMessage")
	if fd == nil {
		return
	}
	body := InlinedBody(pk, fd)
	ifd := &ast.FuncDecl{Recv: fd.Recv, Name: fd.Name, Type: fd.Type, Body: body}
	want := map[string][3]string{
		"request":  {"decodeRequest", "requestCtor", "Command"},
		"response": {"decodeResponse", "responseCtor", "Command"},
		"event":    {"decodeEvent", "eventCtor", "Event"},
	}
	n := 0
	for _, sw := range FindSwitches(ifd, func(e ast.Expr) bool { return strings.HasSuffix(types.ExprString(e), ".Type") }) {
		for _, arm := range SwitchArms(info, sw) {
			for _, k := range arm.Consts {
				if k.Val == nil || k.Val.Kind() != constant.String {
					continue
				}
				key := constant.StringVal(k.Val)
				w, ok := want[key]
				if !ok {
					continue
				}
				n++
				// registry lookups of the arm
				var regs, keys []string
				var lookups []*ast.IndexExpr
				for _, s := range arm.Body {
					ast.Inspect(s, func(m ast.Node) bool {
						if ix, ok := m.(*ast.IndexExpr); ok {
							x := types.ExprString(ix.X)
							if strings.HasSuffix(x, "Ctor") {
								regs = append(regs, x[strings.LastIndex(x, ".")+1:])
								keys = append(keys, types.ExprString(ix.Index))
								lookups = append(lookups, ix)
							}
						}
						return true
					})
				}
				goodKey := len(keys) > 0
				for _, kx := range keys {
					if !strings.HasSuffix(kx, "."+w[2]) {
						goodKey = false
					}
				}
				c.Check(goodKey, rD, "DecodeMessage: type "+key, p.Pos(arm.Clause.Pos()), "constructor looked up by "+strings.Join(keys, ", "),
					fmt.Sprintf("messages of type %q look their constructor up by %s; the field that names a %s is %s", key, strings.Join(keys, ", "), key, w[2]))
				goodReg := len(regs) > 0
				for _, r := range regs {
					if r != w[1] {
						goodReg = false
					}
				}
				detail := "looks the constructor up in " + strings.Join(regs, ", ")
				if key == "response" {
					// failed responses: an if on the success flag whose failing side builds an ErrorResponse and
					// returns, with no registry lookup on that side
					errArm := false
					for _, s := range arm.Body {
						ast.Inspect(s, func(m ast.Node) bool {
							ifs, ok := m.(*ast.IfStmt)
							if !ok {
								return true
							}
							cond := strings.ReplaceAll(types.ExprString(ifs.Cond), " ", "")
							var failing ast.Stmt
							switch {
							case strings.HasPrefix(cond, "!") && strings.HasSuffix(strings.ToLower(cond), "success"),
								strings.HasSuffix(strings.ToLower(cond), "success==false"):
								failing = ifs.Body
							case strings.HasSuffix(strings.ToLower(cond), "success"), strings.HasSuffix(strings.ToLower(cond), "success==true"):
								failing = ifs.Else
							}
							if failing == nil {
								return true
							}
							mentions, returns, looks := false, false, false
							ast.Inspect(failing, func(q ast.Node) bool {
								switch y := q.(type) {
								case *ast.Ident:
									if y.Name == "ErrorResponse" {
										mentions = true
									}
								case *ast.ReturnStmt:
									returns = true
								case *ast.IndexExpr:
									if strings.HasSuffix(types.ExprString(y.X), "Ctor") {
										looks = true
									}
								}
								return true
							})
							if mentions && returns && !looks {
								// every registry lookup of the arm is outside the failing side
								inside := false
								for _, ix := range lookups {
									if nodeContains(failing, ix) {
										inside = true
									}
								}
								if !inside {
									errArm = true
								}
							}
							return true
						})
					}
					if !errArm {
						goodReg = false
						detail += "; a response with success == false is not decoded as ErrorResponse"
					}
				}
				c.Check(goodReg, rD, w[0], p.Pos(arm.Clause.Pos()), detail, fmt.Sprintf("%s: %s (want %s)", w[0], detail, w[1]))
			}
		}
	}
	c.Min(rD, "DecodeMessage arms", n, 3)
}
