package main

import (
	"fmt"
	"go/ast"
	"go/token"
	"go/types"

	"golang.org/x/tools/go/packages"
)

// C05 optional-limit-elision (added after a seeded change was missed): the parser stores an absent maximum (memory
// pages, table size) as 0 and a present one as its value. The printer leaves the maximum out exactly when it is absent:
// the guard of the statement that prints the field tests that field against zero and nothing else. A guard that also
// looks at another quantity (`MaxPages > Pages`) drops a maximum that is present — `(memory 2 2)` comes back as
// `(memory 2)`, a growable memory.

func c05OptionalLimits(c *Ctx, p *Prog, pp *packages.Package) {
	const rule = "optional-limit-elision"
	info := pp.TypesInfo
	n := 0
	seq := map[string]int{}
	for _, f := range pp.Syntax {
		for _, d := range f.Decls {
			fd, ok := d.(*ast.FuncDecl)
			if !ok || fd.Body == nil {
				continue
			}
			ast.Inspect(fd.Body, func(nd ast.Node) bool {
				ifs, ok := nd.(*ast.IfStmt)
				if !ok || ifs.Else != nil || ifs.Init != nil {
					return true
				}
				// the fields of wat/ast structs printed by the body (integer-typed: the optional limits)
				printed := map[string]*ast.SelectorExpr{}
				for _, call := range callsIn(info, ifs.Body.List) {
					fn := CalleeOf(info, call)
					if fn == nil || fn.Pkg() == nil || fn.Pkg().Path() != "fmt" {
						continue
					}
					for _, a := range call.Args {
						se, ok := ast.Unparen(a).(*ast.SelectorExpr)
						if !ok {
							continue
						}
						sel, ok := info.Selections[se]
						if !ok || sel.Kind() != types.FieldVal {
							continue
						}
						if b, ok := sel.Type().Underlying().(*types.Basic); ok && b.Info()&types.IsInteger != 0 {
							printed[types.ExprString(se)] = se
						}
					}
				}
				if len(printed) != 1 {
					return true
				}
				var field string
				for k := range printed {
					field = k
				}
				// the guard mentions the printed field
				mentions := false
				ast.Inspect(ifs.Cond, func(m ast.Node) bool {
					if e, ok := m.(ast.Expr); ok && types.ExprString(e) == field {
						mentions = true
					}
					return true
				})
				if !mentions {
					return true
				}
				n++
				key := declName(fd) + ": " + printed[field].Sel.Name
				seq[key]++
				good := false
				if be, ok := ast.Unparen(ifs.Cond).(*ast.BinaryExpr); ok {
					isZero := func(e ast.Expr) bool { v, ok := constIntOf(info, e); return ok && v == 0 }
					switch {
					case types.ExprString(ast.Unparen(be.X)) == field && isZero(be.Y) && (be.Op == token.GTR || be.Op == token.NEQ):
						good = true
					case types.ExprString(ast.Unparen(be.Y)) == field && isZero(be.X) && (be.Op == token.LSS || be.Op == token.NEQ):
						good = true
					}
				}
				c.Check(good, rule, fmt.Sprintf("%s #%d", key, seq[key]), p.Pos(ifs.Pos()), "printed exactly when the field is not zero",
					fmt.Sprintf("%s prints %s only when `%s`: the parser stores a present maximum as its value and an absent one as 0, so the guard must test the field against zero and nothing else — as written a module whose maximum is present but fails the extra condition (e.g. equal to the initial size) is printed without it and re-parses as a module with no maximum", declName(fd), field, types.ExprString(ifs.Cond)))
				return true
			})
		}
	}
	c.Min(rule, "optional limits printed under a guard", n, 3)
}
