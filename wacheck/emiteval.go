package main

import (
	"fmt"
	"go/ast"
	"go/constant"
	"go/token"
	"go/types"
	"strings"

	"golang.org/x/tools/go/packages"
)

// emiteval.go — evaluation of "emitter" code for one concrete choice of the facts it branches on.
//
// The back end's emitters build instruction lists: `insts = append(insts, wat.NewInstX(..))`, guarded by tests such as
// `x.Type().Size() <= 4 && y.Type().Size() == 8`, sometimes through helpers of the package that answer a list, a flag,
// or both. A rule that wants to know what is emitted for, say, a 32-bit value shifted by a 64-bit count fixes those
// facts (the hook answers `x.Type().Size()` with 4 and `y.Type().Size()` with 8) and lets this evaluator follow the
// statements: integers and booleans are computed, lists are concatenated, every instruction constructor becomes a token
// (`NewInstShl(toWatType(ret_type))`), calls into the package are followed with parameters bound to the argument
// values, everything else is an opaque token or, in a condition, "undecided". Nothing of the compiler is executed; the
// evaluator only ever sees syntax trees, and a verdict that would depend on an undecided condition is reported as
// undecided by the rule.

type evKind int

const (
	evUnknown evKind = iota
	evInt
	evBool
	evStr
	evList
	evNil
	evOpaque
)

type evVal struct {
	K evKind
	I int64
	B bool
	S string // string value, or the text of an opaque value
	L []string
}

func (v evVal) String() string {
	switch v.K {
	case evInt:
		return fmt.Sprint(v.I)
	case evBool:
		return fmt.Sprint(v.B)
	case evStr:
		return fmt.Sprintf("%q", v.S)
	case evList:
		return "[" + strings.Join(v.L, " ") + "]"
	case evNil:
		return "nil"
	case evOpaque:
		return v.S
	}
	return "?"
}

type emitEval struct {
	pk    *packages.Package
	info  *types.Info
	decls map[*types.Func]*ast.FuncDecl
	// Hook is asked first about every expression; ok=false means "not mine".
	Hook func(e ast.Expr) (evVal, bool)
	// Und is the first reason a verdict could not be reached ("" when everything was decided).
	Und   string
	depth int
	brk   bool // an unlabelled break is on its way to the enclosing switch
	// LoopBody: the statements given to run are one iteration of a loop; an unlabelled continue ends the run (Cont).
	LoopBody bool
	Cont     bool
	// Effect, when set, is told about every call made for effect (an expression statement), in order, with the
	// environment of that point: a rule that follows what is written to a stream records its events here.
	Effect func(call *ast.CallExpr, env evEnv)
	// InnerLoop, when set, is asked about a loop statement; true means the hook accounted for it and the run goes on.
	InnerLoop func(s ast.Stmt, env evEnv) bool
	// TupleHook, when set, is asked first about the call of `a, b = f(..)`; ok=true: these are the results.
	TupleHook func(call *ast.CallExpr, env evEnv) ([]evVal, bool)
	// AssignHook, when set, is told about an assignment whose target is not a variable or field (an element `b[0] = v`).
	AssignHook func(lhs ast.Expr, v evVal)
}

var emitEvalDecls = map[*packages.Package]map[*types.Func]*ast.FuncDecl{}

func newEmitEval(pk *packages.Package) *emitEval {
	if d, ok := emitEvalDecls[pk]; ok {
		return &emitEval{pk: pk, info: pk.TypesInfo, decls: d}
	}
	ev := &emitEval{pk: pk, info: pk.TypesInfo, decls: map[*types.Func]*ast.FuncDecl{}}
	emitEvalDecls[pk] = ev.decls
	for _, f := range pk.Syntax {
		for _, d := range f.Decls {
			if fd, ok := d.(*ast.FuncDecl); ok && fd.Body != nil {
				if fo, ok := pk.TypesInfo.Defs[fd.Name].(*types.Func); ok {
					ev.decls[fo] = fd
				}
			}
		}
	}
	return ev
}

func (ev *emitEval) undecided(pos token.Pos, why string) {
	if ev.Und == "" {
		ev.Und = fmt.Sprintf("%s (%s)", why, ev.pk.Fset.Position(pos))
	}
}

type evEnv map[types.Object]evVal

func (ev *emitEval) obj(e ast.Expr) types.Object {
	if id, ok := ast.Unparen(e).(*ast.Ident); ok {
		if o := ev.info.Defs[id]; o != nil {
			return o
		}
		return ev.info.Uses[id]
	}
	// a field (`fn.Insts = append(fn.Insts, …)`): the field's object stands for it, whatever the receiver
	if se, ok := ast.Unparen(e).(*ast.SelectorExpr); ok {
		if v, ok := ev.info.Uses[se.Sel].(*types.Var); ok && v.IsField() {
			return v
		}
	}
	return nil
}

// token spells an instruction-valued expression.
func (ev *emitEval) token(e ast.Expr, env evEnv) string {
	if call, ok := ast.Unparen(e).(*ast.CallExpr); ok {
		name := types.ExprString(call.Fun)
		if i := strings.LastIndex(name, "."); i >= 0 {
			name = name[i+1:]
		}
		var args []string
		for _, a := range call.Args {
			v := ev.eval(a, env)
			switch v.K {
			case evInt, evBool, evStr:
				args = append(args, v.String())
			default:
				args = append(args, types.ExprString(a))
			}
		}
		return name + "(" + strings.Join(args, ", ") + ")"
	}
	return types.ExprString(e)
}

func isSliceType(t types.Type) bool {
	if t == nil {
		return false
	}
	_, ok := t.Underlying().(*types.Slice)
	return ok
}

func (ev *emitEval) eval(e ast.Expr, env evEnv) evVal {
	if e == nil {
		return evVal{}
	}
	if ev.Hook != nil {
		if v, ok := ev.Hook(e); ok {
			return v
		}
	}
	if tv, ok := ev.info.Types[e]; ok && tv.Value != nil {
		switch tv.Value.Kind() {
		case constant.Int:
			if i, ok := constant.Int64Val(tv.Value); ok {
				return evVal{K: evInt, I: i}
			}
		case constant.Bool:
			return evVal{K: evBool, B: constant.BoolVal(tv.Value)}
		case constant.String:
			return evVal{K: evStr, S: constant.StringVal(tv.Value)}
		}
	}
	switch x := e.(type) {
	case *ast.ParenExpr:
		return ev.eval(x.X, env)
	case *ast.Ident:
		if x.Name == "nil" {
			return evVal{K: evNil}
		}
		if o := ev.obj(x); o != nil {
			if v, ok := env[o]; ok {
				return v
			}
		}
		return evVal{K: evOpaque, S: x.Name}
	case *ast.UnaryExpr:
		v := ev.eval(x.X, env)
		switch {
		case x.Op == token.NOT && v.K == evBool:
			return evVal{K: evBool, B: !v.B}
		case x.Op == token.SUB && v.K == evInt:
			return evVal{K: evInt, I: -v.I}
		}
		return evVal{}
	case *ast.BinaryExpr:
		if x.Op == token.LAND || x.Op == token.LOR {
			a := ev.eval(x.X, env)
			if a.K == evBool && a.B == (x.Op == token.LOR) {
				return a // short circuit
			}
			b := ev.eval(x.Y, env)
			if a.K == evBool && b.K == evBool {
				return b
			}
			if b.K == evBool && b.B == (x.Op == token.LOR) {
				return b // the other operand decides whatever the unknown one is
			}
			return evVal{}
		}
		a, b := ev.eval(x.X, env), ev.eval(x.Y, env)
		if a.K == evInt && b.K == evInt {
			switch x.Op {
			case token.ADD:
				return evVal{K: evInt, I: a.I + b.I}
			case token.SUB:
				return evVal{K: evInt, I: a.I - b.I}
			case token.MUL:
				return evVal{K: evInt, I: a.I * b.I}
			case token.EQL:
				return evVal{K: evBool, B: a.I == b.I}
			case token.NEQ:
				return evVal{K: evBool, B: a.I != b.I}
			case token.LSS:
				return evVal{K: evBool, B: a.I < b.I}
			case token.LEQ:
				return evVal{K: evBool, B: a.I <= b.I}
			case token.GTR:
				return evVal{K: evBool, B: a.I > b.I}
			case token.GEQ:
				return evVal{K: evBool, B: a.I >= b.I}
			}
		}
		if a.K == evStr && b.K == evStr && (x.Op == token.EQL || x.Op == token.NEQ) {
			return evVal{K: evBool, B: (a.S == b.S) == (x.Op == token.EQL)}
		}
		if (x.Op == token.EQL || x.Op == token.NEQ) && ((a.K == evNil && b.K == evStr) || (a.K == evStr && b.K == evNil)) {
			// an error value held as its text ("" stands for nil)
			return evVal{K: evBool, B: (a.S+b.S == "") == (x.Op == token.EQL)}
		}
		if a.K == evBool && b.K == evBool && (x.Op == token.EQL || x.Op == token.NEQ) {
			return evVal{K: evBool, B: (a.B == b.B) == (x.Op == token.EQL)}
		}
		// list == nil / list != nil
		if (x.Op == token.EQL || x.Op == token.NEQ) && ((a.K == evNil && (b.K == evList || b.K == evNil)) || (b.K == evNil && (a.K == evList || a.K == evNil))) {
			empty := (a.K == evNil || len(a.L) == 0) && (b.K == evNil || len(b.L) == 0)
			return evVal{K: evBool, B: empty == (x.Op == token.EQL)}
		}
		return evVal{}
	case *ast.CompositeLit:
		if isSliceType(ev.info.TypeOf(x)) {
			out := evVal{K: evList}
			for _, el := range x.Elts {
				out.L = append(out.L, ev.token(el, env))
			}
			return out
		}
		return evVal{K: evOpaque, S: types.ExprString(x)}
	case *ast.CallExpr:
		return ev.call(x, env)
	case *ast.SelectorExpr:
		if o := ev.obj(x); o != nil {
			if v, ok := env[o]; ok {
				return v
			}
		}
	}
	return evVal{K: evOpaque, S: types.ExprString(e)}
}

func (ev *emitEval) call(call *ast.CallExpr, env evEnv) evVal {
	// conversions
	if tv, ok := ev.info.Types[call.Fun]; ok && tv.IsType() && len(call.Args) == 1 {
		return ev.eval(call.Args[0], env)
	}
	if id, ok := call.Fun.(*ast.Ident); ok {
		switch id.Name {
		case "append":
			if len(call.Args) == 0 {
				return evVal{}
			}
			base := ev.eval(call.Args[0], env)
			out := evVal{K: evList}
			switch base.K {
			case evList:
				out.L = append(out.L, base.L...)
			case evNil:
			default:
				out.L = append(out.L, "…"+base.String())
			}
			for i, a := range call.Args[1:] {
				if call.Ellipsis.IsValid() && i == len(call.Args)-2 {
					v := ev.eval(a, env)
					switch v.K {
					case evList:
						out.L = append(out.L, v.L...)
					case evNil:
					default:
						out.L = append(out.L, ev.token(a, env)+"...")
					}
					continue
				}
				out.L = append(out.L, ev.token(a, env))
			}
			return out
		case "len":
			if len(call.Args) == 1 {
				if v := ev.eval(call.Args[0], env); v.K == evList {
					return evVal{K: evInt, I: int64(len(v.L))}
				} else if v.K == evNil {
					return evVal{K: evInt, I: 0}
				}
			}
			return evVal{}
		}
	}
	// a function of the package: follow it
	if fn := CalleeOf(ev.info, call); fn != nil {
		if fd := ev.decls[fn]; fd != nil && ev.depth < 4 && ev.followable(fn) {
			rets, ok := ev.follow(call, fd, env)
			if ok && len(rets) >= 1 {
				return rets[0]
			}
		}
	}
	if isSliceType(ev.info.TypeOf(call)) {
		return evVal{K: evList, L: []string{ev.token(call, env) + "..."}}
	}
	return evVal{K: evOpaque, S: ev.token(call, env)}
}

// followable: only functions whose results the evaluator can hold (lists, flags, numbers, strings) are followed;
// anything else (a type mapping such as toWatType) stays an opaque token.
func (ev *emitEval) followable(fn *types.Func) bool {
	res := fn.Type().(*types.Signature).Results()
	if res.Len() == 0 {
		return false
	}
	for i := 0; i < res.Len(); i++ {
		t := res.At(i).Type()
		if isSliceType(t) {
			continue
		}
		if b, ok := t.Underlying().(*types.Basic); ok && b.Info()&(types.IsBoolean|types.IsInteger|types.IsString) != 0 {
			continue
		}
		return false
	}
	return true
}

// follow evaluates a call into the package and returns its result values.
func (ev *emitEval) follow(call *ast.CallExpr, fd *ast.FuncDecl, env evEnv) ([]evVal, bool) {
	inner := evEnv{}
	i := 0
	for _, fl := range fd.Type.Params.List {
		for _, nm := range fl.Names {
			if i < len(call.Args) {
				if o := ev.info.Defs[nm]; o != nil {
					inner[o] = ev.eval(call.Args[i], env)
				}
			}
			i++
		}
	}
	// the hook sees the callee's own expressions; rules that key on parameter names must bind them themselves
	var named []types.Object
	if fd.Type.Results != nil {
		for _, fl := range fd.Type.Results.List {
			for _, nm := range fl.Names {
				if o := ev.info.Defs[nm]; o != nil {
					named = append(named, o)
					if isSliceType(o.Type()) {
						inner[o] = evVal{K: evNil}
					} else if b, ok := o.Type().Underlying().(*types.Basic); ok && b.Kind() == types.Bool {
						inner[o] = evVal{K: evBool}
					}
				}
			}
		}
	}
	ev.depth++
	rets, returned := ev.run(fd.Body.List, inner)
	ev.depth--
	if !returned || rets == nil {
		var out []evVal
		for _, o := range named {
			out = append(out, inner[o])
		}
		return out, len(named) > 0
	}
	return rets, true
}

// run follows a statement list; returned reports that a return statement was reached (rets holds its values; nil for
// a bare return, whose values the caller reads from the named results).
func (ev *emitEval) run(list []ast.Stmt, env evEnv) (rets []evVal, returned bool) {
	for _, s := range list {
		switch x := s.(type) {
		case *ast.ExprStmt:
			// calls for effect (logging, fatal) do not change what is emitted into the tracked lists
			if call, ok := x.X.(*ast.CallExpr); ok && ev.Effect != nil {
				ev.Effect(call, env)
			}
		case *ast.IncDecStmt:
			if o := ev.obj(x.X); o != nil {
				if v, ok := env[o]; ok && v.K == evInt {
					if x.Tok == token.INC {
						v.I++
					} else {
						v.I--
					}
					env[o] = v
				}
			}
		case *ast.EmptyStmt, *ast.DeferStmt, *ast.GoStmt:
		case *ast.DeclStmt:
			if gd, ok := x.Decl.(*ast.GenDecl); ok && gd.Tok == token.VAR {
				for _, sp := range gd.Specs {
					vs := sp.(*ast.ValueSpec)
					for i, nm := range vs.Names {
						o := ev.info.Defs[nm]
						if o == nil {
							continue
						}
						switch {
						case i < len(vs.Values):
							env[o] = ev.eval(vs.Values[i], env)
						case isSliceType(o.Type()):
							env[o] = evVal{K: evNil}
						default:
							if b, ok := o.Type().Underlying().(*types.Basic); ok {
								switch {
								case b.Info()&types.IsInteger != 0:
									env[o] = evVal{K: evInt}
								case b.Kind() == types.Bool:
									env[o] = evVal{K: evBool}
								}
							}
						}
					}
				}
			}
		case *ast.AssignStmt:
			if len(x.Rhs) == 1 && len(x.Lhs) > 1 {
				// tuple from a call into the package
				var vals []evVal
				if call, ok := ast.Unparen(x.Rhs[0]).(*ast.CallExpr); ok {
					hooked := false
					if ev.TupleHook != nil {
						vals, hooked = ev.TupleHook(call, env)
					}
					if fn := CalleeOf(ev.info, call); !hooked && fn != nil && ev.decls[fn] != nil && ev.depth < 4 && ev.followable(fn) {
						vals, _ = ev.follow(call, ev.decls[fn], env)
					}
				}
				for i, l := range x.Lhs {
					if o := ev.obj(l); o != nil {
						if i < len(vals) {
							env[o] = vals[i]
						} else {
							env[o] = evVal{}
						}
					}
				}
				continue
			}
			if len(x.Lhs) != len(x.Rhs) {
				continue
			}
			vals := make([]evVal, len(x.Rhs))
			for i, r := range x.Rhs {
				vals[i] = ev.eval(r, env)
			}
			for i, l := range x.Lhs {
				if o := ev.obj(l); o != nil {
					env[o] = vals[i]
				} else if ev.AssignHook != nil {
					ev.AssignHook(l, vals[i])
				}
			}
		case *ast.BlockStmt:
			if r, done := ev.run(x.List, env); done {
				return r, true
			}
		case *ast.IfStmt:
			if x.Init != nil {
				if r, done := ev.run([]ast.Stmt{x.Init}, env); done {
					return r, true
				}
			}
			c := ev.eval(x.Cond, env)
			if c.K != evBool {
				ev.undecided(x.Cond.Pos(), "condition `"+types.ExprString(x.Cond)+"` is not decided by the facts the rule fixed")
				return nil, true
			}
			if c.B {
				if r, done := ev.run(x.Body.List, env); done {
					return r, true
				}
			} else if x.Else != nil {
				if r, done := ev.run([]ast.Stmt{x.Else}, env); done {
					return r, true
				}
			}
		case *ast.SwitchStmt:
			if x.Init != nil {
				if r, done := ev.run([]ast.Stmt{x.Init}, env); done {
					return r, true
				}
			}
			var tag evVal
			if x.Tag != nil {
				tag = ev.eval(x.Tag, env)
				if tag.K != evInt && tag.K != evBool && tag.K != evStr {
					ev.undecided(x.Tag.Pos(), "switch tag `"+types.ExprString(x.Tag)+"` is not decided")
					return nil, true
				}
			}
			var chosen, def *ast.CaseClause
			for _, cc := range x.Body.List {
				cl := cc.(*ast.CaseClause)
				if cl.List == nil {
					def = cl
					continue
				}
				for _, e := range cl.List {
					v := ev.eval(e, env)
					hit := false
					if x.Tag == nil {
						if v.K != evBool {
							ev.undecided(e.Pos(), "case `"+types.ExprString(e)+"` is not decided by the facts the rule fixed")
							return nil, true
						}
						hit = v.B
					} else {
						hit = v.K == tag.K && v.I == tag.I && v.B == tag.B && v.S == tag.S
					}
					if hit && chosen == nil {
						chosen = cl
					}
				}
				if chosen != nil {
					break
				}
			}
			if chosen == nil {
				chosen = def
			}
			if chosen != nil {
				// break leaves the switch
				r, done := ev.run(chosen.Body, env)
				if done && r == nil && ev.brk {
					ev.brk = false
					continue
				}
				if done {
					return r, true
				}
			}
		case *ast.BranchStmt:
			if x.Tok == token.BREAK && x.Label == nil {
				ev.brk = true
				return nil, true
			}
			if x.Tok == token.CONTINUE && x.Label == nil && ev.LoopBody {
				// the rule runs one iteration of a loop body: continue ends it
				ev.Cont = true
				return nil, true
			}
			ev.undecided(x.Pos(), "branch statement")
			return nil, true
		case *ast.ReturnStmt:
			if len(x.Results) == 0 {
				return nil, true
			}
			if len(x.Results) == 1 {
				if call, ok := ast.Unparen(x.Results[0]).(*ast.CallExpr); ok {
					if fn := CalleeOf(ev.info, call); fn != nil && ev.decls[fn] != nil && ev.depth < 4 && ev.followable(fn) {
						if vals, ok := ev.follow(call, ev.decls[fn], env); ok {
							return vals, true
						}
					}
				}
			}
			var out []evVal
			for _, r := range x.Results {
				out = append(out, ev.eval(r, env))
			}
			return out, true
		case *ast.ForStmt, *ast.RangeStmt:
			if ev.InnerLoop != nil && ev.InnerLoop(s, env) {
				continue
			}
			ev.undecided(s.Pos(), "loop")
			return nil, true
		default:
			ev.undecided(s.Pos(), fmt.Sprintf("statement %T", s))
			return nil, true
		}
	}
	return nil, false
}
