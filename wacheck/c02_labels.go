package main

import (
	"fmt"
	"go/ast"
	"go/token"
	"go/types"
	"strings"

	"golang.org/x/tools/go/packages"
)

// C02 rule site-label-unique (added after a defect was found on the unchanged tree: the native translators named the
// fall-through label of br_if after the target block, so two br_if to one block defined the same assembler symbol
// twice and the file did not assemble; br_table named its case labels after the target label, so a table that lists
// a label twice did the same).
//
// Every assembler label an instruction arm *defines* (gasFuncLabel) is named with an id that is fresh at that site —
// the result of genNextId() called in the arm. A label defined inside a loop of the arm additionally carries the loop
// variable itself (its position), not only an element looked up with it: elements of a list can repeat.

func c02SiteLabels(c *Ctx, p *Prog, pk *packages.Package, tr string) int {
	const rule = "site-label-unique"
	info := pk.TypesInfo
	fd := findBuildFuncIns(pk)
	if fd == nil {
		c.Undecided(rule, "anchor:"+tr+".buildFunc_ins", "", "instruction dispatcher not found")
		return 0
	}
	ld := newLocalDefs(info, fd)
	n := 0
	seq := map[string]int{}
	for _, sw := range FindSwitches(fd, func(ast.Expr) bool { return true }) {
		for _, arm := range SwitchArms(info, sw) {
			armName := arm.Names()
			if !strings.Contains(armName, "INS_") {
				continue
			}
			// walk the arm with the loop variables in scope
			var walk func(n ast.Node, loopVars []types.Object, condVars map[types.Object]bool)
			visit := func(call *ast.CallExpr, loopVars []types.Object, condVars map[types.Object]bool) {
				se, ok := call.Fun.(*ast.SelectorExpr)
				if !ok || se.Sel.Name != "gasFuncLabel" || len(call.Args) != 2 {
					return
				}
				n++
				label := call.Args[1]
				rendered := ld.render(label)
				key := fmt.Sprintf("%s %s: %s", tr, armName, types.ExprString(label))
				seq[key]++
				if seq[key] > 1 {
					key = fmt.Sprintf("%s #%d", key, seq[key])
				}
				var problems []string
				if !strings.Contains(rendered, "genNextId()") {
					problems = append(problems, "the label is "+rendered+": no part of its name is an id made at this site (genNextId()), so a second "+strings.TrimPrefix(armName, "INS_")+" of the same shape in one function defines the same assembler symbol again and the assembler rejects the file")
				}
				// in a loop: the loop variable itself must be part of the name
				resolved := resolveLabelExpr(info, ld, label)
				for _, lv := range loopVars {
					if condVars[lv] {
						continue // defined under a test of the loop variable (one iteration only)
					}
					if !mentionsOutsideIndex(info, resolved, lv) {
						problems = append(problems, "the label is defined once per iteration of the loop over "+lv.Name()+" but its name does not carry "+lv.Name()+" itself (only values looked up with it, which can repeat): a list that names one target twice defines the symbol twice")
					}
				}
				c.Check(len(problems) == 0, rule, key, p.Pos(call.Pos()), "named with an id fresh at this site", strings.Join(problems, "; "))
			}
			walk = func(nd ast.Node, loopVars []types.Object, condVars map[types.Object]bool) {
				ast.Inspect(nd, func(m ast.Node) bool {
					if m == nil || m == nd {
						return true
					}
					switch x := m.(type) {
					case *ast.ForStmt:
						lv := loopVars
						if as, ok := x.Init.(*ast.AssignStmt); ok && len(as.Lhs) == 1 {
							if id, ok := as.Lhs[0].(*ast.Ident); ok {
								lv = append(lv[:len(lv):len(lv)], info.ObjectOf(id))
							}
						}
						walk(x.Body, lv, condVars)
						return false
					case *ast.RangeStmt:
						lv := loopVars
						if id, ok := x.Key.(*ast.Ident); ok && id.Name != "_" {
							lv = append(lv[:len(lv):len(lv)], info.ObjectOf(id))
						}
						walk(x.Body, lv, condVars)
						return false
					case *ast.IfStmt:
						// the else branch of a test that bounds the loop variable from above runs for the last index only
						cv := condVars
						if x.Else != nil {
							for _, v := range loopVars {
								if be, ok := ast.Unparen(x.Cond).(*ast.BinaryExpr); ok && (be.Op == token.LSS || be.Op == token.NEQ) {
									if id, ok := ast.Unparen(be.X).(*ast.Ident); ok && info.ObjectOf(id) == v && strings.Contains(types.ExprString(be.Y), "len(") {
										cv = map[types.Object]bool{}
										for k, b := range condVars {
											cv[k] = b
										}
										cv[v] = true
									}
								}
							}
						}
						if x.Init != nil {
							walk(x.Init, loopVars, condVars)
						}
						walk(x.Body, loopVars, condVars)
						if x.Else != nil {
							walk(x.Else, loopVars, cv)
						}
						return false
					case *ast.CallExpr:
						visit(x, loopVars, condVars)
					}
					return true
				})
			}
			walk(&ast.BlockStmt{List: arm.Body}, nil, map[types.Object]bool{})
		}
	}
	return n
}

// resolveLabelExpr returns the expression that names the label, following single-definition locals.
func resolveLabelExpr(info *types.Info, ld *localDefs, e ast.Expr) ast.Expr {
	for depth := 0; depth < 4; depth++ {
		id, ok := ast.Unparen(e).(*ast.Ident)
		if !ok {
			return e
		}
		rhs, ok := ld.rhs[info.ObjectOf(id)]
		if !ok {
			return e
		}
		e = rhs
	}
	return e
}

// mentionsOutsideIndex: does e mention v other than as the index of an index expression?
func mentionsOutsideIndex(info *types.Info, e ast.Expr, v types.Object) bool {
	found := false
	var walk func(n ast.Node)
	walk = func(n ast.Node) {
		ast.Inspect(n, func(m ast.Node) bool {
			if m == nil || found {
				return false
			}
			switch x := m.(type) {
			case *ast.IndexExpr:
				walk(x.X)
				// the index position does not count, unless the variable sits deeper in an expression of its own
				if id, ok := ast.Unparen(x.Index).(*ast.Ident); ok && info.ObjectOf(id) == v {
					return false
				}
				walk(x.Index)
				return false
			case *ast.Ident:
				if info.ObjectOf(x) == v {
					found = true
				}
			}
			return true
		})
	}
	walk(e)
	return found
}

// C02 rule x64-imm-encodable (added after a defect was found on the unchanged tree: f32.neg emitted
// `xor rax, 0x80000000`; x86-64 has no ALU form with a 64-bit immediate, the 32-bit immediate is sign-extended, so
// 0x80000000 is not encodable for a 64-bit operand and the assembler rejects the file).
//
// In every template line `op r64, imm` with op one of the two-operand ALU instructions the literal immediate fits a
// sign-extended 32-bit field. (mov takes 64-bit immediates; 32-bit registers take any 32-bit immediate.)
func c02ImmEncodable(c *Ctx, p *Prog, x64 map[string]TemplArm, ins map[string]string) {
	const rule = "x64-imm-encodable"
	alu := map[string]bool{"add": true, "sub": true, "and": true, "or": true, "xor": true, "cmp": true, "test": true, "adc": true, "sbb": true, "imul": true, "push": true}
	r64 := map[string]bool{"rax": true, "rbx": true, "rcx": true, "rdx": true, "rsi": true, "rdi": true, "rbp": true, "rsp": true,
		"r8": true, "r9": true, "r10": true, "r11": true, "r12": true, "r13": true, "r14": true, "r15": true}
	n := 0
	var keys []string
	for k := range x64 {
		keys = append(keys, k)
	}
	sortStrings(keys)
	for _, k := range keys {
		a := x64[k]
		for _, v := range a.Variants {
			for _, l := range v.Lines {
				f := strings.Fields(strings.TrimSpace(strings.ReplaceAll(strings.SplitN(l.Format, "#", 2)[0], ",", " ")))
				if len(f) != 3 || !alu[f[0]] {
					continue
				}
				dst := f[1]
				wide := r64[dst] || strings.HasPrefix(dst, "qword")
				var imm int64
				var perr error
				s := f[2]
				neg := strings.HasPrefix(s, "-")
				s = strings.TrimPrefix(s, "-")
				var u uint64
				switch {
				case strings.HasPrefix(s, "0x") || strings.HasPrefix(s, "0X"):
					_, perr = fmt.Sscanf(s[2:], "%x", &u)
				case s != "" && s[0] >= '0' && s[0] <= '9':
					_, perr = fmt.Sscanf(s, "%d", &u)
				default:
					continue // a register or a format verb
				}
				if perr != nil {
					continue
				}
				n++
				imm = int64(u)
				if neg {
					imm = -imm
				}
				okImm := true
				if wide {
					okImm = u <= 0x7fffffffffffffff && imm >= -(1<<31) && imm <= (1<<31)-1
				}
				m := ins[k]
				c.Check(okImm, rule, m+": "+strings.TrimSpace(l.Format), p.Pos(a.Arm.Clause.Pos()), "immediate fits the instruction's field",
					fmt.Sprintf("template for %s emits `%s`: the immediate of a 64-bit %s is a sign-extended 32-bit field, %s does not fit, and the assembler rejects the file (operand type mismatch) — the native build of any module that uses %s fails", m, strings.TrimSpace(l.Format), f[0], f[2], m))
			}
		}
	}
	c.Min(rule, "ALU template lines with a literal immediate", n, 8)
}

// C02 rule x64-rem-s-guard (added after a defect was found on the unchanged tree: idiv raises a divide error for
// INT_MIN / -1, so `x rem_s -1` with x the minimum killed the native program where WebAssembly defines the result 0).
// The templates of i32.rem_s and i64.rem_s compare the divisor with -1 and jump round the idiv.
func c02RemGuard(c *Ctx, p *Prog, x64 map[string]TemplArm) {
	const rule = "x64-rem-s-guard"
	n := 0
	for _, k := range []string{"INS_I32_REM_S", "INS_I64_REM_S"} {
		a, ok := x64[k]
		if !ok || len(a.Variants) == 0 {
			c.Undecided(rule, k, "", "template arm not found")
			continue
		}
		n++
		cmpAt, jeAt, idivAt := -1, -1, -1
		divisorReg := ""
		for i, l := range a.Variants[0].Lines {
			f := strings.Fields(strings.TrimSpace(strings.ReplaceAll(strings.SplitN(l.Format, "#", 2)[0], ",", " ")))
			if len(f) == 0 {
				continue
			}
			switch {
			case f[0] == "cmp" && len(f) == 3 && f[2] == "-1":
				cmpAt, divisorReg = i, f[1]
			case f[0] == "je" && cmpAt >= 0 && jeAt < 0:
				jeAt = i
			case f[0] == "idiv":
				idivAt = i
				if len(f) >= 2 && divisorReg != "" && f[1] != divisorReg {
					divisorReg = divisorReg + " (but idiv divides by " + strings.Join(f[1:], " ") + ")"
				}
			}
		}
		good := cmpAt >= 0 && jeAt == cmpAt+1 && idivAt > jeAt && !strings.Contains(divisorReg, "but idiv")
		c.Check(good, rule, strings.ToLower(strings.TrimPrefix(k, "INS_")), p.Pos(a.Arm.Clause.Pos()), "divisor compared with -1, idiv skipped",
			"the template divides without testing the divisor for -1 (cmp/je before idiv on the same register: "+divisorReg+"): idiv faults for the minimum divided by -1 and the native program dies with SIGFPE, where the wasm build computes 0")
	}
	c.Min(rule, "signed remainder templates", n, 2)
}

// C02 rules x64-local-init-width and local-index-space (added after two defects were found on the unchanged tree).
//
//   x64-local-init-width — every local has an 8-byte slot and WebAssembly guarantees that locals start at zero: the
//       prologue's loop over the locals clears the whole slot (qword), not only its lower half (an i64/f64 local
//       would keep stale upper bits).
//   local-index-space — a local given by number is a parameter (index < #params) or a declared local (index - #params):
//       the results of the function have no place in that index space. The numeric branch of the findLocal* helpers
//       of every native translator mentions parameters and locals only.
func c02Locals(c *Ctx, p *Prog) {
	const r1, r2 = "x64-local-init-width", "local-index-space"
	n1, n2 := 0, 0
	for _, tr := range translators {
		pk := p.Pkg(tr.pkg)
		if pk == nil || tr.name == "wat2c" {
			continue
		}
		info := pk.TypesInfo
		for _, name := range sortedDeclNames(pk) {
			fd := AllFuncDecls(pk)[name]
			if fd.Body == nil {
				continue
			}
			// (1) the zeroing loop (x64 only: the other translators' prologues are not in this property's scope)
			if tr.name == "wat2x64" {
				ast.Inspect(fd.Body, func(nd ast.Node) bool {
					rs, ok := nd.(*ast.RangeStmt)
					if !ok || !strings.HasSuffix(types.ExprString(rs.X), ".Body.Locals") {
						return true
					}
					for _, call := range callsIn(info, rs.Body.List) {
						if len(call.Args) < 2 {
							continue
						}
						tv, ok := info.Types[call.Args[1]]
						if !ok || tv.Value == nil {
							continue
						}
						f := tv.Value.ExactString()
						if !strings.Contains(f, "[rbp%+d], 0") {
							continue
						}
						n1++
						c.Check(strings.Contains(f, "qword ptr"), r1, name+": zeroing of the locals", p.Pos(call.Pos()), "clears the 8-byte slot",
							"the prologue clears a local with `"+strings.TrimSpace(strings.Trim(f, `"`))+"`: only the lower half of the 8-byte slot is zeroed, so an i64 or f64 local that is read before it is written still holds what was on the stack (the wasm build reads 0)")
					}
					return true
				})
			}
			// (2) numeric local lookup
			if !strings.Contains(name, "findLocal") {
				continue
			}
			ast.Inspect(fd.Body, func(nd ast.Node) bool {
				ifs, ok := nd.(*ast.IfStmt)
				if !ok || ifs.Init == nil || !strings.Contains(types.ExprString(ifs.Cond), "err == nil") {
					return true
				}
				as, ok := ifs.Init.(*ast.AssignStmt)
				if !ok || len(as.Rhs) != 1 || !strings.Contains(types.ExprString(as.Rhs[0]), "strconv.Atoi") {
					return true
				}
				n2++
				var bad []string
				ast.Inspect(ifs.Body, func(m ast.Node) bool {
					if se, ok := m.(*ast.SelectorExpr); ok && (se.Sel.Name == "Results" || se.Sel.Name == "Return") {
						bad = append(bad, types.ExprString(se))
					}
					return true
				})
				c.Check(len(bad) == 0, r2, tr.name+" "+name, p.Pos(ifs.Pos()), "a numeric local is a parameter or a declared local",
					name+" resolves a numeric local index through "+strings.Join(bad, ", ")+": the results of a function are not part of the local index space (parameters, then locals), so in a function with results every numeric index beyond the parameters names the wrong slot")
				return false
			})
		}
	}
	c.Min(r1, "zeroing stores of the x64 prologue", n1, 1)
	c.Min(r2, "numeric local lookups in the native translators", n2, 5)
}
