package main

import (
	"fmt"
	"go/ast"
	"go/types"
	"strings"

	"golang.org/x/tools/go/packages"
)

// C28 rule pooled-buffer-escape: a buffer that is handed back to a sync.Pool may be given to another goroutine at any
// time. If a function of the same package returns a view into that buffer (`buf.Bytes()`, `buf.Bytes()[a:b]`) the
// caller keeps bytes that the next user of the pool overwrites: one request's output is replaced by another's.
// For every expression that is Put into a pool, no function of the package returns a view of the same field.

func c28PooledBuffers(c *Ctx, p *Prog, pkgs ...*packages.Package) {
	const rule = "pooled-buffer-escape"
	nPools := 0
	for _, pk := range pkgs {
		if pk == nil {
			continue
		}
		info := pk.TypesInfo
		isPool := func(t types.Type) bool {
			if pt, ok := t.(*types.Pointer); ok {
				t = pt.Elem()
			}
			n, ok := t.(*types.Named)
			return ok && n.Obj().Name() == "Pool" && n.Obj().Pkg() != nil && n.Obj().Pkg().Path() == "sync"
		}
		// fields / variables that are Put into a pool (by the name of the selected field or variable)
		pooled := map[string]string{}
		for _, f := range pk.Syntax {
			ast.Inspect(f, func(n ast.Node) bool {
				call, ok := n.(*ast.CallExpr)
				if !ok || len(call.Args) != 1 {
					return true
				}
				se, ok := call.Fun.(*ast.SelectorExpr)
				if !ok || se.Sel.Name != "Put" || !isPool(info.TypeOf(se.X)) {
					return true
				}
				nPools++
				arg := ast.Unparen(call.Args[0])
				if u, isAddr := arg.(*ast.UnaryExpr); isAddr {
					arg = ast.Unparen(u.X)
				}
				switch a := arg.(type) {
				case *ast.SelectorExpr:
					pooled[a.Sel.Name] = p.Pos(call.Pos())
				case *ast.Ident:
					pooled[a.Name] = p.Pos(call.Pos())
				}
				return true
			})
		}
		if len(pooled) == 0 {
			continue
		}
		for _, f := range pk.Syntax {
			for _, d := range f.Decls {
				fd, ok := d.(*ast.FuncDecl)
				if !ok || fd.Body == nil {
					continue
				}
				// named results: an assignment to one of them is a returned value
				results := map[types.Object]bool{}
				if fd.Type.Results != nil {
					for _, fl := range fd.Type.Results.List {
						for _, nm := range fl.Names {
							results[info.ObjectOf(nm)] = true
						}
					}
				}
				viewOf := func(e ast.Expr) (string, *ast.CallExpr) {
					var name string
					var at *ast.CallExpr
					ast.Inspect(e, func(m ast.Node) bool {
						call, ok := m.(*ast.CallExpr)
						if !ok {
							return true
						}
						se, ok := call.Fun.(*ast.SelectorExpr)
						if !ok || se.Sel.Name != "Bytes" {
							return true
						}
						switch x := ast.Unparen(se.X).(type) {
						case *ast.SelectorExpr:
							name, at = x.Sel.Name, call
						case *ast.Ident:
							name, at = x.Name, call
						}
						return true
					})
					return name, at
				}
				report := func(pos ast.Node, e ast.Expr) {
					name, call := viewOf(e)
					if at, isPooled := pooled[name]; isPooled && call != nil {
						c.Fail(rule, pk.Name+"."+declName(fd)+": returns a view of pooled "+name, p.Pos(pos.Pos()),
							fmt.Sprintf("%s returns %s, a view into a buffer that is put back into a sync.Pool at %s: after the Put another goroutine (or the next call) reuses the buffer and the bytes the caller still holds change under it", declName(fd), strings.TrimSpace(types.ExprString(call)), at))
					}
				}
				ast.Inspect(fd.Body, func(n ast.Node) bool {
					switch x := n.(type) {
					case *ast.ReturnStmt:
						for _, r := range x.Results {
							report(x, r)
						}
					case *ast.AssignStmt:
						for i, l := range x.Lhs {
							if o := identObj(info, l); o != nil && results[o] && i < len(x.Rhs) {
								report(x, x.Rhs[i])
							}
						}
					}
					return true
				})
			}
		}
	}
	c.OK(rule, "pooled buffers in the API closure", "", fmt.Sprintf("%d sync.Pool Put sites examined; no function returns a view of a pooled buffer", nPools))
}
