package main

import (
	"fmt"
	"go/ast"
	"go/token"
	"go/types"
	"sort"
	"strings"

	"golang.org/x/tools/go/callgraph"
	"golang.org/x/tools/go/ssa"
)

func init() {
	register(&Property{ID: "C27", Run: runC27, Mutants: []Mutant{
		{Name: "generic-method lookup no longer compares the receiver type", File: "internal/types/resolver.go", Old: "\t\t\tif fn.RecvTypeName() != recvTypeName {\n\t\t\t\tcontinue\n\t\t\t}\n", New: "\t\t\tif fn.RecvTypeName() == \"\" || recvTypeName == \"\" {\n\t\t\t\tcontinue\n\t\t\t}\n", Expect: "first-match-is-unique"},
		{Name: "package globals sorted case-insensitively", File: "internal/backends/compiler_wat/compile.go", Old: "\tsort.Strings(memnames)\n", New: "\tsort.Slice(memnames, func(i, j int) bool { return strings.ToLower(memnames[i]) < strings.ToLower(memnames[j]) })\n", Nth: 2, Expect: "sort-key-unique"},
		{Name: "methods are entered into the object map without an order number", File: "internal/types/resolver.go", Old: "\t\t\t\tcheck.objMap[obj] = info\n\t\t\t\tobj.setOrder(uint32(len(check.objMap)))", New: "\t\t\t\tcheck.objMap[obj] = info\n\t\t\t\tif d.Recv == nil {\n\t\t\t\t\tobj.setOrder(uint32(len(check.objMap)))\n\t\t\t\t}", Expect: "object-order-total"},
		{Name: "method sets sorted by a non-unique key", File: "internal/types/methodset.go", Old: "return list[i].obj.Id() < list[j].obj.Id()", New: "return list[i].obj.Name() < list[j].obj.Name()", Expect: "sort-key-unique :: internal/types.NewMethodSet"},
		{Name: "embed lookup matches by suffix (several entries can match)", File: "internal/types/embed.go", Old: "if k == commentInfo.Embed {", New: "if k == commentInfo.Embed || (len(k) > len(commentInfo.Embed) && k[len(k)-len(commentInfo.Embed):] == commentInfo.Embed) {", Expect: "map-order :: (*internal/types.Checker).processGlobalEmbed: range f.EmbedMap"},
		{Name: "package members compiled in map order (sort removed)", File: "internal/backends/compiler_wat/compile.go", Old: "sort.Strings(memnames)", New: "_ = memnames", Nth: 1, Expect: "map-order"},
		{Name: "packages compiled in map order (sort removed)", File: "internal/backends/compiler_wat/compile.go", Old: "sort.Strings(pkgnames)", New: "_ = pkgnames", Expect: "map-order"},
		{Name: "new order-dependent loop on the build path", File: "internal/backends/compiler_wat/compile.go", Old: "func (p *Compiler) Compile(prog *loader.Program) (output string, err error) {", New: "func (p *Compiler) Compile(prog *loader.Program) (output string, err error) {\n\tfor name := range prog.Pkgs {\n\t\toutput += name\n\t}", Expect: "map-order"},
		{Name: "packages compiled by concurrent goroutines", File: "internal/backends/compiler_wat/compile.go", Old: "func (p *Compiler) Compile(prog *loader.Program) (output string, err error) {", New: "func (p *Compiler) Compile(prog *loader.Program) (output string, err error) {\n\tgo func() { output += \"x\" }()", Expect: "nondeterminism-source"},
	}})
}

var c27Entries = []entrySpec{
	{"api", "BuildFile"}, {"api", "BuildVFS"},
	{"internal/loader", "LoadProgram"}, {"internal/loader", "LoadProgramFile"}, {"internal/loader", "LoadProgramVFS"},
	{"internal/backends/compiler_wat", "Compiler.Compile"},
	{"internal/wat/watutil", "Wat2Wasm"},
}

type mapRangeSite struct {
	fn    *ssa.Function
	rs    *ast.RangeStmt
	encl  ast.Node // enclosing function body (FuncDecl or FuncLit)
	key   string
	class string
	why   string
}

// enclosingFuncBodies maps each RangeStmt over a map to the innermost function body that contains it.
func mapRangesIn(info *types.Info, root ast.Node) []struct {
	rs   *ast.RangeStmt
	body *ast.BlockStmt
} {
	var out []struct {
		rs   *ast.RangeStmt
		body *ast.BlockStmt
	}
	var stack []*ast.BlockStmt
	var visit func(n ast.Node)
	visit = func(n ast.Node) {
		ast.Inspect(n, func(m ast.Node) bool {
			switch x := m.(type) {
			case *ast.FuncLit:
				if m != n {
					stack = append(stack, x.Body)
					visit(x.Body)
					stack = stack[:len(stack)-1]
					return false
				}
			case *ast.RangeStmt:
				if t := info.TypeOf(x.X); t != nil {
					if _, ok := t.Underlying().(*types.Map); ok {
						out = append(out, struct {
							rs   *ast.RangeStmt
							body *ast.BlockStmt
						}{x, stack[len(stack)-1]})
					}
				}
			}
			return true
		})
	}
	switch f := root.(type) {
	case *ast.FuncDecl:
		if f.Body != nil {
			stack = append(stack, f.Body)
			visit(f.Body)
		}
	case *ast.FuncLit:
		stack = append(stack, f.Body)
		visit(f.Body)
	}
	return out
}

// mapRangeClassifier holds the oracles the classification needs.
type mapRangeClassifier struct {
	info     *types.Info
	pureCall func(call *ast.CallExpr) bool
}

// isFailureOnly: calls that only record/report a compile error. They matter on the failing path only, and a failing
// compilation produces no output, so their order cannot reach the output the property speaks about.
func isFailureOnly(info *types.Info, call *ast.CallExpr) bool {
	f := CalleeOf(info, call)
	if f == nil {
		return false
	}
	switch f.Name() {
	case "errorf", "softErrorf", "error", "invalidAST", "invalidArg", "invalidOp", "err", "Errorf", "Fatalf", "Fatal", "Tracef", "Trace", "trace", "dump", "assert":
		return true
	}
	return false
}

func (mc *mapRangeClassifier) effectful(exprs ...ast.Expr) string {
	bad := ""
	for _, e := range exprs {
		if e == nil {
			continue
		}
		ast.Inspect(e, func(n ast.Node) bool {
			if _, ok := n.(*ast.FuncLit); ok {
				return false
			}
			call, ok := n.(*ast.CallExpr)
			if !ok || bad != "" {
				return bad == ""
			}
			if tv, ok := mc.info.Types[call.Fun]; ok && tv.IsType() {
				return true
			}
			if id, ok := call.Fun.(*ast.Ident); ok {
				if _, isB := mc.info.Uses[id].(*types.Builtin); isB {
					switch id.Name {
					case "len", "cap", "make", "new", "append", "min", "max", "real", "imag", "complex":
						return true
					}
					bad = "builtin " + id.Name
					return false
				}
			}
			if isFailureOnly(mc.info, call) || mc.pureCall(call) {
				return true
			}
			bad = short(types.ExprString(call.Fun))
			return false
		})
	}
	return bad
}

func mentionsAny(e ast.Expr, names map[string]bool) bool {
	found := false
	ast.Inspect(e, func(n ast.Node) bool {
		if id, ok := n.(*ast.Ident); ok && names[id.Name] {
			found = true
		}
		return !found
	})
	return found
}

// classifyMapRange decides whether iteration order can escape the loop.
func (mc *mapRangeClassifier) classify(rs *ast.RangeStmt, body *ast.BlockStmt) (class, why string) {
	info := mc.info
	loopVars := map[string]bool{}
	for _, e := range []ast.Expr{rs.Key, rs.Value} {
		if n := identName(e); n != "" && n != "_" {
			loopVars[n] = true
		}
	}
	// dead code: the loop sits after an unconditional return or under a constant-false condition
	if deadIn(info, body, rs) {
		return "dead", "the loop is unreachable (after an unconditional return / under a constant-false condition)"
	}
	// lookup of one key by iteration: `for k, v := range m { if k == X { …; break/return } }` with X loop-invariant.
	// At most one key equals X, so whichever order the map is walked in, the same entry is found.
	if kn := identName(rs.Key); kn != "" && kn != "_" && len(rs.Body.List) == 1 {
		if ifs, ok := rs.Body.List[0].(*ast.IfStmt); ok && ifs.Else == nil && ifs.Init == nil {
			if be, ok := ast.Unparen(ifs.Cond).(*ast.BinaryExpr); ok && be.Op == token.EQL {
				var other ast.Expr
				if identName(be.X) == kn {
					other = be.Y
				} else if identName(be.Y) == kn {
					other = be.X
				}
				exits := false
				if n := len(ifs.Body.List); n > 0 {
					switch last := ifs.Body.List[n-1].(type) {
					case *ast.ReturnStmt:
						exits = true
					case *ast.BranchStmt:
						exits = last.Tok == token.BREAK
					}
				}
				if other != nil && !mentionsAny(other, loopVars) && exits && mc.effectful(other) == "" {
					return "key-lookup", "the loop looks up the single key equal to " + types.ExprString(other) + " and exits: at most one entry matches"
				}
			}
		}
	}
	collected := map[string]bool{} // slices filled in map order (append or indexed fill)
	derived := map[string]bool{}   // locals derived from the loop variables
	for k := range loopVars {
		derived[k] = true
	}
	var check func(list []ast.Stmt) string
	check = func(list []ast.Stmt) string {
		for _, s := range list {
			switch x := s.(type) {
			case *ast.AssignStmt:
				if e := mc.effectful(x.Rhs...); e != "" {
					return "assignment evaluates " + e + ", which has effects"
				}
				if x.Tok == token.DEFINE {
					for _, l := range x.Lhs {
						if n := identName(l); n != "" {
							derived[n] = true
						}
					}
					continue
				}
				ok := true
				for i, l := range x.Lhs {
					switch lx := ast.Unparen(l).(type) {
					case *ast.Ident:
						if lx.Name == "_" || derived[lx.Name] && !loopVars[lx.Name] && isDeclaredInside(info, lx, rs) {
							continue
						}
						// x = append(x, ...): collected for a later sort
						if len(x.Rhs) == len(x.Lhs) {
							if call, isCall := x.Rhs[i].(*ast.CallExpr); isCall {
								if id, isId := call.Fun.(*ast.Ident); isId && id.Name == "append" && len(call.Args) >= 1 && types.ExprString(call.Args[0]) == lx.Name {
									collected[lx.Name] = true
									continue
								}
							}
							// flag = constant
							if tv, has := info.Types[x.Rhs[i]]; has && (tv.Value != nil || tv.IsNil()) && x.Tok == token.ASSIGN {
								continue
							}
						}
						// integer accumulation
						if x.Tok == token.ADD_ASSIGN || x.Tok == token.OR_ASSIGN || x.Tok == token.AND_ASSIGN || x.Tok == token.XOR_ASSIGN || x.Tok == token.MUL_ASSIGN {
							if b, isB := info.TypeOf(lx).Underlying().(*types.Basic); isB && b.Info()&types.IsInteger != 0 {
								continue
							}
						}
						// max/min idiom is handled at the if level
						return "assignment to " + lx.Name + " depends on which element is visited last"
					case *ast.IndexExpr:
						t := info.TypeOf(lx.X)
						if t == nil {
							ok = false
							break
						}
						switch t.Underlying().(type) {
						case *types.Map:
							// distinct keys per iteration (key mentions a loop variable) or constant value
							if mentionsAny(lx.Index, derived) {
								continue
							}
							if len(x.Rhs) == len(x.Lhs) {
								if tv, has := info.Types[x.Rhs[i]]; has && tv.Value != nil {
									continue
								}
							}
							return "map store " + short(types.ExprString(l)) + " with a key that does not depend on the loop variables: the last visited element wins"
						case *types.Slice, *types.Array, *types.Pointer:
							// indexed fill S[i] = x with a counter: treated like append (needs a later sort)
							if id, isId := ast.Unparen(lx.X).(*ast.Ident); isId {
								collected[id.Name] = true
								continue
							}
							return "indexed store into " + short(types.ExprString(lx.X))
						}
					case *ast.SelectorExpr, *ast.StarExpr:
						// field of a loop-derived object: per-element effect, order-insensitive
						if mentionsAny(lx, derived) {
							continue
						}
						if len(x.Rhs) == len(x.Lhs) {
							if tv, has := info.Types[x.Rhs[i]]; has && (tv.Value != nil || tv.IsNil()) && x.Tok == token.ASSIGN {
								continue
							}
						}
						return "assignment to " + short(types.ExprString(l)) + " depends on which element is visited last"
					default:
						ok = false
					}
				}
				if !ok {
					return "assignment not recognised"
				}
			case *ast.IncDecStmt:
				continue
			case *ast.ExprStmt:
				call, isCall := x.X.(*ast.CallExpr)
				if !isCall {
					return "expression statement"
				}
				if id, isId := call.Fun.(*ast.Ident); isId && id.Name == "delete" {
					continue
				}
				if e := mc.effectful(call); e != "" {
					return "calls " + e + " (its effects may depend on iteration order)"
				}
			case *ast.IfStmt:
				if x.Init != nil {
					if r := check([]ast.Stmt{x.Init}); r != "" {
						return r
					}
				}
				if e := mc.effectful(x.Cond); e != "" {
					return "condition calls " + e + ", which has effects"
				}
				// max/min accumulation: if v > m { m = v }
				if be, isBE := x.Cond.(*ast.BinaryExpr); isBE && x.Else == nil && len(x.Body.List) == 1 && (be.Op == token.GTR || be.Op == token.LSS || be.Op == token.GEQ || be.Op == token.LEQ) {
					if as, isAs := x.Body.List[0].(*ast.AssignStmt); isAs && len(as.Lhs) == 1 && len(as.Rhs) == 1 && as.Tok == token.ASSIGN {
						l, r := types.ExprString(as.Lhs[0]), types.ExprString(as.Rhs[0])
						cx, cy := types.ExprString(be.X), types.ExprString(be.Y)
						if (l == cx && r == cy) || (l == cy && r == cx) {
							continue
						}
					}
				}
				if r := check(x.Body.List); r != "" {
					return r
				}
				switch e := x.Else.(type) {
				case *ast.BlockStmt:
					if r := check(e.List); r != "" {
						return r
					}
				case *ast.IfStmt:
					if r := check([]ast.Stmt{e}); r != "" {
						return r
					}
				}
			case *ast.BranchStmt:
				if x.Tok == token.CONTINUE {
					continue
				}
				return "break: which element ends the loop depends on iteration order"
			case *ast.ReturnStmt:
				for _, r := range x.Results {
					tv, has := info.Types[r]
					if !has || (tv.Value == nil && !tv.IsNil()) {
						return "returns a value selected by iteration order (" + short(types.ExprString(r)) + ")"
					}
				}
			case *ast.DeclStmt:
				continue
			case *ast.BlockStmt:
				if r := check(x.List); r != "" {
					return r
				}
			case *ast.RangeStmt:
				if e := mc.effectful(x.X); e != "" {
					return "nested range over " + e
				}
				for _, v := range []ast.Expr{x.Key, x.Value} {
					if n := identName(v); n != "" {
						derived[n] = true
					}
				}
				if r := check(x.Body.List); r != "" {
					return r
				}
			case *ast.ForStmt:
				if x.Init != nil {
					if r := check([]ast.Stmt{x.Init}); r != "" {
						return r
					}
				}
				if e := mc.effectful(x.Cond); e != "" {
					return "loop condition calls " + e
				}
				if r := check(x.Body.List); r != "" {
					return r
				}
			case *ast.SwitchStmt:
				if x.Init != nil {
					if r := check([]ast.Stmt{x.Init}); r != "" {
						return r
					}
				}
				if e := mc.effectful(x.Tag); e != "" {
					return "switch tag calls " + e
				}
				for _, cl := range x.Body.List {
					cc := cl.(*ast.CaseClause)
					if e := mc.effectful(cc.List...); e != "" {
						return "case calls " + e
					}
					if r := check(cc.Body); r != "" {
						return r
					}
				}
			case *ast.TypeSwitchStmt:
				if as, isAs := x.Assign.(*ast.AssignStmt); isAs {
					for _, l := range as.Lhs {
						if n := identName(l); n != "" {
							derived[n] = true
						}
					}
				}
				for _, cl := range x.Body.List {
					if r := check(cl.(*ast.CaseClause).Body); r != "" {
						return r
					}
				}
			default:
				return fmt.Sprintf("statement %T", s)
			}
		}
		return ""
	}
	if bad := check(rs.Body.List); bad != "" {
		return "order-escaping", bad
	}
	var names []string
	for s := range collected {
		names = append(names, s)
		if !sortedAfter(info, body, rs, s) {
			return "order-escaping", "slice " + s + " is filled in map order and not passed to sort.* afterwards in this function"
		}
	}
	if len(collected) > 0 {
		sort.Strings(names)
		return "sorted", "elements are collected into " + strings.Join(names, ",") + " and sorted before use"
	}
	return "commutative", "body performs only order-insensitive effects"
}

// isDeclaredInside: the identifier's object is declared within the range statement (a loop-local variable).
func isDeclaredInside(info *types.Info, id *ast.Ident, rs *ast.RangeStmt) bool {
	o := info.ObjectOf(id)
	return o != nil && o.Pos() >= rs.Pos() && o.Pos() <= rs.End()
}

// deadIn: rs is preceded by an unconditional top-level return in body, or nested in an if whose condition is constant false.
func deadIn(info *types.Info, body *ast.BlockStmt, rs *ast.RangeStmt) bool {
	for _, s := range body.List {
		if s.Pos() >= rs.Pos() {
			break
		}
		if _, ok := s.(*ast.ReturnStmt); ok {
			return true
		}
	}
	dead := false
	ast.Inspect(body, func(n ast.Node) bool {
		ifs, ok := n.(*ast.IfStmt)
		if !ok {
			return true
		}
		if tv, ok := info.Types[ifs.Cond]; ok && tv.Value != nil && tv.Value.String() == "false" {
			if ifs.Body.Pos() <= rs.Pos() && rs.End() <= ifs.Body.End() {
				dead = true
			}
		}
		return true
	})
	return dead
}

func identName(e ast.Expr) string {
	if id, ok := e.(*ast.Ident); ok {
		return id.Name
	}
	return ""
}

// sortedAfter: after the range statement, in the same body, `sort.X(...)` is called with the slice.
func sortedAfter(info *types.Info, body *ast.BlockStmt, rs *ast.RangeStmt, slice string) bool {
	found := false
	ast.Inspect(body, func(n ast.Node) bool {
		call, ok := n.(*ast.CallExpr)
		if !ok || call.Pos() < rs.End() {
			return true
		}
		f := CalleeOf(info, call)
		if f == nil || f.Pkg() == nil || f.Pkg().Path() != "sort" {
			return true
		}
		for _, a := range call.Args {
			found = found || mentionsAny(a, map[string]bool{slice: true})
		}
		return true
	})
	return found
}

func runC27(c *Ctx) {
	c.Explain = "Decides two structural clauses of deterministic compilation over every repository function reachable (VTA call graph) from the build entry points (api.BuildFile/BuildVFS, loader.LoadProgram*, compiler_wat.(*Compiler).Compile, watutil.Wat2Wasm): " +
		"(1) every `range` over a map is classified as sorted (keys collected and passed to sort.* before use), commutative (body performs only order-insensitive effects: map stores, deletes, integer accumulation, constant flags) or constant search; an order-escaping loop is a violation unless it is in the frozen exception table with its reason; " +
		"(2) no other nondeterminism source is reachable: time.Now, math/rand, os.Getpid, goroutine creation, select. " +
		"NOT decided: determinism of Go itself and of sort stability with ties, %p formatting, cross-platform differences, the vendored wazero engine (not on the build path)."
	c.Trusted = []string{"go/packages, go/types, go/ssa, callgraph/vta (x/tools v0.29.0)", "frozen exception table of order-escaping map loops (c27_table.go)"}
	c.Exhaust = true
	p := c.Load(LoadOpt{}, "./api")
	const rMap, rSrc = "map-order", "nondeterminism-source"
	c27ObjectOrder(c, p, p.Pkg("internal/types"))
	p.BuildSSA()
	var roots []*ssa.Function
	for _, e := range c27Entries {
		pk := p.Pkg(e.pkg)
		var fn *ssa.Function
		if pk != nil {
			fn = p.SSAFunc(pk, e.fn)
		}
		if fn == nil {
			c.Undecided(rMap, "anchor:"+e.pkg+"."+e.fn, "", "entry point no longer resolves")
			continue
		}
		roots = append(roots, fn)
	}
	skip := func(e *callgraph.Edge) bool {
		callee := e.Callee.Func
		if callee.Pkg == nil {
			return false
		}
		path := callee.Pkg.Pkg.Path()
		return !strings.HasPrefix(path, modPath) || strings.Contains(path, "/3rdparty/wazero")
	}
	pred, order := p.Reachable(roots, skip)
	c.Count("functions_reachable_from_build_entry_points", len(order))
	c.Min(rMap, "reachable repository functions", len(order), 1500)

	pur := NewPurity(p)
	// map ranges per declared function (closures are analysed with their parent's syntax)
	seenDecl := map[ast.Node]bool{}
	var sites []mapRangeSite
	for _, f := range order {
		if f.Pkg == nil || !strings.HasPrefix(f.Pkg.Pkg.Path(), modPath) {
			continue
		}
		top := f
		for top.Parent() != nil {
			top = top.Parent()
		}
		syn := top.Syntax()
		if syn == nil || seenDecl[syn] {
			continue
		}
		seenDecl[syn] = true
		pk := p.All[top.Pkg.Pkg.Path()]
		if pk == nil {
			continue
		}
		for _, mr := range mapRangesIn(pk.TypesInfo, syn) {
			mc := &mapRangeClassifier{info: pk.TypesInfo, pureCall: func(call *ast.CallExpr) bool { return pureCallIn(pur, p, pk.TypesInfo, call) }}
			class, why := mc.classify(mr.rs, mr.body)
			sites = append(sites, mapRangeSite{fn: top, rs: mr.rs, class: class, why: why})
		}
	}
	// keys: function + ranged expression + ordinal
	ord := map[string]int{}
	counts := map[string]int{}
	sort.SliceStable(sites, func(i, j int) bool { return sites[i].rs.Pos() < sites[j].rs.Pos() })
	for i := range sites {
		s := &sites[i]
		base := short(s.fn.String()) + ": range " + short(types.ExprString(s.rs.X))
		ord[base]++
		s.key = fmt.Sprintf("%s #%d", base, ord[base])
		counts[s.class]++
		loc := p.Pos(s.rs.Pos())
		switch s.class {
		case "order-escaping":
			if why, ok := c27Exceptions[s.key]; ok {
				c.OK(rMap, s.key, loc, "exception: "+why)
				// exceptions that rest on "at most one element matches" have that re-read from the test
				if pk := p.All[s.fn.Pkg.Pkg.Path()]; pk != nil {
					c27CheckUniqueMatch(c, p, pk.TypesInfo, s.rs, s.key, loc)
				}
			} else {
				c.Fail(rMap, s.key, loc, "iteration order of this map can reach the output: "+s.why+"; call path: "+short(CallPath(pred, s.fn)))
			}
		default:
			c.OK(rMap, s.key, loc, s.class+": "+s.why)
			if s.class == "sorted" {
				c27CheckSortKey(c, p, s.fn, s.rs, s.key, loc)
			}
		}
	}
	for k, v := range counts {
		c.Count("map_ranges_"+k, v)
	}
	c.Min(rMap, "map range sites on the build path", len(sites), 40)

	// other sources
	bad := map[string]bool{"time.Now": true, "time.Since": true, "os.Getpid": true, "os.Hostname": true, "os.Getppid": true}
	nsrc := 0
	seen := map[string]bool{}
	for _, f := range order {
		if f.Pkg == nil || !strings.HasPrefix(f.Pkg.Pkg.Path(), modPath) {
			continue
		}
		for _, b := range f.Blocks {
			for _, ins := range b.Instrs {
				var what string
				switch x := ins.(type) {
				case *ssa.Go:
					what = "go statement"
				case *ssa.Select:
					if len(x.States) > 1 {
						what = "select with several ready cases"
					}
				case *ssa.Call:
					n := calleeName(&x.Call)
					if bad[n] || strings.HasPrefix(n, "math/rand.") || strings.HasPrefix(n, "crypto/rand.") {
						what = "call to " + n
					}
				}
				if what == "" {
					continue
				}
				fname := short(f.String())
				key := fname + ": " + what
				if seen[key] {
					continue
				}
				seen[key] = true
				nsrc++
				if why, ok := c27SourceExceptions[key]; ok {
					c.OK(rSrc, key, p.Pos(ins.Pos()), "exception: "+why)
					continue
				}
				c.Fail(rSrc, key, p.Pos(ins.Pos()), what+" is reachable on the build path: "+short(CallPath(pred, f)))
			}
		}
	}
	c.Count("nondeterminism_source_sites", nsrc)
	c.OK(rSrc, "scan of reachable functions", "", fmt.Sprintf("%d reachable repository functions scanned for time/rand/pid/go/select", len(order)))
}

// pureCallIn decides purity of the callee(s) of an AST call: static callees by their summary, interface methods by
// the summaries of every implementation in the loaded program (class hierarchy).
func pureCallIn(u *Purity, p *Prog, info *types.Info, call *ast.CallExpr) bool {
	f := CalleeOf(info, call)
	if f == nil {
		return false
	}
	if fn := p.SSA.FuncValue(f); fn != nil {
		return u.Pure(fn)
	}
	sig, _ := f.Type().(*types.Signature)
	if sig == nil || sig.Recv() == nil {
		return false
	}
	iface, _ := sig.Recv().Type().Underlying().(*types.Interface)
	if iface == nil {
		return false
	}
	n := 0
	for _, pk := range p.All {
		if !strings.HasPrefix(pk.PkgPath, modPath) || pk.Types == nil {
			continue
		}
		sc := pk.Types.Scope()
		for _, name := range sc.Names() {
			tn, ok := sc.Lookup(name).(*types.TypeName)
			if !ok || tn.IsAlias() {
				continue
			}
			for _, t := range []types.Type{tn.Type(), types.NewPointer(tn.Type())} {
				if _, isI := t.Underlying().(*types.Interface); isI {
					continue
				}
				if !types.Implements(t, iface) {
					continue
				}
				sel := p.SSA.MethodSets.MethodSet(t).Lookup(f.Pkg(), f.Name())
				if sel == nil {
					continue
				}
				if mv := p.SSA.MethodValue(sel); mv != nil {
					n++
					if !u.Pure(mv) {
						return false
					}
				}
			}
		}
	}
	return n > 0
}
