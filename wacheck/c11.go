package main

import (
	"fmt"
	"go/ast"
	"go/types"
	"path/filepath"
	"sort"
	"strings"

	"golang.org/x/tools/go/packages"
)

// C11 (memory management never frees live data) and C12 (discarded acyclic data is reclaimed).
//
// Liveness is a property of emitted programs; what is static is the reference-counting discipline of the code
// generator (which emission helper retains, which releases, in which order) and the shape of the WAT runtime
// (who may free, when, after what). Both are decided here from emission sequences (emitseq.go) and from the
// embedded .wat.ws sources (watsrc.go).

var rcMethods = []string{"EmitInit", "EmitPush", "EmitPushNoRetain", "EmitPop", "EmitPopNoRelease", "EmitRelease", "emitStoreToAddr", "emitStore", "EmitLoadFromAddr", "EmitLoadFromAddrNoRetain", "OnFree"}

func isRcMethod(n string) bool {
	for _, m := range rcMethods {
		if m == n {
			return true
		}
	}
	return false
}

func init() {
	vb := "internal/backends/compiler_wat/wir/value_block.go"
	vs := "internal/backends/compiler_wat/wir/value_struct.go"
	cf := "internal/backends/compiler_wat/compile_func.go"
	hp := "waroot/src/runtime/heap.wat.ws"
	register(&Property{ID: "C11", Run: runC11, Mutants: []Mutant{
		{Name: "a register created ahead of its definition owns a borrowed value again", File: "internal/backends/compiler_wat/compile_func.go", Old: "\t\t\t\tif g.module.RcDisable {\n\t\t\t\t\tif g.none_rc_registers == nil {\n\t\t\t\t\t\tg.none_rc_registers = make(map[wir.Value]bool)\n\t\t\t\t\t}\n\t\t\t\t\tg.none_rc_registers[v.value] = true\n\t\t\t\t\ts = append(s, v.value.EmitPopNoRelease()...)\n\t\t\t\t} else {\n\t\t\t\t\ts = append(s, v.value.EmitPop()...)\n\t\t\t\t}", New: "\t\t\t\ts = append(s, v.value.EmitPop()...)", Expect: "borrowed-value-register"},
		{Name: "the copy helper releases an element it only borrowed", File: "internal/backends/compiler_wat/wir/value_slice.go", Old: "\t\tifs.False = append(ifs.False, t.Base.EmitLoadFromAddr(sp, 0)...)\n\t\tifs.False = append(ifs.False, item.EmitPop()...)", New: "\t\tifs.False = append(ifs.False, t.Base.EmitLoadFromAddrNoRetain(sp, 0)...)\n\t\tifs.False = append(ifs.False, item.EmitPopNoRelease()...)", Expect: "helper-local-ownership"},
		{Name: "array IndexOf helper returns a borrowed element", File: "internal/backends/compiler_wat/wir/value_array.go", Old: "\t\tblock.Insts = append(block.Insts, x.ExtractByName(\"m\"+strconv.Itoa(i)).EmitPush()...)\n\t\tblock.Insts = append(block.Insts, ret.EmitPop()...)", New: "\t\tblock.Insts = append(block.Insts, x.ExtractByName(\"m\"+strconv.Itoa(i)).EmitPushNoRetain()...)\n\t\tblock.Insts = append(block.Insts, ret.EmitPopNoRelease()...)", Expect: "helper-local-ownership"},
		{Name: "deferred interface call: scratch register released but not re-initialised", File: cf, Old: "\t\tinsts = append(insts, free_data.EmitRelease()...)\n\t\tinsts = append(insts, free_data.EmitInit()...)\n\n\t\tinsts = append(insts, closure.EmitPushNoRetain()...)", New: "\t\tinsts = append(insts, free_data.EmitRelease()...)\n\n\t\tinsts = append(insts, closure.EmitPushNoRetain()...)", Expect: "register-release-reinit :: functionGenerator.genMakeDefer"},
		{Name: "comma-ok interface assertion forgets to retain", File: "waroot/src/runtime/interface.wat.ws", Old: "\t    local.get $d.b\n\t\tcall $runtime.Block.Retain\n\t    local.get $d.d\n\t    local.get $t\n\t    local.get $eq\n\t    i32.const 1", New: "\t    local.get $d.b\n\t    local.get $d.d\n\t    local.get $t\n\t    local.get $eq\n\t    i32.const 1", Expect: "commaok-sibling"},
		{Name: "block push forgets to retain", File: vb, Old: "\tinsts = append(insts, wat.NewInstCall(\"runtime.Block.Retain\"))\n\treturn\n}\n\nfunc (v *aBlock) EmitPushNoRetain", New: "\treturn\n}\n\nfunc (v *aBlock) EmitPushNoRetain", Expect: "leaf-pairing :: aBlock.EmitPush"},
		{Name: "no-retain push retains", File: vb, Old: "func (v *aBlock) EmitPushNoRetain() (insts []wat.Inst) {\n\tinsts = append(insts, v.push(v.name))\n", New: "func (v *aBlock) EmitPushNoRetain() (insts []wat.Inst) {\n\tinsts = append(insts, v.push(v.name))\n\tinsts = append(insts, wat.NewInstCall(\"runtime.Block.Retain\"))\n", Expect: "leaf-pairing :: aBlock.EmitPushNoRetain"},
		{Name: "pop overwrites before releasing", File: vb, Old: "\tinsts = append(insts, v.EmitRelease()...)\n\tinsts = append(insts, v.pop(v.name))\n", New: "\tinsts = append(insts, v.pop(v.name))\n\tinsts = append(insts, v.EmitRelease()...)\n", Expect: "leaf-pairing :: aBlock.EmitPop"},
		{Name: "store releases the old value before retaining the new one", File: vb, Old: "\tinsts = append(insts, addr.EmitPush()...)                       // a\n\tinsts = append(insts, v.EmitPush()...)                          // a v\n\tinsts = append(insts, addr.EmitPush()...)                       // a v a\n\tinsts = append(insts, wat.NewInstLoad(wat.U32{}, offset, 1))    // a v o\n\tinsts = append(insts, wat.NewInstCall(\"runtime.Block.Release\")) // a v\n", New: "\tinsts = append(insts, addr.EmitPush()...)\n\tinsts = append(insts, addr.EmitPush()...)\n\tinsts = append(insts, wat.NewInstLoad(wat.U32{}, offset, 1))\n\tinsts = append(insts, wat.NewInstCall(\"runtime.Block.Release\"))\n\tinsts = append(insts, v.EmitPush()...)\n", Expect: "leaf-pairing :: aBlock.emitStoreToAddr"},
		{Name: "load from memory forgets to retain", File: vb, Old: "\tinsts = append(insts, wat.NewInstLoad(wat.U32{}, offset, 4))\n\tinsts = append(insts, wat.NewInstCall(\"runtime.Block.Retain\"))\n", New: "\tinsts = append(insts, wat.NewInstLoad(wat.U32{}, offset, 4))\n", Expect: "leaf-pairing :: Block.EmitLoadFromAddr"},
		{Name: "struct push delegates to the no-retain variant", File: vs, Old: "func (v *aStruct) EmitPush() (insts []wat.Inst) {\n\tfor _, m := range v.typ.fields {\n\t\tt := v.genSubValue(m)\n\t\tinsts = append(insts, t.EmitPush()...)", New: "func (v *aStruct) EmitPush() (insts []wat.Inst) {\n\tfor _, m := range v.typ.fields {\n\t\tt := v.genSubValue(m)\n\t\tinsts = append(insts, t.EmitPushNoRetain()...)", Expect: "aggregate-delegation :: aStruct.EmitPush"},
		{Name: "struct pop walks the fields forward", File: vs, Old: "func (v *aStruct) EmitPop() []wat.Inst {\n\tvar insts []wat.Inst\n\tfor i := range v.typ.fields {\n\t\tm := v.typ.fields[len(v.typ.fields)-i-1]", New: "func (v *aStruct) EmitPop() []wat.Inst {\n\tvar insts []wat.Inst\n\tfor i := range v.typ.fields {\n\t\tm := v.typ.fields[i]", Expect: "aggregate-delegation :: aStruct.EmitPop"},
		{Name: "tuple release forwards to pop-no-release", File: "internal/backends/compiler_wat/wir/value_tuple.go", Old: "func (v *aTuple) EmitRelease() []wat.Inst { return v.aStruct.EmitRelease() }", New: "func (v *aTuple) EmitRelease() []wat.Inst { return v.aStruct.EmitPopNoRelease() }", Expect: "forwarder-purity :: aTuple.EmitRelease"},
		{Name: "runtime frees while references remain", File: hp, Old: "\t\tlocal.get $ptr\n\t\tcall $runtime.HeapFree\n\tend  ;;ref_count == 0", New: "\tend  ;;ref_count == 0\n\tlocal.get $ptr\n\tcall $runtime.HeapFree", Expect: "free-discipline :: $runtime.Block.Release"},
		{Name: "a second caller of the raw free", File: hp, Old: "(func $runtime.Block.SetFinalizer (param $ptr i32) (param $release_func i32)\n\tlocal.get $ptr\n\tif", New: "(func $runtime.Block.SetFinalizer (param $ptr i32) (param $release_func i32)\n\tlocal.get $ptr\n\tcall $runtime.free\n\tlocal.get $ptr\n\tif", Expect: "free-discipline :: callers of $runtime.free"},
		{Name: "HeapAlloc does not look at the allocator's answer", File: hp, Old: "\tlocal.get $ptr\n\ti32.eqz\n\tif\n\t\tunreachable\n\tend\n", New: "", Expect: "alloc-failure-not-used"},
		{Name: "Block.HeapAlloc computes the size in 32 bits only", File: hp, Old: "  i64.const 4294967279 ;; 2^32-17\n  i64.gt_u\n  if\n    unreachable\n  end\n", New: "  drop\n", Expect: "alloc-size-no-wrap"},
		{Name: "allocation no longer zeroed", File: hp, Old: "\t\ti64.const 0\n\t\ti64.store\n", New: "\t\tdrop\n", Expect: "alloc-zeroed"},
	}})
	register(&Property{ID: "C12", Run: runC12, Mutants: []Mutant{
		{Name: "results of a deferred interface call are popped and never released", File: "internal/backends/compiler_wat/compile_func.go", Old: "\t\t\t\twarp_fn.Insts = append(warp_fn.Insts, ret.EmitPop()...)\n\t\t\t\twarp_fn.Insts = append(warp_fn.Insts, ret.EmitRelease()...)", New: "\t\t\t\twarp_fn.Insts = append(warp_fn.Insts, ret.EmitPopNoRelease()...)", Nth: 1, Expect: "helper-local-ownership"},
		{Name: "[]rune to string conversion retains the slice it only lends", File: "internal/backends/compiler_wat/wir/instruction_emitter.go", Old: "\t\t\tinsts = append(insts, x.EmitPushNoRetain()...)\n\t\t\tinsts = append(insts, wat.NewInstCall(\"runtime.stringFromRuneSlice\"))", New: "\t\t\tinsts = append(insts, x.EmitPush()...)\n\t\t\tinsts = append(insts, wat.NewInstCall(\"runtime.stringFromRuneSlice\"))", Expect: "runtime-call-args-borrowed"},
		{Name: "RcEnable only on the indirectly embedded path", File: "internal/ssa/emit.go", Old: "\t\t\tv = f.emit(instr)\n\t\t\temitRcEnable(f, instr.Pos())\n\t\t\t// Load the field's value iff indirectly embedded.\n\t\t\tif isPointer(fld.Type()) {\n", New: "\t\t\tv = f.emit(instr)\n\t\t\t// Load the field's value iff indirectly embedded.\n\t\t\tif isPointer(fld.Type()) {\n\t\t\t\temitRcEnable(f, instr.Pos())\n", Expect: "rc-bracket-paired"},
		{Name: "array IndexOf helper retains its result a second time", File: "internal/backends/compiler_wat/wir/value_array.go", Old: "f.Insts = append(f.Insts, ret.EmitPushNoRetain()...)", New: "f.Insts = append(f.Insts, ret.EmitPush()...)", Expect: "helper-local-ownership"},
		{Name: "storing nil skips the release of the old value", File: vb, Old: "\tinsts = append(insts, addr.EmitPush()...)                       // a\n\tinsts = append(insts, v.EmitPush()...)                          // a v", New: "\tif v.Kind() == ValueKindConst && v.Name() == \"0\" {\n\t\tinsts = append(insts, addr.EmitPush()...)\n\t\tinsts = append(insts, wat.NewInstConst(wat.U32{}, \"0\"))\n\t\tinsts = append(insts, wat.NewInstStore(toWatType(v.Type()), offset, 1))\n\t\treturn\n\t}\n\tinsts = append(insts, addr.EmitPush()...)                       // a\n\tinsts = append(insts, v.EmitPush()...)                          // a v", Expect: "overwrite-release :: aBlock.emitStoreToAddr: every store releases the old value"},
		{Name: "function epilogue stops releasing registers", File: cf, Old: "\t\t\twir_fn.Insts = append(wir_fn.Insts, i.EmitRelease()...)\n", New: "\t\t\t_ = i\n", Expect: "epilogue-release"},
		{Name: "epilogue releases before pushing the results", File: cf, Old: "\tfor _, r := range g.var_rets {\n\t\twir_fn.Insts = append(wir_fn.Insts, r.EmitPush()...)\n\t}\n\n\tfor _, i := range g.registers {\n\t\tif g.none_rc_registers == nil || !g.none_rc_registers[i] {\n\t\t\twir_fn.Insts = append(wir_fn.Insts, i.EmitRelease()...)\n\t\t}\n\t}\n", New: "\tfor _, i := range g.registers {\n\t\tif g.none_rc_registers == nil || !g.none_rc_registers[i] {\n\t\t\twir_fn.Insts = append(wir_fn.Insts, i.EmitRelease()...)\n\t\t}\n\t}\n\n\tfor _, r := range g.var_rets {\n\t\twir_fn.Insts = append(wir_fn.Insts, r.EmitPush()...)\n\t}\n", Expect: "epilogue-release"},
		{Name: "new value stored into a register without releasing the old one", File: cf, Old: "\t\t\t\t\ts = append(s, v.value.EmitPop()...)\n\t\t\t\t}\n\t\t\t} else {", New: "\t\t\t\t\ts = append(s, v.value.EmitPopNoRelease()...)\n\t\t\t\t}\n\t\t\t} else {", Expect: "overwrite-release"},
		{Name: "struct OnFree skips nested struct members", File: vs, Old: "\t\tif istruct, ok := member_type.(iStruct); ok {\n\t\t\trfs := istruct.genRawFree()\n\t\t\tfor _, rf := range rfs {\n\t\t\t\tret = append(ret, fn_offset_pair{fn: rf.fn, offset: rf.offset + member._start})\n\t\t\t}\n\t\t} else {", New: "\t\tif _, ok := member_type.(iStruct); ok {\n\t\t} else {", Expect: "onfree-completeness :: Struct.genRawFree"},
		{Name: "block OnFree forgets to release", File: vb, Old: "\tf.Insts = append(f.Insts, wat.NewInstLoad(wat.U32{}, 0, 1))\n\tf.Insts = append(f.Insts, wat.NewInstCall(\"runtime.Block.Release\"))\n", New: "\tf.Insts = append(f.Insts, wat.NewInstLoad(wat.U32{}, 0, 1))\n\tf.Insts = append(f.Insts, wat.NewInstDrop())\n", Expect: "onfree-completeness :: Block.OnFree"},
		{Name: "release skips the per-item callback", File: hp, Old: "\t\t\t\t\tlocal.get $data_ptr\n\t\t\t\t\tlocal.get $free_func\n\t\t\t\t\tcall_indirect (type $$OnFree)\n", New: "", Expect: "release-recursion"},
		{Name: "release advances by a constant instead of the item size", File: hp, Old: "\t\t\t\t\t\tlocal.get $data_ptr\n\t\t\t\t\t\tlocal.get $item_size\n\t\t\t\t\t\ti32.add", New: "\t\t\t\t\t\tlocal.get $data_ptr\n\t\t\t\t\t\ti32.const 4\n\t\t\t\t\t\ti32.add", Expect: "release-recursion"},
	}})
}

func rcLoad(c *Ctx) (*Prog, *packages.Package, *packages.Package) {
	p := c.Load(LoadOpt{Light: true}, "./internal/backends/compiler_wat", "./internal/backends/compiler_wat/wir", "./internal/ssa")
	return p, p.MustPkg("leaf-pairing", "internal/backends/compiler_wat/wir"), p.MustPkg("epilogue-release", "internal/backends/compiler_wat")
}

func seqOf(p *Prog, pk *packages.Package, name string) (emSeq, *ast.FuncDecl) {
	fd := FuncDecl(pk, name)
	registerPredicates(pk)
	return emitSequence(pk.TypesInfo, fd), fd
}

// constZeroGuard: the guard that skips reference counting for the constant 0 (nil block).
func constZeroGuard(g string) bool {
	return strings.Contains(g, "ValueKindConst") && strings.Contains(g, "\"0\"")
}

func runC11(c *Ctx) {
	c.Explain = "Decides the reference-counting emission discipline of the code generator and the shape of the WAT runtime it relies on (necessary conditions of 'live data is never freed'): " +
		"(1) leaf-pairing: for the reference-counted leaf value (aBlock / Block) the retaining push ends in a call to runtime.Block.Retain on every path except the constant-0 path, the no-retain variants never retain or release, pop releases the old value before overwriting, release pushes and calls runtime.Block.Release, stores push (retain) the new value before they load and release the old one and store last, loads from memory retain; " +
		"(2) aggregate-delegation: each of aStruct's emission methods visits every field in one loop and delegates to the same-named method of the sub-value, pushes/stores/loads in field order and pops/releases in reverse order; (3) forwarder-purity: every one-line forwarder of a reference-counting method forwards to the method of the same name; " +
		"(4) free-discipline: in the embedded runtime, $runtime.free is called only by $runtime.HeapFree, $runtime.HeapFree only by $runtime.Block.Release, and there only in the arm taken when the decremented count is zero; the code generator never emits a call to either; (5) alloc-zeroed: every path of $runtime.HeapAlloc from the malloc call to the result passes through the zero-fill loop. " +
		"NOT decided: that retains and releases balance along the paths of emitted programs, the allocator itself (C10), cycles."
	c.Trusted = []string{"go/packages, go/types (x/tools v0.29.0)", "own WAT reader (watsrc.go)"}
	p, wp, bkp := rcLoad(c)
	if wp == nil {
		return
	}
	c11Extra(c, p, bkp)
	if bkp != nil {
		c11BorrowedRegister(c, p, bkp)
	}
	c12HelperLocals(c, p, wp, "borrow", bkp)
	info := wp.TypesInfo
	const r1, r2, r3 = "leaf-pairing", "aggregate-delegation", "forwarder-purity"

	get := func(name string) (emSeq, string, bool) {
		s, fd := seqOf(p, wp, name)
		if fd == nil {
			c.Undecided(r1, name, "", "function not found")
			return s, "", false
		}
		return s, p.Pos(fd.Pos()), true
	}
	hasCall := func(s emSeq, sym string) bool { return s.index("call", sym) >= 0 }
	const retain, release = "runtime.Block.Retain", "runtime.Block.Release"

	// ---- (1) leaf
	// EmitPush and EmitRelease are read per world (c11_leaf.go): constant or not, named "0" or not
	leafWorld := func(name string, wantLive string, nilOK map[string]bool, okText, failText string) {
		fd := FuncDecl(wp, name)
		if fd == nil {
			c.Undecided(r1, name, "", "function not found")
			return
		}
		loc := p.Pos(fd.Pos())
		ws, und := leafWorlds(wp, fd)
		if und != "" {
			c.Undecided(r1, name, loc, "not decided for "+und)
			return
		}
		var bad []string
		for _, w := range []string{"const 1", "variable named 0", "variable"} {
			if got := leafTokens(ws[w]); got != wantLive {
				bad = append(bad, "for a "+w+" it emits ["+got+"], want ["+wantLive+"]")
			}
		}
		if got := leafTokens(ws["const 0"]); !nilOK[got] {
			bad = append(bad, "for the constant 0 it emits ["+got+"]")
		}
		c.Check(len(bad) == 0, r1, name, loc, okText, failText+" ("+strings.Join(bad, "; ")+")")
	}
	leafWorld("aBlock.EmitPush", "push Retain", map[string]bool{"push": true, "push Retain": true}, "push; Retain (skipped only for the constant 0)",
		"the retaining push of a block must push the value and then call "+retain+", for every value except the constant 0: otherwise a copy of the reference exists that the count does not know about, and the block is freed while the copy is live")
	if s, loc, ok := get("aBlock.EmitPushNoRetain"); ok {
		c.Check(s.index("push", "") >= 0 && !hasCall(s, retain) && !hasCall(s, release) && len(s.filter("deleg")) == 0, r1, "aBlock.EmitPushNoRetain", loc, "push only", "the no-retain push changes the reference count (sequence: "+s.String()+")")
	}
	leafWorld("aBlock.EmitRelease", "push Release", map[string]bool{"": true, "push Release": true}, "push; Release (skipped only for the constant 0)",
		"release must push the value and call "+release+", for every value except the constant 0: a reference that is dropped without a release keeps its block allocated for ever, and a release of anything else than the value frees a block that is live")
	if s, loc, ok := get("aBlock.EmitPop"); ok {
		id, ip := -1, s.index("pop", "")
		for i, e := range s.Events {
			if e.Kind == "deleg" && e.Name == "EmitRelease" && e.Recv == "v" {
				id = i
			}
		}
		c.Check(id >= 0 && ip > id && !hasCall(s, retain), r1, "aBlock.EmitPop", loc, "release the old value, then overwrite", "pop must release the value the variable holds before it is overwritten (sequence: "+s.String()+"): overwriting first releases the new value instead, which is then freed while live")
	}
	if s, loc, ok := get("aBlock.EmitPopNoRelease"); ok {
		c.Check(s.index("pop", "") >= 0 && !hasCall(s, release) && !hasCall(s, retain) && len(s.filter("deleg")) == 0, r1, "aBlock.EmitPopNoRelease", loc, "pop only", "the no-release pop changes the reference count (sequence: "+s.String()+")")
	}
	for _, name := range []string{"aBlock.emitStoreToAddr", "aBlock.emitStore"} {
		if s, loc, ok := get(name); ok {
			ipush := -1
			for i, e := range s.Events {
				if e.Kind == "deleg" && e.Name == "EmitPush" && e.Recv == "v" {
					ipush = i
				}
			}
			irel := s.index("call", release)
			iload := -1
			for i, e := range s.Events {
				if e.Kind == "ctor" && e.Name == "Load" && i < irel {
					iload = i
				}
			}
			istore := s.lastIndex("ctor", "Store")
			good := ipush >= 0 && irel > ipush && iload > ipush && istore == len(s.Events)-1 && istore > irel && !hasCall(s, retain)
			c.Check(good, r1, name, loc, "retain new; load old; release old; store", "a store of a block reference must push (retain) the new value before it loads and releases the old one, and store last (sequence: "+s.String()+"): releasing first frees the block when the old and the new value are the same block")
		}
	}
	if s, loc, ok := get("Block.EmitLoadFromAddr"); ok {
		il, ir := s.index("ctor", "Load"), s.index("call", retain)
		c.Check(il >= 0 && ir > il, r1, "Block.EmitLoadFromAddr", loc, "load; Retain", "loading a block reference from memory must retain it (sequence: "+s.String()+")")
	}
	if s, loc, ok := get("Block.EmitLoadFromAddrNoRetain"); ok {
		c.Check(s.index("ctor", "Load") >= 0 && !hasCall(s, retain) && !hasCall(s, release), r1, "Block.EmitLoadFromAddrNoRetain", loc, "load only", "the no-retain load changes the reference count (sequence: "+s.String()+")")
	}

	// ---- (2) aggregates
	wantDir := map[string]string{"EmitInit": "forward", "EmitPush": "forward", "EmitPushNoRetain": "forward", "emitStoreToAddr": "forward", "emitStore": "forward",
		"EmitPop": "reverse", "EmitPopNoRelease": "reverse", "EmitRelease": "reverse"}
	n2 := 0
	for _, m := range []string{"EmitInit", "EmitPush", "EmitPushNoRetain", "EmitPop", "EmitPopNoRelease", "EmitRelease", "emitStoreToAddr", "emitStore"} {
		name := "aStruct." + m
		s, fd := seqOf(p, wp, name)
		if fd == nil {
			c.Undecided(r2, name, "", "function not found")
			continue
		}
		n2++
		var probs []string
		dels := s.filter("deleg")
		if len(dels) != 1 {
			probs = append(probs, fmt.Sprintf("expected one delegation inside one loop over the fields, found %d", len(dels)))
		} else {
			d := dels[0]
			if d.Name != m {
				probs = append(probs, fmt.Sprintf("delegates to %s of each field, not to %s", d.Name, m))
			}
			if d.Loop == nil || !strings.HasSuffix(d.Loop.Over, "typ.fields") {
				probs = append(probs, "the delegation is not inside a loop over all fields")
			} else if d.Loop.Dir != wantDir[m] {
				probs = append(probs, fmt.Sprintf("visits the fields in %s order; %s must go %s (values are pushed in field order, so they are popped and released in reverse)", d.Loop.Dir, m, wantDir[m]))
			}
			if len(d.Guards) > 0 {
				probs = append(probs, "the delegation is conditional: "+strings.Join(d.Guards, " && "))
			}
			if !strings.Contains(d.Recv, "genSubValue") {
				probs = append(probs, "the receiver is not the field's sub-value")
			}
		}
		c.Check(len(probs) == 0, r2, name, p.Pos(fd.Pos()), "every field, same method, "+wantDir[m], name+" "+strings.Join(probs, "; "))
	}
	for _, m := range []string{"EmitLoadFromAddr", "EmitLoadFromAddrNoRetain"} {
		name := "Struct." + m
		s, fd := seqOf(p, wp, name)
		if fd == nil {
			c.Undecided(r2, name, "", "function not found")
			continue
		}
		n2++
		dels := s.filter("deleg")
		good := len(dels) == 1 && dels[0].Name == m && dels[0].Loop != nil && dels[0].Loop.Dir == "forward" && strings.HasSuffix(dels[0].Loop.Over, "fields")
		c.Check(good, r2, name, p.Pos(fd.Pos()), "every field, same method, forward", name+" does not load every field through the same-named method of the field's type (sequence: "+s.String()+")")
	}
	c.Min(r2, "aggregate methods", n2, 10)

	// ---- (3) forwarders
	n3 := 0
	for _, f := range wp.Syntax {
		for _, d := range f.Decls {
			fd, ok := d.(*ast.FuncDecl)
			if !ok || fd.Body == nil || fd.Recv == nil || !isRcMethod(fd.Name.Name) || len(fd.Body.List) != 1 {
				continue
			}
			ret, ok := fd.Body.List[0].(*ast.ReturnStmt)
			if !ok || len(ret.Results) != 1 {
				continue
			}
			call, ok := ret.Results[0].(*ast.CallExpr)
			if !ok {
				continue
			}
			se, ok := call.Fun.(*ast.SelectorExpr)
			if !ok {
				continue
			}
			if _, isMethod := info.ObjectOf(se.Sel).(*types.Func); !isMethod || !isRcMethod(se.Sel.Name) {
				continue
			}
			n3++
			name := declName(fd)
			c.Check(se.Sel.Name == fd.Name.Name, r3, name, p.Pos(fd.Pos()), "forwards to "+se.Sel.Name, fmt.Sprintf("%s forwards to %s of %s: the retain/release behaviour of the forwarded method differs from what callers of %s rely on", name, se.Sel.Name, types.ExprString(se.X), fd.Name.Name))
		}
	}
	c.Min(r3, "one-line forwarders of reference-counting methods", n3, 20)

	// ---- (4), (5) runtime shape
	c11Runtime(c, p)
}

func readRuntimeWs(c *Ctx, rule string) *watModule {
	m := &watModule{}
	dir := filepath.Join(c.Repo, "waroot/src/runtime")
	matches, _ := filepath.Glob(filepath.Join(dir, "*.wat.ws"))
	sort.Strings(matches)
	for _, f := range matches {
		rel, _ := filepath.Rel(c.Repo, f)
		src, err := c.ReadFile(rel)
		if err != nil {
			c.Undecided(rule, "read "+rel, "", err.Error())
			continue
		}
		if err := parseWatFragments(rel, string(src), m); err != nil {
			c.Undecided(rule, "parse "+rel, "", err.Error())
		}
	}
	return m
}

// insPath lists the ops of the enclosing control constructs of instruction i (innermost last), e.g. ["if", "else"].
func insPath(body []watIns, i int) []string {
	var stack []string
	for k := 0; k < i; k++ {
		switch body[k].Op {
		case "block", "loop", "if":
			stack = append(stack, body[k].Op)
		case "else":
			if len(stack) > 0 && stack[len(stack)-1] == "if" {
				stack[len(stack)-1] = "else"
			}
		case "end":
			if len(stack) > 0 {
				stack = stack[:len(stack)-1]
			}
		}
	}
	return stack
}

func c11Runtime(c *Ctx, p *Prog) {
	const r4, r5 = "free-discipline", "alloc-zeroed"
	m := readRuntimeWs(c, r4)
	callers := func(sym string) []string {
		var out []string
		for _, fn := range m.Funcs {
			for _, r := range fn.Calls() {
				if r.Name == sym {
					out = append(out, fn.Name)
				}
			}
		}
		sort.Strings(out)
		return out
	}
	fc := callers("$runtime.free")
	c.Check(len(fc) == 1 && fc[0] == "$runtime.HeapFree", r4, "callers of $runtime.free", "waroot/src/runtime/heap.wat.ws", "only $runtime.HeapFree", fmt.Sprintf("$runtime.free is called from %v; only $runtime.HeapFree may hand memory back to the allocator", fc))
	hc := callers("$runtime.HeapFree")
	c.Check(len(hc) == 1 && hc[0] == "$runtime.Block.Release", r4, "callers of $runtime.HeapFree", "waroot/src/runtime/heap.wat.ws", "only $runtime.Block.Release", fmt.Sprintf("$runtime.HeapFree is called from %v; only $runtime.Block.Release (when the count reaches zero) may free a block", hc))
	// .wa callers of the free functions
	std := LoadWaStd(c, r4)
	var waCallers []string
	for pkg, files := range std.Pkgs {
		for _, f := range files {
			if isWaTestFile(f.Name) {
				continue
			}
			src := string(f.Src)
			for _, sym := range []string{"HeapFree(", "free("} {
				_ = sym
			}
			if pkg == "runtime" && (strings.Contains(src, "HeapFree(") || strings.Contains(src, " free(")) {
				// declarations are fine; calls are `free(x)` inside a function body
				for _, fd := range std.Funcs(f) {
					if fd.HasBody && fd.Decl.Body != nil {
						body := string(f.Src[std.Fset.Position(fd.Decl.Body.Pos()).Offset:std.Fset.Position(fd.Decl.Body.End()).Offset])
						if strings.Contains(body, "HeapFree(") || strings.Contains(body, "free(") {
							waCallers = append(waCallers, pkg+"."+fd.Name)
						}
					}
				}
			}
		}
	}
	sort.Strings(waCallers)
	c.Check(len(waCallers) == 0, r4, ".wa callers of free / HeapFree in package runtime", "waroot/src/runtime", "none", fmt.Sprintf("runtime .wa functions %v call the raw free functions, bypassing the reference count", waCallers))

	// Release: HeapFree sits in the else arm of `if ref_count` (count reached zero)
	if rel, ok := m.ByName["$runtime.Block.Release"]; !ok {
		c.Undecided(r4, "$runtime.Block.Release", "", "function not found in the runtime .wat.ws files")
	} else {
		good, detail := c11ReleaseDiscipline(m, rel)
		c.Check(good, r4, "$runtime.Block.Release: free only when the count reaches zero", fmt.Sprintf("%s:%d", rel.File, rel.Line), "HeapFree in the else arm of `if (count-1)`", "$runtime.Block.Release must call $runtime.HeapFree only in the arm taken when the decremented reference count is zero ("+detail+"): otherwise a block with remaining references is handed back to the allocator")
	}
	// the generator never emits the raw frees
	bad := []string{}
	for rel, pk := range p.All {
		if !strings.Contains(rel, "internal/backends/compiler_wat") {
			continue
		}
		for _, f := range pk.Syntax {
			ast.Inspect(f, func(n ast.Node) bool {
				call, ok := n.(*ast.CallExpr)
				if !ok || len(call.Args) != 1 {
					return true
				}
				if fn := CalleeOf(pk.TypesInfo, call); fn != nil && strings.HasSuffix(FuncFullName(fn), "wir/wat.NewInstCall") {
					if tv, ok := pk.TypesInfo.Types[call.Args[0]]; ok && tv.Value != nil {
						s := strings.Trim(tv.Value.ExactString(), "\"")
						if s == "runtime.free" || s == "runtime.HeapFree" {
							bad = append(bad, p.Pos(call.Pos()))
						}
					}
				}
				return true
			})
		}
	}
	c.Check(len(bad) == 0, r4, "code generator emits no raw free", "", "no call to runtime.free / runtime.HeapFree is emitted", fmt.Sprintf("the code generator emits a direct call to the raw free functions at %v, bypassing the reference count", bad))

	// (5) zero fill
	if ha, ok := m.ByName["$runtime.HeapAlloc"]; !ok {
		c.Undecided(r5, "$runtime.HeapAlloc", "", "function not found")
	} else {
		good, detail := c11AllocZeroed(m, ha)
		c.Check(good, r5, "$runtime.HeapAlloc", fmt.Sprintf("%s:%d", ha.File, ha.Line), "every returned block is zeroed over its whole size", "$runtime.HeapAlloc: "+detail+": fresh blocks contain stale bytes that the generated code reads as reference counts and pointers")
	}
	if ha, ok := m.ByName["$runtime.HeapAlloc"]; ok {
		good, detail, n := c11AllocFailure(m, ha)
		c.Check(good, "alloc-failure-not-used", "$runtime.HeapAlloc", fmt.Sprintf("%s:%d", ha.File, ha.Line), "the allocator's answer is tested before it is stored through", "$runtime.HeapAlloc: "+detail)
		c.Min("alloc-failure-not-used", "paths of $runtime.HeapAlloc that store through the new block", n, 1)
	}
	if bh, ok := m.ByName["$runtime.Block.HeapAlloc"]; !ok {
		c.Undecided("alloc-size-no-wrap", "$runtime.Block.HeapAlloc", "", "function not found")
	} else {
		good, detail, n := c11AllocSizeNoWrap(m, bh)
		c.Check(good, "alloc-size-no-wrap", "$runtime.Block.HeapAlloc", fmt.Sprintf("%s:%d", bh.File, bh.Line), "the 64-bit product of count and item size is bounded before the 32-bit size is used", "$runtime.Block.HeapAlloc: "+detail)
		c.Min("alloc-size-no-wrap", "paths of $runtime.Block.HeapAlloc that allocate", n, 1)
	}
}

// ---------------- C12

func runC12(c *Ctx) {
	c.Explain = "Decides the release side of the code generator (necessary conditions of 'memory use stays bounded'): (1) epilogue-release: genFunction releases every register that is not in the no-RC set, after the function body and after the results were pushed; " +
		"(2) overwrite-release: when an SSA value is stored into a register that already exists, the releasing pop is used unless the register is in the no-RC set; (3) onfree-completeness: the generated OnFree of a block releases the referenced block and clears the slot, a struct's OnFree covers every member (nested structs through their own raw-free lists, others through their type's OnFree), and the container types forward OnFree to their underlying struct; " +
		"(4) release-recursion: $runtime.Block.Release calls the per-item free callback once per item, advancing by the item size, before it frees the block. " +
		"NOT decided: absence of leaks in emitted programs, cycles, the allocator's own reuse of freed memory (C10)."
	c.Trusted = []string{"go/packages, go/types (x/tools v0.29.0)", "own WAT reader (watsrc.go)"}
	p, wp, bk := rcLoad(c)
	if wp == nil || bk == nil {
		return
	}
	const r1, r2, r3, r4 = "epilogue-release", "overwrite-release", "onfree-completeness", "release-recursion"
	c12HelperLocals(c, p, wp, "leak", bk)
	c12RuntimeArgs(c, p, wp, bk)
	c12RcBrackets(c, p, p.Pkg("internal/ssa"))
	// (1)
	if s, fd := seqOf(p, bk, "functionGenerator.genFunction"); fd == nil {
		c.Undecided(r1, "genFunction", "", "function not found")
	} else {
		irel, ipush, ibody := -1, -1, -1
		for i, e := range s.Events {
			switch {
			case e.Kind == "deleg" && e.Name == "EmitRelease" && e.Loop != nil && strings.HasSuffix(e.Loop.Over, "g.registers"):
				irel = i
			case e.Kind == "deleg" && e.Name == "EmitPush" && e.Loop != nil && strings.HasSuffix(e.Loop.Over, "g.var_rets"):
				ipush = i
			case e.Kind == "value" && e.Name == "block_temp" && e.Loop == nil:
				ibody = i
			}
		}
		var probs []string
		if irel < 0 {
			probs = append(probs, "no EmitRelease over g.registers")
		} else {
			// which registers are released: one iteration of the loop per world (c12_epilogue.go)
			wp2, und := epilogueReleaseWorlds(bk, fd.Body)
			if und != "" {
				c.Undecided(r1, "genFunction: which registers are released", p.Pos(fd.Pos()), "not decided: "+und)
			}
			probs = append(probs, wp2...)
			if ipush < 0 || ipush > irel {
				probs = append(probs, "the results are not pushed (retained) before the registers are released: a returned reference that also lives in a register is freed before the caller receives it")
			}
			if ibody < 0 || ibody > irel {
				probs = append(probs, "the registers are released before the function body")
			}
		}
		c.Check(len(probs) == 0, r1, "genFunction: body; push results; release every RC register", p.Pos(fd.Pos()), "body < push results < release registers", "genFunction: "+strings.Join(probs, "; "))
	}
	// (2)
	if s, fd := seqOf(p, bk, "functionGenerator.genInstruction"); fd == nil {
		c.Undecided(r2, "genInstruction", "", "function not found")
	} else {
		var existing, fresh []emEvent
		for _, e := range s.Events {
			if e.Kind != "deleg" || !(e.Name == "EmitPop" || e.Name == "EmitPopNoRelease") {
				continue
			}
			g := strings.Join(e.Guards, " && ")
			if strings.Contains(g, "v,ok:=g.locals_map[inst];ok") && !strings.Contains(g, "!(v,ok:=g.locals_map[inst];ok)") {
				existing = append(existing, e)
			} else {
				fresh = append(fresh, e)
			}
		}
		var probs []string
		// existing register: the releasing EmitPop, except for a borrowed value (produced with reference counting
		// disabled), whose register never owns anything and is popped without release under a test of that state
		nOwning := 0
		for _, e := range existing {
			g := strings.Join(e.Guards, " && ")
			switch {
			case e.Name == "EmitPop":
				nOwning++
			case e.Name == "EmitPopNoRelease" && !(strings.Contains(g, "RcDisable") || strings.Contains(g, "none_rc_registers")):
				probs = append(probs, "the path that stores into an existing register pops without release outside the rc-disabled case")
			}
		}
		if nOwning != 1 {
			probs = append(probs, "the path that stores into an existing register does not use the releasing EmitPop")
		}
		for _, e := range fresh {
			g := strings.Join(e.Guards, " && ")
			if e.Name == "EmitPopNoRelease" && !strings.Contains(g, "none_rc_registers") {
				probs = append(probs, "EmitPopNoRelease is used outside the no-RC-register case")
			}
		}
		if len(fresh) == 0 {
			probs = append(probs, "no pop into a fresh register found")
		}
		c.Check(len(probs) == 0, r2, "genInstruction: value into register", p.Pos(fd.Pos()), "existing register: EmitPop; fresh register: EmitPop or (no-RC) EmitPopNoRelease", "genInstruction: "+strings.Join(probs, "; ")+": the previous value of the register is never released (leak on every loop iteration)")
	}
	// (2b) every store of a block reference into memory releases the slot's old value on that path
	for _, name := range []string{"aBlock.emitStoreToAddr", "aBlock.emitStore"} {
		s, fd := seqOf(p, wp, name)
		if fd == nil {
			c.Undecided(r2, name, "", "function not found")
			continue
		}
		isPrefix := func(a, b []string) bool {
			if len(a) > len(b) {
				return false
			}
			for i := range a {
				if a[i] != b[i] {
					return false
				}
			}
			return true
		}
		var probs []string
		nStore := 0
		for i, e := range s.Events {
			if e.Kind != "ctor" || e.Name != "Store" {
				continue
			}
			nStore++
			released := false
			for _, q := range s.Events[:i] {
				if q.Kind == "call" && q.Name == "runtime.Block.Release" && isPrefix(q.Guards, e.Guards) {
					released = true
				}
			}
			if !released {
				g := "unconditionally"
				if len(e.Guards) > 0 {
					g = "when " + strings.Join(e.Guards, " && ")
				}
				probs = append(probs, "the slot is overwritten "+g+" without releasing the reference it held")
			}
		}
		if nStore == 0 {
			probs = append(probs, "no store found")
		}
		c.Check(len(probs) == 0, r2, name+": every store releases the old value", p.Pos(fd.Pos()), fmt.Sprintf("%d store(s), each after a Release on its path", nStore), name+": "+strings.Join(probs, "; ")+": the block the slot referred to keeps a count that nothing will ever drop (leak per overwrite)")
	}
	// (3) OnFree
	if s, fd := seqOf(p, wp, "Block.OnFree"); fd == nil {
		c.Undecided(r3, "Block.OnFree", "", "function not found")
	} else {
		il, ir, is := s.index("ctor", "Load"), s.index("call", "runtime.Block.Release"), s.lastIndex("ctor", "Store")
		c.Check(il >= 0 && ir > il && is > ir, r3, "Block.OnFree", p.Pos(fd.Pos()), "load; Release; clear", "the generated OnFree of a block slot must load the reference, release it and clear the slot (sequence: "+s.String()+"): otherwise blocks reachable only from a freed block are never released")
	}
	if fd := p.MustFunc(r3, wp, "Struct.genRawFree"); fd != nil {
		src := strings.ReplaceAll(nodeString(p, fd), " ", "")
		var probs []string
		if !strings.Contains(src, "range t.fields") && !strings.Contains(src, "ranget.fields") {
			probs = append(probs, "does not visit every field")
		}
		if !strings.Contains(src, "istruct.genRawFree()") || !strings.Contains(src, "rf.offset+member._start") {
			probs = append(probs, "nested struct members are not expanded through their own raw-free list at their offset")
		}
		if !strings.Contains(src, "member_type.OnFree()") || !strings.Contains(src, "offset:member._start") {
			probs = append(probs, "other members are not covered through their type's OnFree at their offset")
		}
		// the expansion must actually append
		nAppend := strings.Count(src, "ret=append(ret,fn_offset_pair{")
		if nAppend < 2 {
			probs = append(probs, fmt.Sprintf("only %d of the two member kinds contribute to the free list", nAppend))
		}
		c.Check(len(probs) == 0, r3, "Struct.genRawFree", p.Pos(fd.Pos()), "every member contributes its free callbacks", "Struct.genRawFree "+strings.Join(probs, "; ")+": references held by such members are never released when the struct's storage is freed")
	}
	if s, fd := seqOf(p, wp, "Struct.OnFree"); fd == nil {
		c.Undecided(r3, "Struct.OnFree", "", "function not found")
	} else {
		ci := -1
		for i, e := range s.Events {
			if e.Kind == "ctor" && e.Name == "CallIndirect" && e.Loop != nil && e.Loop.Over == "t.genRawFree()" {
				ci = i
			}
		}
		c.Check(ci >= 0 && len(s.Events[ci].Guards) == 0, r3, "Struct.OnFree", p.Pos(fd.Pos()), "one indirect call per raw-free entry", "Struct.OnFree must call the free callback of every entry of genRawFree() (sequence: "+s.String()+")")
	}
	// container types forward OnFree to their underlying struct
	nfwd := 0
	for _, f := range wp.Syntax {
		for _, d := range f.Decls {
			fd, ok := d.(*ast.FuncDecl)
			if !ok || fd.Body == nil || fd.Recv == nil || fd.Name.Name != "OnFree" || len(fd.Body.List) != 1 {
				continue
			}
			recv := recvTypeName(fd.Recv.List[0].Type)
			st, ok := wp.Types.Scope().Lookup(recv).(*types.TypeName)
			if !ok {
				continue
			}
			str, ok := st.Type().Underlying().(*types.Struct)
			if !ok {
				continue
			}
			hasUnderlying := false
			for i := 0; i < str.NumFields(); i++ {
				if str.Field(i).Name() == "underlying" {
					hasUnderlying = true
				}
			}
			if !hasUnderlying {
				continue
			}
			nfwd++
			src := strings.ReplaceAll(nodeString(p, fd.Body), " ", "")
			c.Check(strings.Contains(src, "returnt.underlying.OnFree()"), r3, recv+".OnFree", p.Pos(fd.Pos()), "forwards to the underlying struct", recv+".OnFree does not forward to the underlying struct's OnFree: the references inside values of this type are never released when their storage is freed")
		}
	}
	c.Min(r3, "container OnFree forwarders", nfwd, 9)

	// (4)
	m := readRuntimeWs(c, r4)
	if rel, ok := m.ByName["$runtime.Block.Release"]; !ok {
		c.Undecided(r4, "$runtime.Block.Release", "", "function not found")
	} else {
		ci, hf, loopStart := -1, -1, -1
		for i, in := range rel.Body {
			if in.Op == "call_indirect" {
				ci = i
			}
			if in.Op == "call" && len(in.Args) > 0 && in.Args[0] == "$runtime.HeapFree" {
				hf = i
			}
		}
		var probs []string
		if ci < 0 {
			probs = append(probs, "the per-item free callback is never called")
		} else {
			path := insPath(rel.Body, ci)
			inLoop := false
			for _, x := range path {
				if x == "loop" {
					inLoop = true
				}
			}
			if !inLoop {
				probs = append(probs, "the callback is not called inside a loop over the items")
			}
			for i := ci; i >= 0; i-- {
				if rel.Body[i].Op == "loop" {
					loopStart = i
					break
				}
			}
			if hf >= 0 && hf < ci {
				probs = append(probs, "the block is freed before its items are released")
			}
			// data_ptr += item_size inside the loop: local.get $data_ptr ; local.get $item_size ; i32.add ; local.set $data_ptr
			adv := false
			for i := loopStart; i >= 0 && i+3 < len(rel.Body); i++ {
				b := rel.Body
				if b[i].Op == "local.get" && b[i+1].Op == "local.get" && b[i+2].Op == "i32.add" && b[i+3].Op == "local.set" &&
					len(b[i].Args) > 0 && len(b[i+3].Args) > 0 && b[i].Args[0] == b[i+3].Args[0] && len(b[i+1].Args) > 0 && strings.Contains(b[i+1].Args[0], "item_size") {
					adv = true
				}
			}
			if !adv {
				probs = append(probs, "the item pointer does not advance by the item size")
			}
			// item_count decremented
			dec := false
			for i := loopStart; i >= 0 && i+3 < len(rel.Body); i++ {
				b := rel.Body
				if b[i].Op == "local.get" && b[i+1].Op == "i32.const" && len(b[i+1].Args) > 0 && b[i+1].Args[0] == "1" && b[i+2].Op == "i32.sub" && b[i+3].Op == "local.set" &&
					len(b[i].Args) > 0 && len(b[i+3].Args) > 0 && b[i].Args[0] == b[i+3].Args[0] && strings.Contains(b[i].Args[0], "item_count") {
					dec = true
				}
			}
			if !dec {
				probs = append(probs, "the item count is not decremented in the loop")
			}
		}
		c.Check(len(probs) == 0, r4, "$runtime.Block.Release: free callback once per item", fmt.Sprintf("%s:%d", rel.File, rel.Line), "loop: callback(data_ptr); count--; data_ptr += item_size; then HeapFree", "$runtime.Block.Release: "+strings.Join(probs, "; ")+": the references held by the items of a freed block are never released")
	}
}
