package main

import (
	"fmt"
	"go/ast"
	"go/constant"
	"go/token"
	"go/types"
	"sort"
	"strings"
)

// Abstract interpretation of straight-line address arithmetic in the domain of page forms.
//
// A value is  4096·(Σ cᵢ·Pᵢ + K) + Σ dⱼ·Bⱼ + [Lo,Hi]   (byte scale)   or   Σ cᵢ·Pᵢ + K   (page scale)
// where Pᵢ are symbolic page numbers (each with an integer interval), Bⱼ symbolic byte quantities that may only be
// added and subtracted, and [Lo,Hi] an interval of in-page residues (a point when the rule enumerates the residue).
// The transfer functions are exact for +, -, ±const, <<12, >>12, &mask (mask < 4096), &^0xFFF and &(2^n-1) on page
// scale (tagged as "modulo 2^n"); anything else is Unknown and makes the obligation undecided. A comparison whose
// truth depends on a page symbol splits that symbol's interval at the flip point and both halves are analysed, so a
// verdict covers every value of the symbols, not samples of them. Integer conversions are taken as exact: the rules
// that use the domain state the operand ranges under which that holds.

type pform struct {
	Page   map[string]int64
	Byte   map[string]int64
	K      int64
	Lo, Hi int64
	PageSc bool
	Mod    int64 // value is the expression reduced into [0, Mod); 0 = not reduced
	IsBool bool
	B      bool
	OK     bool
}

func pfConst(v int64) pform {
	f := pform{OK: true, Lo: v, Hi: v}
	return f.norm()
}

func pfBool(b bool) pform { return pform{OK: true, IsBool: true, B: b} }

func floorDiv(a, b int64) int64 {
	q := a / b
	if (a%b != 0) && ((a < 0) != (b < 0)) {
		q--
	}
	return q
}

func (f pform) clone() pform {
	g := f
	g.Page, g.Byte = map[string]int64{}, map[string]int64{}
	for k, v := range f.Page {
		if v != 0 {
			g.Page[k] = v
		}
	}
	for k, v := range f.Byte {
		if v != 0 {
			g.Byte[k] = v
		}
	}
	return g
}

// norm moves whole pages of a point residue into K.
func (f pform) norm() pform {
	if !f.OK || f.IsBool || f.PageSc {
		return f
	}
	if f.Lo == f.Hi {
		c := floorDiv(f.Lo, 4096)
		f.K += c
		f.Lo -= 4096 * c
		f.Hi = f.Lo
	}
	return f
}

func (f pform) hasSyms() bool {
	for _, v := range f.Page {
		if v != 0 {
			return true
		}
	}
	for _, v := range f.Byte {
		if v != 0 {
			return true
		}
	}
	return false
}

// concrete returns the integer value when the form has no symbols and a point residue.
func (f pform) concrete() (int64, bool) {
	if !f.OK || f.IsBool || f.hasSyms() || f.Mod != 0 {
		return 0, false
	}
	if f.PageSc {
		return f.K, true
	}
	if f.Lo != f.Hi {
		return 0, false
	}
	return 4096*f.K + f.Lo, true
}

func (f pform) String() string {
	if !f.OK {
		return "unknown"
	}
	if f.IsBool {
		return fmt.Sprint(f.B)
	}
	var parts []string
	var names []string
	for k, v := range f.Page {
		if v != 0 {
			names = append(names, k)
		}
	}
	sort.Strings(names)
	for _, k := range names {
		parts = append(parts, fmt.Sprintf("%+d·%s", f.Page[k], k))
	}
	parts = append(parts, fmt.Sprintf("%+d", f.K))
	s := strings.Join(parts, "")
	if f.PageSc {
		if f.Mod != 0 {
			return fmt.Sprintf("(%s) mod %#x", s, f.Mod)
		}
		return s
	}
	s = "4096·(" + s + ")"
	names = names[:0]
	for k, v := range f.Byte {
		if v != 0 {
			names = append(names, k)
		}
	}
	sort.Strings(names)
	for _, k := range names {
		s += fmt.Sprintf("%+d·%s", f.Byte[k], k)
	}
	if f.Lo == f.Hi {
		return s + fmt.Sprintf("%+d", f.Lo)
	}
	return s + fmt.Sprintf("+[%d,%d]", f.Lo, f.Hi)
}

func pfEqual(a, b pform) bool {
	a, b = a.norm(), b.norm()
	if !a.OK || !b.OK || a.IsBool != b.IsBool || a.PageSc != b.PageSc || a.Mod != b.Mod || a.K != b.K {
		return false
	}
	if !a.PageSc && (a.Lo != b.Lo || a.Hi != b.Hi || a.Lo != a.Hi) {
		return false
	}
	for k, v := range a.Page {
		if b.Page[k] != v {
			return false
		}
	}
	for k, v := range b.Page {
		if a.Page[k] != v {
			return false
		}
	}
	for k, v := range a.Byte {
		if b.Byte[k] != v {
			return false
		}
	}
	for k, v := range b.Byte {
		if a.Byte[k] != v {
			return false
		}
	}
	return true
}

func pfAddSub(a, b pform, sign int64) pform {
	if !a.OK || !b.OK || a.IsBool || b.IsBool || a.Mod != 0 || b.Mod != 0 {
		return pform{}
	}
	// a constant adapts to the scale of the other operand
	if a.PageSc != b.PageSc {
		if v, ok := b.concrete(); ok && a.PageSc {
			b = pform{OK: true, PageSc: true, K: v}
		} else if v, ok := a.concrete(); ok && b.PageSc {
			a = pform{OK: true, PageSc: true, K: v}
		} else {
			return pform{}
		}
	}
	r := a.clone()
	for k, v := range b.Page {
		r.Page[k] += sign * v
	}
	for k, v := range b.Byte {
		r.Byte[k] += sign * v
	}
	r.K += sign * b.K
	if !r.PageSc {
		if sign > 0 {
			r.Lo, r.Hi = a.Lo+b.Lo, a.Hi+b.Hi
		} else {
			r.Lo, r.Hi = a.Lo-b.Hi, a.Hi-b.Lo
		}
	}
	return r.clone().norm()
}

// pfSplit is raised (by panic) when a comparison depends on a page symbol; the driver splits the symbol's interval
// into [lo, At-1] and [At, hi].
type pfSplit struct {
	Sym string
	At  int64
}

type pfEnv struct {
	info   *types.Info
	vars   map[types.Object]pform
	bounds map[string][2]int64 // page symbols
	funcs  map[*types.Func]*ast.FuncDecl
	depth  int
}

// rangeOf returns the min and max of a symbolic form over the symbol bounds (byte symbols make it unbounded).
func (e *pfEnv) rangeOf(f pform) (lo, hi int64, ok bool) {
	for _, v := range f.Byte {
		if v != 0 {
			return 0, 0, false
		}
	}
	lo, hi = f.K, f.K
	for s, c := range f.Page {
		b, has := e.bounds[s]
		if !has {
			return 0, 0, false
		}
		if c >= 0 {
			lo += c * b[0]
			hi += c * b[1]
		} else {
			lo += c * b[1]
			hi += c * b[0]
		}
	}
	if !f.PageSc {
		lo, hi = 4096*lo+f.Lo, 4096*hi+f.Hi
	}
	return lo, hi, true
}

func (e *pfEnv) compare(op token.Token, a, b pform) pform {
	d := pfAddSub(a, b, -1)
	if !d.OK {
		return pform{}
	}
	lo, hi, ok := e.rangeOf(d)
	if !ok {
		return pform{}
	}
	decide := func(v int64) bool {
		switch op {
		case token.EQL:
			return v == 0
		case token.NEQ:
			return v != 0
		case token.LSS:
			return v < 0
		case token.LEQ:
			return v <= 0
		case token.GTR:
			return v > 0
		}
		return v >= 0
	}
	// uniform over the whole range?
	uniform := false
	switch op {
	case token.EQL, token.NEQ:
		uniform = lo == hi || lo > 0 || hi < 0
	default:
		uniform = decide(lo) == decide(hi)
	}
	if uniform {
		return pfBool(decide(lo))
	}
	// depends on a symbol: split the (single) page symbol at the flip point
	var sym string
	n := 0
	for s, c := range d.Page {
		if c != 0 {
			sym = s
			n++
		}
	}
	if n != 1 || (!d.PageSc && d.Lo != d.Hi) {
		return pform{}
	}
	bnd := e.bounds[sym]
	val := func(q int64) int64 {
		v := d.Page[sym]*q + d.K
		if !d.PageSc {
			v = 4096*v + d.Lo
		}
		return v
	}
	// smallest q in (bnd[0], bnd[1]] whose verdict differs from that of the interval's first point
	first := decide(val(bnd[0]))
	l, h := bnd[0], bnd[1]
	if op == token.EQL || op == token.NEQ {
		// linear: at most one root; find the first q whose sign differs from the start
		s0 := val(bnd[0]) < 0
		if val(bnd[0]) == 0 {
			panic(pfSplit{sym, bnd[0] + 1})
		}
		for l+1 < h {
			m := l + (h-l)/2
			if (val(m) < 0) == s0 && val(m) != 0 {
				l = m
			} else {
				h = m
			}
		}
		panic(pfSplit{sym, h})
	}
	for l+1 < h {
		m := l + (h-l)/2
		if decide(val(m)) == first {
			l = m
		} else {
			h = m
		}
	}
	panic(pfSplit{sym, h})
}

func (e *pfEnv) eval(x ast.Expr) pform {
	x = ast.Unparen(x)
	if tv, ok := e.info.Types[x]; ok && tv.Value != nil {
		switch tv.Value.Kind() {
		case constant.Int:
			if v, ok := constant.Int64Val(tv.Value); ok {
				return pfConst(v)
			}
		case constant.Bool:
			return pfBool(constant.BoolVal(tv.Value))
		}
		return pform{}
	}
	switch x := x.(type) {
	case *ast.Ident:
		if v, ok := e.vars[e.info.ObjectOf(x)]; ok {
			return v
		}
	case *ast.CallExpr:
		if tv, ok := e.info.Types[x.Fun]; ok && tv.IsType() && len(x.Args) == 1 {
			return e.convert(e.eval(x.Args[0]), tv.Type)
		}
		if fn := CalleeOf(e.info, x); fn != nil {
			if fd := e.funcs[fn]; fd != nil {
				var args []pform
				for _, a := range x.Args {
					args = append(args, e.eval(a))
				}
				if res, ok := e.call(fd, args); ok && len(res) == 1 {
					return res[0]
				}
			}
		}
	case *ast.UnaryExpr:
		a := e.eval(x.X)
		switch x.Op {
		case token.NOT:
			if a.OK && a.IsBool {
				return pfBool(!a.B)
			}
		case token.SUB:
			return pfAddSub(pfConst(0), a, -1)
		case token.ADD:
			return a
		}
	case *ast.BinaryExpr:
		switch x.Op {
		case token.LAND:
			l := e.eval(x.X)
			if l.OK && l.IsBool && !l.B {
				return pfBool(false)
			}
			r := e.eval(x.Y)
			if l.OK && r.OK && l.IsBool && r.IsBool {
				return pfBool(l.B && r.B)
			}
			return pform{}
		case token.LOR:
			l := e.eval(x.X)
			if l.OK && l.IsBool && l.B {
				return pfBool(true)
			}
			r := e.eval(x.Y)
			if l.OK && r.OK && l.IsBool && r.IsBool {
				return pfBool(l.B || r.B)
			}
			return pform{}
		}
		return e.binop(x.Op, e.eval(x.X), e.eval(x.Y))
	}
	return pform{}
}

// convert models an integer conversion. A form with a single page symbol whose range over the symbol's interval does
// not fit the target type wraps: when the whole range lies one modulus above (below) the type's range the modulus is
// subtracted (added); when it straddles the boundary the symbol's interval is split there. Forms with several
// symbols are taken as exact (the rules that use them state the operand range under which that holds).
func (e *pfEnv) convert(f pform, t types.Type) pform {
	if !f.OK || f.IsBool || f.Mod != 0 {
		return f
	}
	b, ok := t.Underlying().(*types.Basic)
	if !ok || b.Info()&types.IsInteger == 0 {
		return f
	}
	w, signed := typeWidth(t)
	if w >= 64 {
		return f
	}
	nsym := 0
	var sym string
	for s, cf := range f.Page {
		if cf != 0 {
			nsym++
			sym = s
		}
	}
	for _, cf := range f.Byte {
		if cf != 0 {
			return f
		}
	}
	if nsym != 1 || (!f.PageSc && f.Lo != f.Hi) || (!f.PageSc && w < 13) {
		return f
	}
	lo, hi, okR := e.rangeOf(f)
	if !okR {
		return f
	}
	mod := int64(1) << uint(w)
	tlo, thi := int64(0), mod-1
	if signed {
		tlo, thi = -(mod >> 1), mod>>1-1
	}
	if lo >= tlo && hi <= thi {
		return f
	}
	// whole range one or more moduli away: shift
	shift := func(v int64) int64 { return floorDiv(v-tlo, mod) }
	if shift(lo) == shift(hi) {
		k := shift(lo)
		g := f.clone()
		if g.PageSc {
			g.K -= k * mod
		} else {
			g.K -= k * (mod / 4096)
		}
		return g
	}
	// straddles a boundary: split the symbol's interval at the first point whose shift differs from that of the start
	bnd := e.bounds[sym]
	val := func(q int64) int64 {
		v := f.Page[sym]*q + f.K
		if !f.PageSc {
			v = 4096*v + f.Lo
		}
		return v
	}
	first := shift(val(bnd[0]))
	l, h := bnd[0], bnd[1]
	if shift(val(h)) == first {
		return f // not monotone in a way we can split: leave exact
	}
	for l+1 < h {
		m := l + (h-l)/2
		if shift(val(m)) == first {
			l = m
		} else {
			h = m
		}
	}
	panic(pfSplit{sym, h})
}

func (e *pfEnv) binop(op token.Token, l, r pform) pform {
	if !l.OK || !r.OK {
		return pform{}
	}
	switch op {
	case token.EQL, token.NEQ, token.LSS, token.LEQ, token.GTR, token.GEQ:
		if l.IsBool || r.IsBool || l.Mod != 0 || r.Mod != 0 {
			return pform{}
		}
		return e.compare(op, l, r)
	case token.ADD:
		return pfAddSub(l, r, 1)
	case token.SUB:
		return pfAddSub(l, r, -1)
	}
	if l.IsBool || r.IsBool || l.Mod != 0 {
		return pform{}
	}
	k, isK := r.concrete()
	if !isK {
		return pform{}
	}
	if lv, ok := l.concrete(); ok && !l.PageSc {
		// fully concrete
		switch op {
		case token.SHL:
			return pfConst(lv << uint(k))
		case token.SHR:
			return pfConst(lv >> uint(k))
		case token.AND:
			return pfConst(lv & k)
		case token.AND_NOT:
			return pfConst(lv &^ k)
		case token.OR:
			return pfConst(lv | k)
		case token.MUL:
			return pfConst(lv * k)
		}
		return pform{}
	}
	switch op {
	case token.SHL:
		if k == 12 && l.PageSc {
			g := l.clone()
			g.PageSc, g.Lo, g.Hi = false, 0, 0
			return g
		}
	case token.SHR:
		if k == 12 && !l.PageSc && len(l.clone().Byte) == 0 && floorDiv(l.Lo, 4096) == floorDiv(l.Hi, 4096) {
			g := l.clone()
			g.K += floorDiv(l.Lo, 4096)
			g.PageSc, g.Lo, g.Hi = true, 0, 0
			return g
		}
	case token.AND:
		if !l.PageSc && k >= 0 && k < 4096 && len(l.clone().Byte) == 0 && l.Lo == l.Hi {
			n := l.norm()
			return pfConst(n.Lo & k)
		}
		if l.PageSc && k > 0 && (k+1)&k == 0 {
			g := l.clone()
			g.Mod = k + 1
			return g
		}
	case token.AND_NOT:
		if !l.PageSc && k == 0xFFF && len(l.clone().Byte) == 0 && l.Lo >= 0 && l.Hi <= 4095 {
			g := l.clone()
			g.Lo, g.Hi = 0, 0
			return g
		}
	}
	return pform{}
}

// call evaluates fd on abstract arguments and returns its results; ok=false when a statement is not modelled.
func (e *pfEnv) call(fd *ast.FuncDecl, args []pform) ([]pform, bool) {
	if e.depth > 4 {
		return nil, false
	}
	sub := &pfEnv{info: e.info, vars: map[types.Object]pform{}, bounds: e.bounds, funcs: e.funcs, depth: e.depth + 1}
	i := 0
	for _, f := range fd.Type.Params.List {
		for _, nm := range f.Names {
			if i < len(args) {
				sub.vars[e.info.ObjectOf(nm)] = args[i]
			}
			i++
		}
	}
	var named []types.Object
	if fd.Type.Results != nil {
		for _, f := range fd.Type.Results.List {
			for _, nm := range f.Names {
				o := e.info.ObjectOf(nm)
				named = append(named, o)
				sub.vars[o] = pfConst(0)
			}
		}
	}
	res, done, ok := sub.run(fd.Body.List, named)
	if !ok || !done {
		return nil, false
	}
	return res, true
}

func (e *pfEnv) run(list []ast.Stmt, named []types.Object) (res []pform, done, ok bool) {
	for _, s := range list {
		switch x := s.(type) {
		case *ast.EmptyStmt:
		case *ast.DeclStmt:
			gd, isGD := x.Decl.(*ast.GenDecl)
			if !isGD {
				return nil, false, false
			}
			if gd.Tok == token.VAR {
				for _, sp := range gd.Specs {
					vs := sp.(*ast.ValueSpec)
					for i, nm := range vs.Names {
						if i < len(vs.Values) {
							e.vars[e.info.ObjectOf(nm)] = e.eval(vs.Values[i])
						} else {
							e.vars[e.info.ObjectOf(nm)] = pfConst(0)
						}
					}
				}
			}
		case *ast.AssignStmt:
			if len(x.Lhs) != len(x.Rhs) {
				if len(x.Rhs) == 1 {
					if call, isCall := x.Rhs[0].(*ast.CallExpr); isCall {
						if fn := CalleeOf(e.info, call); fn != nil && e.funcs[fn] != nil {
							var args []pform
							for _, a := range call.Args {
								args = append(args, e.eval(a))
							}
							if rs, ok := e.call(e.funcs[fn], args); ok && len(rs) == len(x.Lhs) {
								for i, l := range x.Lhs {
									if o := identObj(e.info, l); o != nil {
										e.vars[o] = rs[i]
									}
								}
								continue
							}
						}
					}
				}
				return nil, false, false
			}
			vals := make([]pform, len(x.Rhs))
			for i, r := range x.Rhs {
				vals[i] = e.eval(r)
			}
			for i, l := range x.Lhs {
				o := identObj(e.info, l)
				if o == nil {
					return nil, false, false
				}
				if x.Tok == token.ASSIGN || x.Tok == token.DEFINE {
					e.vars[o] = vals[i]
					continue
				}
				op, isOp := fAssignOp(x.Tok)
				if !isOp {
					return nil, false, false
				}
				e.vars[o] = e.binop(op, e.vars[o], vals[i])
			}
		case *ast.IncDecStmt:
			o := identObj(e.info, x.X)
			if o == nil {
				return nil, false, false
			}
			d := int64(1)
			if x.Tok == token.DEC {
				d = -1
			}
			cur := e.vars[o]
			if cur.PageSc {
				e.vars[o] = pfAddSub(cur, pform{OK: true, PageSc: true, K: d}, 1)
			} else {
				e.vars[o] = pfAddSub(cur, pfConst(d), 1)
			}
		case *ast.IfStmt:
			if x.Init != nil {
				if _, d, ok := e.run([]ast.Stmt{x.Init}, named); d || !ok {
					return nil, false, false
				}
			}
			cv := e.eval(x.Cond)
			if !cv.OK || !cv.IsBool {
				return nil, false, false
			}
			var r []pform
			var d, ok bool
			if cv.B {
				r, d, ok = e.run(x.Body.List, named)
			} else if x.Else != nil {
				r, d, ok = e.run([]ast.Stmt{x.Else}, named)
			} else {
				continue
			}
			if !ok {
				return nil, false, false
			}
			if d {
				return r, true, true
			}
		case *ast.BlockStmt:
			r, d, ok := e.run(x.List, named)
			if !ok {
				return nil, false, false
			}
			if d {
				return r, true, true
			}
		case *ast.ReturnStmt:
			if len(x.Results) == 0 {
				for _, o := range named {
					res = append(res, e.vars[o])
				}
				return res, true, true
			}
			if len(x.Results) == 1 {
				if call, isCall := x.Results[0].(*ast.CallExpr); isCall {
					if fn := CalleeOf(e.info, call); fn != nil && e.funcs[fn] != nil {
						var args []pform
						for _, a := range call.Args {
							args = append(args, e.eval(a))
						}
						rs, ok := e.call(e.funcs[fn], args)
						return rs, true, ok
					}
				}
			}
			for _, r := range x.Results {
				res = append(res, e.eval(r))
			}
			return res, true, true
		default:
			return nil, false, false
		}
	}
	return nil, false, true
}

// pfResolve replaces page symbols whose interval is a single point by that value.
func pfResolve(f pform, bounds map[string][2]int64) pform {
	if !f.OK || f.IsBool {
		return f
	}
	g := f.clone()
	for s, c := range g.Page {
		if b, ok := bounds[s]; ok && b[0] == b[1] {
			g.K += c * b[0]
			delete(g.Page, s)
		}
	}
	return g.norm()
}

// pfAnalyse runs fd on the given abstract arguments for every partition of the page-symbol bounds that the
// comparisons in the code induce, and calls leaf for each partition with the results.
func pfAnalyse(info *types.Info, funcs map[*types.Func]*ast.FuncDecl, fd *ast.FuncDecl, args []pform, bounds map[string][2]int64, leaf func(bounds map[string][2]int64, res []pform, ok bool)) int {
	leaves := 0
	var rec func(b map[string][2]int64, depth int)
	rec = func(b map[string][2]int64, depth int) {
		var split *pfSplit
		var res []pform
		ok := false
		func() {
			defer func() {
				if r := recover(); r != nil {
					if sp, isSplit := r.(pfSplit); isSplit {
						split = &sp
						return
					}
					panic(r)
				}
			}()
			env := &pfEnv{info: info, vars: map[types.Object]pform{}, bounds: b, funcs: funcs}
			res, ok = env.call(fd, args)
		}()
		if split == nil {
			leaves++
			for i := range res {
				res[i] = pfResolve(res[i], b)
			}
			leaf(b, res, ok)
			return
		}
		if depth > 24 {
			leaves++
			leaf(b, nil, false)
			return
		}
		cur := b[split.Sym]
		for _, part := range [][2]int64{{cur[0], split.At - 1}, {split.At, cur[1]}} {
			if part[0] > part[1] {
				continue
			}
			nb := map[string][2]int64{}
			for k, v := range b {
				nb[k] = v
			}
			nb[split.Sym] = part
			rec(nb, depth+1)
		}
	}
	rec(bounds, 0)
	return leaves
}
