package main

import (
	"fmt"
	"go/ast"
	"sort"
	"strings"

	"golang.org/x/tools/go/packages"
)

// C11 extra rules (added after seeded changes were missed):
//
//   register-release-reinit — a value obtained from g.addRegister is released again by the function epilogue
//       (C12, epilogue-release). Where the generator releases such a register early, the very next emission must
//       re-initialise it (EmitInit), otherwise the epilogue releases the stale reference a second time and the block
//       is freed while another owner still uses it.
//   commaok-sibling — the runtime helpers X and X_CommaOk differ only in the extra result; they must make the same
//       runtime calls (in particular the Retain of the data block on the success path).

func c11Extra(c *Ctx, p *Prog, bk *packages.Package) {
	const r1 = "register-release-reinit"
	if bk != nil {
		n := 0
		for _, f := range bk.Syntax {
			for _, d := range f.Decls {
				fd, ok := d.(*ast.FuncDecl)
				if !ok || fd.Body == nil {
					continue
				}
				s := emitSequence(bk.TypesInfo, fd)
				for i, e := range s.Events {
					if e.Kind != "deleg" || e.Name != "EmitRelease" || !strings.HasPrefix(e.Recv, "g.addRegister(") {
						continue
					}
					n++
					ok := i+1 < len(s.Events) && s.Events[i+1].Kind == "deleg" && s.Events[i+1].Name == "EmitInit" && s.Events[i+1].Recv == e.Recv &&
						strings.Join(s.Events[i+1].Guards, "&") == strings.Join(e.Guards, "&")
					c.Check(ok, r1, fmt.Sprintf("%s: early release #%d", declName(fd), n), p.Pos(e.Pos), "EmitRelease is followed by EmitInit of the same register",
						declName(fd)+" releases a register ("+e.Recv+") before the function epilogue without re-initialising it next: the epilogue releases every register again, so the reference is released twice and its block is freed while still in use")
				}
			}
		}
		c.Min(r1, "early releases of registers", n, 4)
	}

	// commaok siblings in the runtime .ws files
	const r2 = "commaok-sibling"
	m := readRuntimeWs(c, r2)
	n := 0
	for name, fn := range m.ByName {
		if !strings.HasSuffix(name, "_CommaOk") {
			continue
		}
		base, ok := m.ByName[strings.TrimSuffix(name, "_CommaOk")]
		if !ok {
			continue
		}
		n++
		calls := func(f *watFunc) string {
			var out []string
			for _, r := range f.Calls() {
				out = append(out, r.Name)
			}
			sort.Strings(out)
			return strings.Join(out, " ")
		}
		a, b := calls(base), calls(fn)
		c.Check(a == b, r2, name, fmt.Sprintf("%s:%d", fn.File, fn.Line), "same runtime calls as "+base.Name+": "+a,
			fmt.Sprintf("%s calls {%s} while its sibling %s calls {%s}: the two forms of the same operation treat reference counts differently (a missing Retain frees the object while the asserted value is live)", name, b, base.Name, a))
	}
	c.Min(r2, "X / X_CommaOk pairs in the runtime", n, 1)
}
