package main

import (
	"fmt"
	"go/ast"
	"go/constant"
	"go/token"
	"go/types"
	"strings"

	"golang.org/x/tools/go/packages"
)

// C23 rule panic-position-provenance, decided on resolved objects (no variable names): in genPanic
//   - the only Fset.Position(...) call takes <the *ssa.Panic parameter>.Pos();
//   - a string constant is built from <that position>.String();
//   - the emitted sequence is EmitStringValue(<message>), EmitStringValue(<that constant>), call $runtime.panic_.

func c23PanicOrder(c *Ctx, p *Prog, cw *packages.Package) {
	const rule = "panic-position-provenance"
	info := cw.TypesInfo
	fd := p.MustFunc(rule, cw, "functionGenerator.genPanic")
	if fd == nil {
		return
	}
	loc := p.Pos(fd.Pos())
	if fd.Type.Params == nil || len(fd.Type.Params.List) != 1 || len(fd.Type.Params.List[0].Names) != 1 {
		c.Undecided(rule, "genPanic: position argument", loc, "expected one named parameter (the panic instruction)")
		return
	}
	param := info.ObjectOf(fd.Type.Params.List[0].Names[0])
	// single-assignment locals
	defs := map[types.Object]ast.Expr{}
	count := map[types.Object]int{}
	ast.Inspect(fd.Body, func(n ast.Node) bool {
		if as, ok := n.(*ast.AssignStmt); ok && len(as.Lhs) == len(as.Rhs) {
			for i, l := range as.Lhs {
				if o := identObj(info, l); o != nil {
					count[o]++
					if as.Tok == token.DEFINE {
						defs[o] = as.Rhs[i]
					}
				}
			}
		}
		return true
	})
	var resolve func(e ast.Expr, depth int) ast.Expr
	resolve = func(e ast.Expr, depth int) ast.Expr {
		e = ast.Unparen(e)
		if o := identObj(info, e); o != nil && depth < 6 {
			if d, ok := defs[o]; ok && count[o] == 1 {
				return resolve(d, depth+1)
			}
		}
		return e
	}
	isMethodCallOn := func(e ast.Expr, method string, recvTest func(ast.Expr) bool) bool {
		call, ok := resolve(e, 0).(*ast.CallExpr)
		if !ok || len(call.Args) != 0 {
			return false
		}
		se, ok := call.Fun.(*ast.SelectorExpr)
		return ok && se.Sel.Name == method && recvTest(se.X)
	}
	// Position calls
	var posCalls []*ast.CallExpr
	ast.Inspect(fd.Body, func(n ast.Node) bool {
		if call, ok := n.(*ast.CallExpr); ok {
			if f := CalleeOf(info, call); f != nil && f.Name() == "Position" && strings.HasSuffix(FuncFullName(f), "token.FileSet.Position") && len(call.Args) == 1 {
				posCalls = append(posCalls, call)
			}
		}
		return true
	})
	if len(posCalls) != 1 {
		c.Fail(rule, "genPanic: position argument", loc, fmt.Sprintf("%d Fset.Position(...) calls found, expected exactly one: the message carries no (or an ambiguous) position", len(posCalls)))
		return
	}
	argOK := isMethodCallOn(posCalls[0].Args[0], "Pos", func(x ast.Expr) bool { return identObj(info, resolve(x, 0)) == param })
	c.Check(argOK, rule, "genPanic: position argument", p.Pos(posCalls[0].Pos()), "Fset.Position(<panic instruction>.Pos())",
		fmt.Sprintf("the position compiled into the message is Fset.Position(%s), not the position of the panicking instruction", types.ExprString(posCalls[0].Args[0])))
	isPosition := func(e ast.Expr) bool { return resolve(e, 0) == ast.Expr(posCalls[0]) }
	// is e the string constant NewConst(<position>.String(), …) ?
	isPosConst := func(e ast.Expr) bool {
		call, ok := resolve(e, 0).(*ast.CallExpr)
		if !ok || len(call.Args) != 2 {
			return false
		}
		if f := CalleeOf(info, call); f == nil || f.Name() != "NewConst" {
			return false
		}
		return isMethodCallOn(call.Args[0], "String", isPosition)
	}
	// emitted sequence, in source order
	type ev struct {
		kind string
		pos  token.Pos
	}
	var seq []ev
	havePosConst := false
	ast.Inspect(fd.Body, func(n ast.Node) bool {
		call, ok := n.(*ast.CallExpr)
		if !ok {
			return true
		}
		f := CalleeOf(info, call)
		if f == nil {
			return true
		}
		switch f.Name() {
		case "EmitStringValue":
			if len(call.Args) == 1 {
				if isPosConst(call.Args[0]) {
					seq = append(seq, ev{"position", call.Pos()})
					havePosConst = true
				} else {
					seq = append(seq, ev{"message", call.Pos()})
				}
			}
		case "NewInstCall":
			if len(call.Args) == 1 {
				if tv, ok := info.Types[call.Args[0]]; ok && tv.Value != nil && tv.Value.Kind() == constant.String {
					seq = append(seq, ev{"call " + constant.StringVal(tv.Value), call.Pos()})
				}
			}
		}
		return true
	})
	c.Check(havePosConst, rule, "genPanic: message constant", loc, "NewConst(<position>.String(), STRING) is emitted",
		"no string constant built from <position>.String() is emitted: the run-time message does not carry file:line:column of the panicking instruction")
	var names []string
	for _, e := range seq {
		names = append(names, e.kind)
	}
	got := strings.Join(names, ", ")
	c.Check(got == "message, position, call $runtime.panic_", rule, "genPanic: emission order", loc, "message, position, call $runtime.panic_",
		"genPanic emits ["+got+"]; the runtime expects the message, then the position, then the call to $runtime.panic_")
}
