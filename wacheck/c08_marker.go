package main

import (
	"fmt"
	"go/ast"
	"go/constant"
	"go/token"
	"go/types"
	"strings"

	"golang.org/x/tools/go/packages"
)

// C08 comment-marker-index (added after a crash was found by reading): the scanner hands over comment text in three
// shapes — "#…" (possibly the '#' alone), "//…" and "/*…" (at least two bytes). Code forked from go/printer and go/ast
// tells the shapes apart by reading Text[1], which is out of range for a bare '#': formatting "#\nfunc main {}"
// panicked. For every constant index T[k] and constant slice T[a:] / T[a:len(T)-b] on comment text — the Text field of
// ast.Comment, locals and parameters it is copied to, elements of string slices filled with it — the length needed must
// be established on the path: len(T) tests, strings.HasPrefix(T, "…"), an earlier index of the same text, or the
// scanner contract (text that does not start with '#' has two marker bytes). Flow-sensitive walk over the syntax tree.

type markerWalk struct {
	c      *Ctx
	p      *Prog
	info   *types.Info
	fname  string
	text   map[types.Object]bool // locals / params holding comment text
	slices map[types.Object]bool // []string filled with comment text
	seq    map[string]int
	sinks  int
	// classify mode (C07): judge the comparisons that tell the comment styles apart instead of the index bounds
	classify bool
	exempt   bool // inside a classification helper whose truth table was verified
	cmps     int
}

const markerRule = "comment-marker-index"
const hashRule = "hash-comment-is-line-comment"

func isCommentType(t types.Type) bool {
	if t == nil {
		return false
	}
	if pt, ok := t.(*types.Pointer); ok {
		t = pt.Elem()
	}
	n, ok := t.(*types.Named)
	return ok && n.Obj().Name() == "Comment" && n.Obj().Pkg() != nil && strings.HasSuffix(n.Obj().Pkg().Path(), "internal/ast")
}

// textKey returns a key for e when e denotes comment text ("" otherwise).
func (w *markerWalk) textKey(e ast.Expr) string {
	switch x := ast.Unparen(e).(type) {
	case *ast.SelectorExpr:
		if x.Sel.Name == "Text" {
			if tv, ok := w.info.Types[x.X]; ok && isCommentType(tv.Type) {
				return types.ExprString(x)
			}
		}
	case *ast.Ident:
		o := w.info.Uses[x]
		if o == nil {
			o = w.info.Defs[x]
		}
		if o != nil && w.text[o] {
			return "var:" + x.Name
		}
	}
	return ""
}

func markerInt(info *types.Info, e ast.Expr) (int, bool) {
	if e == nil {
		return 0, false
	}
	v, ok := constIntOf(info, e)
	return int(v), ok
}

func raise(m map[string]int, k string, v int) {
	if m[k] < v {
		m[k] = v
	}
}

// facts adds to out the minimal lengths known when cond evaluates to want.
func (w *markerWalk) facts(cond ast.Expr, want bool, out map[string]int) {
	switch x := ast.Unparen(cond).(type) {
	case *ast.UnaryExpr:
		if x.Op == token.NOT {
			w.facts(x.X, !want, out)
		}
	case *ast.CallExpr:
		// strings.HasPrefix(T, "lit") true
		if fn := CalleeOf(w.info, x); fn != nil && fn.Pkg() != nil && fn.Pkg().Path() == "strings" && fn.Name() == "HasPrefix" && len(x.Args) == 2 && want {
			if k := w.textKey(x.Args[0]); k != "" {
				if tv, ok := w.info.Types[x.Args[1]]; ok && tv.Value != nil && tv.Value.Kind() == constant.String {
					raise(out, k, len(constant.StringVal(tv.Value)))
				}
			}
		}
	case *ast.BinaryExpr:
		switch {
		case x.Op == token.LAND && want, x.Op == token.LOR && !want:
			w.facts(x.X, want, out)
			w.facts(x.Y, want, out)
			return
		case x.Op == token.LAND || x.Op == token.LOR:
			// the left operand is evaluated whatever the outcome
			w.evaluated(x.X, out)
			return
		}
		// len(T) OP k
		lhs, rhs, op := x.X, x.Y, x.Op
		if _, ok := markerInt(w.info, lhs); ok {
			lhs, rhs = rhs, lhs
			op = map[token.Token]token.Token{token.LSS: token.GTR, token.GTR: token.LSS, token.LEQ: token.GEQ, token.GEQ: token.LEQ, token.EQL: token.EQL, token.NEQ: token.NEQ}[op]
		}
		if call, ok := ast.Unparen(lhs).(*ast.CallExpr); ok && len(call.Args) == 1 {
			if id, ok := call.Fun.(*ast.Ident); ok && id.Name == "len" {
				if k := w.textKey(call.Args[0]); k != "" {
					if n, ok := markerInt(w.info, rhs); ok {
						if !want {
							op = map[token.Token]token.Token{token.LSS: token.GEQ, token.GTR: token.LEQ, token.LEQ: token.GTR, token.GEQ: token.LSS, token.EQL: token.NEQ, token.NEQ: token.EQL}[op]
						}
						switch op {
						case token.GTR:
							raise(out, k, n+1)
						case token.GEQ, token.EQL:
							raise(out, k, n)
						}
					}
				}
				return
			}
		}
		// T[j] == 'c' : evaluated (len > j); the scanner contract for j == 0
		if ix, ok := ast.Unparen(lhs).(*ast.IndexExpr); ok && (op == token.EQL || op == token.NEQ) {
			if k := w.textKey(ix.X); k != "" {
				if j, ok := markerInt(w.info, ix.Index); ok {
					raise(out, k, j+1)
					if ch, ok := markerInt(w.info, rhs); ok {
						isEq := (op == token.EQL) == want
						if j == 0 && ((ch == '#' && !isEq) || (ch == '/' && isEq)) {
							raise(out, k, 2) // "//…" and "/*…" have two marker bytes
							raise(out, k+"|nothash", 1)
						}
						if j == 1 && ch == '*' && isEq {
							// a block comment is closed by "*/" (an unterminated one is a syntax error, and files with
							// syntax errors are not formatted): at least "/**/"
							raise(out, k, 4)
						}
					}
				}
			}
		}
	}
}

// evaluated records indices of comment text that are read when e is evaluated (left-most operands only).
func (w *markerWalk) evaluated(e ast.Expr, out map[string]int) {
	switch x := ast.Unparen(e).(type) {
	case *ast.BinaryExpr:
		w.evaluated(x.X, out)
		if x.Op != token.LAND && x.Op != token.LOR {
			w.evaluated(x.Y, out)
		}
	case *ast.IndexExpr:
		if k := w.textKey(x.X); k != "" {
			if j, ok := markerInt(w.info, x.Index); ok {
				raise(out, k, j+1)
			}
		}
	}
}

func copyLens(m map[string]int) map[string]int {
	n := make(map[string]int, len(m)+2)
	for k, v := range m {
		n[k] = v
	}
	return n
}

func (w *markerWalk) with(f map[string]int, cond ast.Expr, want bool) map[string]int {
	n := copyLens(f)
	w.facts(cond, want, n)
	return n
}

func (w *markerWalk) have(f map[string]int, k string) int {
	if v, ok := f[k]; ok {
		return v
	}
	return 1 // a comment has at least its first marker byte
}

func (w *markerWalk) need(f map[string]int, k string, n int, pos token.Pos, what string) {
	if w.classify {
		return
	}
	w.sinks++
	key := fmt.Sprintf("%s: %s", w.fname, what)
	w.seq[key]++
	construct := fmt.Sprintf("%s #%d", key, w.seq[key])
	have := w.have(f, k)
	w.c.Check(have >= n, markerRule, construct, w.p.Pos(pos), fmt.Sprintf("length ≥ %d established on the path", n),
		fmt.Sprintf("%s: %s needs at least %d bytes of comment text but only %d are established on the path: a comment may be the '#' alone (and \"#*\" is two bytes), so this panics with an index out of range when such a comment is formatted, sorted or documented — the front end crashes on input the scanner accepts", w.fname, what, n, have))
}

func (w *markerWalk) expr(e ast.Expr, f map[string]int) {
	switch x := e.(type) {
	case nil:
	case *ast.ParenExpr:
		w.expr(x.X, f)
	case *ast.BinaryExpr:
		if w.classify && (x.Op == token.EQL || x.Op == token.NEQ) {
			w.styleTest(x, x.X, x.Y, f)
			w.styleTest(x, x.Y, x.X, f)
		}
		w.expr(x.X, f)
		switch x.Op {
		case token.LAND:
			w.expr(x.Y, w.with(f, x.X, true))
		case token.LOR:
			w.expr(x.Y, w.with(f, x.X, false))
		default:
			w.expr(x.Y, f)
		}
	case *ast.IndexExpr:
		if k := w.textKey(x.X); k != "" {
			if j, ok := markerInt(w.info, x.Index); ok {
				w.need(f, k, j+1, x.Pos(), fmt.Sprintf("%s[%d]", types.ExprString(x.X), j))
				raise(f, k, j+1)
			}
		} else {
			w.expr(x.X, f)
		}
		w.expr(x.Index, f)
	case *ast.SliceExpr:
		if k := w.textKey(x.X); k != "" {
			lo, okLo := 0, true
			if x.Low != nil {
				lo, okLo = markerInt(w.info, x.Low)
			}
			cut := 0
			if be, ok := ast.Unparen(x.High).(*ast.BinaryExpr); ok && be.Op == token.SUB {
				if call, ok := ast.Unparen(be.X).(*ast.CallExpr); ok && len(call.Args) == 1 && w.textKey(call.Args[0]) == k {
					if n, ok := markerInt(w.info, be.Y); ok {
						cut = n
					}
				}
			}
			if okLo && lo+cut > 0 {
				w.need(f, k, lo+cut, x.Pos(), types.ExprString(x))
			}
		} else {
			w.expr(x.X, f)
		}
		w.expr(x.Low, f)
		w.expr(x.High, f)
	case *ast.CallExpr:
		w.expr(x.Fun, f)
		for _, a := range x.Args {
			w.expr(a, f)
		}
	case *ast.SelectorExpr:
		w.expr(x.X, f)
	case *ast.UnaryExpr:
		w.expr(x.X, f)
	case *ast.StarExpr:
		w.expr(x.X, f)
	case *ast.TypeAssertExpr:
		w.expr(x.X, f)
	case *ast.KeyValueExpr:
		w.expr(x.Value, f)
	case *ast.CompositeLit:
		for _, el := range x.Elts {
			w.expr(el, f)
		}
	case *ast.FuncLit:
		w.stmts(x.Body.List, copyLens(f))
	}
}

// styleTest judges `T[1] == '/'` / `T[1] == '*'`: it tells //-style from /*-style comments and says nothing about a
// '#'-style comment, whose second byte is ordinary text ("#/ x", "#*").
func (w *markerWalk) styleTest(at ast.Node, lhs, rhs ast.Expr, f map[string]int) {
	ix, ok := ast.Unparen(lhs).(*ast.IndexExpr)
	if !ok {
		return
	}
	k := w.textKey(ix.X)
	if k == "" {
		return
	}
	j, ok1 := markerInt(w.info, ix.Index)
	ch, ok2 := markerInt(w.info, rhs)
	if !ok1 || !ok2 || j != 1 || (ch != '/' && ch != '*') {
		return
	}
	w.cmps++
	key := fmt.Sprintf("%s: %s tested against %q", w.fname, types.ExprString(lhs), rune(ch))
	w.seq[key]++
	construct := fmt.Sprintf("%s #%d", key, w.seq[key])
	good := w.exempt || f[k+"|nothash"] == 1
	w.c.Check(good, hashRule, construct, w.p.Pos(at.Pos()), "the text is known not to be a '#'-style comment here, or the test is inside a verified classification helper",
		fmt.Sprintf("%s decides the comment style from the second byte of the text without excluding '#'-style comments: `# c` is taken for a block comment (no line break is forced after it — a closing bracket or the next token is printed on the same line and becomes part of the comment, so the formatted text parses to another tree or not at all) and `#* c` / `#/ c` are misread", w.fname))
}

func (w *markerWalk) stmts(list []ast.Stmt, f map[string]int) {
	for _, s := range list {
		w.stmt(s, f)
	}
}

func (w *markerWalk) kill(l ast.Expr, f map[string]int, rhs ast.Expr) {
	k := w.textKey(l)
	if k == "" {
		return
	}
	// c = c[a:] : what is left after the cut
	if sl, ok := ast.Unparen(rhs).(*ast.SliceExpr); ok && w.textKey(sl.X) == k && sl.High == nil {
		if lo, ok := markerInt(w.info, sl.Low); ok {
			left := w.have(f, k) - lo
			if left < 0 {
				left = 0
			}
			f[k] = left
			return
		}
	}
	if w.textKey(rhs) != "" {
		f[k] = w.have(f, w.textKey(rhs))
		return
	}
	f[k] = 0
}

func (w *markerWalk) stmt(s ast.Stmt, f map[string]int) {
	switch x := s.(type) {
	case nil:
	case *ast.AssignStmt:
		for _, r := range x.Rhs {
			w.expr(r, f)
		}
		if len(x.Lhs) == len(x.Rhs) {
			for i, l := range x.Lhs {
				if x.Tok == token.DEFINE {
					if k, rk := w.textKey(l), w.textKey(x.Rhs[i]); k != "" && rk != "" {
						f[k] = w.have(f, rk)
					} else if k != "" {
						w.kill(l, f, x.Rhs[i])
					}
				} else {
					w.kill(l, f, x.Rhs[i])
				}
			}
		}
	case *ast.ExprStmt:
		w.expr(x.X, f)
	case *ast.ReturnStmt:
		for _, r := range x.Results {
			w.expr(r, f)
		}
	case *ast.DeferStmt:
		w.expr(x.Call, f)
	case *ast.GoStmt:
		w.expr(x.Call, f)
	case *ast.IncDecStmt:
		w.expr(x.X, f)
	case *ast.LabeledStmt:
		w.stmt(x.Stmt, f)
	case *ast.BlockStmt:
		w.stmts(x.List, f)
	case *ast.DeclStmt:
		if gd, ok := x.Decl.(*ast.GenDecl); ok {
			for _, sp := range gd.Specs {
				if vs, ok := sp.(*ast.ValueSpec); ok {
					for _, v := range vs.Values {
						w.expr(v, f)
					}
				}
			}
		}
	case *ast.IfStmt:
		inner := copyLens(f)
		w.stmt(x.Init, inner)
		w.expr(x.Cond, inner)
		w.stmts(x.Body.List, w.with(inner, x.Cond, true))
		elseTerm := false
		if x.Else != nil {
			w.stmt(x.Else, w.with(inner, x.Cond, false))
			if eb, ok := x.Else.(*ast.BlockStmt); ok {
				elseTerm = terminates(eb.List)
			}
		}
		if x.Init == nil {
			if terminates(x.Body.List) {
				w.facts(x.Cond, false, f)
			}
			if elseTerm {
				w.facts(x.Cond, true, f)
			}
		}
	case *ast.ForStmt:
		inner := copyLens(f)
		w.stmt(x.Init, inner)
		w.expr(x.Cond, inner)
		body := inner
		if x.Cond != nil {
			body = w.with(inner, x.Cond, true)
		}
		w.stmts(x.Body.List, body)
		w.stmt(x.Post, body)
	case *ast.RangeStmt:
		w.expr(x.X, f)
		inner := copyLens(f)
		// the loop variable holds a fresh comment each round
		if id, ok := x.Value.(*ast.Ident); ok {
			if o := w.info.Defs[id]; o != nil && w.text[o] {
				delete(inner, "var:"+id.Name)
			}
		}
		w.stmts(x.Body.List, inner)
	case *ast.SwitchStmt:
		inner := copyLens(f)
		w.stmt(x.Init, inner)
		w.expr(x.Tag, inner)
		if x.Tag != nil {
			w.evaluated(x.Tag, inner)
			if w.classify {
				for _, cc := range x.Body.List {
					for _, e := range cc.(*ast.CaseClause).List {
						w.styleTest(e, x.Tag, e, inner)
					}
				}
			}
		}
		// tagless switch: a case is reached only when the earlier cases were false
		reach := copyLens(inner)
		for _, cc := range x.Body.List {
			cl := cc.(*ast.CaseClause)
			body := copyLens(reach)
			for _, e := range cl.List {
				w.expr(e, reach)
			}
			if x.Tag == nil && len(cl.List) == 1 {
				w.facts(cl.List[0], true, body)
				w.facts(cl.List[0], false, reach)
				w.evaluated(cl.List[0], reach)
			}
			if x.Tag != nil && len(cl.List) == 1 {
				w.facts(&ast.BinaryExpr{X: x.Tag, Op: token.EQL, Y: cl.List[0]}, true, body)
			}
			w.stmts(cl.Body, body)
		}
	case *ast.TypeSwitchStmt:
		for _, cc := range x.Body.List {
			w.stmts(cc.(*ast.CaseClause).Body, copyLens(f))
		}
	}
}

func c08CommentMarkers(c *Ctx) {
	commentMarkers(c, false)
}

// c07HashComments runs the same walk in classify mode (rule hash-comment-is-line-comment).
func c07HashComments(c *Ctx) {
	commentMarkers(c, true)
}

func commentMarkers(c *Ctx, classify bool) {
	p := c.Load(LoadOpt{Light: true}, "./internal/ast", "./internal/printer", "./internal/printer/w2printer", "./internal/loader", "./internal/format")
	var pkgs []*packages.Package
	for _, rel := range []string{"internal/ast", "internal/printer", "internal/printer/w2printer", "internal/loader", "internal/format"} {
		if pk := p.MustPkg(markerRule, rel); pk != nil {
			pkgs = append(pkgs, pk)
		}
	}
	// taint: locals, parameters and string slices that hold comment text, to a fixed point over the packages
	type fnInfo struct {
		pk *packages.Package
		fd *ast.FuncDecl
	}
	var fns []fnInfo
	byObj := map[*types.Func]*ast.FuncDecl{}
	for _, pk := range pkgs {
		for _, f := range pk.Syntax {
			for _, d := range f.Decls {
				if fd, ok := d.(*ast.FuncDecl); ok && fd.Body != nil {
					fns = append(fns, fnInfo{pk, fd})
					if fo, ok := pk.TypesInfo.Defs[fd.Name].(*types.Func); ok {
						byObj[fo] = fd
					}
				}
			}
		}
	}
	text, slices := map[types.Object]bool{}, map[types.Object]bool{}
	for round := 0; round < 5; round++ {
		grew := false
		mark := func(m map[types.Object]bool, o types.Object) {
			if o != nil && !m[o] {
				m[o] = true
				grew = true
			}
		}
		for _, fi := range fns {
			info := fi.pk.TypesInfo
			w := &markerWalk{info: info, text: text, slices: slices}
			isText := func(e ast.Expr) bool {
				if w.textKey(e) != "" {
					return true
				}
				// an element of a tainted slice, or a cut of text
				switch x := ast.Unparen(e).(type) {
				case *ast.IndexExpr:
					if id, ok := x.X.(*ast.Ident); ok && slices[info.Uses[id]] {
						return true
					}
				case *ast.SliceExpr:
					return w.textKey(x.X) != ""
				}
				return false
			}
			objOf := func(e ast.Expr) types.Object {
				if id, ok := ast.Unparen(e).(*ast.Ident); ok {
					if o := info.Defs[id]; o != nil {
						return o
					}
					return info.Uses[id]
				}
				return nil
			}
			ast.Inspect(fi.fd.Body, func(n ast.Node) bool {
				switch x := n.(type) {
				case *ast.AssignStmt:
					if len(x.Lhs) != len(x.Rhs) {
						return true
					}
					for i, l := range x.Lhs {
						if !isText(x.Rhs[i]) {
							continue
						}
						if ix, ok := l.(*ast.IndexExpr); ok {
							mark(slices, objOf(ix.X))
						} else if o := objOf(l); o != nil {
							if b, ok := o.Type().Underlying().(*types.Basic); ok && b.Kind() == types.String {
								mark(text, o)
							}
						}
					}
				case *ast.RangeStmt:
					if id, ok := ast.Unparen(x.X).(*ast.Ident); ok && slices[info.Uses[id]] {
						if v, ok := x.Value.(*ast.Ident); ok {
							mark(text, info.Defs[v])
						}
					}
				case *ast.CallExpr:
					fn := CalleeOf(info, x)
					if id, ok := x.Fun.(*ast.Ident); ok && id.Name == "append" && len(x.Args) >= 2 {
						for _, a := range x.Args[1:] {
							if isText(a) {
								mark(slices, objOf(x.Args[0]))
							}
						}
					}
					if fn == nil || byObj[fn] == nil {
						return true
					}
					sig := fn.Type().(*types.Signature)
					for i, a := range x.Args {
						if i < sig.Params().Len() && isText(a) {
							if b, ok := sig.Params().At(i).Type().Underlying().(*types.Basic); ok && b.Kind() == types.String {
								mark(text, sig.Params().At(i))
							}
						}
					}
				}
				return true
			})
		}
		if !grew {
			break
		}
	}
	sinks, cmps, helpers := 0, 0, 0
	for _, fi := range fns {
		w := &markerWalk{c: c, p: p, info: fi.pk.TypesInfo, fname: declName(fi.fd), text: text, slices: slices, seq: map[string]int{}, classify: classify}
		if classify {
			if kind, why := classifyHelper(fi.pk.TypesInfo, fi.fd, text); kind != "" {
				helpers++
				w.exempt = why == ""
				c.Check(why == "", hashRule, fmt.Sprintf("%s: %s-comment test", w.fname, kind), p.Pos(fi.fd.Pos()), "answers for '#'-style text as the style requires", why)
			}
		}
		w.stmts(fi.fd.Body.List, map[string]int{})
		sinks += w.sinks
		cmps += w.cmps
	}
	if classify {
		c.Min(hashRule, "comment style tests (helpers and comparisons)", helpers+cmps, 4)
		return
	}
	c.Count("comment_text_variables", len(text))
	c.Min(markerRule, "constant indices and cuts of comment text", sinks, 8)
}

// classifyHelper recognises a predicate over comment text (one string parameter that receives comment text, one bool
// result) that tests the second byte against '/' (a line-comment test) or '*' (a block-comment test), and evaluates
// its truth table (boolfn.go): with text[0] == '#' a line-comment test must answer true and a block-comment test false.
func classifyHelper(info *types.Info, fd *ast.FuncDecl, text map[types.Object]bool) (kind, why string) {
	if fd.Type.Results == nil || len(fd.Type.Results.List) != 1 || fd.Type.Params == nil || len(fd.Type.Params.List) != 1 || len(fd.Type.Params.List[0].Names) != 1 {
		return "", ""
	}
	if tv, ok := info.Types[fd.Type.Results.List[0].Type]; !ok || !types.Identical(tv.Type, types.Typ[types.Bool]) {
		return "", ""
	}
	pn := fd.Type.Params.List[0].Names[0]
	if !text[info.Defs[pn]] {
		return "", ""
	}
	outs, atoms, undec := boolFnTable(info, fd)
	hash, slash, star := "'#' == "+pn.Name+"[0]", "'/' == "+pn.Name+"[1]", "'*' == "+pn.Name+"[1]"
	has := map[string]bool{}
	for _, a := range atoms {
		has[a] = true
	}
	switch {
	case has[slash] && !has[star]:
		kind = "line"
	case has[star] && !has[slash]:
		kind = "block"
	default:
		return "", ""
	}
	if undec != "" {
		return kind, "the helper is outside the evaluated fragment: " + undec
	}
	slash0 := "'/' == " + pn.Name + "[0]"
	if !has[hash] && !has[slash0] {
		return kind, fmt.Sprintf("%s never tests %s[0] (against '#' or '/'): a '#'-style comment is classified by its second byte, which is ordinary text", declName(fd), pn.Name)
	}
	for _, o := range outs {
		// the first byte of comment text is '#' or '/'
		isHash := o.Env[hash]
		if !has[hash] {
			isHash = !o.Env[slash0]
		}
		if isHash && o.Val != (kind == "line") {
			return kind, fmt.Sprintf("%s answers %v for a '#'-style comment (%s): '#' comments extend to the end of the line, so they are line comments and never block comments", declName(fd), o.Val, envText(o.Env, atoms))
		}
	}
	return kind, ""
}
