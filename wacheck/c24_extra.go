package main

import (
	"go/ast"
	"go/token"
	"go/types"
	"sort"
	"strings"

	"golang.org/x/tools/go/packages"
)

// C24 extra rules (added after seeded changes were missed):
//
//   print-precedence — an expression printer must parenthesise every operand whose operator binds looser than its own:
//       `!` over && and ||, `&&` over ||. Without it !(a || b) prints as !a || b, which re-parses to another function.
//   build-line-search — the search for the #wa:build line falls back to the file's other comment groups whenever the
//       doc comment did not contain one (not only when the file has no doc comment).

// parenthesised returns the operand types that fn (or the helper it calls for its operand) wraps in parentheses.
func c24Parenthesised(pk *packages.Package, fd *ast.FuncDecl, depth int) map[string]bool {
	out := map[string]bool{}
	if fd == nil || fd.Body == nil || depth > 2 {
		return out
	}
	info := pk.TypesInfo
	wraps := func(n ast.Node) bool {
		found := false
		ast.Inspect(n, func(m ast.Node) bool {
			if bl, ok := m.(*ast.BasicLit); ok && bl.Kind == token.STRING && strings.Trim(bl.Value, "\"`") == "(" {
				found = true
			}
			return true
		})
		return found
	}
	ast.Inspect(fd.Body, func(n ast.Node) bool {
		switch x := n.(type) {
		case *ast.TypeSwitchStmt:
			for _, arm := range TypeSwitchArms(info, x) {
				body := &ast.BlockStmt{List: arm.Body}
				if wraps(body) {
					for _, t := range arm.Types {
						out[namedTypeName(t)] = true
					}
				}
			}
		case *ast.IfStmt:
			// if _, ok := x.(*T); ok { s = "(" + s + ")" }
			if as, ok := x.Init.(*ast.AssignStmt); ok && len(as.Rhs) == 1 {
				if ta, ok := as.Rhs[0].(*ast.TypeAssertExpr); ok && ta.Type != nil && wraps(x.Body) {
					out[namedTypeName(info.TypeOf(ta.Type))] = true
				}
			}
		case *ast.CallExpr:
			if fn := CalleeOf(info, x); fn != nil && fn.Pkg() == pk.Types {
				if sig, ok := fn.Type().(*types.Signature); ok && sig.Recv() == nil {
					for k := range c24Parenthesised(pk, FuncDecl(pk, fn.Name()), depth+1) {
						out[k] = true
					}
				}
			}
		}
		return true
	})
	return out
}

func c24Extra(c *Ctx, p *Prog, bt, ld *packages.Package) {
	const r1, r2 = "print-precedence", "build-line-search"
	if bt != nil {
		need := map[string][]string{"NotExpr": {"AndExpr", "OrExpr"}, "AndExpr": {"OrExpr"}}
		for _, op := range []string{"NotExpr", "AndExpr"} {
			fd := p.MustFunc(r1, bt, op+".String")
			if fd == nil {
				continue
			}
			got := c24Parenthesised(bt, fd, 0)
			var missing []string
			for _, t := range need[op] {
				if !got[t] {
					missing = append(missing, t)
				}
			}
			sort.Strings(missing)
			c.Check(len(missing) == 0, r1, op+".String", p.Pos(fd.Pos()), "operands "+strings.Join(need[op], ", ")+" are parenthesised",
				op+".String does not parenthesise operands of type "+strings.Join(missing, ", ")+", whose operators bind looser: the printed constraint re-parses to a different Boolean function (e.g. !(a || b) becomes !a || b)")
		}
	}
	if ld != nil {
		fd := p.MustFunc(r2, ld, "_Loader.isSkipedAstFile")
		if fd == nil {
			return
		}
		// the range over f.Comments: which conditions guard it?
		found := false
		var guards []string
		var walk func(list []ast.Stmt, conds []string)
		walk = func(list []ast.Stmt, conds []string) {
			for _, s := range list {
				switch x := s.(type) {
				case *ast.IfStmt:
					cnd := strings.ReplaceAll(types.ExprString(x.Cond), " ", "")
					walk(x.Body.List, append(append([]string{}, conds...), cnd))
					switch el := x.Else.(type) {
					case *ast.BlockStmt:
						walk(el.List, append(append([]string{}, conds...), "!("+cnd+")"))
					case *ast.IfStmt:
						walk([]ast.Stmt{el}, append(append([]string{}, conds...), "!("+cnd+")"))
					}
				case *ast.RangeStmt:
					if strings.HasSuffix(strings.ReplaceAll(types.ExprString(x.X), " ", ""), ".Comments") && !found {
						found = true
						guards = conds
					}
					walk(x.Body.List, conds)
				case *ast.ForStmt:
					walk(x.Body.List, conds)
				case *ast.BlockStmt:
					walk(x.List, conds)
				}
			}
		}
		walk(fd.Body.List, nil)
		if !found {
			c.Undecided(r2, "isSkipedAstFile: scan of f.Comments", p.Pos(fd.Pos()), "the fallback scan over the file's comment groups was not found")
			return
		}
		bad := ""
		for _, g := range guards {
			if strings.Contains(g, ".Doc") {
				bad = g
			}
		}
		c.Check(bad == "", r2, "isSkipedAstFile: scan of f.Comments", p.Pos(fd.Pos()), "runs whenever the doc comment held no build line (guards: "+strings.Join(guards, " && ")+")",
			"the fallback scan of the file's comment groups only runs under "+bad+": a #wa:build line that sits in a separate comment group of a file whose first declaration is documented is never found, and the file is included in every configuration")
	}
}
