package main

import (
	"fmt"
	"go/ast"
	"go/types"
	"strings"

	"golang.org/x/tools/go/packages"
)

// C11 borrowed-value-register (added after a use-after-free was found by a sub-agent's probing and repaired): the
// value of an instruction is popped into its register in genInstruction. The register either is created right there or
// was created earlier by getValue, because a phi that comes first in block order refers to the instruction. A value
// produced while reference counting is disabled (field and index addresses) is borrowed, so in *both* cases the
// register must not own it: the pop is the NoRelease form chosen under a test of the rc-disabled state. If one of the
// two cases pops with the owning form, the borrowed reference is released on every re-assignment and at function exit
// and the object is freed while still referenced.

func c11BorrowedRegister(c *Ctx, p *Prog, bk *packages.Package) {
	const rule = "borrowed-value-register"
	fd := p.MustFunc(rule, bk, "functionGenerator.genInstruction")
	if fd == nil {
		return
	}
	var fork *ast.IfStmt
	ast.Inspect(fd.Body, func(n ast.Node) bool {
		ifs, ok := n.(*ast.IfStmt)
		if !ok || fork != nil {
			return fork == nil
		}
		if as, ok := ifs.Init.(*ast.AssignStmt); ok && len(as.Rhs) == 1 {
			if ix, ok := as.Rhs[0].(*ast.IndexExpr); ok && strings.HasSuffix(types.ExprString(ix.X), "locals_map") && ifs.Else != nil {
				// the lookup of the instruction being compiled (not of an operand)
				// (the parameter itself, or the variable a type switch on it binds under the same name)
				if id, ok := ix.Index.(*ast.Ident); ok {
					for _, fl := range fd.Type.Params.List {
						for _, nm := range fl.Names {
							if nm.Name == id.Name {
								fork = ifs
							}
						}
					}
				}
			}
		}
		return fork == nil
	})
	if fork == nil {
		c.Undecided(rule, "genInstruction: register of the compiled value", p.Pos(fd.Pos()), "the `if v, ok := g.locals_map[inst]; ok { … } else { … }` fork was not found")
		return
	}
	arm := func(name string, body ast.Node) {
		guarded := false // a NoRelease pop under a condition on the rc-disabled state
		owning := 0
		var walk func(n ast.Node, underRc bool)
		walk = func(n ast.Node, underRc bool) {
			ast.Inspect(n, func(m ast.Node) bool {
				switch x := m.(type) {
				case *ast.IfStmt:
					s := types.ExprString(x.Cond)
					rc := strings.Contains(s, "RcDisable") || strings.Contains(s, "none_rc_registers")
					walk(x.Body, underRc || rc)
					if x.Else != nil {
						walk(x.Else, underRc)
					}
					return false
				case *ast.CallExpr:
					if se, ok := x.Fun.(*ast.SelectorExpr); ok {
						switch se.Sel.Name {
						case "EmitPopNoRelease":
							if underRc {
								guarded = true
							}
						case "EmitPop":
							owning++
						}
					}
				}
				return true
			})
		}
		walk(body, false)
		c.Check(guarded, rule, "genInstruction: "+name, p.Pos(body.Pos()), "a borrowed value is popped without release into a non-counting register",
			fmt.Sprintf("genInstruction: when the register of the compiled value %s, the value is popped with the owning form whatever the rc-disabled state is (%d owning pops, no NoRelease pop under a test of RcDisable / none_rc_registers): a field or index address — borrowed, produced with reference counting disabled — becomes owned by its register, is released on every re-assignment and at function exit, and the object it points into is freed while still in use", name, owning))
	}
	arm("already exists (created ahead by a phi)", fork.Body)
	arm("is created at the definition", fork.Else)
}
