package main

import (
	"go/ast"
	"go/token"
	"go/types"
	"strings"
)

// outputContract reads one test loop of runTest for the four combinations of two facts: D — the test declares an
// output (`t.Output != ""`), E — the declared output equals the output of the run (`t.Output == string(stdout)`,
// directly or through locals such as `expect, got := t.Output, string(stdout)`). Conditions are evaluated in three
// values (anything that is not built from D and E is unknown); a statement is "reached for sure" in a world when every
// condition around it is true there, tests of `firstError == nil` aside.
//
//	passEq  — a `continue` that depends on E is reached for sure when D and E hold, and in no other world;
//	failNeq — an assignment to firstError that depends on E is reached for sure when D holds and E does not, and in
//	          no other world.
func outputContract(info *types.Info, fd *ast.FuncDecl, loopBody *ast.BlockStmt) (passEq, failNeq bool, why []string) {
	ld := newLocalDefs(info, fd)
	isEmptyStr := func(e ast.Expr) bool {
		bl, ok := ast.Unparen(e).(*ast.BasicLit)
		return ok && bl.Kind == token.STRING && (bl.Value == `""` || bl.Value == "``")
	}
	isDeclared := func(e ast.Expr) bool { return strings.HasSuffix(ld.render(e), ".Output") }
	isActual := func(e ast.Expr) bool { r := ld.render(e); return r == "stdout" || strings.HasSuffix(r, ".stdout") }
	// three-valued: +1 true, -1 false, 0 unknown; usesE reports whether E took part
	var eval func(e ast.Expr, D, E bool) (int, bool)
	eval = func(e ast.Expr, D, E bool) (int, bool) {
		e = ast.Unparen(e)
		switch x := e.(type) {
		case *ast.UnaryExpr:
			if x.Op == token.NOT {
				v, u := eval(x.X, D, E)
				return -v, u
			}
		case *ast.BinaryExpr:
			switch x.Op {
			case token.LAND, token.LOR:
				a, ua := eval(x.X, D, E)
				b, ub := eval(x.Y, D, E)
				u := ua || ub
				if x.Op == token.LAND {
					switch {
					case a < 0 || b < 0:
						return -1, u
					case a > 0 && b > 0:
						return +1, u
					}
					return 0, u
				}
				switch {
				case a > 0 || b > 0:
					return +1, u
				case a < 0 && b < 0:
					return -1, u
				}
				return 0, u
			case token.EQL, token.NEQ:
				sign := 1
				if x.Op == token.NEQ {
					sign = -1
				}
				tv := func(b bool) int {
					if b {
						return sign
					}
					return -sign
				}
				switch {
				case (isDeclared(x.X) && isEmptyStr(x.Y)) || (isDeclared(x.Y) && isEmptyStr(x.X)):
					return tv(!D), false // Output == ""
				case (isDeclared(x.X) && isActual(x.Y)) || (isDeclared(x.Y) && isActual(x.X)):
					return tv(E), true
				}
			}
		}
		return 0, false
	}
	type site struct {
		kind  string // continue | record
		reach map[[2]bool]bool
	}
	var sites []*site
	worlds := [][2]bool{{true, true}, {true, false}, {false, true}, {false, false}}
	// walk: sure[w] — reached for sure in world w; dep — some enclosing condition used E
	var walk func(list []ast.Stmt, sure map[[2]bool]bool, dep bool)
	walk = func(list []ast.Stmt, sure map[[2]bool]bool, dep bool) {
		for _, s := range list {
			switch x := s.(type) {
			case *ast.BlockStmt:
				walk(x.List, sure, dep)
			case *ast.IfStmt:
				cs := strings.ReplaceAll(types.ExprString(x.Cond), " ", "")
				if cs == "firstError==nil" {
					walk(x.Body.List, sure, dep)
					continue
				}
				thenSure, elseSure := map[[2]bool]bool{}, map[[2]bool]bool{}
				usesE := false
				for _, w := range worlds {
					v, u := eval(x.Cond, w[0], w[1])
					usesE = usesE || u
					thenSure[w] = sure[w] && v > 0
					elseSure[w] = sure[w] && v < 0
				}
				walk(x.Body.List, thenSure, dep || usesE)
				switch e := x.Else.(type) {
				case *ast.BlockStmt:
					walk(e.List, elseSure, dep || usesE)
				case *ast.IfStmt:
					walk([]ast.Stmt{e}, elseSure, dep || usesE)
				}
			case *ast.BranchStmt:
				if x.Tok == token.CONTINUE && dep {
					sites = append(sites, &site{"continue", sure})
				}
			case *ast.AssignStmt:
				for _, l := range x.Lhs {
					if id, ok := l.(*ast.Ident); ok && id.Name == "firstError" && dep {
						sites = append(sites, &site{"record", sure})
					}
				}
			}
		}
	}
	all := map[[2]bool]bool{}
	for _, w := range worlds {
		all[w] = true
	}
	walk(loopBody.List, all, false)
	name := func(w [2]bool) string {
		d := map[bool]string{true: "an output is declared", false: "no output is declared"}[w[0]]
		e := map[bool]string{true: "it equals the run's output", false: "it differs from the run's output"}[w[1]]
		return d + " and " + e
	}
	reach := func(kind string, w [2]bool) bool {
		for _, s := range sites {
			if s.kind == kind && s.reach[w] {
				return true
			}
		}
		return false
	}
	passEq, failNeq = true, true
	for _, w := range worlds {
		wantPass := w[0] && w[1]
		if got := reach("continue", w); got != wantPass {
			passEq = false
			why = append(why, "when "+name(w)+" the test is "+map[bool]string{true: "passed", false: "not passed"}[got]+" by the output comparison")
		}
		wantFail := w[0] && !w[1]
		if got := reach("record", w); got != wantFail {
			failNeq = false
			why = append(why, "when "+name(w)+" a failure is "+map[bool]string{true: "recorded", false: "not recorded"}[got]+" by the output comparison")
		}
	}
	return
}
