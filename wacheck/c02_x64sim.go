package main

import (
	"fmt"
	"math"
	"math/bits"
	"regexp"
	"strconv"
	"strings"
)

// c02_x64sim.go — a model of the x86-64 instructions the float min/max and conversion templates of wat2x64 use.
// Nothing is assembled or run: the rule reads the template lines of an arm (x64ArmLines) and this model tells what they
// store into the result slot for given contents of the operand slots. General registers are 64-bit (a write to the
// 32-bit name clears the upper half, as the hardware does); xmm registers are modelled by their low 64 bits; flags are
// ZF, SF, CF, PF. An instruction outside the model stops the interpretation ("undecided").

type x64Sim struct {
	gpr            map[string]uint64
	xmm            map[string]uint64
	zf, sf, cf, pf bool
	of             bool
	stack          []x64Saved
}

type x64Saved struct {
	v   uint64
	def bool
}

type x64Reg struct {
	base string
	bits int
}

var x64RegInfo = func() map[string]x64Reg {
	m := map[string]x64Reg{}
	for _, r := range []string{"ax", "bx", "cx", "dx", "si", "di", "bp", "sp"} {
		m["r"+r] = x64Reg{"r" + r, 64}
		m["e"+r] = x64Reg{"r" + r, 32}
		m[r] = x64Reg{"r" + r, 16}
	}
	for _, r := range []string{"a", "b", "c", "d"} {
		m[r+"l"] = x64Reg{"r" + r + "x", 8}
	}
	for i := 8; i <= 15; i++ {
		n := fmt.Sprintf("r%d", i)
		m[n] = x64Reg{n, 64}
		m[n+"d"] = x64Reg{n, 32}
		m[n+"w"] = x64Reg{n, 16}
		m[n+"b"] = x64Reg{n, 8}
	}
	return m
}()

func maskBits(bits int) uint64 {
	if bits >= 64 {
		return ^uint64(0)
	}
	return (uint64(1) << uint(bits)) - 1
}

func (m *x64Sim) getReg(name string) (uint64, int, bool) {
	r, ok := x64RegInfo[name]
	if !ok {
		return 0, 0, false
	}
	v, def := m.gpr[r.base]
	if !def {
		return 0, 0, false
	}
	return v & maskBits(r.bits), r.bits, true
}

func (m *x64Sim) setReg(name string, v uint64) bool {
	r, ok := x64RegInfo[name]
	if !ok {
		return false
	}
	switch r.bits {
	case 64:
		m.gpr[r.base] = v
	case 32:
		m.gpr[r.base] = v & 0xFFFFFFFF
	default:
		old := m.gpr[r.base]
		m.gpr[r.base] = (old &^ maskBits(r.bits)) | (v & maskBits(r.bits))
	}
	return true
}

var reX64Mem = regexp.MustCompile(`^(byte|word|dword|qword) ptr \[([^\]]+)\]$`)

// x64World: what the interpreted lines see besides the operand slots — the values of global symbols read through
// `[rip+%s]` (by the text of the argument), the values of numeric template arguments such as a memarg offset (by the text
// of the argument), and linear memory (absolute address -> byte). Writes go to Written.
type x64World struct {
	Syms    map[string]uint64
	Imms    map[string]int64
	Mem     map[uint64]byte
	Written map[uint64]byte
}

func parseImm(s string) (uint64, bool) {
	s = strings.TrimSpace(s)
	neg := strings.HasPrefix(s, "-")
	s = strings.TrimPrefix(s, "-")
	var v uint64
	var err error
	if strings.HasPrefix(s, "0x") || strings.HasPrefix(s, "0X") {
		v, err = strconv.ParseUint(s[2:], 16, 64)
	} else {
		v, err = strconv.ParseUint(s, 10, 64)
	}
	if err != nil {
		return 0, false
	}
	if neg {
		v = -v
	}
	return v, true
}

type x64Slot struct {
	bits  uint64 // the 64-bit content of the operand slot (a 32-bit operand has a poisoned upper half)
	width int
}

// x64Run interprets the lines. slots: contents of the operand slots by the name of the Go variable that holds the
// slot's offset; ret: the name of the result slot. Answers the stored bits and the width of the last store to ret.
func x64Run(lines []x64Line, slots map[string]x64Slot, ret string) (uint64, int, string) {
	return x64RunW(lines, slots, ret, nil)
}

func x64RunW(lines []x64Line, slots map[string]x64Slot, ret string, world *x64World) (uint64, int, string) {
	m := &x64Sim{gpr: map[string]uint64{}, xmm: map[string]uint64{}}
	// memAddr: the linear address a memory operand other than a slot names ("" when it is a slot); sym for [rip+%s]
	var nextArgFn func() string
	memAddr := func(inner string) (addr uint64, kind string, ok bool) {
		inner = strings.TrimSpace(inner)
		switch {
		case inner == "rbp%+d":
			return 0, "slot", true
		case inner == "rip+%s":
			return 0, "sym", true
		}
		if world == nil {
			return 0, "", false
		}
		var sum uint64
		for _, term := range strings.FieldsFunc(strings.ReplaceAll(strings.ReplaceAll(inner, "%+d", "+%d"), "-", "+-"), func(r rune) bool { return r == '+' }) {
			term = strings.TrimSpace(term)
			switch {
			case term == "":
			case term == "%d":
				v, okv := world.Imms[nextArgFn()]
				if !okv {
					return 0, "", false
				}
				sum += uint64(v)
			default:
				if v, _, okr := m.getReg(term); okr {
					sum += v
				} else if v, oki := parseImm(term); oki {
					sum += v
				} else {
					return 0, "", false
				}
			}
		}
		return sum, "mem", true
	}
	labelAt := map[string]int{}
	for i, l := range lines {
		if l.label != "" {
			labelAt[l.label] = i
		}
	}
	var result *uint64
	resWidth := 0
	steps := 0
	f32 := func(b uint64) float64 { return float64(math.Float32frombits(uint32(b))) }
	f64 := func(b uint64) float64 { return math.Float64frombits(b) }
	for pc := 0; pc < len(lines); pc++ {
		if steps++; steps > 400 {
			return 0, 0, "the arm does not reach its end"
		}
		l := lines[pc]
		if l.label != "" {
			continue
		}
		text := strings.TrimSpace(l.text)
		mm := reX64Ins.FindStringSubmatch(l.text)
		if mm == nil {
			if strings.HasPrefix(text, "#") || text == "" {
				continue
			}
			return 0, 0, "line not read: " + text
		}
		op := mm[1]
		var ops []string
		for _, o := range strings.Split(mm[2], ",") {
			if o = strings.TrimSpace(o); o != "" {
				ops = append(ops, o)
			}
		}
		argi := 0
		nextArg := func() string {
			if argi < len(l.args) {
				argi++
				return l.args[argi-1]
			}
			return ""
		}
		// generic operand read: value and width (width 0 for an immediate)
		read := func(o string) (uint64, int, bool) {
			if mem := reX64Mem.FindStringSubmatch(o); mem != nil {
				w := map[string]int{"byte": 8, "word": 16, "dword": 32, "qword": 64}[mem[1]]
				nextArgFn = nextArg
				addr, kind, ok := memAddr(mem[2])
				switch {
				case !ok:
					return 0, 0, false
				case kind == "slot":
					sl, ok := slots[nextArg()]
					if !ok {
						return 0, 0, false
					}
					return sl.bits & maskBits(w), w, true
				case kind == "sym":
					if world == nil {
						return 0, 0, false
					}
					v, ok := world.Syms[nextArg()]
					return v & maskBits(w), w, ok
				}
				var v uint64
				for i := 0; i < w/8; i++ {
					b, okb := world.Written[addr+uint64(i)]
					if !okb {
						b, okb = world.Mem[addr+uint64(i)]
					}
					if !okb {
						return 0, 0, false // a read outside the bytes the rule laid out
					}
					v |= uint64(b) << (8 * uint(i))
				}
				return v, w, true
			}
			if strings.HasPrefix(o, "xmm") {
				v, ok := m.xmm[o]
				return v, 128, ok
			}
			if v, w, ok := m.getReg(o); ok {
				return v, w, true
			}
			if _, isReg := x64RegInfo[o]; isReg {
				return 0, 0, false // read of an undefined register
			}
			if v, ok := parseImm(o); ok {
				return v, 0, true
			}
			return 0, 0, false
		}
		store := func(o string, v uint64) bool {
			if mem := reX64Mem.FindStringSubmatch(o); mem != nil {
				w := map[string]int{"byte": 8, "word": 16, "dword": 32, "qword": 64}[mem[1]]
				nextArgFn = nextArg
				addr, kind, ok := memAddr(mem[2])
				switch {
				case !ok || kind == "sym":
					return false
				case kind == "slot":
					if nextArg() == ret {
						r := v & maskBits(w)
						result, resWidth = &r, w
					}
					return true
				}
				for i := 0; i < w/8; i++ {
					world.Written[addr+uint64(i)] = byte(v >> (8 * uint(i)))
				}
				return true
			}
			if strings.HasPrefix(o, "xmm") {
				m.xmm[o] = v
				return true
			}
			return m.setReg(o, v)
		}
		jump := func(cond bool) string {
			if len(l.args) != 1 {
				return "jump without a label argument"
			}
			if !cond {
				return ""
			}
			at, ok := labelAt[l.args[0]]
			if !ok {
				return "jump to a label the arm does not define: " + l.args[0]
			}
			pc = at
			return ""
		}
		setZS := func(v uint64, w int) {
			v &= maskBits(w)
			m.zf = v == 0
			m.sf = v>>(uint(w)-1)&1 == 1
		}
		bad := func() (uint64, int, string) { return 0, 0, "operands not read in `" + text + "`" }
		switch {
		case op == "mov" || op == "movabs" || op == "movq" || op == "movd":
			if len(ops) != 2 {
				return bad()
			}
			// destination first in the argument order when it is the memory operand
			if reX64Mem.MatchString(ops[0]) {
				v, _, ok := read(ops[1])
				if !ok || !store(ops[0], v) {
					return bad()
				}
				continue
			}
			v, w, ok := read(ops[1])
			if !ok {
				return bad()
			}
			if strings.HasPrefix(ops[0], "xmm") {
				// movd/movq from a general register: the rest of the register is cleared
				if op == "movd" {
					v &= 0xFFFFFFFF
				}
			} else if w == 128 {
				// xmm -> general register
				if op == "movd" {
					v &= 0xFFFFFFFF
				}
			}
			if !store(ops[0], v) {
				return bad()
			}
		case op == "movss" || op == "movsd" || op == "movaps" || op == "movapd":
			if len(ops) != 2 {
				return bad()
			}
			if reX64Mem.MatchString(ops[0]) {
				v, ok := m.xmm[ops[1]]
				if !ok || !store(ops[0], v) {
					return bad()
				}
				continue
			}
			v, _, ok := read(ops[1])
			if !ok {
				return bad()
			}
			if op == "movss" && reX64Mem.MatchString(ops[1]) {
				v &= 0xFFFFFFFF // a load clears the rest of the register
			} else if op == "movss" {
				v = (m.xmm[ops[0]] &^ 0xFFFFFFFF) | (v & 0xFFFFFFFF)
			}
			m.xmm[ops[0]] = v
		case len(op) == 5 && (strings.HasSuffix(op, "ss") || strings.HasSuffix(op, "sd")) && strings.Contains("min max add sub mul div", op[:3]):
			x, ok1 := m.xmm[ops[0]]
			y, _, ok2 := read(ops[1])
			if !ok1 || !ok2 {
				return bad()
			}
			wide := strings.HasSuffix(op, "sd")
			var a, b float64
			if wide {
				a, b = f64(x), f64(y)
			} else {
				a, b = f32(x), f32(y)
			}
			var r float64
			switch op[:3] {
			case "min":
				if a < b {
					r = a
				} else {
					r = b
				}
			case "max":
				if a > b {
					r = a
				} else {
					r = b
				}
			case "add":
				r = a + b
			case "sub":
				r = a - b
			case "mul":
				r = a * b
			case "div":
				r = a / b
			}
			if wide {
				m.xmm[ops[0]] = math.Float64bits(r)
			} else {
				m.xmm[ops[0]] = (x &^ 0xFFFFFFFF) | uint64(math.Float32bits(float32(r)))
			}
		case op == "orps" || op == "orpd" || op == "andps" || op == "andpd" || op == "xorps" || op == "xorpd":
			x, ok1 := m.xmm[ops[0]]
			y, _, ok2 := read(ops[1])
			if !ok1 || !ok2 {
				return bad()
			}
			switch op[:2] {
			case "or":
				x |= y
			case "an":
				x &= y
			default:
				x ^= y
			}
			m.xmm[ops[0]] = x
		case op == "ucomiss" || op == "ucomisd" || op == "comiss" || op == "comisd":
			x, ok1 := m.xmm[ops[0]]
			y, _, ok2 := read(ops[1])
			if !ok1 || !ok2 {
				return bad()
			}
			var a, b float64
			if strings.HasSuffix(op, "sd") {
				a, b = f64(x), f64(y)
			} else {
				a, b = f32(x), f32(y)
			}
			if math.IsNaN(a) || math.IsNaN(b) {
				m.zf, m.pf, m.cf = true, true, true
			} else {
				m.zf, m.pf, m.cf = a == b, false, a < b
			}
			m.sf = false
		case op == "cvtsi2ss" || op == "cvtsi2sd":
			v, w, ok := read(ops[1])
			if !ok || (w != 32 && w != 64) {
				return bad()
			}
			var iv int64
			if w == 32 {
				iv = int64(int32(uint32(v)))
			} else {
				iv = int64(v)
			}
			if op == "cvtsi2sd" {
				m.xmm[ops[0]] = math.Float64bits(float64(iv))
			} else {
				m.xmm[ops[0]] = (m.xmm[ops[0]] &^ 0xFFFFFFFF) | uint64(math.Float32bits(float32(iv)))
			}
		case op == "cvttss2si" || op == "cvttsd2si":
			x, ok := m.xmm[ops[1]]
			r, isReg := x64RegInfo[ops[0]]
			if !ok || !isReg || (r.bits != 32 && r.bits != 64) {
				return bad()
			}
			var a float64
			if op == "cvttsd2si" {
				a = f64(x)
			} else {
				a = f32(x)
			}
			t := math.Trunc(a)
			var out uint64
			if r.bits == 32 {
				if math.IsNaN(a) || t < -2147483648 || t > 2147483647 {
					out = 0x80000000 // the "integer indefinite"
				} else {
					out = uint64(uint32(int32(t)))
				}
			} else {
				if math.IsNaN(a) || t < -9223372036854775808 || t >= 9223372036854775808 {
					out = 0x8000000000000000
				} else {
					out = uint64(int64(t))
				}
			}
			m.setReg(ops[0], out)
		case op == "cvtss2sd":
			x, _, ok := read(ops[1])
			if !ok {
				return bad()
			}
			m.xmm[ops[0]] = math.Float64bits(f32(x))
		case op == "cvtsd2ss":
			x, _, ok := read(ops[1])
			if !ok {
				return bad()
			}
			m.xmm[ops[0]] = (m.xmm[ops[0]] &^ 0xFFFFFFFF) | uint64(math.Float32bits(float32(f64(x))))
		case op == "test" || op == "cmp":
			a, wa, ok1 := read(ops[0])
			b, _, ok2 := read(ops[1])
			if !ok1 || !ok2 || wa == 0 || wa == 128 {
				return bad()
			}
			if op == "test" {
				setZS(a&b, wa)
				m.cf, m.of = false, false
			} else {
				b &= maskBits(wa)
				r := (a - b) & maskBits(wa)
				setZS(r, wa)
				m.cf = a < b
				sa, sb, sr := a>>(uint(wa)-1)&1, b>>(uint(wa)-1)&1, r>>(uint(wa)-1)&1
				m.of = sa != sb && sr != sa
			}
		case op == "and" || op == "or" || op == "xor" || op == "add" || op == "sub" || op == "shr" || op == "shl" || op == "sar" || op == "rol" || op == "ror" || op == "imul":
			if len(ops) != 2 || reX64Mem.MatchString(ops[0]) {
				return bad()
			}
			a, wa, ok1 := read(ops[0])
			if op == "xor" && ops[0] == ops[1] {
				// the zeroing idiom: defined whatever the register held
				if r, isReg := x64RegInfo[ops[0]]; isReg {
					a, wa, ok1 = 0, r.bits, true
					m.setReg(ops[0], 0)
				}
			}
			b, _, ok2 := read(ops[1])
			if !ok1 || !ok2 || wa == 0 || wa == 128 {
				return bad()
			}
			b &= maskBits(wa)
			var r uint64
			switch op {
			case "imul":
				r = a * b
			case "rol":
				n := uint(b) & uint(wa-1)
				r = (a << n) | (a >> ((uint(wa) - n) & uint(wa-1)))
				if n == 0 {
					r = a
				}
			case "ror":
				n := uint(b) & uint(wa-1)
				r = (a >> n) | (a << ((uint(wa) - n) & uint(wa-1)))
				if n == 0 {
					r = a
				}
			case "and":
				r = a & b
			case "or":
				r = a | b
			case "xor":
				r = a ^ b
			case "add":
				r = a + b
			case "sub":
				r = a - b
			case "shr":
				r = a >> (b & uint64(wa-1))
			case "shl":
				r = a << (b & uint64(wa-1))
			case "sar":
				sh := b & uint64(wa-1)
				if wa == 32 {
					r = uint64(uint32(int32(uint32(a)) >> sh))
				} else {
					r = uint64(int64(a) >> sh)
				}
			}
			r &= maskBits(wa)
			setZS(r, wa)
			m.setReg(ops[0], r)
		case op == "push":
			v, _, ok := read(ops[0])
			m.stack = append(m.stack, x64Saved{v, ok})
		case op == "pop":
			if len(m.stack) == 0 {
				return 0, 0, "pop without a push"
			}
			top := m.stack[len(m.stack)-1]
			m.stack = m.stack[:len(m.stack)-1]
			if r, isReg := x64RegInfo[ops[0]]; isReg {
				if top.def {
					m.gpr[r.base] = top.v
				} else {
					delete(m.gpr, r.base)
				}
			} else {
				return bad()
			}
		case op == "cdq":
			v, _, ok := m.getReg("eax")
			if !ok {
				return bad()
			}
			if int32(uint32(v)) < 0 {
				m.setReg("edx", 0xFFFFFFFF)
			} else {
				m.setReg("edx", 0)
			}
		case op == "cqo":
			v, _, ok := m.getReg("rax")
			if !ok {
				return bad()
			}
			if int64(v) < 0 {
				m.setReg("rdx", ^uint64(0))
			} else {
				m.setReg("rdx", 0)
			}
		case op == "div" || op == "idiv":
			d, w, ok := read(ops[0])
			if !ok || (w != 32 && w != 64) {
				return bad()
			}
			lo, _, ok1 := m.getReg(map[int]string{32: "eax", 64: "rax"}[w])
			hi, _, ok2 := m.getReg(map[int]string{32: "edx", 64: "rdx"}[w])
			if !ok1 || !ok2 {
				return 0, 0, "division with an undefined rax/rdx in `" + text + "`"
			}
			if d == 0 {
				return 0, 0, "#DE: division by zero in `" + text + "`"
			}
			var q, r uint64
			if w == 32 {
				n := hi<<32 | lo
				if op == "div" {
					q, r = n/d, n%d
					if q > 0xFFFFFFFF {
						return 0, 0, "#DE: quotient overflow in `" + text + "`"
					}
				} else {
					sn, sd := int64(n), int64(int32(uint32(d)))
					sq, sr := sn/sd, sn%sd
					if sq > math.MaxInt32 || sq < math.MinInt32 {
						return 0, 0, "#DE: quotient overflow in `" + text + "`"
					}
					q, r = uint64(uint32(int32(sq))), uint64(uint32(int32(sr)))
				}
				m.setReg("eax", q)
				m.setReg("edx", r)
			} else {
				// 128-bit dividend: only the sign/zero-extended forms occur
				if op == "div" {
					if hi != 0 {
						return 0, 0, "128-bit dividend outside the model in `" + text + "`"
					}
					q, r = lo/d, lo%d
				} else {
					if !(hi == 0 && int64(lo) >= 0) && !(hi == ^uint64(0) && int64(lo) < 0) {
						return 0, 0, "128-bit dividend outside the model in `" + text + "`"
					}
					if int64(lo) == math.MinInt64 && int64(d) == -1 {
						return 0, 0, "#DE: quotient overflow in `" + text + "`"
					}
					q, r = uint64(int64(lo)/int64(d)), uint64(int64(lo)%int64(d))
				}
				m.setReg("rax", q)
				m.setReg("rdx", r)
			}
		case op == "lzcnt" || op == "tzcnt" || op == "popcnt":
			v, w, ok := read(ops[1])
			if !ok || (w != 32 && w != 64) {
				return bad()
			}
			var r int
			switch {
			case op == "lzcnt" && w == 32:
				r = bits.LeadingZeros32(uint32(v))
			case op == "lzcnt":
				r = bits.LeadingZeros64(v)
			case op == "tzcnt" && w == 32:
				r = bits.TrailingZeros32(uint32(v))
			case op == "tzcnt":
				r = bits.TrailingZeros64(v)
			case w == 32:
				r = bits.OnesCount32(uint32(v))
			default:
				r = bits.OnesCount64(v)
			}
			if !m.setReg(ops[0], uint64(r)) {
				return bad()
			}
		case op == "inc" || op == "dec":
			v, w, ok := read(ops[0])
			if !ok || w == 0 || w == 128 {
				return bad()
			}
			if op == "inc" {
				v++
			} else {
				v--
			}
			v &= maskBits(w)
			setZS(v, w)
			m.setReg(ops[0], v)
		case op == "cdqe":
			v, _, ok := m.getReg("eax")
			if !ok {
				return bad()
			}
			m.setReg("rax", uint64(int64(int32(uint32(v)))))
		case op == "xchg":
			a, wa, ok1 := read(ops[0])
			b, wb, ok2 := read(ops[1])
			if !ok1 || !ok2 || wa != wb || wa == 0 || wa == 128 {
				return bad()
			}
			m.setReg(ops[0], b)
			m.setReg(ops[1], a)
		case strings.HasPrefix(op, "cmov") && len(ops) == 2:
			var cond, known bool
			switch op[4:] {
			case "e", "z":
				cond, known = m.zf, true
			case "ne", "nz":
				cond, known = !m.zf, true
			case "l":
				cond, known = m.sf != m.of, true
			case "ge":
				cond, known = m.sf == m.of, true
			case "le":
				cond, known = m.zf || m.sf != m.of, true
			case "g":
				cond, known = !m.zf && m.sf == m.of, true
			case "b":
				cond, known = m.cf, true
			case "ae":
				cond, known = !m.cf, true
			case "be":
				cond, known = m.cf || m.zf, true
			case "a":
				cond, known = !m.cf && !m.zf, true
			case "s":
				cond, known = m.sf, true
			case "ns":
				cond, known = !m.sf, true
			case "p":
				cond, known = m.pf, true
			case "np":
				cond, known = !m.pf, true
			}
			v, _, ok := read(ops[1])
			cur, w, okc := m.getReg(ops[0])
			if !known || !ok || !okc {
				return bad()
			}
			if cond {
				m.setReg(ops[0], v)
			} else if w == 32 {
				m.setReg(ops[0], cur) // a 32-bit cmov clears the upper half either way
			}
		case op == "lea" && len(ops) == 2:
			// lea reg, [base + index*scale + disp] over registers of the model
			in := ops[1]
			if i := strings.IndexByte(in, '['); i >= 0 && strings.HasSuffix(in, "]") {
				in = in[i+1 : len(in)-1]
			} else {
				return bad()
			}
			var sum uint64
			for _, term := range strings.FieldsFunc(strings.ReplaceAll(in, "-", "+-"), func(r rune) bool { return r == '+' }) {
				term = strings.TrimSpace(term)
				if term == "" {
					continue
				}
				if j := strings.IndexByte(term, '*'); j >= 0 {
					v, _, ok := m.getReg(strings.TrimSpace(term[:j]))
					sc, oks := parseImm(term[j+1:])
					if !ok || !oks {
						return bad()
					}
					sum += v * sc
				} else if v, _, ok := m.getReg(term); ok {
					sum += v
				} else if v, ok := parseImm(term); ok {
					sum += v
				} else {
					return bad()
				}
			}
			if !m.setReg(ops[0], sum) {
				return bad()
			}
		case op == "neg" || op == "not":
			v, w, ok := read(ops[0])
			if !ok || w == 0 || w == 128 {
				return bad()
			}
			if op == "neg" {
				v = -v
			} else {
				v = ^v
			}
			m.setReg(ops[0], v&maskBits(w))
		case op == "movzx" || op == "movsx" || op == "movsxd":
			v, w, ok := read(ops[1])
			if !ok || w == 0 || w == 128 {
				return bad()
			}
			if op != "movzx" && v>>(uint(w)-1)&1 == 1 {
				v |= ^maskBits(w)
			}
			if !m.setReg(ops[0], v) {
				return bad()
			}
		case strings.HasPrefix(op, "set") && len(ops) == 1:
			var cond, known bool
			switch op[3:] {
			case "e", "z":
				cond, known = m.zf, true
			case "ne", "nz":
				cond, known = !m.zf, true
			case "l":
				cond, known = m.sf != m.of, true
			case "ge":
				cond, known = m.sf == m.of, true
			case "le":
				cond, known = m.zf || m.sf != m.of, true
			case "g":
				cond, known = !m.zf && m.sf == m.of, true
			case "b":
				cond, known = m.cf, true
			case "ae":
				cond, known = !m.cf, true
			case "be":
				cond, known = m.cf || m.zf, true
			case "a":
				cond, known = !m.cf && !m.zf, true
			case "p":
				cond, known = m.pf, true
			case "np":
				cond, known = !m.pf, true
			case "s":
				cond, known = m.sf, true
			case "ns":
				cond, known = !m.sf, true
			}
			if !known {
				return 0, 0, "instruction outside the model: " + op
			}
			r, isReg := x64RegInfo[ops[0]]
			if !isReg || r.bits != 8 {
				return bad()
			}
			if _, def := m.gpr[r.base]; !def {
				m.gpr[r.base] = 0xDEADBEEFDEADBE00 // the rest of the register keeps whatever it held
			}
			if cond {
				m.setReg(ops[0], 1)
			} else {
				m.setReg(ops[0], 0)
			}
		case op == "roundss" || op == "roundsd":
			if len(ops) != 3 {
				return bad()
			}
			x, _, ok := read(ops[1])
			mode, okm := parseImm(ops[2])
			if !ok || !okm {
				return bad()
			}
			wide := op == "roundsd"
			var a float64
			if wide {
				a = f64(x)
			} else {
				a = f32(x)
			}
			var r float64
			switch mode & 3 {
			case 0:
				r = math.RoundToEven(a)
			case 1:
				r = math.Floor(a)
			case 2:
				r = math.Ceil(a)
			default:
				r = math.Trunc(a)
			}
			if wide {
				m.xmm[ops[0]] = math.Float64bits(r)
			} else {
				m.xmm[ops[0]] = (m.xmm[ops[0]] &^ 0xFFFFFFFF) | uint64(math.Float32bits(float32(r)))
			}
		case op == "sqrtss" || op == "sqrtsd":
			x, _, ok := read(ops[1])
			if !ok {
				return bad()
			}
			if op == "sqrtsd" {
				m.xmm[ops[0]] = math.Float64bits(math.Sqrt(f64(x)))
			} else {
				m.xmm[ops[0]] = (m.xmm[ops[0]] &^ 0xFFFFFFFF) | uint64(math.Float32bits(float32(math.Sqrt(f32(x)))))
			}
		case op == "jmp":
			if e := jump(true); e != "" {
				return 0, 0, e
			}
		case op == "jp" || op == "jnp":
			if e := jump(m.pf == (op == "jp")); e != "" {
				return 0, 0, e
			}
		case op == "je" || op == "jz" || op == "jne" || op == "jnz":
			if e := jump(m.zf == (op == "je" || op == "jz")); e != "" {
				return 0, 0, e
			}
		case op == "jl" || op == "jge":
			if e := jump((m.sf != m.of) == (op == "jl")); e != "" {
				return 0, 0, e
			}
		case op == "jg" || op == "jle":
			if e := jump((!m.zf && m.sf == m.of) == (op == "jg")); e != "" {
				return 0, 0, e
			}
		case op == "js" || op == "jns":
			if e := jump(m.sf == (op == "js")); e != "" {
				return 0, 0, e
			}
		case op == "ja":
			if e := jump(!m.cf && !m.zf); e != "" {
				return 0, 0, e
			}
		case op == "jae" || op == "jnb":
			if e := jump(!m.cf); e != "" {
				return 0, 0, e
			}
		case op == "jb":
			if e := jump(m.cf); e != "" {
				return 0, 0, e
			}
		case op == "jbe":
			if e := jump(m.cf || m.zf); e != "" {
				return 0, 0, e
			}
		default:
			return 0, 0, "instruction outside the model: " + op
		}
	}
	if result == nil {
		return 0, 0, "no store to the result slot"
	}
	return *result, resWidth, ""
}
