package main

import (
	"fmt"
	"go/ast"
	"go/token"
	"go/types"
	"strings"

	"golang.org/x/tools/go/packages"
	"golang.org/x/tools/go/ssa"
)

// C08 lookup-result-nil-checked (added after a seeded change was missed): Scope.Lookup and Scope.LookupParent answer
// a nil Object for a name that is not declared — which is what half-typed code is full of. Object is an interface, so a
// method call or a single-value type assertion on that nil panics inside the type checker, and nothing between the
// checker and api.* recovers. For every result of a lookup with a name that is not a constant, every method call and
// single-value assertion on it must be dominated by a fact that excludes nil:
//   - `obj != nil` (then-branch, left of &&), `obj == nil` with a terminating body, left of ||;
//   - the same tests on the *scope* returned by the same LookupParent call compared with a scope (a nil scope means
//     nothing was found, a scope equal to a given one means something was);
//   - being inside a non-nil case of a type switch on it.
// The walk is a flow-sensitive pass over the syntax tree of each function; facts do not survive a reassignment.

type lookupWalk struct {
	c       *Ctx
	p       *Prog
	info    *types.Info
	fname   string
	tracked map[types.Object]token.Pos    // result objects of a lookup
	sibling map[types.Object]types.Object // scope result -> object result
	nSinks  int
	seq     map[string]int
}

func c08LookupNil(c *Ctx, p *Prog, tp *packages.Package) {
	const rule = "lookup-result-nil-checked"
	tracked, sinks := 0, 0
	for _, f := range tp.Syntax {
		for _, d := range f.Decls {
			fd, ok := d.(*ast.FuncDecl)
			if !ok || fd.Body == nil {
				continue
			}
			w := &lookupWalk{c: c, p: p, info: tp.TypesInfo, fname: declName(fd), tracked: map[types.Object]token.Pos{}, sibling: map[types.Object]types.Object{}, seq: map[string]int{}}
			w.stmts(fd.Body.List, map[types.Object]bool{})
			tracked += len(w.tracked)
			sinks += w.nSinks
		}
	}
	c.Min(rule, "lookup results followed", tracked, 8)
	c.Min(rule, "method calls / assertions on a lookup result", sinks, 6)
}

func (w *lookupWalk) isLookup(e ast.Expr) (call *ast.CallExpr, objIdx int) {
	call, ok := ast.Unparen(e).(*ast.CallExpr)
	if !ok {
		return nil, 0
	}
	fn := CalleeOf(w.info, call)
	if fn == nil || fn.Pkg() == nil || !strings.HasSuffix(fn.Pkg().Path(), "internal/types") {
		return nil, 0
	}
	sig := fn.Type().(*types.Signature)
	if sig.Recv() == nil || typeShortName(sig.Recv().Type()) != "Scope" {
		return nil, 0
	}
	// a constant name (Universe.Lookup("int")) is a static fact about the universe, not input-dependent
	if len(call.Args) > 0 {
		if tv, ok := w.info.Types[call.Args[0]]; ok && tv.Value != nil {
			return nil, 0
		}
	}
	switch fn.Name() {
	case "Lookup":
		return call, 0
	case "LookupParent":
		return call, 1
	}
	return nil, 0
}

func copyFacts(m map[types.Object]bool) map[types.Object]bool {
	n := make(map[types.Object]bool, len(m)+2)
	for k, v := range m {
		n[k] = v
	}
	return n
}

func (w *lookupWalk) obj(e ast.Expr) types.Object {
	if id, ok := ast.Unparen(e).(*ast.Ident); ok {
		if o := w.info.Uses[id]; o != nil {
			return o
		}
		return w.info.Defs[id]
	}
	return nil
}

func isNilExpr(info *types.Info, e ast.Expr) bool {
	id, ok := ast.Unparen(e).(*ast.Ident)
	if !ok || id.Name != "nil" {
		return false
	}
	_, isNil := info.Uses[id].(*types.Nil)
	return isNil
}

// facts returns the objects known non-nil when cond evaluates to want.
func (w *lookupWalk) facts(cond ast.Expr, want bool, out map[types.Object]bool) {
	switch x := ast.Unparen(cond).(type) {
	case *ast.UnaryExpr:
		if x.Op == token.NOT {
			w.facts(x.X, !want, out)
		}
	case *ast.BinaryExpr:
		switch {
		case x.Op == token.LAND && want, x.Op == token.LOR && !want:
			w.facts(x.X, want, out)
			w.facts(x.Y, want, out)
		case x.Op == token.EQL || x.Op == token.NEQ:
			isEq := x.Op == token.EQL
			for _, pr := range [][2]ast.Expr{{x.X, x.Y}, {x.Y, x.X}} {
				o := w.obj(pr[0])
				if o == nil {
					continue
				}
				if isNilExpr(w.info, pr[1]) {
					// o != nil is true / o == nil is false
					if isEq != want {
						out[o] = true
						if s := w.sibling[o]; s != nil {
							out[s] = true
						}
					}
				} else if s := w.sibling[o]; s != nil {
					// scope == K is true / scope != K is false: something was found
					if isEq == want {
						out[s] = true
					}
				}
			}
		}
	}
}

func (w *lookupWalk) with(safe map[types.Object]bool, cond ast.Expr, want bool) map[types.Object]bool {
	n := copyFacts(safe)
	w.facts(cond, want, n)
	return n
}

func terminates(list []ast.Stmt) bool {
	if len(list) == 0 {
		return false
	}
	switch x := list[len(list)-1].(type) {
	case *ast.ReturnStmt:
		return true
	case *ast.BranchStmt:
		return x.Tok != token.FALLTHROUGH
	case *ast.ExprStmt:
		if call, ok := x.X.(*ast.CallExpr); ok {
			if id, ok := call.Fun.(*ast.Ident); ok && id.Name == "panic" {
				return true
			}
		}
	case *ast.BlockStmt:
		return terminates(x.List)
	}
	return false
}

func (w *lookupWalk) define(as *ast.AssignStmt, safe map[types.Object]bool) {
	if len(as.Rhs) == 1 {
		if call, idx := w.isLookup(as.Rhs[0]); call != nil && len(as.Lhs) > idx {
			if o := w.obj(as.Lhs[idx]); o != nil {
				w.tracked[o] = call.Pos()
				delete(safe, o)
				if idx == 1 {
					if s := w.obj(as.Lhs[0]); s != nil {
						w.sibling[s] = o
					}
				}
			}
			return
		}
	}
	// any other assignment to a tracked object ends what we know about it
	for _, l := range as.Lhs {
		if o := w.obj(l); o != nil {
			if _, ok := w.tracked[o]; ok && as.Tok != token.DEFINE {
				safe[o] = true
			}
		}
	}
}

// lookupExceptions: sites confirmed by reading, one reason each.
var lookupExceptions = map[string]string{
	"Checker.blockBranches: single-value type assertion on obj": "the label name was resolved through gotoTarget / enclosingTarget just before (otherwise the arm has returned or continued), and every label of a block is inserted into the function-wide scope `all` before it is entered into the block — same code as go/types",
}

func (w *lookupWalk) sink(o types.Object, pos token.Pos, what string) {
	const rule = "lookup-result-nil-checked"
	w.nSinks++
	key := fmt.Sprintf("%s: %s on %s", w.fname, what, o.Name())
	w.seq[key]++
	if why, ok := lookupExceptions[key]; ok {
		w.c.OK(rule, fmt.Sprintf("%s #%d", key, w.seq[key]), w.p.Pos(pos), "confirmed exception: "+why)
		return
	}
	w.c.Fail(rule, fmt.Sprintf("%s #%d", key, w.seq[key]), w.p.Pos(pos),
		fmt.Sprintf("%s: %s on %s, the result of the scope lookup at %s, is not dominated by a nil test (nor by a test of the scope returned with it): for a name that is not declared the lookup answers nil and this panics inside the type checker — no caller up to api.* recovers, so half-typed source crashes the tool", w.fname, what, o.Name(), w.p.Pos(w.tracked[o])))
}

func (w *lookupWalk) okSink(o types.Object, pos token.Pos, what string) {
	const rule = "lookup-result-nil-checked"
	w.nSinks++
	key := fmt.Sprintf("%s: %s on %s", w.fname, what, o.Name())
	w.seq[key]++
	w.c.OK(rule, fmt.Sprintf("%s #%d", key, w.seq[key]), w.p.Pos(pos), "dominated by a nil-excluding test")
}

// expr checks the sinks in e under the facts safe.
func (w *lookupWalk) expr(e ast.Expr, safe map[types.Object]bool, commaOK bool) {
	switch x := e.(type) {
	case nil:
		return
	case *ast.ParenExpr:
		w.expr(x.X, safe, commaOK)
	case *ast.BinaryExpr:
		w.expr(x.X, safe, false)
		switch x.Op {
		case token.LAND:
			w.expr(x.Y, w.with(safe, x.X, true), false)
		case token.LOR:
			w.expr(x.Y, w.with(safe, x.X, false), false)
		default:
			w.expr(x.Y, safe, false)
		}
	case *ast.CallExpr:
		if se, ok := x.Fun.(*ast.SelectorExpr); ok {
			if o := w.obj(se.X); o != nil {
				if _, t := w.tracked[o]; t {
					if safe[o] {
						w.okSink(o, x.Pos(), "method call ."+se.Sel.Name+"()")
					} else {
						w.sink(o, x.Pos(), "method call ."+se.Sel.Name+"()")
					}
				}
			} else {
				w.expr(se.X, safe, false)
			}
		} else {
			w.expr(x.Fun, safe, false)
		}
		for _, a := range x.Args {
			w.expr(a, safe, false)
		}
	case *ast.TypeAssertExpr:
		if o := w.obj(x.X); o != nil && x.Type != nil && !commaOK {
			if _, t := w.tracked[o]; t {
				if safe[o] {
					w.okSink(o, x.Pos(), "single-value type assertion")
				} else {
					w.sink(o, x.Pos(), "single-value type assertion")
				}
			}
		} else {
			w.expr(x.X, safe, false)
		}
	case *ast.SelectorExpr:
		w.expr(x.X, safe, false)
	case *ast.UnaryExpr:
		w.expr(x.X, safe, false)
	case *ast.StarExpr:
		w.expr(x.X, safe, false)
	case *ast.IndexExpr:
		w.expr(x.X, safe, false)
		w.expr(x.Index, safe, false)
	case *ast.SliceExpr:
		w.expr(x.X, safe, false)
		w.expr(x.Low, safe, false)
		w.expr(x.High, safe, false)
		w.expr(x.Max, safe, false)
	case *ast.KeyValueExpr:
		w.expr(x.Key, safe, false)
		w.expr(x.Value, safe, false)
	case *ast.CompositeLit:
		for _, el := range x.Elts {
			w.expr(el, safe, false)
		}
	case *ast.FuncLit:
		w.stmts(x.Body.List, copyFacts(safe))
	}
}

// stmts walks a statement list; safe is updated with the facts that hold after each statement.
func (w *lookupWalk) stmts(list []ast.Stmt, safe map[types.Object]bool) {
	for _, s := range list {
		w.stmt(s, safe)
	}
}

func (w *lookupWalk) stmt(s ast.Stmt, safe map[types.Object]bool) {
	switch x := s.(type) {
	case nil:
	case *ast.AssignStmt:
		for _, r := range x.Rhs {
			w.expr(r, safe, len(x.Lhs) == 2 && len(x.Rhs) == 1)
		}
		for _, l := range x.Lhs {
			if _, ok := l.(*ast.Ident); !ok {
				w.expr(l, safe, false)
			}
		}
		w.define(x, safe)
	case *ast.DeclStmt:
		if gd, ok := x.Decl.(*ast.GenDecl); ok {
			for _, sp := range gd.Specs {
				if vs, ok := sp.(*ast.ValueSpec); ok {
					for _, v := range vs.Values {
						w.expr(v, safe, len(vs.Names) == 2 && len(vs.Values) == 1)
					}
				}
			}
		}
	case *ast.ExprStmt:
		w.expr(x.X, safe, false)
	case *ast.SendStmt:
		w.expr(x.Chan, safe, false)
		w.expr(x.Value, safe, false)
	case *ast.IncDecStmt:
		w.expr(x.X, safe, false)
	case *ast.GoStmt:
		w.expr(x.Call, safe, false)
	case *ast.DeferStmt:
		w.expr(x.Call, safe, false)
	case *ast.ReturnStmt:
		for _, r := range x.Results {
			w.expr(r, safe, false)
		}
	case *ast.LabeledStmt:
		w.stmt(x.Stmt, safe)
	case *ast.BlockStmt:
		w.stmts(x.List, safe)
	case *ast.IfStmt:
		inner := copyFacts(safe)
		w.stmt(x.Init, inner)
		w.expr(x.Cond, inner, false)
		thenFacts := w.with(inner, x.Cond, true)
		w.stmts(x.Body.List, thenFacts)
		elseFacts := w.with(inner, x.Cond, false)
		elseTerminates := false
		if x.Else != nil {
			w.stmt(x.Else, elseFacts)
			switch e := x.Else.(type) {
			case *ast.BlockStmt:
				elseTerminates = terminates(e.List)
			}
		}
		if x.Init == nil {
			if terminates(x.Body.List) {
				w.facts(x.Cond, false, safe)
			}
			if elseTerminates {
				w.facts(x.Cond, true, safe)
			}
		}
	case *ast.ForStmt:
		inner := copyFacts(safe)
		w.stmt(x.Init, inner)
		w.expr(x.Cond, inner, false)
		body := inner
		if x.Cond != nil {
			body = w.with(inner, x.Cond, true)
		}
		w.stmts(x.Body.List, body)
		w.stmt(x.Post, body)
	case *ast.RangeStmt:
		w.expr(x.X, safe, false)
		w.stmts(x.Body.List, copyFacts(safe))
	case *ast.SwitchStmt:
		inner := copyFacts(safe)
		w.stmt(x.Init, inner)
		w.expr(x.Tag, inner, false)
		for _, cc := range x.Body.List {
			cl := cc.(*ast.CaseClause)
			body := copyFacts(inner)
			for _, e := range cl.List {
				w.expr(e, inner, false)
			}
			if x.Tag == nil && len(cl.List) == 1 {
				w.facts(cl.List[0], true, body)
			}
			w.stmts(cl.Body, body)
		}
	case *ast.TypeSwitchStmt:
		inner := copyFacts(safe)
		w.stmt(x.Init, inner)
		var subject types.Object
		var bound *ast.Ident
		switch a := x.Assign.(type) {
		case *ast.ExprStmt:
			if ta, ok := a.X.(*ast.TypeAssertExpr); ok {
				subject = w.obj(ta.X)
			}
		case *ast.AssignStmt:
			if ta, ok := a.Rhs[0].(*ast.TypeAssertExpr); ok {
				subject = w.obj(ta.X)
			}
			bound, _ = a.Lhs[0].(*ast.Ident)
		}
		for _, cc := range x.Body.List {
			cl := cc.(*ast.CaseClause)
			body := copyFacts(inner)
			nonNil := len(cl.List) > 0
			for _, e := range cl.List {
				if isNilExpr(w.info, e) {
					nonNil = false
				}
			}
			if nonNil && subject != nil {
				body[subject] = true
				// the variable bound by the switch shadows the subject when it has the same name
				if bound != nil {
					if io := w.info.Implicits[cl]; io != nil {
						if _, t := w.tracked[subject]; t {
							body[io] = true
						}
					}
				}
			}
			if !nonNil && subject != nil && bound != nil {
				// default / nil clause: the bound variable is the subject itself
				if io := w.info.Implicits[cl]; io != nil {
					if pos, t := w.tracked[subject]; t && !inner[subject] {
						w.tracked[io] = pos
					}
				}
			}
			w.stmts(cl.Body, body)
		}
	case *ast.SelectStmt:
		for _, cc := range x.Body.List {
			cl := cc.(*ast.CommClause)
			w.stmt(cl.Comm, copyFacts(safe))
			w.stmts(cl.Body, copyFacts(safe))
		}
	}
}

// isRecoveredValue: v is the result of the recover() builtin, possibly through interface conversions or phis of it.
func isRecoveredValue(v ssa.Value) bool {
	seen := map[ssa.Value]bool{}
	var rec func(v ssa.Value) bool
	rec = func(v ssa.Value) bool {
		if v == nil || seen[v] {
			return false
		}
		seen[v] = true
		switch x := v.(type) {
		case *ssa.Call:
			if bi, ok := x.Call.Value.(*ssa.Builtin); ok && bi.Name() == "recover" {
				return true
			}
		case *ssa.ChangeInterface:
			return rec(x.X)
		case *ssa.MakeInterface:
			return rec(x.X)
		case *ssa.TypeAssert:
			return rec(x.X)
		case *ssa.Phi:
			for _, e := range x.Edges {
				if !rec(e) {
					return false
				}
			}
			return len(x.Edges) > 0
		}
		return false
	}
	return rec(v)
}
