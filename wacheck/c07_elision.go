package main

import (
	"go/ast"
	"go/types"
	"strings"

	"golang.org/x/tools/go/packages"
)

// C07 rule keyword-elision-needs-type.
//
// Inside functions the .wa printer leaves out the `var` keyword: `var a: int = 1` is printed as `a: int = 1`, which
// is the same declaration. Without a type the elision changes the program: `var a = 1` becomes the assignment
// `a = 1`. The guard that decides whether the declaration keyword is printed must therefore depend on whether the
// value specs carry a type — it reads ValueSpec.Type, directly or through a helper of the package.

func c07KeywordElision(c *Ctx, p *Prog, pp *packages.Package) {
	const rule = "keyword-elision-needs-type"
	info := pp.TypesInfo
	fd := p.MustFunc(rule, pp, "printer.genDecl")
	if fd == nil {
		return
	}
	isTokenType := func(t types.Type) bool {
		n, ok := t.(*types.Named)
		return ok && n.Obj().Name() == "Token" && n.Obj().Pkg() != nil && strings.HasSuffix(n.Obj().Pkg().Path(), "internal/token")
	}
	// the if statement whose body prints the declaration token
	var guard *ast.IfStmt
	ast.Inspect(fd.Body, func(n ast.Node) bool {
		ifs, ok := n.(*ast.IfStmt)
		if !ok || guard != nil {
			return true
		}
		for _, s := range ifs.Body.List {
			es, ok := s.(*ast.ExprStmt)
			if !ok {
				continue
			}
			call, ok := es.X.(*ast.CallExpr)
			if !ok {
				continue
			}
			if fn := CalleeOf(info, call); fn == nil || fn.Name() != "print" {
				continue
			}
			for _, a := range call.Args {
				if t := info.TypeOf(a); t != nil && isTokenType(t) {
					if tv, isConst := info.Types[a]; !isConst || tv.Value == nil {
						guard = ifs
					}
				}
			}
		}
		return true
	})
	if guard == nil {
		// the keyword is printed unconditionally: nothing is elided
		c.OK(rule, "printer.genDecl: declaration keyword", p.Pos(fd.Pos()), "the keyword is printed unconditionally")
		return
	}
	readsType := func(n ast.Node) bool {
		found := false
		ast.Inspect(n, func(m ast.Node) bool {
			se, ok := m.(*ast.SelectorExpr)
			if !ok || se.Sel.Name != "Type" {
				return true
			}
			if t := info.TypeOf(se.X); t != nil {
				if pt, ok := t.(*types.Pointer); ok {
					t = pt.Elem()
				}
				if n, ok := t.(*types.Named); ok && n.Obj().Name() == "ValueSpec" {
					found = true
				}
			}
			return true
		})
		return found
	}
	ok := readsType(guard.Cond)
	ast.Inspect(guard.Cond, func(n ast.Node) bool {
		call, isCall := n.(*ast.CallExpr)
		if !isCall || ok {
			return true
		}
		if fn := CalleeOf(info, call); fn != nil && fn.Pkg() == pp.Types {
			for _, f := range pp.Syntax {
				for _, d := range f.Decls {
					if cd, isFn := d.(*ast.FuncDecl); isFn && cd.Body != nil && info.Defs[cd.Name] == types.Object(fn) && readsType(cd.Body) {
						ok = true
					}
				}
			}
		}
		return true
	})
	c.Check(ok, rule, "printer.genDecl: declaration keyword", p.Pos(guard.Pos()), "the elision guard depends on the specs carrying a type",
		"printer.genDecl leaves out the declaration keyword under `!("+types.ExprString(guard.Cond)+")`, which does not look at whether the value specs have a type: a local `var a = 1` is printed as the assignment `a = 1` (undeclared name, or a silent change of meaning when an outer `a` exists)")
}
