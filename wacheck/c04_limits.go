package main

import (
	"go/ast"
	"go/types"
	"sort"
	"strings"

	"golang.org/x/tools/go/packages"
)

// C04 rule limits-literal-agreement (added after a defect was found on the unchanged tree: the descriptor of an
// imported memory was built with Max but without IsMaxEncoded — the flag the binary encoder looks at — so
// `(import "env" "mem" (memory 1 2))` was encoded without its maximum).
//
// The assembler builds wasm.Memory values in more than one place (defined memory, imported memory). The literals are
// siblings: each sets the same set of limit fields, and one that sets Max sets IsMaxEncoded.
func c04LimitsLiterals(c *Ctx, p *Prog, wu *packages.Package) {
	const rule = "limits-literal-agreement"
	info := wu.TypesInfo
	type lit struct {
		keys map[string]bool
		pos  string
		fn   string
	}
	var lits []lit
	for _, name := range sortedDeclNames(wu) {
		fd := AllFuncDecls(wu)[name]
		if fd.Body == nil {
			continue
		}
		ast.Inspect(fd.Body, func(n ast.Node) bool {
			cl, ok := n.(*ast.CompositeLit)
			if !ok || namedTypeName(info.TypeOf(cl)) != "Memory" || !strings.HasSuffix(namedPkgPath(info.TypeOf(cl)), "internal/wasm") {
				return true
			}
			l := lit{keys: map[string]bool{}, pos: p.Pos(cl.Pos()), fn: name}
			for _, el := range cl.Elts {
				if kv, ok := el.(*ast.KeyValueExpr); ok {
					l.keys[types.ExprString(kv.Key)] = true
				}
			}
			lits = append(lits, l)
			return true
		})
	}
	for _, l := range lits {
		var ks []string
		for k := range l.keys {
			ks = append(ks, k)
		}
		sort.Strings(ks)
		c.Check(!l.keys["Max"] || l.keys["IsMaxEncoded"], rule, l.fn+": wasm.Memory{"+strings.Join(ks, ", ")+"}", l.pos, "a literal that sets Max sets IsMaxEncoded",
			"this wasm.Memory literal sets Max but not IsMaxEncoded: the binary encoder writes the maximum only when the flag is set, so the limits are encoded without it and the module describes a memory with no maximum")
	}
	c.Min(rule, "wasm.Memory literals built by the assembler", len(lits), 2)
}
