package main

import (
	"fmt"
	"os"
	"sort"
	"strings"
)

// C10 — the heap allocator (hand-written WAT, two copies: the one the Go tests drive and the one linked into every
// program). Decided here from symbolic path summaries (watflow.go) of each copy; see runC10's Explain for the clauses.

func init() {
	t, s := "internal/waroot/malloc/malloc.wat", "waroot/src/runtime/heap_malloc.wat.ws"
	register(&Property{ID: "C10", Run: runC10, Mutants: []Mutant{
		{Name: "shipped copy: spilling a fixed list leaves its first-node link in place", File: s, Old: "\t\tlocal.get $freep\n\t\ti32.const 0\n\t\ti32.const 0\n\t\tcall $heap_block.init\n\t)", New: "\t\tlocal.get $freep\n\t\ti32.const 0\n\t\tcall $heap_block.set_size\n\t)", Expect: "free-all-visits-every-node"},
		{Name: "tested copy: rounding mask one hex digit short", File: t, Old: "\t\ti32.const 8\n\t\ti32.div_s\n\t\ti32.const 8\n\t\ti32.mul\n\t)", New: "\t\ti32.const 0xffffff8\n\t\ti32.and\n\t)", Expect: "class-ladder"},
		{Name: "shipped copy: grow computed from the payload size", File: s, Old: "\t\t\t;; $pages = ($block_size-(heap_top-heap_ptr)+WASM_PAGE_SIZE-1) / WASM_PAGE_SIZE)\n\t\t\tlocal.get $block_size", New: "\t\t\t;; $pages = ($block_size-(heap_top-heap_ptr)+WASM_PAGE_SIZE-1) / WASM_PAGE_SIZE)\n\t\t\tlocal.get $size", Expect: "grow-covers-block"},
		{Name: "shipped copy: the grow decision is a signed comparison", File: s, Old: "\t\ti32.sub\n\t\ti32.gt_u\n\t\tif\n", New: "\t\ti32.sub\n\t\ti32.gt_s\n\t\tif\n", Expect: "grow-decision-exact"},
		{Name: "tested copy: an exact fit takes the grow branch", File: t, Old: "\t\ti32.sub\n\t\ti32.gt_u\n\t\tif\n", New: "\t\ti32.sub\n\t\ti32.ge_u\n\t\tif\n", Expect: "grow-decision-exact"},
		{Name: "tested copy: memory grows by the whole block", File: t, Old: "\t\t\tlocal.get $block_size\n\t\t\tglobal.get $__heap_top\n\t\t\tglobal.get $__heap_ptr\n\t\t\ti32.sub\n\t\t\ti32.sub\n", New: "\t\t\tlocal.get $block_size\n", Expect: "grow-decision-exact"},
		{Name: "tested copy: heap_top advanced by pages*4096", File: t, Old: "\t\t\t\tlocal.get $pages\n\t\t\t\ti32.const 65536\n\t\t\t\ti32.mul", New: "\t\t\t\tlocal.get $pages\n\t\t\t\ti32.const 4096\n\t\t\t\ti32.mul", Expect: "grow-covers-block"},
		{Name: "shipped copy: exact-fit path leaves the rover on the unlinked block", File: s, Old: "\t\t\t\tcall $heap_block.set_next\n\n\t\t\t\t;; $__heap_l128_freep = $prevp\n\t\t\t\tlocal.get $prevp\n\t\t\t\tglobal.set $__heap_l128_freep\n\n\t\t\t\t;; $p.size 不变", New: "\t\t\t\tcall $heap_block.set_next\n\n\t\t\t\t;; $p.size 不变", Expect: "rover-follows-unlink"},
		{Name: "tested copy: split keeps 8 bytes too many in the remainder", File: t, Old: "\t\t\t\tlocal.get $nbytes\n\t\t\t\ti32.sub\n\t\t\t\ti32.const 8\n\t\t\t\ti32.sub\n\t\t\t\tcall $heap_block.set_size", New: "\t\t\t\tlocal.get $nbytes\n\t\t\t\ti32.sub\n\t\t\t\tcall $heap_block.set_size", Expect: "split-conserves"},
		{Name: "shipped copy: spilling a fixed list stops one node early", File: s, Old: "\t\t\t\t;; if $p == nil { break }\n\t\t\t\tlocal.get $p\n\t\t\t\ti32.eqz", New: "\t\t\t\t;; if $p == nil { break }\n\t\t\t\tlocal.get $p\n\t\t\t\tcall $heap_block.next\n\t\t\t\ti32.eqz", Expect: "free-all-visits-every-node"},
		{Name: "tested copy: 48-byte class serves requests up to 56", File: t, Old: "\t\tlocal.get $size\n\t\ti32.const 48\n\t\ti32.gt_s\n\t\tif\n\t\t\tglobal.get $__heap_base\n\t\t\ti32.const 24 ;; 3*sizeof(heap_block_t)", New: "\t\tlocal.get $size\n\t\ti32.const 56\n\t\ti32.gt_s\n\t\tif\n\t\t\tglobal.get $__heap_base\n\t\t\ti32.const 24 ;; 3*sizeof(heap_block_t)", Expect: "class-ladder"},
		{Name: "shipped copy: free steps back 4 bytes to the header", File: s, Old: "\t\t;; heap_block_t *block = ptr - sizeof(heap_block_t);\n\t\tlocal.get $ptr\n\t\ti32.const 8\n\t\ti32.sub", New: "\t\t;; heap_block_t *block = ptr - sizeof(heap_block_t);\n\t\tlocal.get $ptr\n\t\ti32.const 4\n\t\ti32.sub", Expect: "header-offset"},
		{Name: "tested copy: upper coalescing forgets the neighbour's header", File: t, Old: "\t\t\t\tlocal.get $p\n\t\t\t\tcall $heap_block.next\n\t\t\t\tcall $heap_block.size\n\n\t\t\t\ti32.const 8\n\n\t\t\t\ti32.add\n\t\t\t\ti32.add\n\t\t\tend\n\t\t\tcall $heap_block.set_size\n\n\t\t\t;; bp->s.ptr = p->s.ptr->s.ptr;", New: "\t\t\t\tlocal.get $p\n\t\t\t\tcall $heap_block.next\n\t\t\t\tcall $heap_block.size\n\n\t\t\t\ti32.add\n\t\t\tend\n\t\t\tcall $heap_block.set_size\n\n\t\t\t;; bp->s.ptr = p->s.ptr->s.ptr;", Expect: "coalesce-conserves"},
		{Name: "shipped copy: pushing onto a fixed list does not count the node", File: s, Old: "\t\t\tlocal.get $freep\n\t\t\tcall $heap_block.size\n\t\t\ti32.const 1\n\t\t\ti32.add\n\t\tend\n\t\tcall $heap_block.set_size\n\t)", New: "\t\t\tlocal.get $freep\n\t\t\tcall $heap_block.size\n\t\tend\n\t\tcall $heap_block.set_size\n\t)", Expect: "fixed-list-push-pop"},
	}})
}

type c10Copy struct {
	Rel  string
	Mod  *watModule
	Name map[string]string // role -> function name
}

func c10Load(c *Ctx, rel string) *c10Copy {
	src, err := c.ReadFile(rel)
	if err != nil {
		c.Undecided("grow-covers-block", "anchor:"+rel, rel, "file not readable: "+err.Error())
		return nil
	}
	m := &watModule{}
	if err := parseWatFragments(rel, string(src), m); err != nil {
		c.Undecided("grow-covers-block", "anchor:"+rel, rel, "not parseable: "+err.Error())
		return nil
	}
	cp := &c10Copy{Rel: rel, Mod: m, Name: map[string]string{}}
	roles := map[string][]string{
		"malloc": {"$wa_malloc", "$runtime.malloc"}, "free": {"$wa_free", "$runtime.free"},
		"new": {"$heap_new_allocation"}, "varying": {"$heap_reuse_varying"}, "ladder": {"$heap_free_list.ptr_and_fixed_size"},
		"freeall": {"$wa_lfixed_free_all"}, "l128free": {"$wa_l128_free"}, "fixedpop": {"$wa_malloc_reuse_fixed"}, "fixedpush": {"$wa_lfixed_free_block"},
		"data": {"$heap_block.data"}, "align": {"$heap_alignment8"}, "isfixed": {"$heap_is_fixed_size"},
	}
	var rs []string
	for r := range roles {
		rs = append(rs, r)
	}
	sort.Strings(rs)
	for _, r := range rs {
		for _, n := range roles[r] {
			if m.ByName[n] != nil {
				cp.Name[r] = n
			}
		}
		if cp.Name[r] == "" {
			c.Undecided("grow-covers-block", "anchor:"+rel+" "+strings.Join(roles[r], "|"), rel, "allocator function no longer resolves")
			return nil
		}
	}
	return cp
}

func (cp *c10Copy) paths(c *Ctx, rule, role string) ([]wpath, *watFunc) {
	f := cp.Mod.ByName[cp.Name[role]]
	ps, err := watPaths(cp.Mod, f)
	if err != nil {
		c.Undecided(rule, cp.Rel+" "+f.Name, fmt.Sprintf("%s:%d", cp.Rel, f.Line), "path summary failed: "+err.Error())
		return nil, f
	}
	c.Count("wat_paths_summarised", len(ps))
	return ps, f
}

func runC10(c *Ctx) {
	if watDumpPaths(c) {
		return
	}
	c.Explain = "Decides structural clauses of the allocator from symbolic path summaries of its WAT source (watflow.go: every control-flow path followed with a symbolic operand stack, leaf accessors expanded, loops followed once with their variables unknown at the head; nothing is executed). The same rules run on both copies, the one the Go tests drive (internal/waroot/malloc/malloc.wat) and the one linked into every program (waroot/src/runtime/heap_malloc.wat.ws). " +
		"Clauses: grow-covers-block (bump amount = stored payload size + 8; the pages requested are ceil(X/64K) with X at least the deficit heap_ptr+block-heap_top; heap_top advances by pages·64K; the guard compares the same block size); " +
		"rover-follows-unlink (every path of the ring scan that returns a block sets the rover to the predecessor); split-conserves / coalesce-conserves (header and payload bytes of the blocks before and after a split or a merge add up, the remainder starts where the allocated part ends); " +
		"class-ladder (each size class is a positive multiple of 8, at least every request routed to it, small classes and their list heads are routed back to themselves when freed, a class of 0 can never be requested from the ring whose head has size 0); " +
		"free-all-visits-every-node (the spill loop leaves only when the cursor itself is nil and frees the cursor otherwise); fixed-list-push-pop (push links the block in front and counts it, pop unlinks the head and uncounts it); header-offset (malloc returns block+8 on every successful path and free steps back by the same 8). " +
		"NOT decided: the global invariant itself (no overlap, every byte in exactly one block) over all histories — the clauses are per-operation necessary conditions of it; termination of the ring scan; behaviour when the 2 GiB signed range is exceeded."
	c.Trusted = []string{"the WAT reader and path summariser of wacheck (watsrc.go, watflow.go)"}
	dump := os.Getenv("VERIF_C10_DUMP")
	for _, rel := range []string{"internal/waroot/malloc/malloc.wat", "waroot/src/runtime/heap_malloc.wat.ws"} {
		cp := c10Load(c, rel)
		if cp == nil {
			continue
		}
		if dump != "" {
			ps, f := cp.paths(c, "dump", dump)
			fmt.Printf("== %s %s: %d paths\n", rel, f.Name, len(ps))
			for i, p := range ps {
				fmt.Printf(" path %d end=%s %s results=%v\n", i, p.End, p.Label, p.Results)
				for _, cd := range p.Conds {
					fmt.Printf("    cond %v %s (line %d)\n", cd.Taken, cd.T, cd.Line)
				}
				for _, ev := range p.Events {
					fmt.Printf("    %s %s %v off=%d (line %d)\n", ev.Kind, ev.Name, ev.Args, ev.Off, ev.Line)
				}
			}
			continue
		}
		c10Grow(c, cp)
		c10Rover(c, cp)
		c10Split(c, cp)
		c10Coalesce(c, cp)
		c10Ladder(c, cp)
		c10FreeAll(c, cp)
		c10FixedList(c, cp)
		c10Header(c, cp)
	}
}
