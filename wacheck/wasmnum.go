package main

import (
	"math"
	"math/bits"
	"strings"
)

// wasmnum.go — reference semantics of WebAssembly's numeric instructions on bit patterns (i32/f32 values live in the
// low 32 bits). Used as the oracle when template text is interpreted (C02 x64-template-semantics). trap=true for
// operand combinations WebAssembly traps on; nan=true when the result is a NaN (any NaN payload is accepted).

func wasmNumeric(m string, a []uint64) (res uint64, trap bool, ok bool) {
	dot := strings.IndexByte(m, '.')
	if dot < 0 {
		return 0, false, false
	}
	t, op := m[:dot], m[dot+1:]
	b2u := func(b bool) uint64 {
		if b {
			return 1
		}
		return 0
	}
	switch t {
	case "i32":
		if len(a) == 2 {
			x, y := uint32(a[0]), uint32(a[1])
			sx, sy := int32(x), int32(y)
			switch op {
			case "add":
				return uint64(x + y), false, true
			case "sub":
				return uint64(x - y), false, true
			case "mul":
				return uint64(x * y), false, true
			case "div_s":
				if y == 0 || (sx == math.MinInt32 && sy == -1) {
					return 0, true, true
				}
				return uint64(uint32(sx / sy)), false, true
			case "div_u":
				if y == 0 {
					return 0, true, true
				}
				return uint64(x / y), false, true
			case "rem_s":
				if y == 0 {
					return 0, true, true
				}
				if sy == -1 {
					return 0, false, true
				}
				return uint64(uint32(sx % sy)), false, true
			case "rem_u":
				if y == 0 {
					return 0, true, true
				}
				return uint64(x % y), false, true
			case "and":
				return uint64(x & y), false, true
			case "or":
				return uint64(x | y), false, true
			case "xor":
				return uint64(x ^ y), false, true
			case "shl":
				return uint64(x << (y & 31)), false, true
			case "shr_u":
				return uint64(x >> (y & 31)), false, true
			case "shr_s":
				return uint64(uint32(sx >> (y & 31))), false, true
			case "rotl":
				return uint64(bits.RotateLeft32(x, int(y&31))), false, true
			case "rotr":
				return uint64(bits.RotateLeft32(x, -int(y&31))), false, true
			case "eq":
				return b2u(x == y), false, true
			case "ne":
				return b2u(x != y), false, true
			case "lt_s":
				return b2u(sx < sy), false, true
			case "lt_u":
				return b2u(x < y), false, true
			case "gt_s":
				return b2u(sx > sy), false, true
			case "gt_u":
				return b2u(x > y), false, true
			case "le_s":
				return b2u(sx <= sy), false, true
			case "le_u":
				return b2u(x <= y), false, true
			case "ge_s":
				return b2u(sx >= sy), false, true
			case "ge_u":
				return b2u(x >= y), false, true
			}
		}
		if len(a) == 1 {
			x := uint32(a[0])
			switch op {
			case "clz":
				return uint64(bits.LeadingZeros32(x)), false, true
			case "ctz":
				return uint64(bits.TrailingZeros32(x)), false, true
			case "popcnt":
				return uint64(bits.OnesCount32(x)), false, true
			case "eqz":
				return b2u(x == 0), false, true
			case "wrap_i64":
				return uint64(uint32(a[0])), false, true
			case "reinterpret_f32":
				return uint64(x), false, true
			case "extend8_s":
				return uint64(uint32(int32(int8(x)))), false, true
			case "extend16_s":
				return uint64(uint32(int32(int16(x)))), false, true
			}
		}
	case "i64":
		if len(a) == 2 {
			x, y := a[0], a[1]
			sx, sy := int64(x), int64(y)
			switch op {
			case "add":
				return x + y, false, true
			case "sub":
				return x - y, false, true
			case "mul":
				return x * y, false, true
			case "div_s":
				if y == 0 || (sx == math.MinInt64 && sy == -1) {
					return 0, true, true
				}
				return uint64(sx / sy), false, true
			case "div_u":
				if y == 0 {
					return 0, true, true
				}
				return x / y, false, true
			case "rem_s":
				if y == 0 {
					return 0, true, true
				}
				if sy == -1 {
					return 0, false, true
				}
				return uint64(sx % sy), false, true
			case "rem_u":
				if y == 0 {
					return 0, true, true
				}
				return x % y, false, true
			case "and":
				return x & y, false, true
			case "or":
				return x | y, false, true
			case "xor":
				return x ^ y, false, true
			case "shl":
				return x << (y & 63), false, true
			case "shr_u":
				return x >> (y & 63), false, true
			case "shr_s":
				return uint64(sx >> (y & 63)), false, true
			case "rotl":
				return bits.RotateLeft64(x, int(y&63)), false, true
			case "rotr":
				return bits.RotateLeft64(x, -int(y&63)), false, true
			case "eq":
				return b2u(x == y), false, true
			case "ne":
				return b2u(x != y), false, true
			case "lt_s":
				return b2u(sx < sy), false, true
			case "lt_u":
				return b2u(x < y), false, true
			case "gt_s":
				return b2u(sx > sy), false, true
			case "gt_u":
				return b2u(x > y), false, true
			case "le_s":
				return b2u(sx <= sy), false, true
			case "le_u":
				return b2u(x <= y), false, true
			case "ge_s":
				return b2u(sx >= sy), false, true
			case "ge_u":
				return b2u(x >= y), false, true
			}
		}
		if len(a) == 1 {
			x := a[0]
			switch op {
			case "clz":
				return uint64(bits.LeadingZeros64(x)), false, true
			case "ctz":
				return uint64(bits.TrailingZeros64(x)), false, true
			case "popcnt":
				return uint64(bits.OnesCount64(x)), false, true
			case "eqz":
				return b2u(x == 0), false, true
			case "extend_i32_s":
				return uint64(int64(int32(uint32(x)))), false, true
			case "extend_i32_u":
				return uint64(uint32(x)), false, true
			case "reinterpret_f64":
				return x, false, true
			case "extend8_s":
				return uint64(int64(int8(x))), false, true
			case "extend16_s":
				return uint64(int64(int16(x))), false, true
			case "extend32_s":
				return uint64(int64(int32(x))), false, true
			}
		}
	case "f32", "f64":
		wide := t == "f64"
		dec := func(b uint64) float64 {
			if wide {
				return math.Float64frombits(b)
			}
			return float64(math.Float32frombits(uint32(b)))
		}
		enc := func(v float64) uint64 {
			if wide {
				return math.Float64bits(v)
			}
			return uint64(math.Float32bits(float32(v)))
		}
		signMask := uint64(1) << 31
		if wide {
			signMask = 1 << 63
		}
		if len(a) == 2 {
			x, y := dec(a[0]), dec(a[1])
			switch op {
			case "add":
				return enc(x + y), false, true
			case "sub":
				return enc(x - y), false, true
			case "mul":
				if !wide {
					return enc(float64(float32(x) * float32(y))), false, true
				}
				return enc(x * y), false, true
			case "div":
				if !wide {
					return enc(float64(float32(x) / float32(y))), false, true
				}
				return enc(x / y), false, true
			case "min":
				return enc(wasmMinMax("min", x, y)), false, true
			case "max":
				return enc(wasmMinMax("max", x, y)), false, true
			case "copysign":
				return (a[0] &^ signMask) | (a[1] & signMask), false, true
			case "eq":
				return b2u(x == y), false, true
			case "ne":
				return b2u(x != y), false, true
			case "lt":
				return b2u(x < y), false, true
			case "gt":
				return b2u(x > y), false, true
			case "le":
				return b2u(x <= y), false, true
			case "ge":
				return b2u(x >= y), false, true
			}
		}
		if len(a) == 1 {
			x := dec(a[0])
			switch op {
			case "abs":
				return a[0] &^ signMask, false, true
			case "neg":
				return a[0] ^ signMask, false, true
			case "sqrt":
				if !wide {
					return enc(float64(float32(math.Sqrt(x)))), false, true
				}
				return enc(math.Sqrt(x)), false, true
			case "ceil":
				return enc(math.Ceil(x)), false, true
			case "floor":
				return enc(math.Floor(x)), false, true
			case "trunc":
				return enc(math.Trunc(x)), false, true
			case "nearest":
				return enc(math.RoundToEven(x)), false, true
			case "reinterpret_i32", "reinterpret_i64":
				return a[0], false, true
			case "promote_f32":
				return math.Float64bits(float64(math.Float32frombits(uint32(a[0])))), false, true
			case "demote_f64":
				return uint64(math.Float32bits(float32(math.Float64frombits(a[0])))), false, true
			}
		}
	}
	return 0, false, false
}
