package main

import (
	"fmt"
	"go/ast"
	"go/token"
	"go/types"
	"strings"

	"golang.org/x/tools/go/packages"
)

// C24 extra rules (added after seeded changes were missed):
//   filter-loop-visits-all — the loader drops the files whose #wa:build constraint is false. A loop that deletes
//       elements from the slice it is indexing (`xs = append(xs[:i], xs[i+1:]...)` inside `for i := 0; i < len(xs);
//       i++`) skips the element that slides into the freed slot unless it steps the index back (or does not advance
//       it on that iteration): of two neighbouring excluded files the second one is compiled in.
//   constructor-total — the expression constructors or / and / not / tag build exactly the node they are named after
//       from their operands on every path; a constructor that returns something else for some operands (collapsing
//       `!(!x)` to `!x`) changes the truth table of the parsed expression.

func c24InPlaceDeletion(c *Ctx, p *Prog, ld *packages.Package) {
	const rule = "filter-loop-visits-all"
	info := ld.TypesInfo
	n := 0
	for _, f := range ld.Syntax {
		for _, d := range f.Decls {
			fd, ok := d.(*ast.FuncDecl)
			if !ok || fd.Body == nil {
				continue
			}
			ast.Inspect(fd.Body, func(nd ast.Node) bool {
				fs, ok := nd.(*ast.ForStmt)
				if !ok || fs.Post == nil {
					return true
				}
				inc, ok := fs.Post.(*ast.IncDecStmt)
				if !ok || inc.Tok != token.INC {
					return true
				}
				iv := identObj(info, inc.X)
				if iv == nil {
					return true
				}
				// deletions of element iv from a slice: S = append(S[:i], S[i+1:]...)
				ast.Inspect(fs.Body, func(m ast.Node) bool {
					as, ok := m.(*ast.AssignStmt)
					if !ok || len(as.Lhs) != 1 || len(as.Rhs) != 1 {
						return true
					}
					call, ok := as.Rhs[0].(*ast.CallExpr)
					if !ok || types.ExprString(call.Fun) != "append" || len(call.Args) != 2 || !call.Ellipsis.IsValid() {
						return true
					}
					a0, ok0 := call.Args[0].(*ast.SliceExpr)
					a1, ok1 := call.Args[1].(*ast.SliceExpr)
					if !ok0 || !ok1 || a0.Low != nil || identObj(info, a0.High) != iv || a1.High != nil {
						return true
					}
					if types.ExprString(a0.X) != types.ExprString(as.Lhs[0]) || types.ExprString(a1.X) != types.ExprString(as.Lhs[0]) {
						return true
					}
					n++
					// the enclosing statement list must step the index back (i--) or leave the loop / restart it
					compensated := false
					ast.Inspect(fs.Body, func(k ast.Node) bool {
						switch x := k.(type) {
						case *ast.IncDecStmt:
							if x.Tok == token.DEC && identObj(info, x.X) == iv {
								compensated = true
							}
						case *ast.AssignStmt:
							if len(x.Lhs) == 1 && identObj(info, x.Lhs[0]) == iv && (x.Tok == token.SUB_ASSIGN || x.Tok == token.ASSIGN) {
								compensated = true
							}
						}
						return true
					})
					c.Check(compensated, rule, fmt.Sprintf("%s: deletion from %s", declName(fd), types.ExprString(as.Lhs[0])), p.Pos(as.Pos()), "the index is stepped back after a deletion",
						fmt.Sprintf("%s deletes element %s of %s inside a loop that then advances %s: the element that slides into the freed slot is never examined — of two neighbouring files excluded by their build constraints the second one stays in the package", declName(fd), iv.Name(), types.ExprString(as.Lhs[0]), iv.Name()))
					return true
				})
				return true
			})
		}
	}
	c.OK(rule, "in-place deletions in internal/loader", "", fmt.Sprintf("%d in-place deletions inside index loops examined", n))
}

func c24ConstructorTotal(c *Ctx, p *Prog, bt *packages.Package) {
	const rule = "constructor-total"
	for ctor, typ := range map[string]string{"or": "OrExpr", "and": "AndExpr", "not": "NotExpr", "tag": "TagExpr"} {
		fd := p.MustFunc(rule, bt, c24Names.Ctor[typ])
		if fd == nil {
			continue
		}
		info := bt.TypesInfo
		ok := len(fd.Body.List) == 1
		if ok {
			rs, isRet := fd.Body.List[0].(*ast.ReturnStmt)
			ok = isRet && len(rs.Results) == 1
			if ok {
				e := ast.Unparen(rs.Results[0])
				if u, isAddr := e.(*ast.UnaryExpr); isAddr && u.Op == token.AND {
					e = u.X
				}
				cl, isLit := e.(*ast.CompositeLit)
				ok = isLit && namedTypeName(info.TypeOf(cl)) == typ
			}
		}
		c.Check(ok, rule, "constructor "+ctor, p.Pos(fd.Pos()), "a single `return &"+typ+"{…}`",
			"constructor "+ctor+" does not build a "+typ+" from its operands on every path ("+strings.TrimSpace(fmt.Sprint(len(fd.Body.List)))+" statements): for the operands it treats specially the parsed expression has another truth table than the text says")
	}
}
