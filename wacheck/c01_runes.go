package main

import (
	"fmt"
	"strconv"
	"strings"
	"unicode/utf8"

	waast "wa-lang.org/wa/internal/ast"
	watoken "wa-lang.org/wa/internal/token"
)

// C01 rule rune-decoder-agrees-with-go (added after probing Wa programs against their Go twins: `for i, r := range s`
// and `[]rune(s)` stopped at the first byte that is not valid UTF-8, and accepted overlong forms, surrogates, values
// above U+10FFFF and sequences cut off by the end of the string — reading past it).
//
// The runtime routine behind both, next_rune in waroot/src/runtime/string.wa, is a short integer function. Its body is
// interpreted — statements followed in order, integer expressions computed, get_u8 answered from the byte string under
// test, a read at or beyond the string's length recorded — for every string of one byte, every two-byte string whose
// first byte is not ASCII, and three- and four-byte strings over a set of boundary bytes, each also as a prefix of a
// longer string. For each the result (ok, position, rune, next position) must be what Go's utf8.DecodeRuneInString
// gives: the rune and its width, RuneError and width 1 for anything invalid, and no read beyond the string.

type waVal struct {
	i      int64
	b      bool
	isBool bool
}

type waEvalEnv struct {
	vars    map[string]waVal
	fields  map[string]int64 // iter.ptr / iter.len / iter.pos
	mem     []byte
	base    int64
	oob     bool
	consts  map[string]int64
	und     string
	rets    []waVal
	namedRe []string
}

func (e *waEvalEnv) fail(w string) {
	if e.und == "" {
		e.und = w
	}
}

func (e *waEvalEnv) expr(x waast.Expr) waVal {
	switch n := x.(type) {
	case *waast.ParenExpr:
		return e.expr(n.X)
	case *waast.BasicLit:
		txt := strings.ReplaceAll(n.Value, "_", "")
		if n.Kind == watoken.CHAR {
			r, _, _, err := strconv.UnquoteChar(strings.Trim(txt, "'"), '\'')
			if err != nil {
				e.fail("char literal " + txt)
			}
			return waVal{i: int64(r)}
		}
		v, err := strconv.ParseInt(txt, 0, 64)
		if err != nil {
			e.fail("literal " + n.Value)
		}
		return waVal{i: v}
	case *waast.Ident:
		switch n.Name {
		case "true":
			return waVal{b: true, isBool: true}
		case "false":
			return waVal{isBool: true}
		}
		if v, ok := e.vars[n.Name]; ok {
			return v
		}
		if v, ok := e.consts[n.Name]; ok {
			return waVal{i: v}
		}
		e.fail("name " + n.Name)
		return waVal{}
	case *waast.SelectorExpr:
		if id, ok := n.X.(*waast.Ident); ok {
			if v, ok := e.fields[id.Name+"."+n.Sel.Name]; ok {
				return waVal{i: v}
			}
		}
		e.fail("selector")
		return waVal{}
	case *waast.UnaryExpr:
		v := e.expr(n.X)
		switch n.Op {
		case watoken.NOT:
			return waVal{b: !v.b, isBool: true}
		case watoken.SUB:
			return waVal{i: -v.i}
		}
		e.fail("unary " + n.Op.String())
		return waVal{}
	case *waast.BinaryExpr:
		if n.Op == watoken.LAND || n.Op == watoken.LOR {
			a := e.expr(n.X)
			if n.Op == watoken.LAND && !a.b {
				return waVal{isBool: true}
			}
			if n.Op == watoken.LOR && a.b {
				return waVal{b: true, isBool: true}
			}
			return e.expr(n.Y)
		}
		a, b := e.expr(n.X), e.expr(n.Y)
		switch n.Op {
		case watoken.ADD:
			return waVal{i: a.i + b.i}
		case watoken.SUB:
			return waVal{i: a.i - b.i}
		case watoken.MUL:
			return waVal{i: a.i * b.i}
		case watoken.AND:
			return waVal{i: a.i & b.i}
		case watoken.OR:
			return waVal{i: a.i | b.i}
		case watoken.XOR:
			return waVal{i: a.i ^ b.i}
		case watoken.SHL:
			return waVal{i: a.i << uint(b.i&63)}
		case watoken.SHR:
			return waVal{i: a.i >> uint(b.i&63)}
		case watoken.EQL:
			return waVal{b: a.i == b.i && a.b == b.b, isBool: true}
		case watoken.NEQ:
			return waVal{b: !(a.i == b.i && a.b == b.b), isBool: true}
		case watoken.LSS:
			return waVal{b: a.i < b.i, isBool: true}
		case watoken.LEQ:
			return waVal{b: a.i <= b.i, isBool: true}
		case watoken.GTR:
			return waVal{b: a.i > b.i, isBool: true}
		case watoken.GEQ:
			return waVal{b: a.i >= b.i, isBool: true}
		}
		e.fail("operator " + n.Op.String())
		return waVal{}
	case *waast.CallExpr:
		id, ok := n.Fun.(*waast.Ident)
		if !ok || len(n.Args) != 1 {
			e.fail("call")
			return waVal{}
		}
		v := e.expr(n.Args[0])
		switch id.Name {
		case "i32", "int", "rune":
			return waVal{i: int64(int32(v.i))}
		case "u32", "uint":
			return waVal{i: int64(uint32(v.i))}
		case "u8", "byte":
			return waVal{i: int64(uint8(v.i))}
		case "i64":
			return waVal{i: v.i}
		case "get_u8":
			off := v.i - e.base
			if off < 0 || off >= int64(len(e.mem)) {
				e.oob = true
				return waVal{i: 0xAA} // whatever lies behind the string
			}
			return waVal{i: int64(e.mem[off])}
		}
		e.fail("call of " + id.Name)
		return waVal{}
	}
	e.fail(fmt.Sprintf("expression %T", x))
	return waVal{}
}

// run: true when a return was executed.
func (e *waEvalEnv) run(list []waast.Stmt) bool {
	for _, s := range list {
		if e.und != "" {
			return true
		}
		switch n := s.(type) {
		case *waast.BlockStmt:
			if e.run(n.List) {
				return true
			}
		case *waast.ReturnStmt:
			e.rets = nil
			if len(n.Results) == 0 {
				for _, nm := range e.namedRe {
					e.rets = append(e.rets, e.vars[nm])
				}
				return true
			}
			for _, r := range n.Results {
				e.rets = append(e.rets, e.expr(r))
			}
			return true
		case *waast.IfStmt:
			if n.Init != nil && e.run([]waast.Stmt{n.Init}) {
				return true
			}
			c := e.expr(n.Cond)
			if c.b {
				if e.run(n.Body.List) {
					return true
				}
			} else if n.Else != nil {
				if e.run([]waast.Stmt{n.Else}) {
					return true
				}
			}
		case *waast.AssignStmt:
			if len(n.Lhs) != len(n.Rhs) {
				e.fail("tuple assignment")
				return true
			}
			vals := make([]waVal, len(n.Rhs))
			for i, r := range n.Rhs {
				vals[i] = e.expr(r)
			}
			for i, l := range n.Lhs {
				id, ok := l.(*waast.Ident)
				if !ok {
					e.fail("assignment target")
					return true
				}
				v := vals[i]
				switch n.Tok {
				case watoken.ASSIGN, watoken.DEFINE:
				case watoken.OR_ASSIGN:
					v = waVal{i: e.vars[id.Name].i | v.i}
				case watoken.AND_ASSIGN:
					v = waVal{i: e.vars[id.Name].i & v.i}
				case watoken.ADD_ASSIGN:
					v = waVal{i: e.vars[id.Name].i + v.i}
				case watoken.SHL_ASSIGN:
					v = waVal{i: e.vars[id.Name].i << uint(v.i&63)}
				default:
					e.fail("assignment " + n.Tok.String())
					return true
				}
				e.vars[id.Name] = v
			}
		case *waast.DeclStmt:
			gd, ok := n.Decl.(*waast.GenDecl)
			if !ok {
				e.fail("declaration")
				return true
			}
			for _, sp := range gd.Specs {
				vs, ok := sp.(*waast.ValueSpec)
				if !ok {
					e.fail("declaration")
					return true
				}
				for i, nm := range vs.Names {
					v := waVal{}
					if i < len(vs.Values) {
						v = e.expr(vs.Values[i])
					}
					e.vars[nm.Name] = v
				}
			}
		case *waast.EmptyStmt:
		default:
			e.fail(fmt.Sprintf("statement %T", s))
			return true
		}
	}
	return false
}

func c01RuneDecoder(c *Ctx, std *waStd) {
	const rule = "rune-decoder-agrees-with-go"
	var fdx *waFuncDecl
	var file *waFile
	consts := map[string]int64{}
	for _, f := range std.Pkgs["runtime"] {
		for _, fd := range std.Funcs(f) {
			if fd.Name == "next_rune" && fd.HasBody {
				fdx, file = fd, f
			}
		}
		// integer constants of the package (RuneError, MaxRune, masks)
		for _, d := range f.AST.Decls {
			gd, ok := d.(*waast.GenDecl)
			if !ok || gd.Tok != watoken.CONST {
				continue
			}
			for _, sp := range gd.Specs {
				vs, ok := sp.(*waast.ValueSpec)
				if !ok {
					continue
				}
				for i, nm := range vs.Names {
					if i < len(vs.Values) {
						ev := &waEvalEnv{vars: map[string]waVal{}, consts: consts}
						v := ev.expr(vs.Values[i])
						if ev.und == "" && !v.isBool {
							consts[nm.Name] = v.i
						}
					}
				}
			}
		}
	}
	if fdx == nil {
		c.Undecided(rule, "anchor:runtime.next_rune", "", "function not found in waroot/src/runtime")
		return
	}
	loc := std.Pos(file, fdx.Decl.Pos())
	// parameter and result names
	param := ""
	if pl := fdx.Decl.Type.Params; pl != nil && len(pl.List) == 1 && len(pl.List[0].Names) == 1 {
		param = pl.List[0].Names[0].Name
	}
	var named []string
	if rl := fdx.Decl.Type.Results; rl != nil {
		for _, f := range rl.List {
			for _, nm := range f.Names {
				named = append(named, nm.Name)
			}
		}
	}
	if param == "" || len(named) != 4 {
		c.Undecided(rule, "runtime.next_rune", loc, "signature is not (iter) => (ok, k, v, pos)")
		return
	}
	// the strings under test
	edge := []byte{0x00, 0x28, 0x7F, 0x80, 0x8F, 0x90, 0x9F, 0xA0, 0xBF, 0xC0, 0xC1, 0xC2, 0xDF, 0xE0, 0xE1, 0xEC, 0xED, 0xEE, 0xEF, 0xF0, 0xF1, 0xF3, 0xF4, 0xF5, 0xFF}
	var inputs [][]byte
	for b := 0; b < 256; b++ {
		inputs = append(inputs, []byte{byte(b)})
	}
	for b := 0x80; b < 256; b++ {
		for _, b1 := range edge {
			inputs = append(inputs, []byte{byte(b), b1})
		}
	}
	for _, b0 := range edge {
		if b0 < 0xE0 {
			continue
		}
		for _, b1 := range edge {
			for _, b2 := range edge {
				inputs = append(inputs, []byte{b0, b1, b2})
				if b0 >= 0xF0 {
					for _, b3 := range []byte{0x28, 0x7F, 0x80, 0xBF, 0xC0, 0xFF} {
						inputs = append(inputs, []byte{b0, b1, b2, b3})
					}
				}
			}
		}
	}
	var bad []string
	cases := 0
	und := ""
	const base = 4096
	try := func(s []byte, pos int) {
		ev := &waEvalEnv{vars: map[string]waVal{}, consts: consts, mem: s, base: base, namedRe: named,
			fields: map[string]int64{param + ".ptr": base, param + ".len": int64(len(s)), param + ".pos": int64(pos)}}
		for _, nm := range named {
			ev.vars[nm] = waVal{}
		}
		ev.vars[named[0]] = waVal{isBool: true}
		if !ev.run(fdx.Decl.Body.List) {
			// fell off the end: the named results as they are
			for _, nm := range named {
				ev.rets = append(ev.rets, ev.vars[nm])
			}
		}
		if ev.und != "" {
			und = ev.und
			return
		}
		cases++
		r, w := utf8.DecodeRune(s[pos:])
		if len(ev.rets) != 4 {
			und = "return with an unexpected number of results"
			return
		}
		got := fmt.Sprintf("ok=%v rune=%#x next=%d", ev.rets[0].b, ev.rets[2].i, ev.rets[3].i)
		want := fmt.Sprintf("ok=true rune=%#x next=%d", r, pos+w)
		if (got != want || ev.oob || ev.rets[1].i != int64(pos)) && len(bad) < 5 {
			extra := ""
			if ev.oob {
				extra = " and reads beyond the end of the string"
			}
			bad = append(bad, fmt.Sprintf("next_rune at %d of % x answers %s%s; Go's decoder answers %s", pos, s, got, extra, want))
		}
	}
	for _, s := range inputs {
		if und != "" {
			break
		}
		try(s, 0)
		// the same bytes followed by more text, and preceded by a byte
		try(append(append([]byte{}, s...), 'x', 'y', 'z'), 0)
		try(append([]byte{'a'}, s...), 1)
	}
	// the end of the string
	ev := &waEvalEnv{vars: map[string]waVal{}, consts: consts, mem: []byte("ab"), base: base, namedRe: named,
		fields: map[string]int64{param + ".ptr": base, param + ".len": 2, param + ".pos": 2}}
	for _, nm := range named {
		ev.vars[nm] = waVal{}
	}
	ev.run(fdx.Decl.Body.List)
	if ev.und == "" && (len(ev.rets) != 4 || ev.rets[0].b) {
		bad = append(bad, "next_rune at the end of the string answers ok=true")
	}
	if und != "" {
		c.Undecided(rule, "runtime.next_rune", loc, "the interpreter of the Wa function does not model: "+und)
		return
	}
	c.Check(len(bad) == 0, rule, "runtime.next_rune", loc, fmt.Sprintf("%d (string, position) pairs decode as in Go, no read beyond the string", cases), strings.Join(bad, "; ")+
		": `for i, r := range s` and []rune(s) are built on this routine, so every program that walks such a string sees other runes (or fewer) than the Go program does")
	c.Min(rule, "strings decoded through the interpreted next_rune", cases, 20000)
}
