package main

import (
	"fmt"
	"go/ast"
	"go/token"
	"go/types"
	"sort"
	"strings"

	"golang.org/x/tools/go/packages"
)

// C15 — constant folding agrees with run-time evaluation.
//
// The value of a constant is computed by internal/constant (a port of go/constant, not decided here), checked for
// representability by types.representableConst, spelled as a literal by the back end's getValue and, for static
// data, parsed back by wir's Bin(). Those three hand-offs are per-kind tables; their agreement is decided here.

func init() {
	cf := "internal/backends/compiler_wat/compile_func.go"
	ex := "internal/types/expr.go"
	vb := "internal/backends/compiler_wat/wir/value_basic.go"
	register(&Property{ID: "C15", Run: runC15, Mutants: []Mutant{
		{Name: "complex64 imaginary part rounded at 64 bits", File: ex, Old: "\t\t\tim := roundFloat32(constant.Imag(x))", New: "\t\t\tim := roundFloat64(constant.Imag(x))", Expect: "float-kind-width :: representableConst: Complex64"},
		{Name: "complex128 checks the real part twice", File: ex, Old: "return fitsFloat64(constant.Real(x)) && fitsFloat64(constant.Imag(x))", New: "return fitsFloat64(constant.Real(x)) && fitsFloat64(constant.Real(x))", Expect: "float-kind-width :: representableConst: Complex128"},
		{Name: "static u32 data folded into the signed arm", File: vb, Old: "\tcase *U32:\n\t\tb = make([]byte, 4)\n\t\ti, _ := strconv.ParseUint(v.Name(), 0, 32)\n\t\tsi := uint32(i)\n\t\tb[0] = byte(si & 0xFF)\n\t\tb[1] = byte((si >> 8) & 0xFF)\n\t\tb[2] = byte((si >> 16) & 0xFF)\n\t\tb[3] = byte((si >> 24) & 0xFF)\n\n\tcase *I32, *Rune:", New: "\tcase *U32, *I32, *Rune:", Expect: "literal-spelling :: U32"},
		{Name: "native multiplication fast path accepts 33-bit operands", File: "internal/constant/value.go", Old: "func is32bit(x int64) bool {\n\tconst s = 32\n\treturn -1<<(s-1) <= x && x <= 1<<(s-1)-1", New: "func is32bit(x int64) bool {\n\tconst s = 32\n\treturn -1<<(s-1) <= x && x <= 1<<s-1", Expect: "fast-path-bounds :: is32bit"},
		{Name: "f32 constants rounded twice", File: ex, Old: "func roundFloat32(x constant.Value) constant.Value {\n\tf32, _ := constant.Float32Val(x)\n\tf := float64(f32)", New: "func roundFloat32(x constant.Value) constant.Value {\n\tf64, _ := constant.Float64Val(x)\n\tf := float64(float32(f64))", Expect: "float-rounding :: roundFloat32"},
		{Name: "int16 representability uses 15 bits", File: ex, Old: "\t\t\tcase Int16:\n\t\t\t\tconst s = 16", New: "\t\t\tcase Int16:\n\t\t\t\tconst s = 15", Expect: "representable-bounds :: Int16"},
		{Name: "uint8 upper bound off by one", File: ex, Old: "\t\t\tcase Uint8:\n\t\t\t\tconst s = 8\n\t\t\t\treturn 0 <= x && x <= 1<<s-1", New: "\t\t\tcase Uint8:\n\t\t\t\tconst s = 8\n\t\t\t\treturn 0 <= x && x <= 1<<s", Expect: "representable-bounds :: Uint8"},
		{Name: "int32 lower bound excludes MinInt32", File: ex, Old: "\t\t\tcase Int32:\n\t\t\t\tconst s = 32\n\t\t\t\treturn -1<<(s-1) <= x", New: "\t\t\tcase Int32:\n\t\t\t\tconst s = 32\n\t\t\t\treturn -1<<(s-1) < x", Expect: "representable-bounds :: Int32"},
		{Name: "uint64 big constants limited to 63 bits", File: ex, Old: "return constant.Sign(x) >= 0 && n <= 64", New: "return constant.Sign(x) >= 0 && n <= 63", Expect: "representable-bounds :: Uint64 (beyond int64)"},
		{Name: "u16 constant read through the signed accessor", File: cf, Old: "\t\t\tcase types.Uint16:\n\t\t\t\tval, _ := constant.Uint64Val(v.Value)", New: "\t\t\tcase types.Uint16:\n\t\t\t\tval, _ := constant.Int64Val(v.Value)", Expect: "materialise-accessor :: basic Uint16"},
		{Name: "i64 constant typed u64", File: cf, Old: "return valueWrap{value: wir.NewConst(strconv.Itoa(int(val)), g.module.I64)}", New: "return valueWrap{value: wir.NewConst(strconv.Itoa(int(val)), g.module.U64)}", Expect: "materialise-accessor :: basic Int64"},
		{Name: "f32 constant spelled with 64-bit precision", File: cf, Old: "wir.NewConst(strconv.FormatFloat(val, 'f', -1, 32), g.module.F32)", New: "wir.NewConst(strconv.FormatFloat(val, 'f', -1, 64), g.module.F32)", Expect: "materialise-accessor :: basic Float32"},
		{Name: "static u64 data parsed unsigned only", File: vb, Old: "\t\tif err != nil {\n\t\t\t// 大于等于 1<<63 的常量以有符号形式书写(比如 -1), 参见 getValue\n\t\t\ts64, _ := strconv.ParseInt(v.Name(), 0, 64)\n\t\t\ti = uint64(s64)\n\t\t}\n", New: "\t\t_ = err\n", Expect: "literal-spelling :: U64"},
		{Name: "static i32 data parsed unsigned", File: vb, Old: "\t\ti, _ := strconv.ParseInt(v.Name(), 0, 32)\n\t\tsi := uint32(int32(i))", New: "\t\ti, _ := strconv.ParseUint(v.Name(), 0, 32)\n\t\tsi := uint32(int32(i))", Expect: "literal-spelling :: I32"},
	}})
}

var basicKindWidth = map[string][2]int{ // width, signed(1)/unsigned(0)
	"Int8": {8, 1}, "Int16": {16, 1}, "Int32": {32, 1}, "Int64": {64, 1},
	"Uint8": {8, 0}, "Uint16": {16, 0}, "Uint32": {32, 0}, "Uint64": {64, 0},
}

func runC15(c *Ctx) {
	c.Explain = "Decides the per-kind hand-off tables between constant evaluation and code generation: (1) representable-bounds: for every sized integer kind, the bounds types.representableConst accepts are exactly the kind's range (evaluated as constants from the source), platform-sized kinds take their width from the configured sizes, and constants beyond int64 are limited to the kind's bit length; " +
		"(2) materialise-accessor: in the back end's constant materialiser (plain and named types), each kind is read through the accessor of its signedness (Uint64Val / Int64Val / Float64Val / BoolVal / StringVal), given the wir type of that kind, and floats are spelled with the kind's precision; " +
		"(3) literal-spelling: the literal spelling the materialiser produces for each integer/float type is one the static-data encoder (aBasic.Bin) parses back with the same width and signedness (a u64 spelled through int() may be negative and must be accepted). " +
		"NOT decided: the arithmetic of internal/constant itself (a vendored port of go/constant), overflow detection per operator, rounding of float constants, and the run-time side of the comparison (covered by the lowering tables of C01)."
	c.Trusted = []string{"go/packages, go/types (x/tools v0.29.0)", "Go specification: ranges of the sized integer kinds"}
	c.Exhaust = true
	p := c.Load(LoadOpt{Light: true}, "./internal/types", "./internal/constant", "./internal/backends/compiler_wat", "./internal/backends/compiler_wat/wir")
	tp := p.MustPkg("representable-bounds", "internal/types")
	bk := p.MustPkg("materialise-accessor", "internal/backends/compiler_wat")
	wp := p.MustPkg("literal-spelling", "internal/backends/compiler_wat/wir")
	if tp != nil {
		c15Representable(c, p, tp)
		c15FloatRounding(c, p, tp)
		c15FloatKindWidth(c, p, tp)
	}
	if cp := p.MustPkg("fast-path-bounds", "internal/constant"); cp != nil {
		c15FastPath(c, p, cp)
	}
	var spell map[string]string
	if bk != nil {
		spell = c15Materialise(c, p, bk)
	}
	if wp != nil && spell != nil {
		c15Spelling(c, p, wp, spell)
	}
}

// ---- (1)

func c15Representable(c *Ctx, p *Prog, tp *packages.Package) {
	const rule = "representable-bounds"
	info := tp.TypesInfo
	fd := p.MustFunc(rule, tp, "representableConst")
	if fd == nil {
		return
	}
	sws := FindSwitches(fd, func(tag ast.Expr) bool { return strings.HasSuffix(types.ExprString(tag), "typ.kind") })
	// also `switch n := constant.BitLen(x); typ.kind`
	if len(sws) < 2 {
		c.Undecided(rule, "switch typ.kind (integer part)", p.Pos(fd.Pos()), fmt.Sprintf("expected the two integer kind switches, found %d", len(sws)))
		return
	}
	n := 0
	// first switch: x fits int64
	for _, arm := range SwitchArms(info, sws[0]) {
		for _, k := range arm.Consts {
			w, sized := basicKindWidth[k.Name]
			switch {
			case sized:
				n++
				var ret *ast.ReturnStmt
				for _, s := range arm.Body {
					if r, ok := s.(*ast.ReturnStmt); ok {
						ret = r
					}
				}
				loc := p.Pos(arm.Clause.Pos())
				if k.Name == "Int64" || k.Name == "Uint64" {
					// x already fits int64: Int64 is always representable; Uint64 iff 0 <= x
					good := false
					if ret != nil && len(ret.Results) == 1 {
						s := strings.ReplaceAll(types.ExprString(ret.Results[0]), " ", "")
						good = (k.Name == "Int64" && s == "true") || (k.Name == "Uint64" && s == "0<=x")
					}
					c.Check(good, rule, k.Name, loc, "whole int64 range / non-negative", k.Name+": a constant that fits int64 must be accepted "+map[bool]string{true: "always", false: "iff it is non-negative"}[k.Name == "Int64"])
					continue
				}
				lo, hi, shape := boundsOf(p, tp, ret)
				var wantLo, wantHi int64
				if w[1] == 1 {
					wantLo, wantHi = -(int64(1) << (w[0] - 1)), int64(1)<<(w[0]-1)-1
				} else {
					wantLo, wantHi = 0, int64(1)<<w[0]-1
				}
				if !shape {
					c.Undecided(rule, k.Name, loc, "the arm does not return `L <= x && x <= U` with constant bounds")
					continue
				}
				c.Check(lo == wantLo && hi == wantHi, rule, k.Name, loc, fmt.Sprintf("[%d, %d]", lo, hi),
					fmt.Sprintf("representableConst accepts [%d, %d] for %s; the kind's range is [%d, %d]: a constant outside the range is folded although the run-time type cannot hold it (or a valid one is rejected)", lo, hi, k.Name, wantLo, wantHi))
			case k.Name == "Int" || k.Name == "Uint" || k.Name == "Uintptr":
				n++
				// width must come from conf.sizeof(typ) * 8
				src := ""
				for _, s := range arm.Body {
					src += nodeString(p, s)
				}
				c.Check(strings.Contains(strings.ReplaceAll(src, " ", ""), "conf.sizeof(typ))*8"), rule, k.Name+" (platform-sized)", p.Pos(arm.Clause.Pos()), "width = conf.sizeof(typ)*8", k.Name+": the width of the platform-sized kind is not taken from the configured sizes")
			}
		}
	}
	// second switch: x does not fit int64
	for _, arm := range SwitchArms(info, sws[1]) {
		for _, k := range arm.Consts {
			if k.Name != "Uint64" {
				continue
			}
			n++
			good := false
			for _, s := range arm.Body {
				if r, ok := s.(*ast.ReturnStmt); ok && len(r.Results) == 1 {
					str := strings.ReplaceAll(types.ExprString(r.Results[0]), " ", "")
					good = str == "constant.Sign(x)>=0&&n<=64"
				}
			}
			c.Check(good, rule, "Uint64 (beyond int64)", p.Pos(arm.Clause.Pos()), "sign >= 0 && bitlen <= 64", "constants beyond int64 are representable as uint64 iff they are non-negative and need at most 64 bits")
		}
	}
	c.Min(rule, "integer kind arms", n, 11)
}

// boundsOf reads `L <= x && x <= U` with bounds that evaluate to constants. The test may be written in place or in a
// helper of the package whose body is a single return (`fitsIntN(x, 8)`): the helper's parameters are bound to the
// arguments (the value under test stays symbolic) and its return expression is read instead.
func boundsOf(p *Prog, tp *packages.Package, ret *ast.ReturnStmt) (lo, hi int64, ok bool) {
	info := tp.TypesInfo
	if ret == nil || len(ret.Results) != 1 {
		return
	}
	env := &fenv{info: info, vars: map[types.Object]fval{}}
	isX := map[types.Object]bool{}
	xIdent := func(e ast.Expr) bool {
		id, isID := ast.Unparen(e).(*ast.Ident)
		if !isID {
			return false
		}
		return id.Name == "x" && len(isX) == 0 || isX[info.Uses[id]]
	}
	expr := ast.Unparen(ret.Results[0])
	for depth := 0; depth < 3; depth++ {
		call, isCall := expr.(*ast.CallExpr)
		if !isCall {
			break
		}
		fn := CalleeOf(info, call)
		if fn == nil || fn.Pkg() != tp.Types {
			return
		}
		var hd *ast.FuncDecl
		for _, f := range tp.Syntax {
			for _, d := range f.Decls {
				if fd, isFn := d.(*ast.FuncDecl); isFn && info.Defs[fd.Name] == fn {
					hd = fd
				}
			}
		}
		if hd == nil || hd.Body == nil || len(hd.Body.List) != 1 {
			return
		}
		hret, isRet := hd.Body.List[0].(*ast.ReturnStmt)
		if !isRet || len(hret.Results) != 1 {
			return
		}
		var params []types.Object
		for _, fl := range hd.Type.Params.List {
			for _, nm := range fl.Names {
				params = append(params, info.Defs[nm])
			}
		}
		if len(params) != len(call.Args) {
			return
		}
		newX := map[types.Object]bool{}
		for i, a := range call.Args {
			if xIdent(a) {
				newX[params[i]] = true
				continue
			}
			v := env.eval(a)
			if !v.OK || v.IsBool {
				return
			}
			env.vars[params[i]] = v
		}
		if len(newX) == 0 {
			return
		}
		isX = newX
		expr = ast.Unparen(hret.Results[0])
	}
	and, isAnd := expr.(*ast.BinaryExpr)
	if !isAnd || and.Op != token.LAND {
		return
	}
	l, ok1 := ast.Unparen(and.X).(*ast.BinaryExpr)
	r, ok2 := ast.Unparen(and.Y).(*ast.BinaryExpr)
	if !ok1 || !ok2 || l.Op != token.LEQ || r.Op != token.LEQ {
		return
	}
	if !xIdent(l.Y) || !xIdent(r.X) {
		return
	}
	lv, rv := env.eval(l.X), env.eval(r.Y)
	if !lv.OK || !rv.OK || lv.IsBool || rv.IsBool {
		return
	}
	return lv.I, rv.I, true
}

// ---- (2)

type kindWant struct {
	accessor string // Uint64Val | Int64Val | Float64Val | BoolVal | StringVal
	wirType  []string
	fbits    int
}

var kindTable = map[string]kindWant{
	"Bool": {"BoolVal", []string{"BOOL"}, 0}, "UntypedBool": {"BoolVal", []string{"BOOL"}, 0},
	"Uint8": {"Uint64Val", []string{"U8"}, 0}, "Uint16": {"Uint64Val", []string{"U16"}, 0}, "Uint32": {"Uint64Val", []string{"U32"}, 0},
	"Uint": {"Uint64Val", []string{"U32", "UINT"}, 0}, "Uintptr": {"Uint64Val", []string{"U32", "UPTR"}, 0}, "Uint64": {"Uint64Val", []string{"U64"}, 0},
	"Int8": {"Int64Val", []string{"I8"}, 0}, "Int16": {"Int64Val", []string{"I16"}, 0}, "Int32": {"Int64Val", []string{"I32", "RUNE"}, 0},
	"Int": {"Int64Val", []string{"I32", "INT", "RUNE"}, 0}, "UntypedInt": {"Int64Val", []string{"I32", "INT", "RUNE"}, 0}, "Int64": {"Int64Val", []string{"I64"}, 0},
	"Float32": {"Float64Val", []string{"F32"}, 32}, "Float64": {"Float64Val", []string{"F64"}, 64}, "UntypedFloat": {"Float64Val", []string{"F64"}, 64},
	"String": {"StringVal", []string{"STRING"}, 0}, "UntypedString": {"StringVal", []string{"STRING"}, 0},
}

// c15Materialise returns, per wir type name (U8, I32, ...), the spelling class the materialiser uses: "itoa-int" | "format-uint" | "float32" | "float64".
func c15Materialise(c *Ctx, p *Prog, bk *packages.Package) map[string]string {
	const rule = "materialise-accessor"
	info := bk.TypesInfo
	fd := p.MustFunc(rule, bk, "functionGenerator.getValue")
	if fd == nil {
		return nil
	}
	spell := map[string]string{}
	n := 0
	var kindSwitches []*ast.SwitchStmt
	ast.Inspect(fd.Body, func(nd ast.Node) bool {
		if sw, ok := nd.(*ast.SwitchStmt); ok && sw.Tag != nil && strings.HasSuffix(types.ExprString(sw.Tag), ".Kind()") {
			kindSwitches = append(kindSwitches, sw)
		}
		return true
	})
	if len(kindSwitches) != 2 {
		c.Undecided(rule, "kind switches in getValue", p.Pos(fd.Pos()), fmt.Sprintf("expected the plain and the named kind switch, found %d", len(kindSwitches)))
		return nil
	}
	for si, sw := range kindSwitches {
		which := []string{"basic", "named"}[si]
		for _, arm := range SwitchArms(info, sw) {
			if arm.Default || fatalOnly(info, arm.Body) {
				continue
			}
			var kinds []string
			for _, k := range arm.Consts {
				kinds = append(kinds, k.Name)
			}
			if len(kinds) == 0 {
				continue
			}
			// facts of the arm
			accessors := map[string]bool{}
			var wirTypes []string
			var fbits []int64
			var spells []string
			for _, s := range arm.Body {
				ast.Inspect(s, func(nd ast.Node) bool {
					call, ok := nd.(*ast.CallExpr)
					if !ok {
						return true
					}
					fn := types.ExprString(call.Fun)
					switch {
					case strings.HasPrefix(fn, "constant.") && strings.HasSuffix(fn, "Val"):
						accessors[strings.TrimPrefix(fn, "constant.")] = true
					case fn == "wir.NewConst" && len(call.Args) == 2:
						t := types.ExprString(call.Args[1])
						if i := strings.LastIndex(t, "."); i >= 0 && strings.HasPrefix(t, "g.module.") {
							wirTypes = append(wirTypes, t[i+1:])
						} else {
							wirTypes = append(wirTypes, "compiled")
						}
						lit := strings.ReplaceAll(types.ExprString(call.Args[0]), " ", "")
						switch {
						case strings.HasPrefix(lit, "strconv.Itoa(int("):
							spells = append(spells, "itoa-int")
						case strings.HasPrefix(lit, "strconv.FormatUint("):
							spells = append(spells, "format-uint")
						case strings.HasPrefix(lit, "strconv.FormatInt("):
							spells = append(spells, "format-int")
						case strings.HasPrefix(lit, "strconv.FormatFloat("):
							spells = append(spells, "float")
						}
					case fn == "strconv.FormatFloat" && len(call.Args) == 4:
						if v, ok := constIntOf(info, call.Args[3]); ok {
							fbits = append(fbits, v)
						}
					}
					return true
				})
			}
			for _, kind := range kinds {
				want, ok := kindTable[kind]
				if !ok {
					continue // complex kinds: not decided
				}
				n++
				var probs []string
				if !accessors[want.accessor] || len(accessors) != 1 {
					probs = append(probs, fmt.Sprintf("reads the constant through %s; a %s constant must be read through constant.%s (the other accessor reports inexact and yields 0 or a wrapped value outside its range)", strings.Join(sortedKeys(accessors), "/"), kind, want.accessor))
				}
				for _, wt := range wirTypes {
					if wt == "compiled" {
						continue
					}
					okT := false
					for _, w := range want.wirType {
						if w == wt {
							okT = true
						}
					}
					if !okT {
						probs = append(probs, fmt.Sprintf("gives the constant the wir type %s; kind %s lowers to %s", wt, kind, strings.Join(want.wirType, "/")))
					}
				}
				if want.fbits != 0 {
					for _, b := range fbits {
						if int(b) != want.fbits {
							probs = append(probs, fmt.Sprintf("spells the float with %d-bit precision; kind %s has %d", b, kind, want.fbits))
						}
					}
				}
				c.Check(len(probs) == 0, rule, which+" "+kind, p.Pos(arm.Clause.Pos()), "constant."+want.accessor+" -> "+strings.Join(want.wirType, "/"), "getValue ("+which+" "+kind+") "+strings.Join(probs, "; "))
				if which == "basic" && len(spells) > 0 && len(wirTypes) > 0 {
					for _, wt := range wirTypes {
						if wt != "compiled" {
							spell[wt] = spells[0]
						}
					}
				}
			}
		}
	}
	c.Min(rule, "kind arms decided", n, 28)
	return spell
}

// ---- (3)

func c15Spelling(c *Ctx, p *Prog, wp *packages.Package, spell map[string]string) {
	const rule = "literal-spelling"
	info := wp.TypesInfo
	fd := p.MustFunc(rule, wp, "aBasic.Bin")
	if fd == nil {
		return
	}
	var ts *ast.TypeSwitchStmt
	ast.Inspect(fd.Body, func(n ast.Node) bool {
		if s, ok := n.(*ast.TypeSwitchStmt); ok && ts == nil {
			ts = s
		}
		return ts == nil
	})
	if ts == nil {
		c.Undecided(rule, "aBasic.Bin type switch", p.Pos(fd.Pos()), "type switch not found")
		return
	}
	// wir type -> (width, signed)
	wir := map[string][2]int{"U8": {8, 0}, "I8": {8, 1}, "U16": {16, 0}, "I16": {16, 1}, "U32": {32, 0}, "I32": {32, 1}, "Rune": {32, 1}, "U64": {64, 0}, "I64": {64, 1}, "Bool": {8, 0}}
	n := 0
	for _, arm := range TypeSwitchArms(info, ts) {
		var names []string
		for _, t := range arm.Types {
			names = append(names, namedTypeName(t))
		}
		parsers := map[string][]int64{} // ParseUint/ParseInt/ParseFloat -> bit sizes
		for _, s := range arm.Body {
			ast.Inspect(s, func(nd ast.Node) bool {
				call, ok := nd.(*ast.CallExpr)
				if !ok {
					return true
				}
				fn := types.ExprString(call.Fun)
				if strings.HasPrefix(fn, "strconv.Parse") && len(call.Args) >= 2 {
					if b, ok := constIntOf(info, call.Args[len(call.Args)-1]); ok {
						parsers[strings.TrimPrefix(fn, "strconv.")] = append(parsers[strings.TrimPrefix(fn, "strconv.")], b)
					}
				}
				return true
			})
		}
		for _, name := range names {
			if w, ok := wir[name]; ok {
				n++
				var probs []string
				for fn, bits := range parsers {
					for _, b := range bits {
						if int(b) != w[0] {
							probs = append(probs, fmt.Sprintf("%s with bit size %d for a %d-bit type: larger values are clamped, the error is dropped", fn, b, w[0]))
						}
					}
				}
				sp := spell[strings.ToUpper(name)]
				if name == "Rune" {
					sp = spell["RUNE"]
				}
				_, hasU := parsers["ParseUint"]
				_, hasI := parsers["ParseInt"]
				switch {
				case w[1] == 1 && !hasI:
					probs = append(probs, "a signed type is parsed without ParseInt: negative literals are lost")
				case w[1] == 0 && !hasU && !hasI:
					probs = append(probs, "no integer parser found")
				case w[1] == 0 && w[0] == 64 && sp == "itoa-int" && !hasI:
					probs = append(probs, "getValue spells u64 constants through strconv.Itoa(int(val)), which is negative from 1<<63 up; this arm parses with ParseUint only and drops the error: such constants become 0 in static data")
				case w[1] == 0 && w[0] == 64 && sp == "format-uint" && !hasU:
					probs = append(probs, "getValue spells u64 constants unsigned; this arm cannot parse values above MaxInt64")
				case w[1] == 0 && w[0] < 64 && !hasU:
					probs = append(probs, fmt.Sprintf("an unsigned %d-bit type is parsed with ParseInt(.., %d) only: literals from 1<<%d up are outside ParseInt's range, the error is dropped and the value is clamped to the largest signed one — a %s constant with its top bit set is stored as 0x7f…ff in static data", w[0], w[0], w[0]-1, strings.ToLower(name)))
				}
				sort.Strings(probs)
				c.Check(len(probs) == 0, rule, name, p.Pos(arm.Clause.Pos()), fmt.Sprintf("%d-bit %s, spelled %q", w[0], signName(w[1] == 1), sp), "aBasic.Bin("+name+"): "+strings.Join(probs, "; "))
			}
			if name == "F32" || name == "F64" {
				n++
				want := int64(32)
				if name == "F64" {
					want = 64
				}
				good := len(parsers["ParseFloat"]) == 1 && parsers["ParseFloat"][0] == want
				c.Check(good, rule, name, p.Pos(arm.Clause.Pos()), fmt.Sprintf("ParseFloat(%d)", want), fmt.Sprintf("aBasic.Bin(%s) must parse the literal with ParseFloat(.., %d)", name, want))
			}
		}
	}
	c.Min(rule, "static-data arms", n, 11)
}
