package main

import (
	"bufio"
	"bytes"
	"encoding/json"
	"flag"
	"fmt"
	"os"
	"os/exec"
	"path/filepath"
	"sort"
	"strings"
	"sync"
)

// Mutant is a sensitivity operator: a textual edit applied to an in-memory copy of one repository file
// (through the packages overlay / Ctx.ReadFile). It is analysed, never built or run.
type Mutant struct {
	Name   string
	File   string // relative to repo root
	Old    string
	New    string
	Nth    int    // which occurrence of Old (0 = first)
	Expect string // substring that must appear in "rule :: construct" of a reported non-ok obligation
	Old2   string // optional second edit in the same file (first occurrence), applied after the first
	New2   string
}

type Property struct {
	ID      string
	Level   string
	Run     func(c *Ctx)
	Mutants []Mutant
}

var registry = map[string]*Property{}

func register(p *Property) {
	if p.Level == "" {
		p.Level = "other"
	}
	registry[p.ID] = p
}

func main() {
	if len(os.Args) < 3 {
		fmt.Fprintln(os.Stderr, "usage: wacheck check Cnn [--tier quick|thorough] [--seed N] | wacheck list | wacheck replay Cnn file")
		os.Exit(2)
	}
	switch os.Args[1] {
	case "list":
		var ids []string
		for id := range registry {
			ids = append(ids, id)
		}
		sort.Strings(ids)
		fmt.Println(strings.Join(ids, " "))
		return
	case "check", "replay":
	default:
		fmt.Fprintln(os.Stderr, "unknown command", os.Args[1])
		os.Exit(2)
	}
	id := os.Args[2]
	fs := flag.NewFlagSet("check", flag.ExitOnError)
	tier := fs.String("tier", "quick", "")
	seed := fs.Int("seed", 0, "")
	mutant := fs.Int("mutant", -1, "")
	fs.Parse(os.Args[3:])
	p := registry[id]
	if p == nil {
		fmt.Fprintln(os.Stderr, "no check registered for", id)
		os.Exit(2)
	}
	if os.Args[1] == "replay" {
		os.Exit(replay(p, fs.Args()))
	}
	if *mutant >= 0 {
		os.Exit(runMutant(p, *mutant))
	}
	c := NewCtx(id, *tier, *seed)
	defer func() {
		if r := recover(); r != nil {
			fmt.Fprintf(os.Stderr, "INFRASTRUCTURE FAILURE: checker panic: %v\n", r)
			panic(r)
		}
	}()
	p.Run(c)
	if *tier == "thorough" {
		if !sensitivity(c, p) {
			c.Finish(p.Level)
			fmt.Println("CHECKER SELF-TEST FAILED: a registered mutant was not detected (this is a checker failure, not a property violation)")
			os.Exit(2)
		}
	}
	os.Exit(c.Finish(p.Level))
}

func applyMutant(c *Ctx, m Mutant) (bool, string) {
	path := filepath.Join(c.Repo, m.File)
	b, err := os.ReadFile(path)
	if err != nil {
		return false, "file missing"
	}
	idx := -1
	from := 0
	for k := 0; k <= m.Nth; k++ {
		i := bytes.Index(b[from:], []byte(m.Old))
		if i < 0 {
			return false, "pattern not found (source changed); mutant skipped"
		}
		idx = from + i
		from = idx + len(m.Old)
	}
	nb := append([]byte{}, b[:idx]...)
	nb = append(nb, m.New...)
	nb = append(nb, b[idx+len(m.Old):]...)
	if m.Old2 != "" {
		j := bytes.Index(nb, []byte(m.Old2))
		if j < 0 {
			return false, "second pattern not found (source changed); mutant skipped"
		}
		nb2 := append([]byte{}, nb[:j]...)
		nb2 = append(nb2, m.New2...)
		nb2 = append(nb2, nb[j+len(m.Old2):]...)
		nb = nb2
	}
	c.Overlay[path] = nb
	return true, ""
}

// runMutant analyses one mutant and prints its non-ok obligations as "MUTOBL <json>" lines.
func runMutant(p *Property, k int) int {
	if k >= len(p.Mutants) {
		return 2
	}
	c := NewCtx(p.ID, "quick", 0)
	ok, why := applyMutant(c, p.Mutants[k])
	if !ok {
		fmt.Println("MUTSKIP " + why)
		return 0
	}
	p.Run(c)
	known := loadKnown()
	kn := map[string]bool{}
	for _, kf := range known.Known {
		if kf.Property == p.ID {
			kn[kf.Rule+" :: "+kf.Construct] = true
		}
	}
	for _, o := range c.Obls {
		if o.Verdict != "ok" && !kn[o.Key()] {
			b, _ := json.Marshal(o)
			fmt.Println("MUTOBL " + string(b))
		}
	}
	return 0
}

// sensitivity runs every registered mutant in a subprocess (bounded parallelism) and requires the
// rule to fire and to name the mutated instance.
func sensitivity(c *Ctx, p *Property) bool {
	exe, err := os.Executable()
	if err != nil {
		infra("os.Executable: %v", err)
	}
	type res struct {
		m       Mutant
		status  string
		matched string
	}
	results := make([]res, len(p.Mutants))
	sem := make(chan struct{}, 6)
	var wg sync.WaitGroup
	for i, m := range p.Mutants {
		wg.Add(1)
		go func(i int, m Mutant) {
			defer wg.Done()
			sem <- struct{}{}
			defer func() { <-sem }()
			cmd := exec.Command(exe, "check", p.ID, "--mutant", fmt.Sprint(i))
			cmd.Env = os.Environ()
			var out, errb bytes.Buffer
			cmd.Stdout, cmd.Stderr = &out, &errb
			err := cmd.Run()
			r := res{m: m}
			if err != nil {
				// a mutant that no longer type-checks is not a valid mutant: report, do not fail
				r.status = "invalid (does not load): " + firstLine(errb.String())
				results[i] = r
				return
			}
			r.status = "missed"
			sc := bufio.NewScanner(&out)
			sc.Buffer(make([]byte, 1<<20), 1<<24)
			for sc.Scan() {
				line := sc.Text()
				if strings.HasPrefix(line, "MUTSKIP ") {
					r.status = "skipped: " + strings.TrimPrefix(line, "MUTSKIP ")
				}
				if strings.HasPrefix(line, "MUTOBL ") {
					var o Obligation
					json.Unmarshal([]byte(strings.TrimPrefix(line, "MUTOBL ")), &o)
					if strings.Contains(o.Key(), m.Expect) {
						r.status = "detected"
						r.matched = o.Key() + " @ " + o.Loc
					} else if r.status == "missed" {
						r.status = "missed (other report: " + o.Key() + ")"
					}
				}
			}
			results[i] = r
		}(i, m)
	}
	wg.Wait()
	allOK := true
	var list []map[string]string
	det := 0
	for _, r := range results {
		list = append(list, map[string]string{"mutant": r.m.Name, "file": r.m.File, "expect": r.m.Expect, "status": r.status, "matched": r.matched})
		if strings.HasPrefix(r.status, "missed") || strings.HasPrefix(r.status, "invalid") {
			allOK = false
			fmt.Printf("SELF-TEST: mutant %q (%s) %s\n", r.m.Name, r.m.File, r.status)
		}
		if strings.HasPrefix(r.status, "skipped") {
			// not a failure (the tree under analysis may differ from the one the mutant was written for), but on the
			// unchanged tree every registered mutant should apply: the line makes a stale mutant visible
			fmt.Printf("SELF-TEST-NOTE: mutant %q (%s) %s\n", r.m.Name, r.m.File, r.status)
		}
		if r.status == "detected" {
			det++
		}
	}
	c.Analysed["sensitivity_mutants"] = len(results)
	c.Analysed["sensitivity_detected"] = det
	b, _ := json.Marshal(list)
	c.Notes = append(c.Notes, "sensitivity run (mutants analysed statically through an overlay, never built or run): "+string(b))
	return allOK
}

func firstLine(s string) string {
	s = strings.TrimSpace(s)
	if i := strings.IndexByte(s, '\n'); i >= 0 {
		return s[:i]
	}
	return s
}

// replay re-evaluates the property and prints the obligations recorded in the given violations file.
func replay(p *Property, args []string) int {
	want := map[string]bool{}
	if len(args) > 0 {
		b, err := os.ReadFile(args[0])
		if err == nil {
			var f struct {
				Violations []Obligation `json:"violations"`
			}
			json.Unmarshal(b, &f)
			for _, o := range f.Violations {
				want[o.Key()] = true
			}
		}
	}
	c := NewCtx(p.ID, "quick", 0)
	c.Overlay["<replay>"] = nil // suppress evidence rewrite
	p.Run(c)
	delete(c.Overlay, "<replay>")
	n := 0
	for _, o := range c.Obls {
		if want[o.Key()] || (len(want) == 0 && o.Verdict != "ok") {
			fmt.Printf("%s [%s] %s @ %s: %s\n", strings.ToUpper(o.Verdict), o.Rule, o.Construct, o.Loc, o.Detail)
			if o.Verdict != "ok" {
				n++
			}
		}
	}
	if n > 0 {
		return 1
	}
	return 0
}
