package main

import (
	"fmt"
	"go/ast"
	"go/constant"
	"go/token"
	"go/types"
	"sort"
	"strings"

	"golang.org/x/tools/go/packages"
)

func init() {
	register(&Property{ID: "C05", Run: runC05, Mutants: []Mutant{
		{Name: "memory maximum printed only when it exceeds the initial size", File: "internal/wat/printer/printer_memory.go", Old: "if p.m.Memory.MaxPages > 0 {", New: "if p.m.Memory.MaxPages > p.m.Memory.Pages {", Expect: "optional-limit-elision"},
		{Name: "imported memory maximum dropped when it equals 1", File: "internal/wat/printer/printer_import.go", Old: "if importSpec.Memory.MaxPages != 0 {", New: "if importSpec.Memory.MaxPages > 1 {", Expect: "optional-limit-elision"},
		{Name: "memory emptiness ignores the address type", File: "internal/wat/printer/printer_empty.go", Old: "if zero := new(ast.Memory); *zero == *p.m.Memory {", New: "if zero := (ast.Memory{AddrType: p.m.Memory.AddrType}); zero == *p.m.Memory {", Expect: "empty-predicate-whole-value"},
		{Name: "inline func exports merged before inline global exports", File: "internal/wat/parser/module.go", Old: "\tfor _, g := range p.module.Globals {\n\t\tif g.ExportName != \"\" {\n\t\t\tp.module.Exports = append(p.module.Exports, &ast.ExportSpec{\n\t\t\t\tName:      g.ExportName,\n\t\t\t\tKind:      token.GLOBAL,\n\t\t\t\tGlobalIdx: g.Name,\n\t\t\t})\n\t\t}\n\t}\n", New: "", Expect: "inline-export-merge-order"},
		{Name: "printer drops the memory.init data index", File: "internal/wat/printer/printer_funcs.go", Old: "fmt.Fprintln(w, tok, ins.(ast.Ins_MemoryInit).DataIdx)", New: "fmt.Fprintln(w, tok)", Expect: "ins-field-coverage :: memory.init"},
		{Name: "printer elides align=1 for i64.store16 (legal, not the default)", File: "internal/wat/printer/printer_funcs.go", Old: "insLoad := ins.(ast.Ins_I64Store16)\n\t\tif x := insLoad.Offset; x != 0 {\n\t\t\tfmt.Fprintf(w, \" offset=%d\", x)\n\t\t}\n\t\tif x := insLoad.Align; x != 2 {", New: "insLoad := ins.(ast.Ins_I64Store16)\n\t\tif x := insLoad.Offset; x != 0 {\n\t\t\tfmt.Fprintf(w, \" offset=%d\", x)\n\t\t}\n\t\tif x := insLoad.Align; x != 1 {", Expect: "elision-default :: i64.store16"},
		{Name: "printer stops printing else branches", File: "internal/wat/printer/printer_funcs.go", Old: "\t\t\tfor _, x := range insIf.Else {\n\t\t\t\twatPrinter_printFuncs_body_ins(w, indent, x, blkLevel+1)\n\t\t\t}\n", New: "", Expect: "nested-body :: if"},
		{Name: "printer prints a different mnemonic", File: "internal/wat/printer/printer_funcs.go", Old: "case token.INS_I64_GE_U:\n\t\tfmt.Fprintln(w, tok)", New: "case token.INS_I64_GE_U:\n\t\tfmt.Fprintln(w, token.INS_I64_GE_S)", Expect: "mnemonic :: i64.ge_u"},
		{Name: "printer forgets table max size", File: "internal/wat/printer/printer_table.go", Old: "\tif p.m.Table.MaxSize > 0 {\n\t\tfmt.Fprint(p.w, \" \", p.m.Table.MaxSize)\n\t}\n", New: "", Expect: "module-field-coverage :: Table.MaxSize"},
		{Name: "printer forgets mutability", File: "internal/wat/printer/printer_globals.go", Old: "if g.Mutable {\n\t\t\tfmt.Fprintf(p.w, \" (mut %v)\", g.Type)\n\t\t} else {\n\t\t\tfmt.Fprint(p.w, \" \", g.Type)\n\t\t}", New: "fmt.Fprint(p.w, \" \", g.Type)", Expect: "module-field-coverage :: Global.Mutable"},
		{Name: "instruction arm removed", File: "internal/wat/printer/printer_funcs.go", Old: "\tcase token.INS_F64_COPYSIGN:\n\t\tfmt.Fprintln(w, tok)\n", New: "", Expect: "printer-exhaustive :: f64.copysign"},
		{Name: "function name printed without testing that there is one", File: "internal/wat/printer/printer_funcs.go", Old: "\t\tif fn.Name != \"\" {\n\t\t\tfmt.Fprintf(p.w, \" %s\", watPrinter_identOrIndex(fn.Name))\n\t\t}\n", New: "\t\tfmt.Fprintf(p.w, \" %s\", watPrinter_identOrIndex(fn.Name))\n", Expect: "optional-name-guarded :: watPrinter.printFuncs"},
		{Name: "global name guarded by the wrong field", File: "internal/wat/printer/printer_globals.go", Old: "if g.Name != \"\" {", New: "if g.ExportName != \"\" {", Expect: "optional-name-guarded :: watPrinter.printGlobals"},
		{Name: "data segment name glued to the keyword", File: "internal/wat/printer/printer_data.go", Old: "fmt.Fprint(p.w, \" \", watPrinter_identOrIndex(d.Name))", New: "fmt.Fprint(p.w, watPrinter_identOrIndex(d.Name))", Expect: "token-separation :: watPrinter.printData"},
		{Name: "global type glued to the keyword", File: "internal/wat/printer/printer_globals.go", Old: "fmt.Fprint(p.w, \" \", g.Type)", New: "fmt.Fprint(p.w, g.Type)", Expect: "token-separation :: watPrinter.printGlobals"},
		{Name: "inline export name printed with Go's %q", File: "internal/wat/printer/printer_funcs.go", Old: "fmt.Fprintf(p.w, \" (export %s)\", watPrinter_quote(fn.ExportName))", New: "fmt.Fprintf(p.w, \" (export %q)\", fn.ExportName)", Expect: "name-literal-quoted :: watPrinter.printFuncs"},
		{Name: "imported function printed without its parameter names", File: "internal/wat/printer/printer_import.go", Old: "\t\t\tif x.Name != \"\" {\n\t\t\t\tfmt.Fprintf(p.w, \" (param %s %v)\", watPrinter_identOrIndex(x.Name), x.Type)\n\t\t\t} else {\n\t\t\t\tfmt.Fprintf(p.w, \" (param %v)\", x.Type)\n\t\t\t}", New: "\t\t\tfmt.Fprintf(p.w, \" (param %v)\", x.Type)", Expect: "param-names-printed :: watPrinter.printImport_func"},
		{Name: "function body printed only when there are locals too", File: "internal/wat/printer/printer_funcs.go", Old: "if len(fn.Locals) != 0 || len(fn.Body.List) != 0 {", New: "if len(fn.Locals) != 0 && len(fn.Body.List) != 0 {", Expect: "list-print-guard"},
		{Name: "function body guard compares with 1", File: "internal/wat/printer/printer_funcs.go", Old: "if len(fn.Locals) != 0 || len(fn.Body.List) != 0 {", New: "if len(fn.Locals) != 0 || len(fn.Body.List) != 1 {", Expect: "list-print-guard"},
		{Name: "section printer not called", File: "internal/wat/printer/printer.go", Old: "\tif err := p.printElem(); err != nil {\n\t\treturn err\n\t}\n", New: "", Expect: "section-called"},
	}})
}

// watParserTypes maps INS_X -> name of the ast type the parser builds for it (quiet variant of C04's rule).
func watParserTypes(pr *packages.Package) map[string]string {
	out := map[string]string{}
	pi := FuncDecl(pr, "parser.parseInstruction")
	if pi == nil {
		return out
	}
	sws := FindSwitches(pi, tagTypeIs(pr.TypesInfo, "internal/wat/token", "Token"))
	if len(sws) == 0 {
		return out
	}
	for _, arm := range SwitchArms(pr.TypesInfo, sws[0]) {
		var callee *types.Func
		for _, call := range callsIn(pr.TypesInfo, arm.Body) {
			if f := CalleeOf(pr.TypesInfo, call); f != nil && strings.HasPrefix(f.Name(), "parseIns_") {
				callee = f
			}
		}
		if callee == nil {
			continue
		}
		sig := callee.Type().(*types.Signature)
		if sig.Results().Len() == 1 {
			for _, k := range arm.Consts {
				out[k.Name] = namedTypeName(sig.Results().At(0).Type())
			}
		}
	}
	return out
}

func runC05(c *Ctx) {
	c.Explain = "Decides necessary structural clauses of print->parse identity for the WAT printer: (1) the instruction printer has an arm for every instruction token and prints that token's own mnemonic; " +
		"(2) every field the parser stores in an instruction node, and every field of the module-level nodes, is read by the printer (a field the printer never reads cannot survive print->parse); nested instruction lists are iterated; " +
		"(3) where the printer elides align=/offset= at a constant, the parser's default is the same constant or the elided value is not a legal alignment; (4) every section printer is called from Fprint. " +
		"(5) optional names are printed under a non-emptiness test, adjacent pieces of printed text never fuse two tokens, names are printed through the quoting function, parameter names are printed wherever parameters are. " +
		"NOT decided: number formatting, acceptance by other tools, names that look like numbers ($0)."
	c.Trusted = []string{"go/packages, go/types (x/tools v0.29.0)", "embedded WebAssembly 1.0 instruction table (natural alignments)"}
	c.Exhaust = true
	p := c.Load(LoadOpt{Light: true}, "./internal/wat/...")
	const rEx, rMn, rIF, rNB, rEl, rMF, rSec = "printer-exhaustive", "mnemonic", "ins-field-coverage", "nested-body", "elision-default", "module-field-coverage", "section-called"
	ins, tk := watTokenTable(c, p, rEx)
	pr := p.MustPkg(rEx, "internal/wat/parser")
	pp := p.MustPkg(rEx, "internal/wat/printer")
	as := p.MustPkg(rEx, "internal/wat/ast")
	if tk == nil || pr == nil || pp == nil || as == nil {
		return
	}
	info := pp.TypesInfo
	c05EmptyPredicates(c, p, pp)
	c05OptionalLimits(c, p, pp)
	c05ExportMergeOrder(c, p, pr, pp)
	c05OptionalNames(c, p, pr, pp)
	c05TokenSeparation(c, p, pp)
	c05NamesQuoted(c, p, pp)
	c05ListPrintGuard(c, p, pp)
	ptypes := watParserTypes(pr)
	c.Min(rEx, "parser token->type rows", len(ptypes), 170)
	astFields := StructFields(as)
	pfuncs := AllFuncDecls(pr)

	fd := p.MustFunc(rEx, pp, "watPrinter_printFuncs_body_ins")
	if fd != nil {
		// arms are read with the package's helpers expanded (inline.go): a header printed through a shared helper is
		// the same text
		fd = &ast.FuncDecl{Recv: fd.Recv, Name: fd.Name, Type: fd.Type, Body: InlinedBody(pp, fd)}
		var sw *ast.SwitchStmt
		ast.Inspect(fd.Body, func(n ast.Node) bool {
			if s, ok := n.(*ast.SwitchStmt); ok && sw == nil {
				sw = s
			}
			return sw == nil
		})
		if sw == nil {
			c.Undecided(rEx, "instruction switch", p.Pos(fd.Pos()), "switch not found")
		} else {
			// switch tok := ins.Token(); tok {...}
			tagName := "tok"
			if id, ok := sw.Tag.(*ast.Ident); ok {
				tagName = id.Name
			}
			covered := map[string]bool{}
			n := 0
			for _, arm := range SwitchArms(info, sw) {
				if arm.Default {
					continue
				}
				for _, k := range arm.Consts {
					m, ok := ins[k.Name]
					if !ok {
						continue
					}
					n++
					covered[k.Name] = true
					loc := p.Pos(arm.Clause.Pos())
					if isPanicOnly(info, arm.Body) {
						c.Check(m == "else" || m == "end", rEx, m, loc, "structural token (printed by its block)", "printer arm for "+m+" panics")
						continue
					}
					// mnemonic: the first printed token must be the tag itself
					first := firstPrintedTokenArg(info, arm.Body)
					c.Check(first == tagName, rMn, m, loc, "prints the instruction's own token", fmt.Sprintf("arm for %s prints %q first instead of the token it was dispatched on", k.Name, first))
					// field coverage
					tname := ptypes[k.Name]
					want := []string{}
					for key := range astFields {
						if strings.HasPrefix(key, tname+".") {
							want = append(want, strings.TrimPrefix(key, tname+"."))
						}
					}
					sort.Strings(want)
					got := fieldsReadOn(info, arm.Body, tname)
					// assertion type
					for _, t := range typeAssertsIn(info, arm.Body) {
						if g := namedTypeName(t); strings.HasPrefix(g, "Ins_") && g != tname {
							c.Fail("type-assertion", m, loc, fmt.Sprintf("printer asserts ast.%s for %s but the parser builds ast.%s", g, k.Name, tname))
						}
					}
					for _, f := range want {
						ft := astFields[tname+"."+f].Type()
						if isInsList(ft) {
							// nested body: must be ranged and each element printed recursively
							c.Check(rangesAndRecurses(info, arm.Body, tname, f, fd.Name.Name, listWalkers(pp, fd.Name.Name)), rNB, m+"."+f, loc, "nested instruction list is iterated and printed recursively", fmt.Sprintf("the instructions in %s.%s are not printed: nested code disappears on print", tname, f))
							continue
						}
						c.Check(got[f], rIF, m+"."+f, loc, "field is printed", fmt.Sprintf("field %s.%s is stored by the parser but never read when printing %s: it cannot survive print->parse", tname, f, m))
					}
					// elision
					if sp := wasmSpec[m]; sp != nil && sp.Imm == "memarg" {
						el := elisionConst(info, arm.Body, "Align")
						var pdef []int64
						for name, f := range pfuncs {
							if strings.HasPrefix(name, "parser.parseIns_") {
								for _, a := range acceptedTokens(pr.TypesInfo, f) {
									if a == k.Name {
										pdef = defaultAssignments(pr.TypesInfo, f, "Align")
									}
								}
							}
						}
						if el == nil || len(pdef) != 1 {
							c.Undecided(rEl, m, loc, "align elision constant or parser default not recognised")
						} else {
							legal := *el >= 1 && *el <= int64(sp.Align) && (*el&(*el-1)) == 0
							c.Check(*el == pdef[0] || !legal, rEl, m, loc, fmt.Sprintf("elides align=%d; parser default %d; natural %d", *el, pdef[0], sp.Align),
								fmt.Sprintf("printer omits align= when it is %d, which is a legal alignment for %s, but the parser's default is %d: a module using align=%d re-parses with align=%d", *el, m, pdef[0], *el, pdef[0]))
						}
						eo := elisionConst(info, arm.Body, "Offset")
						if eo == nil {
							c.Undecided(rEl, m+" offset", loc, "offset elision constant not recognised")
						} else {
							c.Check(*eo == 0, rEl, m+" offset", loc, "elides offset=0 (the default)", fmt.Sprintf("printer omits offset= when it is %d but the default is 0", *eo))
						}
					}
				}
			}
			c.Min(rEx, "printer arms", n, 170)
			var names []string
			for k := range ins {
				names = append(names, k)
			}
			sort.Strings(names)
			for _, k := range names {
				if !covered[k] {
					c.Fail(rEx, ins[k], p.Pos(sw.Pos()), "instruction token "+k+" has no arm in the printer (default: panic)")
				} else {
					_ = k
				}
			}
		}
	}

	// ---- module-level field coverage
	skipIns := func(key string) bool { return strings.HasPrefix(key, "Ins_") }
	_, pw := FieldAccesses(pr, "internal/wat/ast", nil)
	rd, _ := FieldAccesses(pp, "internal/wat/ast", nil)
	// Only fields the assembler reads can change the binary: restrict to those (ElemSection.Name, DataSection.Name
	// and similar identifiers without a binary encoding are not instances).
	asmReads := map[string][]FieldUse{}
	if wu := p.MustPkg(rMF, "internal/wat/watutil"); wu != nil {
		asmReads, _ = FieldAccesses(wu, "internal/wat/ast", func(name string) bool { return strings.HasPrefix(name, "wat2wasmWorker.") })
		for k := range pw {
			if _, ok := asmReads[k]; !ok && !skipIns(k) {
				c.Note("field ast.%s is written by the parser but not read by the assembler: not an instance (cannot change the binary)", k)
				delete(pw, k)
			}
		}
	}
	exceptions := map[string]string{
		"Global.ExportName": "mirrored by parseModule into Module.Exports (kind GLOBAL), which printExport prints",
		"ImportSpec.ObjKind": "", // read
	}
	var keys []string
	for k := range pw {
		keys = append(keys, k)
	}
	sort.Strings(keys)
	nm := 0
	for _, k := range keys {
		if skipIns(k) {
			continue
		}
		if _, isField := astFields[k]; !isField {
			continue
		}
		nm++
		loc := p.Pos(pw[k][0].Pos)
		if why, ok := exceptions[k]; ok && why != "" {
			// the mirror statement must exist
			mirror := false
			if pm := FuncDecl(pr, "parser.parseModule"); pm != nil {
				ast.Inspect(pm.Body, func(n ast.Node) bool {
					if cl, ok := n.(*ast.CompositeLit); ok && namedTypeName(pr.TypesInfo.TypeOf(cl)) == "ExportSpec" {
						for _, el := range cl.Elts {
							if kv, ok := el.(*ast.KeyValueExpr); ok && strings.HasSuffix(types.ExprString(kv.Value), ".ExportName") && strings.HasPrefix(types.ExprString(kv.Value), "g.") {
								mirror = true
							}
						}
					}
					return true
				})
			}
			c.Check(mirror || len(rd[k]) > 0, rMF, k, loc, "exception: "+why, "field "+k+" is neither printed nor mirrored into a printed field any more")
			continue
		}
		c.Check(len(rd[k]) > 0, rMF, k, loc, fmt.Sprintf("read by the printer (%d sites)", len(rd[k])), "field ast."+k+" is written by the parser ("+pw[k][0].Func+") but never read by the printer: it is lost on print->parse")
	}
	c.Min(rMF, "module-level fields written by the parser and read by the assembler", nm, 30)

	// ---- every section printer defined on watPrinter is called from Fprint
	if fp := p.MustFunc(rSec, pp, "watPrinter.Fprint"); fp != nil {
		called := map[string]bool{}
		for _, call := range callsIn(info, fp.Body.List) {
			if f := CalleeOf(info, call); f != nil {
				called[f.Name()] = true
			}
		}
		ns := 0
		for name, f := range AllFuncDecls(pp) {
			if !strings.HasPrefix(name, "watPrinter.print") || strings.Contains(name, "_") {
				continue
			}
			// section printers: methods with no parameters returning error
			if f.Type.Params.NumFields() != 0 {
				continue
			}
			ns++
			c.Check(called[f.Name.Name], rSec, f.Name.Name, p.Pos(f.Pos()), "called from Fprint", "section printer "+f.Name.Name+" is never called from Fprint: that section disappears from the output")
		}
		c.Min(rSec, "section printers", ns, 9)
	}
	// ---- a module-level function export is left out only when the same (name, function) pair is printed inline
	if pe := p.MustFunc("export-elision", pp, "watPrinter.printExport"); pe != nil {
		nArm := 0
		for _, sw := range FindSwitches(pe, func(ast.Expr) bool { return true }) {
			for _, arm := range SwitchArms(info, sw) {
				for _, k := range arm.Consts {
					if k.Name == "FUNC" {
						nArm++
						exportSkipPredicate(c, p, pp, arm, "export-elision")
					}
				}
			}
		}
		c.Min("export-elision", "printExport FUNC arm", nArm, 1)
	}
	_ = constant.MakeBool
	_ = token.NoPos
}

func isInsList(t types.Type) bool {
	sl, ok := t.(*types.Slice)
	return ok && namedTypeName(sl.Elem()) == "Instruction"
}

// firstPrintedTokenArg returns the printed expression of the first non-writer argument of the first fmt.Fprint* call.
func firstPrintedTokenArg(info *types.Info, stmts []ast.Stmt) string {
	for _, call := range callsIn(info, stmts) {
		f := CalleeOf(info, call)
		if f == nil || f.Pkg() == nil || f.Pkg().Path() != "fmt" || !strings.HasPrefix(f.Name(), "Fprint") {
			continue
		}
		if f.Name() == "Fprintf" {
			// Fprintf(w, "%v ...", tok, ...) : first value argument
			if len(call.Args) >= 3 {
				return types.ExprString(call.Args[2])
			}
			return "<format only>"
		}
		if len(call.Args) >= 2 {
			return types.ExprString(call.Args[1])
		}
	}
	return "<nothing>"
}

// fieldsReadOn lists the fields of ast.<tname> selected anywhere in the statements.
func fieldsReadOn(info *types.Info, stmts []ast.Stmt, tname string) map[string]bool {
	out := map[string]bool{}
	for _, s := range stmts {
		ast.Inspect(s, func(n ast.Node) bool {
			if se, ok := n.(*ast.SelectorExpr); ok {
				if sel, ok := info.Selections[se]; ok && sel.Kind() == types.FieldVal && namedTypeName(sel.Recv()) == tname {
					out[se.Sel.Name] = true
				}
			}
			return true
		})
	}
	return out
}

// rangesAndRecurses: `for _, x := range v.<field> { recurse(..., x, ...) }`.
// listWalkers finds the helper idiom "func walk(list []T) { for _, x := range list { recurse(x) } }": functions of the
// package that range over one of their own parameters and hand each element to recurse (or to another walker).
func listWalkers(pk *packages.Package, recurse string) map[*types.Func]bool {
	info := pk.TypesInfo
	out := map[*types.Func]bool{}
	for changed := true; changed; {
		changed = false
		for _, f := range pk.Syntax {
			for _, d := range f.Decls {
				fd, ok := d.(*ast.FuncDecl)
				if !ok || fd.Body == nil {
					continue
				}
				obj, _ := info.Defs[fd.Name].(*types.Func)
				if obj == nil || out[obj] {
					continue
				}
				params := map[types.Object]bool{}
				for _, fl := range fd.Type.Params.List {
					for _, n := range fl.Names {
						params[info.Defs[n]] = true
					}
				}
				ast.Inspect(fd.Body, func(n ast.Node) bool {
					rs, ok := n.(*ast.RangeStmt)
					if !ok {
						return true
					}
					id, ok := ast.Unparen(rs.X).(*ast.Ident)
					if !ok || !params[info.ObjectOf(id)] {
						return true
					}
					val, ok := rs.Value.(*ast.Ident)
					if !ok {
						return true
					}
					for _, call := range callsIn(info, rs.Body.List) {
						cf := CalleeOf(info, call)
						if cf == nil || !(cf.Name() == recurse || out[cf]) {
							continue
						}
						for _, a := range call.Args {
							if aid, ok := a.(*ast.Ident); ok && info.ObjectOf(aid) == info.ObjectOf(val) {
								out[obj] = true
								changed = true
							}
						}
					}
					return true
				})
			}
		}
	}
	return out
}

func rangesAndRecurses(info *types.Info, stmts []ast.Stmt, tname, field, recurse string, walkers map[*types.Func]bool) bool {
	found := false
	isField := func(e ast.Expr) bool {
		se, ok := ast.Unparen(e).(*ast.SelectorExpr)
		if !ok || se.Sel.Name != field {
			return false
		}
		sel, ok := info.Selections[se]
		return ok && namedTypeName(sel.Recv()) == tname
	}
	for _, s := range stmts {
		ast.Inspect(s, func(n ast.Node) bool {
			// helper idiom: walk(x.Field)
			if call, ok := n.(*ast.CallExpr); ok {
				if cf := CalleeOf(info, call); cf != nil && walkers[cf] {
					for _, a := range call.Args {
						if isField(a) {
							found = true
						}
					}
				}
			}
			rs, ok := n.(*ast.RangeStmt)
			if !ok {
				return true
			}
			se, ok := ast.Unparen(rs.X).(*ast.SelectorExpr)
			if !ok || se.Sel.Name != field {
				return true
			}
			if sel, ok := info.Selections[se]; !ok || namedTypeName(sel.Recv()) != tname {
				return true
			}
			val, ok := rs.Value.(*ast.Ident)
			if !ok {
				return true
			}
			for _, call := range callsIn(info, rs.Body.List) {
				if f := CalleeOf(info, call); f != nil && f.Name() == recurse {
					for _, a := range call.Args {
						if id, ok := a.(*ast.Ident); ok && id.Name == val.Name {
							found = true
						}
					}
				}
			}
			return true
		})
	}
	return found
}

// elisionConst finds `if x := v.<field>; x != C {print}` and returns C.
func elisionConst(info *types.Info, stmts []ast.Stmt, field string) *int64 {
	var out *int64
	for _, s := range stmts {
		ast.Inspect(s, func(n ast.Node) bool {
			ifs, ok := n.(*ast.IfStmt)
			if !ok {
				return true
			}
			v := ""
			if as, ok := ifs.Init.(*ast.AssignStmt); ok && len(as.Lhs) == 1 && len(as.Rhs) == 1 {
				if se, ok := as.Rhs[0].(*ast.SelectorExpr); ok && se.Sel.Name == field {
					v = types.ExprString(as.Lhs[0])
				}
			}
			be, ok := ifs.Cond.(*ast.BinaryExpr)
			if !ok || be.Op != token.NEQ {
				return true
			}
			l := types.ExprString(be.X)
			if l != v {
				if se, ok := be.X.(*ast.SelectorExpr); !ok || se.Sel.Name != field {
					return true
				}
			}
			if tv, ok := info.Types[be.Y]; ok && tv.Value != nil {
				if i, ok := constant.Int64Val(tv.Value); ok {
					out = &i
				}
			}
			return true
		})
	}
	return out
}
