package main

import (
	"fmt"
	"go/ast"
	"go/constant"
	"go/types"
	"regexp"
	"sort"
	"strings"

	"golang.org/x/tools/go/packages"
)

// C03 rule union-member-exists (added after a defect was found on the unchanged tree: the templates of the four
// convert_*_u instructions read R<n>.u32 / R<n>.u64, members the val_t union did not have, so the C code of every
// module that uses them did not compile).
//
// The members of val_t are read from the text the translator emits for the typedef; every `R%d.<view>` (and every
// `.<view>` applied to a register in a template) names one of them.

var reUnionMember = regexp.MustCompile(`^\s*[A-Za-z_][A-Za-z0-9_ ]*\s+([A-Za-z_][A-Za-z0-9_]*);`)
var reRegView = regexp.MustCompile(`R%d\.([A-Za-z_][A-Za-z0-9_]*)`)

func c03UnionMembers(c *Ctx, p *Prog, pk *packages.Package) {
	const rule = "union-member-exists"
	info := pk.TypesInfo
	// the typedef: consecutive Fprintf literals from "typedef union val_t {" to "} val_t;"
	members := map[string]bool{}
	var memberList []string
	inUnion := false
	var litOrder []string
	for _, f := range pk.Syntax {
		ast.Inspect(f, func(n ast.Node) bool {
			call, ok := n.(*ast.CallExpr)
			if !ok || len(call.Args) < 2 {
				return true
			}
			fn := CalleeOf(info, call)
			if fn == nil || fn.Pkg() == nil || fn.Pkg().Path() != "fmt" || fn.Name() != "Fprintf" {
				return true
			}
			if tv, ok := info.Types[call.Args[1]]; ok && tv.Value != nil && tv.Value.Kind() == constant.String {
				litOrder = append(litOrder, constant.StringVal(tv.Value))
			}
			return true
		})
	}
	for _, s := range litOrder {
		for _, line := range strings.Split(s, "\n") {
			switch {
			case strings.Contains(line, "typedef union val_t"):
				inUnion = true
			case strings.Contains(line, "} val_t;"):
				inUnion = false
			case inUnion:
				if m := reUnionMember.FindStringSubmatch(line); m != nil && !members[m[1]] {
					members[m[1]] = true
					memberList = append(memberList, m[1])
				}
			}
		}
	}
	if len(members) == 0 {
		c.Undecided(rule, "anchor:typedef union val_t", "", "the emitted typedef of val_t was not found")
		return
	}
	sort.Strings(memberList)
	// every view used in a template
	used := map[string][]string{} // view -> locations
	for _, f := range pk.Syntax {
		ast.Inspect(f, func(n ast.Node) bool {
			call, ok := n.(*ast.CallExpr)
			if !ok || len(call.Args) < 2 {
				return true
			}
			fn := CalleeOf(info, call)
			if fn == nil || fn.Pkg() == nil || fn.Pkg().Path() != "fmt" || !strings.HasPrefix(fn.Name(), "Fprint") {
				return true
			}
			tv, ok := info.Types[call.Args[1]]
			if !ok || tv.Value == nil || tv.Value.Kind() != constant.String {
				return true
			}
			code := constant.StringVal(tv.Value)
			if i := strings.Index(code, "//"); i >= 0 {
				code = code[:i]
			}
			for _, m := range reRegView.FindAllStringSubmatch(code, -1) {
				used[m[1]] = append(used[m[1]], p.Pos(call.Pos()))
			}
			return true
		})
	}
	var views []string
	for v := range used {
		views = append(views, v)
	}
	sort.Strings(views)
	n := 0
	for _, v := range views {
		n += len(used[v])
		c.Check(members[v], rule, "R<n>."+v, used[v][0], fmt.Sprintf("member of val_t (%d uses)", len(used[v])),
			fmt.Sprintf("%d template(s) read or write R<n>.%s (first at %s), but the val_t union the translator emits has only the members %s: the generated C does not compile for any module that uses such an instruction", len(used[v]), v, used[v][0], strings.Join(memberList, ", ")))
	}
	c.Min(rule, "register views used in templates", n, 400)
	_ = types.Typ
}

// float-literal-exact (C03 wat2c, C02 wat2x64): a float value that becomes part of the generated *code* (not of a
// comment) is formatted exactly: `%x` (hexadecimal floating constant), or its bit pattern through an integer verb.
// `%f`, `%e`, `%g`, `%v` round to a few decimals (`%f` keeps six): f64.const 3.141592653589793 became 3.141593.
func floatLiteralExact(c *Ctx, p *Prog, pk *packages.Package, commentMarks []string, label string) int {
	const rule = "float-literal-exact"
	info := pk.TypesInfo
	n := 0
	seq := map[string]int{}
	for _, name := range sortedDeclNames(pk) {
		fd := AllFuncDecls(pk)[name]
		if fd.Body == nil {
			continue
		}
		ast.Inspect(fd.Body, func(nd ast.Node) bool {
			call, ok := nd.(*ast.CallExpr)
			if !ok || len(call.Args) < 3 {
				return true
			}
			fn := CalleeOf(info, call)
			if fn == nil || fn.Pkg() == nil || fn.Pkg().Path() != "fmt" || (fn.Name() != "Fprintf" && fn.Name() != "Sprintf") {
				return true
			}
			fi := 1
			if fn.Name() == "Sprintf" {
				fi = 0
			}
			tv, ok := info.Types[call.Args[fi]]
			if !ok || tv.Value == nil || tv.Value.Kind() != constant.String {
				return true
			}
			format := constant.StringVal(tv.Value)
			args := call.Args[fi+1:]
			ai := 0
			for i := 0; i < len(format); i++ {
				if format[i] != '%' {
					continue
				}
				j := i + 1
				for j < len(format) && strings.IndexByte("+-# 0123456789.*", format[j]) >= 0 {
					j++
				}
				if j >= len(format) {
					break
				}
				verb := format[j]
				if verb == '%' {
					i = j
					continue
				}
				if ai >= len(args) {
					break
				}
				arg := args[ai]
				ai++
				t := info.TypeOf(arg)
				isFloat := false
				if t != nil {
					if b, ok := t.Underlying().(*types.Basic); ok && b.Info()&types.IsFloat != 0 {
						isFloat = true
					}
				}
				if isFloat {
					// inside a comment of the generated text?
					line := format[:i]
					if k := strings.LastIndexByte(line, '\n'); k >= 0 {
						line = line[k+1:]
					}
					inComment := false
					for _, mk := range commentMarks {
						if strings.Contains(line, mk) {
							inComment = true
						}
					}
					if !inComment {
						n++
						key := fmt.Sprintf("%s%s: %s", label, name, strings.TrimSpace(format))
						seq[key]++
						if seq[key] > 1 {
							key = fmt.Sprintf("%s #%d", key, seq[key])
						}
						c.Check(verb == 'x' || verb == 'X' || verb == 'b', rule, key, p.Pos(call.Pos()), "exact (%"+string(verb)+")",
							fmt.Sprintf("the float value %s is written into the generated code with %%%s: the text keeps only a few decimals (%%f: six), so the constant in the generated program is not the constant of the module (3.141592653589793 becomes 3.141593, 1e-10 becomes 0)", types.ExprString(arg), format[i+1:j+1]))
					}
				}
				i = j
			}
			return true
		})
	}
	return n
}
