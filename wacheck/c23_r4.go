package main

import (
	"fmt"
	"go/ast"
	"go/types"
	"strings"

	"golang.org/x/tools/go/packages"
)

// C23 rules added after seeded changes were missed.
//
// content-update-installs-table — File.SetLinesForContent replaces the size and the line table of a file together (the
// language server re-uses a File for edited text). The table it has built must end up installed for the new size: it
// is stored directly, or through a validating setter whose verdict is not discarded and which runs after the size it
// validates against has been updated. A table validated against the stale size is rejected for content that grew and
// the file keeps the old table with the new size: positions are computed from the previous text.
//
// file-order-by-base — FileSet.file finds the file of a Pos by binary search over FileSet.files, which relies on the
// files being in the order of their base offsets (the order they were added in). Anything that re-orders the files, in
// memory or in the serialized form that Read installs as it is, must order them by base.

func c23Round4(c *Ctx, p *Prog, tk *packages.Package) {
	c23ContentUpdate(c, p, tk)
	c23FileOrder(c, p, tk)
}

func c23ContentUpdate(c *Ctx, p *Prog, tk *packages.Package) {
	const rule = "content-update-installs-table"
	info := tk.TypesInfo
	fd := p.MustFunc(rule, tk, "File.SetLinesForContent")
	if fd == nil {
		return
	}
	recv := ""
	if len(fd.Recv.List[0].Names) == 1 {
		recv = fd.Recv.List[0].Names[0].Name
	}
	// top-level order of: size assignment, direct lines assignment, calls of a bool-returning setter of File
	sizeAt, linesAt := -1, -1
	var probs []string
	idx := 0
	ast.Inspect(fd.Body, func(n ast.Node) bool {
		switch x := n.(type) {
		case *ast.AssignStmt:
			idx++
			for _, l := range x.Lhs {
				switch types.ExprString(l) {
				case recv + ".size":
					sizeAt = idx
				case recv + ".lines":
					linesAt = idx
				}
			}
		case *ast.ExprStmt:
			idx++
			call, ok := x.X.(*ast.CallExpr)
			if !ok {
				return true
			}
			fn := CalleeOf(info, call)
			if fn == nil {
				return true
			}
			sig := fn.Type().(*types.Signature)
			if sig.Recv() != nil && typeShortName(sig.Recv().Type()) == "File" && sig.Results().Len() == 1 && types.Identical(sig.Results().At(0).Type(), types.Typ[types.Bool]) {
				probs = append(probs, fmt.Sprintf("%s: the verdict of %s is discarded: when it refuses the table the file silently keeps the old one", p.Pos(call.Pos()), fn.Name()))
				if sizeAt < 0 {
					probs = append(probs, fmt.Sprintf("%s: %s validates the table against the size of the *previous* content (the size is assigned afterwards): for content that grew the new table is refused", p.Pos(call.Pos()), fn.Name()))
				}
				linesAt = idx
			}
		}
		return true
	})
	if linesAt < 0 {
		probs = append(probs, "the line table that was built is never installed")
	}
	if sizeAt < 0 {
		probs = append(probs, "the size of the new content is never stored")
	}
	c.Check(len(probs) == 0, rule, "File.SetLinesForContent", p.Pos(fd.Pos()), "size and line table of the new content are installed together", "File.SetLinesForContent: "+strings.Join(probs, "; ")+": FileSet.Position reports lines and columns of the previous text for positions in the updated file")
}

func c23FileOrder(c *Ctx, p *Prog, tk *packages.Package) {
	const rule = "file-order-by-base"
	info := tk.TypesInfo
	n, bad := 0, 0
	for _, f := range tk.Syntax {
		for _, d := range f.Decls {
			fd, ok := d.(*ast.FuncDecl)
			if !ok || fd.Body == nil {
				continue
			}
			ast.Inspect(fd.Body, func(nd ast.Node) bool {
				call, ok := nd.(*ast.CallExpr)
				if !ok || len(call.Args) < 1 {
					return true
				}
				fn := CalleeOf(info, call)
				if fn == nil || fn.Pkg() == nil || (fn.Pkg().Path() != "sort" && fn.Pkg().Path() != "slices") {
					return true
				}
				// a slice of File / *File / serializedFile
				t := info.TypeOf(call.Args[0])
				if t == nil {
					return true
				}
				sl, ok := t.Underlying().(*types.Slice)
				if !ok {
					return true
				}
				en := typeShortName(sl.Elem())
				if en != "File" && en != "serializedFile" {
					return true
				}
				n++
				// the comparator orders by base
				byBase := false
				if len(call.Args) >= 2 {
					if lit, ok := call.Args[1].(*ast.FuncLit); ok {
						ast.Inspect(lit.Body, func(m ast.Node) bool {
							if be, ok := m.(*ast.BinaryExpr); ok {
								l, r := types.ExprString(be.X), types.ExprString(be.Y)
								if (strings.HasSuffix(l, ".Base") && strings.HasSuffix(r, ".Base")) || (strings.HasSuffix(l, ".base") && strings.HasSuffix(r, ".base")) {
									byBase = true
								}
							}
							return true
						})
					}
				}
				if !byBase {
					bad++
				}
				c.Check(byBase, rule, fmt.Sprintf("%s: %s of a file list", declName(fd), fn.Name()), p.Pos(call.Pos()), "ordered by base",
					fmt.Sprintf("%s re-orders a list of files with %s.%s by something other than their base offsets: FileSet.file binary-searches FileSet.files by base, so after the re-ordering (Read installs the serialized order as it is) positions in the displaced files resolve to no file — Position answers the zero position, error messages and the debugger lose file and line", declName(fd), fn.Pkg().Name(), fn.Name()))
				return true
			})
		}
	}
	if n == 0 {
		c.OK(rule, "internal/token: no re-ordering of file lists", "", "files stay in the order they were added in (ascending base)")
	}
}
