package main

import (
	"fmt"
	"go/ast"
	"go/constant"
	"go/token"
	"go/types"
	"sort"
	"strings"

	"golang.org/x/tools/go/packages"
)

func init() {
	rv := "internal/native/riscv/"
	la := "internal/native/loong64/"
	register(&Property{ID: "C17", Run: runC17, Mutants: []Mutant{
		{Name: "x64 [r13] with zero displacement loses its mandatory disp8", File: "internal/native/x64/p9x86/asm6.go", Old: "\t\tif v == 0 && base != REG_BP && base != REG_R13 {\n\t\t\tab.Put1(byte(0<<6 | reg[base]<<0 | r<<3))", New: "\t\tif v == 0 && base != REG_BP {\n\t\t\tab.Put1(byte(0<<6 | reg[base]<<0 | r<<3))", Expect: "x64-modrm-form"},
		{Name: "x64 indexed [rbp+idx] assembled without displacement", File: "internal/native/x64/p9x86/asm6.go", Old: "\t\tif v == 0 && base != REG_BP && base != REG_R13 {\n\t\t\tab.Put1(byte(0<<6 | 4<<0 | r<<3))", New: "\t\tif v == 0 && base != REG_R13 {\n\t\t\tab.Put1(byte(0<<6 | 4<<0 | r<<3))", Expect: "x64-modrm-form"},
		{Name: "x64 [r12] handled by the plain-register path", File: "internal/native/x64/p9x86/asm6.go", Old: "\tif base == REG_SP || base == REG_R12 {\n\t\tif v == 0 {", New: "\tif base == REG_SP {\n\t\tif v == 0 {", Expect: "x64-modrm-form"},
		{Name: "loong64 lsbd of BSTRINS.D/BSTRPICK.D truncated to five bits", File: la + "encode.go", Old: "\t\tlsbd := uint32(arg.Rs3) & 0b_1_1_1111", New: "\t\tlsbd := uint32(arg.Rs3) & 0b_0_1_1111", Expect: "loong64-field-coverage"},
		{Name: "loong64 si14 immediates masked to 13 bits", File: la + "encode.go", Old: "\t\tsi14 := arg.Imm & 0x3FFF", New: "\t\tsi14 := arg.Imm & 0x1FFF", Expect: "loong64-field-coverage"},
		{Name: "loong64 two rows exchange their opcode values (own decoder still round-trips)", File: la + "a_out.go", Old: "AADD_D:        {mask: 0xffff8000, value: 0x00108000, op: AADD_D, fmt: OpFormatType_3R},", New: "AADD_D:        {mask: 0xffff8000, value: 0x00100000, op: AADD_D, fmt: OpFormatType_3R},", Expect: "loong64-reference-opcode :: row AADD_D"},
		{Name: "riscv XOR gets OR's funct3 moved by one (own decoder still round-trips)", File: rv + "opcode.go", Old: "AXOR:    {Opcode: _OpBase_OP, ArgMarks: _ARG_RType, Funct3: 0b_100, Funct7: 0b_000_0000},", New: "AXOR:    {Opcode: _OpBase_OP, ArgMarks: _ARG_RType, Funct3: 0b_100, Funct7: 0b_000_0100},", Expect: "riscv-reference-opcode :: row AXOR"},
		{Name: "riscv FLT.S loses its funct3", File: rv + "opcode.go", Old: "AFLT_S:     {Opcode: _OpBase_OP_FP, ArgMarks: _ARG_RType, Funct3: 0b_001, Funct7: 0b_101_0000},", New: "AFLT_S:     {Opcode: _OpBase_OP_FP, ArgMarks: _ARG_RType, Funct7: 0b_101_0000},", Expect: "riscv-reference-opcode :: row AFLT_S"},
		{Name: "riscv S-type low immediate shifted to bit 8", File: rv + "encode.go", Old: "(imm&0b_1_1111)<<7 | uint32(ctx.Opcode)", New: "(imm&0b_1_1111)<<8 | uint32(ctx.Opcode)", Expect: "riscv-placement :: S"},
		{Name: "riscv B-type imm[11] taken from imm[10]", File: rv + "encode.go", Old: "((imm>>11)&0x1)<<7", New: "((imm>>10)&0x1)<<7", Expect: "riscv-placement :: B"},
		{Name: "riscv J-type imm[19:12] misplaced", File: rv + "encode.go", Old: "((imm>>12)&0xff)<<12", New: "((imm>>12)&0xff)<<11", Expect: "riscv-placement :: J"},
		{Name: "riscv decodeI reads rs1 from rs2's field", File: rv + "decode.go", Old: "\trs1 := (x >> 15) & 0b_1_1111\n\timm := int32(x) >> 20", New: "\trs1 := (x >> 20) & 0b_1_1111\n\timm := int32(x) >> 20", Expect: "riscv-decoder-inverse :: I"},
		{Name: "riscv decodeS does not sign-extend", File: rv + "decode.go", Old: "imm := (int32(x)>>25)<<5 | int32(x>>7)&0b_1_1111", New: "imm := int32(x>>25)<<5 | int32(x>>7)&0b_1_1111", Expect: "riscv-decoder-inverse :: S"},
		{Name: "riscv R-type rows made identical", File: rv + "opcode.go", Old: "ASUB:    {Opcode: _OpBase_OP, ArgMarks: _ARG_RType, Funct3: 0b_000, Funct7: 0b_010_0000},", New: "ASUB:    {Opcode: _OpBase_OP, ArgMarks: _ARG_RType, Funct3: 0b_000, Funct7: 0b_000_0000},", Expect: "riscv-encode-key-injective"},
		{Name: "loong64 3R rk shifted into the opcode", File: la + "encode.go", Old: "\tcase OpFormatType_3R:\n\t\trd := ctx.regI(arg.Rd)\n\t\trj := ctx.regI(arg.Rs1)\n\t\trk := ctx.regI(arg.Rs2)\n\t\tx |= (rk << 10) | (rj << 5) | rd", New: "\tcase OpFormatType_3R:\n\t\trd := ctx.regI(arg.Rd)\n\t\trj := ctx.regI(arg.Rs1)\n\t\trk := ctx.regI(arg.Rs2)\n\t\tx |= (rk << 12) | (rj << 5) | rd", Expect: "loong64"},
		{Name: "loong64 2R_si12 immediate overlaps rj", File: la + "encode.go", Old: "\t\tsi12 := uint32(arg.Imm) & 0xFFF\n\t\tx |= (si12 << 10) | (rj << 5) | rd\n\t\treturn\n\tcase OpFormatType_1F_1R_si12:", New: "\t\tsi12 := uint32(arg.Imm) & 0xFFF\n\t\tx |= (si12 << 9) | (rj << 5) | rd\n\t\treturn\n\tcase OpFormatType_1F_1R_si12:", Expect: "loong64"},
		{Name: "loong64 decoder reads ui5 from the wrong bits", File: la + "decode.go", Old: "case OpFormatType_2R_ui5:\n\t\timm := int32(uimm(x, 10, 5))", New: "case OpFormatType_2R_ui5:\n\t\timm := int32(uimm(x, 11, 5))", Expect: "loong64-decoder-inverse :: OpFormatType_2R_ui5"},
		{Name: "loong64 si12 decoded unsigned", File: la + "decode.go", Old: "case OpFormatType_2R_si12:\n\t\timm := simm(x, 10, 12)", New: "case OpFormatType_2R_si12:\n\t\timm := int32(uimm(x, 10, 12))", Expect: "loong64-decoder-inverse :: OpFormatType_2R_si12"},
	}})
}

// ---------- shared helpers

// evalTopLevel runs the abstract interpreter over the top-level statements of a statement list: plain assignments to
// local identifiers are executed; assignments to `<recv>.<Field>` are recorded as outputs; everything else is skipped.
func evalTopLevel(env *bitEnv, stmts []ast.Stmt, outPrefix []string) map[string]bvec {
	out := map[string]bvec{}
	for _, s := range stmts {
		as, ok := s.(*ast.AssignStmt)
		if !ok {
			if ds, ok := s.(*ast.DeclStmt); ok {
				env.exec([]ast.Stmt{ds})
			}
			continue
		}
		allIdent := true
		for _, l := range as.Lhs {
			if _, ok := l.(*ast.Ident); !ok {
				allIdent = false
			}
		}
		if allIdent && len(as.Lhs) == len(as.Rhs) {
			env.exec([]ast.Stmt{as})
			continue
		}
		if len(as.Lhs) == 1 && len(as.Rhs) == 1 {
			if se, ok := as.Lhs[0].(*ast.SelectorExpr); ok {
				name := types.ExprString(se)
				for _, p := range outPrefix {
					if strings.HasPrefix(name, p) {
						out[name] = env.eval(as.Rhs[0])
					}
				}
			}
		}
	}
	return out
}

type rvRow struct {
	As             string
	Opcode         string
	OpVal          uint64
	Funct3, Funct7 uint64
	Pseudo         bool
	HasShamt       bool
	Pos            token.Pos
}

func bitsNeeded(x uint64) int {
	n := 0
	for x > 0 {
		n++
		x >>= 1
	}
	return n
}

func runC17(c *Ctx) {
	c.Explain = "Decides bit-placement clauses of the native instruction encoders and their disassemblers by bit-provenance abstract interpretation (every integer is a vector of abstract bits: 0, 1, OR of input bits, or unknown): " +
		"RISC-V: (1) each format encoder (R, R4, I, S, B, U, J) places every operand bit where the base ISA layout prescribes; (2) each format decoder extracts every operand bit from the position the encoder wrote it to and sign-extends immediates from their top encoded bit; " +
		"(3) encode-key injectivity: two real (non-pseudo) table rows of one format that agree on every table field that format's encoder reads produce identical machine code; decode-key sufficiency likewise for the fields the decoder compares. " +
		"LoongArch: (4) for every table row the operand bits its format writes are disjoint from the row's opcode mask and from each other, and value has no bit outside mask; (5) each format's decoder arm reads every operand bit from where the encoder arm wrote it, with the signedness the format name states. " +
		"Independent reference: (6) every RISC-V and LoongArch table row that has a same-named row in the decode tables of golang.org/x/arch's riscv64asm / loong64asm (vendored in the pre-installed Go 1.26 tree, generated from the ISA manuals, read as data) fixes the same opcode bits under the reference's mask; (7) function codes the reference fixes inside an operand field are provided by the row. " +
		"NOT decided: rows without a same-named reference row (listed in the notes), operand field positions against the reference, immediate range checks, pseudo-instruction expansion, ARM64 (encoder not implemented) and x86-64 (table-driven port of the Go assembler)."
	c.Trusted = []string{"go/packages, go/types (x/tools v0.29.0)", "RISC-V base instruction format layouts (unprivileged ISA spec, ch. 2.2/2.3)", "bit-provenance engine (bitprov.go)"}
	c.Exhaust = true
	p := c.Load(LoadOpt{Light: true}, "./internal/native/riscv", "./internal/native/loong64", "./internal/native/x64/p9x86")
	if x := p.MustPkg("x64-modrm-form", "internal/native/x64/p9x86"); x != nil {
		c17X64ModRM(c, p, x)
	}
	if rv := p.MustPkg("riscv-placement", "internal/native/riscv"); rv != nil {
		c17Riscv(c, p, rv)
	}
	if la := p.MustPkg("loong64-operands-vs-mask", "internal/native/loong64"); la != nil {
		c17Loong(c, p, la)
	}
	c17Reference(c, p, p.Pkg("internal/native/riscv"), p.Pkg("internal/native/loong64"))
}

// ---------- RISC-V

func rvTable(c *Ctx, p *Prog, pk *packages.Package) ([]rvRow, map[string]string) {
	info := pk.TypesInfo
	var rows []rvRow
	for _, f := range pk.Syntax {
		for _, d := range f.Decls {
			gd, ok := d.(*ast.GenDecl)
			if !ok {
				continue
			}
			for _, sp := range gd.Specs {
				vs, ok := sp.(*ast.ValueSpec)
				if !ok || len(vs.Names) != 1 || vs.Names[0].Name != "_AOpContextTable" || len(vs.Values) != 1 {
					continue
				}
				cl, ok := vs.Values[0].(*ast.CompositeLit)
				if !ok {
					continue
				}
				for _, el := range cl.Elts {
					kv, ok := el.(*ast.KeyValueExpr)
					if !ok {
						continue
					}
					row, ok := kv.Value.(*ast.CompositeLit)
					if !ok {
						continue
					}
					r := rvRow{As: types.ExprString(kv.Key), Pos: kv.Pos()}
					for _, fe := range row.Elts {
						fkv, ok := fe.(*ast.KeyValueExpr)
						if !ok {
							continue
						}
						name := types.ExprString(fkv.Key)
						tv := info.Types[fkv.Value]
						var val uint64
						if tv.Value != nil && tv.Value.Kind() == constant.Int {
							val, _ = constant.Uint64Val(tv.Value)
						}
						switch name {
						case "Opcode":
							r.Opcode = types.ExprString(fkv.Value)
							r.OpVal = val
						case "Funct3":
							r.Funct3 = val
						case "Funct7":
							r.Funct7 = val
						case "PseudoAs":
							r.Pseudo = true
						case "HasShamt":
							r.HasShamt = tv.Value != nil && constant.BoolVal(tv.Value)
						}
					}
					rows = append(rows, r)
				}
			}
		}
	}
	// opcode base -> format
	format := map[string]string{}
	if fd := FuncDecl(pk, "_OpcodeType.FormatType"); fd != nil {
		ast.Inspect(fd.Body, func(n ast.Node) bool {
			sw, ok := n.(*ast.SwitchStmt)
			if !ok {
				return true
			}
			for _, arm := range SwitchArms(info, sw) {
				ret := ""
				for _, s := range arm.Body {
					if r, ok := s.(*ast.ReturnStmt); ok && len(r.Results) == 1 {
						ret = strings.TrimPrefix(types.ExprString(r.Results[0]), "_")
					}
				}
				for _, k := range arm.Consts {
					format[k.Name] = ret
				}
			}
			return false
		})
	}
	return rows, format
}

// ISA layouts: output bit -> expected source (name, index). Names: rd rs1 rs2 rs3 imm funct3 funct7 opcode.
func rvLayout(f string) map[int]bitSrc {
	m := map[int]bitSrc{}
	put := func(hi, lo int, name string, srcLo int) {
		for i := lo; i <= hi; i++ {
			m[i] = bitSrc{name, srcLo + (i - lo)}
		}
	}
	put(6, 0, "opcode", 0)
	switch f {
	case "R":
		put(31, 25, "funct7", 0)
		put(24, 20, "rs2", 0)
		put(19, 15, "rs1", 0)
		put(14, 12, "funct3", 0)
		put(11, 7, "rd", 0)
	case "R4":
		put(31, 27, "rs3", 0)
		put(26, 25, "funct7", 0) // funct2 shares the Funct7 table field
		put(24, 20, "rs2", 0)
		put(19, 15, "rs1", 0)
		put(14, 12, "funct3", 0)
		put(11, 7, "rd", 0)
	case "I":
		put(31, 20, "imm", 0)
		put(19, 15, "rs1", 0)
		put(14, 12, "funct3", 0)
		put(11, 7, "rd", 0)
	case "S":
		put(31, 25, "imm", 5)
		put(24, 20, "rs2", 0)
		put(19, 15, "rs1", 0)
		put(14, 12, "funct3", 0)
		put(11, 7, "imm", 0)
	case "B":
		put(31, 31, "imm", 12)
		put(30, 25, "imm", 5)
		put(24, 20, "rs2", 0)
		put(19, 15, "rs1", 0)
		put(14, 12, "funct3", 0)
		put(11, 8, "imm", 1)
		put(7, 7, "imm", 11)
	case "U":
		put(31, 12, "imm", 0) // the assembler's U immediate is the 20-bit upper part
		put(11, 7, "rd", 0)
	case "J":
		put(31, 31, "imm", 20)
		put(30, 21, "imm", 1)
		put(20, 20, "imm", 11)
		put(19, 12, "imm", 12)
		put(11, 7, "rd", 0)
	}
	return m
}

func c17Riscv(c *Ctx, p *Prog, pk *packages.Package) {
	const r1, r2, r3, r4 = "riscv-placement", "riscv-decoder-inverse", "riscv-encode-key-injective", "riscv-decode-key-sufficient"
	rows, format := rvTable(c, p, pk)
	c.Min(r1, "riscv table rows", len(rows), 100)
	// field widths from table maxima per format
	maxF3, maxF7 := map[string]uint64{}, map[string]uint64{}
	for _, r := range rows {
		f := format[r.Opcode]
		if r.Pseudo {
			continue
		}
		if r.Funct3 > maxF3[f] {
			maxF3[f] = r.Funct3
		}
		if r.Funct7 > maxF7[f] {
			maxF7[f] = r.Funct7
		}
	}
	encReads := map[string]map[string]bool{} // format -> table fields the encoder reads
	placed := map[string]map[bitSrc]int{}    // format -> operand bit -> output position
	for _, f := range []string{"R", "R4", "I", "S", "B", "U", "J"} {
		fd := p.MustFunc(r1, pk, "_OpContextType.encode"+f)
		if fd == nil {
			continue
		}
		env := &bitEnv{pk: pk, vars: map[types.Object]bvec{}}
		reads := map[string]bool{}
		env.inputs = func(e ast.Expr) (bvec, bool) {
			switch x := e.(type) {
			case *ast.SelectorExpr:
				switch x.Sel.Name {
				case "Funct3":
					reads["Funct3"] = true
					return inputVec("funct3", 3, 32, false), true
				case "Funct7":
					reads["Funct7"] = true
					w := bitsNeeded(maxF7[f])
					if f == "R" {
						w = 7
					}
					if f == "R4" {
						w = 2
					}
					return inputVec("funct7", w, 32, false), true
				case "Opcode":
					reads["Opcode"] = true
					return inputVec("opcode", 7, 32, false), true
				}
			case *ast.Ident:
				switch x.Name {
				case "rd", "rs1", "rs2", "rs3":
					if _, isParam := pk.TypesInfo.ObjectOf(x).(*types.Var); isParam {
						if _, has := env.vars[pk.TypesInfo.ObjectOf(x)]; !has {
							return inputVec(x.Name, 5, 32, false), true
						}
					}
				case "imm":
					if _, has := env.vars[pk.TypesInfo.ObjectOf(x)]; !has {
						return inputVec("imm", 32, 32, false), true
					}
				}
			}
			return bvec{}, false
		}
		env.exec(fd.Body.List)
		encReads[f] = reads
		if env.ret == nil {
			c.Undecided(r1, f, p.Pos(fd.Pos()), "encoder body could not be evaluated")
			continue
		}
		want := rvLayout(f)
		var bad []string
		placed[f] = map[bitSrc]int{}
		for i := 0; i < 32; i++ {
			got := env.ret.B[i]
			w, has := want[i]
			switch {
			case !has:
				if !got.isZero() {
					bad = append(bad, fmt.Sprintf("bit %d = %s, want 0", i, got))
				}
			case len(got.Srcs) == 1 && got.Srcs[0] == w && !got.Top && !got.One:
				placed[f][w] = i
			default:
				bad = append(bad, fmt.Sprintf("bit %d = %s, want %s", i, got, w))
			}
		}
		c.Check(len(bad) == 0, r1, f, p.Pos(fd.Pos()), fmt.Sprintf("all 32 output bits of encode%s carry the operand bit the %s-type layout prescribes", f, f), fmt.Sprintf("encode%s deviates from the %s-type layout: %s", f, f, strings.Join(bad, "; ")))
	}

	// decoders
	field := map[string]string{"rd": "argRaw.Rd", "rs1": "argRaw.Rs1", "rs2": "argRaw.Rs2", "rs3": "argRaw.Rs3", "imm": "argRaw.Imm"}
	signedImm := map[string]bool{"I": true, "S": true, "B": true, "J": true}
	decReads := map[string]map[string]bool{}
	for _, f := range []string{"R", "R4", "I", "S", "B", "U", "J"} {
		fd := p.MustFunc(r2, pk, "_OpcodeType.decode"+f)
		if fd == nil || placed[f] == nil {
			continue
		}
		env := &bitEnv{pk: pk, vars: map[types.Object]bvec{}}
		env.inputs = func(e ast.Expr) (bvec, bool) {
			if id, ok := e.(*ast.Ident); ok && id.Name == "x" {
				if _, has := env.vars[pk.TypesInfo.ObjectOf(id)]; !has {
					return inputVec("x", 32, 32, false), true
				}
			}
			return bvec{}, false
		}
		outs := map[string]bvec{}
		// top-level walk with support for the conditional sign-extension idiom
		for _, s := range fd.Body.List {
			switch st := s.(type) {
			case *ast.IfStmt:
				// only ifs that assign plain locals (sign extension); skip the register-class and lookup code
				simple := true
				ast.Inspect(st, func(n ast.Node) bool {
					switch n.(type) {
					case *ast.ReturnStmt, *ast.RangeStmt, *ast.ForStmt:
						simple = false
					}
					return simple
				})
				if simple && st.Else == nil {
					env.exec([]ast.Stmt{st})
				}
			default:
				for k, v := range evalTopLevel(env, []ast.Stmt{s}, []string{"argRaw."}) {
					outs[k] = v
				}
			}
		}
		var bad []string
		topIdx := -1
		for src := range placed[f] {
			if src.Name == "imm" && src.Idx > topIdx {
				topIdx = src.Idx
			}
		}
		for src, pos := range placed[f] {
			fname, ok := field[src.Name]
			if !ok {
				continue
			}
			v, has := outs[fname]
			if !has {
				bad = append(bad, fname+" is never assigned")
				continue
			}
			got := v.B[src.Idx]
			want := bitSrc{"x", pos}
			if !(len(got.Srcs) == 1 && got.Srcs[0] == want && !got.Top && !got.One) {
				bad = append(bad, fmt.Sprintf("%s bit %d = %s, but the encoder wrote it to x[%d]", fname, src.Idx, got, pos))
			}
		}
		if v, has := outs["argRaw.Imm"]; has && topIdx >= 0 {
			topPos := placed[f][bitSrc{"imm", topIdx}]
			for i := topIdx + 1; i < 32; i++ {
				got := v.B[i]
				if signedImm[f] {
					if !(len(got.Srcs) == 1 && got.Srcs[0] == (bitSrc{"x", topPos}) && !got.Top) {
						bad = append(bad, fmt.Sprintf("immediate bit %d = %s: not the sign bit x[%d] (the immediate is not sign-extended from bit %d)", i, got, topPos, topIdx))
						break
					}
				} else if !got.isZero() {
					bad = append(bad, fmt.Sprintf("immediate bit %d = %s, want 0", i, got))
					break
				}
			}
			// unencoded low bits are zero
			for i := 0; i < topIdx; i++ {
				if _, enc := placed[f][bitSrc{"imm", i}]; !enc && !v.B[i].isZero() {
					bad = append(bad, fmt.Sprintf("immediate bit %d = %s, want 0 (not encoded)", i, v.B[i]))
				}
			}
		}
		sort.Strings(bad)
		c.Check(len(bad) == 0, r2, f, p.Pos(fd.Pos()), "every operand bit is read back from where the encoder wrote it; immediates sign-extended", fmt.Sprintf("decode%s is not the inverse of encode%s: %s", f, f, strings.Join(bad, "; ")))
		// decode key: fields compared in the table search
		dr := map[string]bool{}
		ast.Inspect(fd.Body, func(n ast.Node) bool {
			be, ok := n.(*ast.BinaryExpr)
			if !ok || be.Op != token.EQL {
				return true
			}
			l := types.ExprString(be.X)
			if strings.HasPrefix(l, "ctx.") {
				dr[strings.TrimPrefix(l, "ctx.")] = true
			}
			return true
		})
		decReads[f] = dr
	}

	// (3) injectivity
	special := map[string]bool{}
	if fd := FuncDecl(pk, "_OpContextType.encodeRaw"); fd != nil {
		ast.Inspect(fd.Body, func(n ast.Node) bool {
			sw, ok := n.(*ast.SwitchStmt)
			if !ok || sw.Tag == nil || types.ExprString(sw.Tag) != "as" {
				return true
			}
			for _, arm := range SwitchArms(pk.TypesInfo, sw) {
				for _, k := range arm.Consts {
					special[k.Name] = true
				}
			}
			return true
		})
	}
	// shift-immediates: the format arm / decoder may use Funct7 only for rows with HasShamt
	shamtUses := func(n ast.Node) bool {
		found := false
		ast.Inspect(n, func(m ast.Node) bool {
			ifs, ok := m.(*ast.IfStmt)
			if !ok || !strings.HasSuffix(types.ExprString(ifs.Cond), ".HasShamt") {
				return true
			}
			ast.Inspect(ifs.Body, func(k ast.Node) bool {
				if se, ok := k.(*ast.SelectorExpr); ok && se.Sel.Name == "Funct7" {
					found = true
				}
				return true
			})
			return true
		})
		return found
	}
	if fd := FuncDecl(pk, "_OpContextType.encodeRaw"); fd != nil && shamtUses(fd) {
		encReads["I"]["Funct7(HasShamt)"] = true
	}
	if fd := FuncDecl(pk, "_OpcodeType.decodeI"); fd != nil && shamtUses(fd) && decReads["I"] != nil {
		decReads["I"]["Funct7(HasShamt)"] = true
	}
	keyOf := func(r rvRow, reads map[string]bool) string {
		k := r.Opcode
		if reads["Funct3"] {
			k += fmt.Sprintf("/f3=%d", r.Funct3)
		}
		if reads["Funct7"] || (reads["Funct7(HasShamt)"] && r.HasShamt) {
			k += fmt.Sprintf("/f7=%d", r.Funct7)
		}
		return k
	}
	for _, which := range []struct {
		rule  string
		reads map[string]map[string]bool
		what  string
	}{{r3, encReads, "encode"}, {r4, decReads, "decode"}} {
		groups := map[string][]string{}
		for _, r := range rows {
			f := format[r.Opcode]
			if r.Pseudo || f == "" || which.reads[f] == nil {
				continue
			}
			groups[f+":"+keyOf(r, which.reads[f])] = append(groups[f+":"+keyOf(r, which.reads[f])], r.As)
		}
		var keys []string
		for k := range groups {
			keys = append(keys, k)
		}
		sort.Strings(keys)
		n := 0
		for _, k := range keys {
			g := groups[k]
			sort.Strings(g)
			n++
			if len(g) == 1 {
				continue
			}
			// all members special-cased by mnemonic in encodeRaw?
			allSpecial := true
			for _, a := range g {
				if !special[a] {
					allSpecial = false
				}
			}
			f := k[:strings.Index(k, ":")]
			construct := f + "-format:{" + strings.Join(g, ",") + "}"
			if which.what == "encode" && allSpecial {
				c.OK(which.rule, construct, "", "rows share the encoder's key but encodeRaw special-cases each mnemonic")
				continue
			}
			var rd []string
			for fld := range which.reads[f] {
				rd = append(rd, fld)
			}
			sort.Strings(rd)
			if which.what == "encode" {
				c.Fail(which.rule, construct, "", fmt.Sprintf("these real instructions agree on every table field encode%s reads (%v): they assemble to identical machine code", f, rd))
			} else {
				c.Fail(which.rule, construct, "", fmt.Sprintf("these real instructions agree on every table field decode%s compares (%v): the disassembler cannot tell them apart (the first row wins)", f, rd))
			}
		}
		c.Count(which.what+"_key_groups", n)
	}
}

// ---------- LoongArch

type laRow struct {
	As          string
	Mask, Value uint64
	Fmt         string
}

func laTable(pk *packages.Package) []laRow {
	info := pk.TypesInfo
	var rows []laRow
	for _, f := range pk.Syntax {
		ast.Inspect(f, func(n ast.Node) bool {
			kv, ok := n.(*ast.KeyValueExpr)
			if !ok {
				return true
			}
			row, ok := kv.Value.(*ast.CompositeLit)
			if !ok {
				return true
			}
			r := laRow{As: types.ExprString(kv.Key)}
			nf := 0
			for _, fe := range row.Elts {
				fkv, ok := fe.(*ast.KeyValueExpr)
				if !ok {
					continue
				}
				tv := info.Types[fkv.Value]
				var val uint64
				if tv.Value != nil && tv.Value.Kind() == constant.Int {
					val, _ = constant.Uint64Val(tv.Value)
				}
				switch types.ExprString(fkv.Key) {
				case "mask":
					r.Mask = val
					nf++
				case "value":
					r.Value = val
					nf++
				case "fmt":
					r.Fmt = types.ExprString(fkv.Value)
					nf++
				}
			}
			if nf == 3 {
				rows = append(rows, r)
			}
			return true
		})
	}
	return rows
}

func laInputs(pk *packages.Package, env *bitEnv) func(e ast.Expr) (bvec, bool) {
	return func(e ast.Expr) (bvec, bool) {
		switch x := e.(type) {
		case *ast.CallExpr:
			// ctx.regI(arg.Rd) and friends: a 5-bit register number taken from the named argument field
			if se, ok := x.Fun.(*ast.SelectorExpr); ok && strings.HasPrefix(se.Sel.Name, "reg") && len(x.Args) == 1 {
				if a, ok := x.Args[0].(*ast.SelectorExpr); ok {
					w := 5
					if se.Sel.Name == "regFCC" {
						w = 3
					}
					if se.Sel.Name == "regFCSR" {
						w = 2
					}
					return inputVec(a.Sel.Name, w, 32, false), true
				}
			}
		case *ast.SelectorExpr:
			if types.ExprString(x.X) == "arg" {
				w, signed := typeWidth(pk.TypesInfo.TypeOf(x))
				return inputVec(x.Sel.Name, w, w, signed), true
			}
			if types.ExprString(x.X) == "ctx" && (x.Sel.Name == "mask" || x.Sel.Name == "value") {
				return constVec(0, 32, false), true
			}
		case *ast.Ident:
			if x.Name == "x" {
				if _, has := env.vars[pk.TypesInfo.ObjectOf(x)]; !has {
					return inputVec("x", 32, 32, false), true
				}
			}
		}
		return bvec{}, false
	}
}

func c17Loong(c *Ctx, p *Prog, pk *packages.Package) {
	const r5, r6 = "loong64-operands-vs-mask", "loong64-decoder-inverse"
	rows := laTable(pk)
	c.Min(r5, "loong64 table rows", len(rows), 300)
	byFmt := map[string][]laRow{}
	for _, r := range rows {
		byFmt[r.Fmt] = append(byFmt[r.Fmt], r)
		if r.Value&^r.Mask != 0 {
			c.Fail(r5, "row "+r.As, "", fmt.Sprintf("value %#x has bits outside mask %#x", r.Value, r.Mask))
		}
	}
	enc := p.MustFunc(r5, pk, "_OpContextType.encodeRaw")
	dec := p.MustFunc(r6, pk, "_OpContextType.decodeInst")
	if enc == nil || dec == nil {
		return
	}
	armsOf := func(fd *ast.FuncDecl) (map[string][]ast.Stmt, []ast.Stmt) {
		out := map[string][]ast.Stmt{}
		var prefix []ast.Stmt
		for _, s := range fd.Body.List {
			sw, ok := s.(*ast.SwitchStmt)
			if !ok {
				prefix = append(prefix, s)
				continue
			}
			for _, arm := range SwitchArms(pk.TypesInfo, sw) {
				for _, k := range arm.Consts {
					out[k.Name] = arm.Body
				}
			}
		}
		return out, prefix
	}
	encArms, _ := armsOf(enc)
	decArms, decPrefix := armsOf(dec)
	var fmts []string
	for f := range encArms {
		fmts = append(fmts, f)
	}
	sort.Strings(fmts)
	nfmt := 0
	for _, f := range fmts {
		if len(byFmt[f]) == 0 {
			continue
		}
		nfmt++
		env := &bitEnv{pk: pk, vars: map[types.Object]bvec{}}
		env.inputs = laInputs(pk, env)
		// x starts as 0 (opcode bits are checked through the mask)
		var xObj types.Object
		if enc.Type.Results != nil {
			for _, fl := range enc.Type.Results.List {
				for _, nm := range fl.Names {
					if nm.Name == "x" {
						xObj = pk.TypesInfo.ObjectOf(nm)
					}
				}
			}
		}
		if xObj != nil {
			env.vars[xObj] = constVec(0, 32, false)
		}
		var body []ast.Stmt
		for _, s := range encArms[f] {
			if _, isRet := s.(*ast.ReturnStmt); isRet {
				break
			}
			body = append(body, s)
		}
		env.exec(body)
		xv, ok := env.vars[xObj]
		loc := ""
		if len(encArms[f]) > 0 {
			loc = p.Pos(encArms[f][0].Pos())
		}
		if !ok {
			c.Undecided(r5, f, loc, "encoder arm could not be evaluated")
			continue
		}
		// collisions and mask overlap
		var bad []string
		placed := map[bitSrc]int{}
		var operandBits uint64
		for i := 0; i < 32; i++ {
			b := xv.B[i]
			switch {
			case b.isZero():
			case b.Top:
				bad = append(bad, fmt.Sprintf("bit %d is not a plain copy of an operand bit", i))
				operandBits |= 1 << uint(i)
			case len(b.Srcs) > 1:
				bad = append(bad, fmt.Sprintf("bit %d receives two operand bits (%s)", i, b))
				operandBits |= 1 << uint(i)
			default:
				operandBits |= 1 << uint(i)
				if len(b.Srcs) == 1 {
					if prev, dup := placed[b.Srcs[0]]; dup {
						bad = append(bad, fmt.Sprintf("%s is written to both bit %d and bit %d", b.Srcs[0], prev, i))
					}
					placed[b.Srcs[0]] = i
				}
			}
		}
		for _, r := range byFmt[f] {
			if ov := operandBits & r.Mask; ov != 0 {
				bad = append(bad, fmt.Sprintf("operand bits %#x overlap the opcode mask %#x of %s", ov, r.Mask, r.As))
				break
			}
		}
		sort.Strings(bad)
		c.Check(len(bad) == 0, r5, f, loc, fmt.Sprintf("operand bits %#x: pairwise disjoint, outside the opcode mask of all %d rows", operandBits, len(byFmt[f])), "encoder arm "+f+": "+strings.Join(bad, "; "))
		// every bit of the word is an opcode bit of the row or carries an operand bit: a gap is an operand field the
		// encoder writes narrower than the format defines it (the top bits of the operand are dropped silently)
		gapRows := map[uint64][]string{}
		for _, r := range byFmt[f] {
			if gap := ^(operandBits | r.Mask) & 0xFFFFFFFF; gap != 0 {
				gapRows[gap] = append(gapRows[gap], r.As)
			}
		}
		if len(gapRows) == 0 {
			c.OK("loong64-field-coverage", f, loc, "opcode mask and operand bits cover the whole word in every row")
		}
		for gap, rows := range gapRows {
			sort.Strings(rows)
			construct := fmt.Sprintf("%s: bits %#x {%s}", f, gap, strings.Join(rows, ","))
			if why, ok := laGapAllowed[fmt.Sprintf("%s %#x", f, gap)]; ok {
				c.OK("loong64-field-coverage", construct, loc, "confirmed exception: "+why)
				continue
			}
			c.Fail("loong64-field-coverage", construct, loc, fmt.Sprintf("encoder arm %s: bits %#x of the word are neither in the opcode mask of %s nor written from an operand: an operand field is encoded with fewer bits than the instruction has, so operand values that need the missing bits assemble to another encoding than an independent assembler produces (negative immediates lose their sign bits) without an error", f, gap, strings.Join(rows, ", ")))
		}

		// decoder arm
		darm, has := decArms[f]
		if !has {
			c.Fail(r6, f, "", "no decoder arm for this format")
			continue
		}
		denv := &bitEnv{pk: pk, vars: map[types.Object]bvec{}}
		denv.inputs = laInputs(pk, denv)
		evalTopLevel(denv, decPrefix, nil)
		outs := evalTopLevel(denv, darm, []string{"argRaw."})
		var dbad []string
		signedFmt := strings.Contains(f, "_si") || strings.Contains(f, "offset")
		maxImm, maxPos := -1, -1
		for src, pos := range placed {
			name := "argRaw." + src.Name
			v, has := outs[name]
			if !has {
				dbad = append(dbad, fmt.Sprintf("%s is never assigned although the encoder writes %s", name, src.Name))
				continue
			}
			if src.Idx >= v.W {
				continue
			}
			got := v.B[src.Idx]
			if !(len(got.Srcs) == 1 && got.Srcs[0] == (bitSrc{"x", pos}) && !got.Top && !got.One) {
				dbad = append(dbad, fmt.Sprintf("%s bit %d = %s, but the encoder wrote it to x[%d]", name, src.Idx, got, pos))
			}
			if src.Name == "Imm" && src.Idx > maxImm {
				maxImm, maxPos = src.Idx, pos
			}
		}
		if v, has := outs["argRaw.Imm"]; has && maxImm >= 0 {
			for i := maxImm + 1; i < 32; i++ {
				got := v.B[i]
				if signedFmt {
					if !(len(got.Srcs) == 1 && got.Srcs[0] == (bitSrc{"x", maxPos}) && !got.Top) {
						dbad = append(dbad, fmt.Sprintf("immediate bit %d = %s: a signed %s immediate must be sign-extended from x[%d]", i, got, f, maxPos))
						break
					}
				} else if !got.isZero() {
					dbad = append(dbad, fmt.Sprintf("immediate bit %d = %s: an unsigned %s immediate must be zero-extended", i, got, f))
					break
				}
			}
		}
		// fields the decoder assigns from bits the encoder never wrote there
		for name, v := range outs {
			fld := strings.TrimPrefix(name, "argRaw.")
			for i := 0; i < v.W && i < 32; i++ {
				b := v.B[i]
				if len(b.Srcs) == 1 && b.Srcs[0].Name == "x" {
					pos := b.Srcs[0].Idx
					eb := xv.B[pos]
					if len(eb.Srcs) == 1 && eb.Srcs[0].Name != fld {
						dbad = append(dbad, fmt.Sprintf("%s is decoded from x[%d], where the encoder wrote %s", name, pos, eb.Srcs[0]))
						break
					}
				}
			}
		}
		sort.Strings(dbad)
		dloc := ""
		if len(darm) > 0 {
			dloc = p.Pos(darm[0].Pos())
		}
		c.Check(len(dbad) == 0, r6, f, dloc, "decoder arm reads every operand bit from where the encoder arm wrote it", "decoder arm "+f+" vs encoder arm: "+strings.Join(dbad, "; "))
	}
	c.Min(r5, "loong64 formats with table rows", nfmt, 40)
}

// laGapAllowed: formats whose words legitimately contain bits that are neither opcode nor operand (confirmed by
// reading the ISA manual), one reason each.
var laGapAllowed = map[string]string{
	"OpFormatType_1R_fcsr 0x380": "the fcsr field has five bits but only FCSR0..FCSR3 exist; regFCSR answers 0..3, the upper three bits are always zero",
	"OpFormatType_fcsr_1R 0x1c":  "the fcsr field has five bits but only FCSR0..FCSR3 exist; regFCSR answers 0..3, the upper three bits are always zero",
}
