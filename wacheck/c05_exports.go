package main

import (
	"fmt"
	"go/ast"
	"go/types"
	"strings"

	"golang.org/x/tools/go/packages"
)

// C05 rule inline-export-merge-order: an export can be written inline on a declaration (`(func $f (export "f") …)`).
// The parser appends the inline exports to the module's export list after the module-level `(export …)` fields, one
// kind of declaration after the other. The printer writes the inline export back inline only for some kinds (it
// prints `.ExportName` with the declaration) and turns the others into module-level fields. For the export list — and
// with it the export section of the binary — to survive print and re-parse, the kinds the printer externalises must
// be merged by the parser *before* the kinds it keeps inline: after printing, the externalised ones are module-level
// fields and therefore come first.

func c05ExportMergeOrder(c *Ctx, p *Prog, pr, pp *packages.Package) {
	const rule = "inline-export-merge-order"
	// printer: element types whose ExportName is printed with the declaration
	inline := map[string]bool{}
	pinfo := pp.TypesInfo
	for _, f := range pp.Syntax {
		ast.Inspect(f, func(n ast.Node) bool {
			call, ok := n.(*ast.CallExpr)
			if !ok {
				return true
			}
			if fn := CalleeOf(pinfo, call); fn == nil || !strings.HasPrefix(fn.Name(), "Fprint") {
				return true
			}
			for _, a := range call.Args {
				// the name itself, or the name passed through the quoting function
				ast.Inspect(a, func(m ast.Node) bool {
					if se, ok := m.(*ast.SelectorExpr); ok && se.Sel.Name == "ExportName" {
						inline[namedTypeName(pinfo.TypeOf(se.X))] = true
					}
					return true
				})
			}
			return true
		})
	}
	// parser: the order in which parseModule merges inline exports
	fd := p.MustFunc(rule, pr, "parser.parseModule")
	if fd == nil {
		return
	}
	info := pr.TypesInfo
	var order []string
	for _, s := range fd.Body.List {
		rs, ok := s.(*ast.RangeStmt)
		if !ok {
			continue
		}
		merges := false
		elem := ""
		ast.Inspect(rs.Body, func(n ast.Node) bool {
			if se, ok := n.(*ast.SelectorExpr); ok && se.Sel.Name == "ExportName" {
				elem = namedTypeName(info.TypeOf(se.X))
			}
			if call, ok := n.(*ast.CallExpr); ok && types.ExprString(call.Fun) == "append" && len(call.Args) >= 1 && strings.HasSuffix(types.ExprString(call.Args[0]), ".Exports") {
				merges = true
			}
			return true
		})
		if merges && elem != "" {
			order = append(order, elem)
		}
	}
	if len(inline) == 0 {
		c.Undecided(rule, "printer: inline exports", "", "no declaration kind whose ExportName the printer writes with the declaration was found")
		return
	}
	if len(order) < 2 {
		c.Undecided(rule, "parser.parseModule", p.Pos(fd.Pos()), fmt.Sprintf("fewer than two inline-export merge loops found (%v)", order))
		return
	}
	bad := ""
	seenInline := ""
	for _, t := range order {
		if inline[t] {
			seenInline = t
		} else if seenInline != "" {
			bad = fmt.Sprintf("inline exports of %s (which the printer turns into module-level fields) are merged after those of %s (which it prints inline)", t, seenInline)
		}
	}
	var in []string
	for t := range inline {
		in = append(in, t)
	}
	c.Check(bad == "", rule, "parser.parseModule", p.Pos(fd.Pos()), fmt.Sprintf("merge order %v; printed inline: %v", order, in),
		"parser.parseModule: "+bad+": after print and re-parse the export list, and the export section of the binary, come out in a different order")
}
