package main

import (
	"fmt"
	"go/ast"
	"go/types"
	"reflect"
	"sort"
	"strings"

	"golang.org/x/tools/go/packages"
)

// C23 extra rules (added after seeded changes were missed):
//
//   serialized-name-unique — in the structs of the serialized file set (serializedFileSet and everything reachable from
//       it by field types of package token) every field is exported and no two fields of one struct share an
//       encoding name: encoding/json silently drops *both* fields of a clash, gob drops unexported ones.
//   panic-position-per-site — every SSA emitter that creates a Panic instruction for an implicit check gives it the
//       position it was called with, unconditionally: a Panic block shared between checks keeps the position of the
//       first one, and the run-time message names an innocent line.

func c23Extra(c *Ctx, p *Prog, tk *packages.Package) {
	const rule = "serialized-name-unique"
	root, _ := tk.Types.Scope().Lookup("serializedFileSet").(*types.TypeName)
	if root == nil {
		c.Undecided(rule, "token.serializedFileSet", "", "type not found")
	} else {
		seen := map[string]bool{}
		var visit func(t types.Type)
		n := 0
		visit = func(t types.Type) {
			switch x := t.(type) {
			case *types.Pointer:
				visit(x.Elem())
			case *types.Slice:
				visit(x.Elem())
			case *types.Array:
				visit(x.Elem())
			case *types.Map:
				visit(x.Elem())
			case *types.Named:
				if x.Obj().Pkg() != tk.Types || seen[x.Obj().Name()] {
					return
				}
				seen[x.Obj().Name()] = true
				st, ok := x.Underlying().(*types.Struct)
				if !ok {
					return
				}
				n++
				names := map[string][]string{}
				var unexported []string
				for i := 0; i < st.NumFields(); i++ {
					f := st.Field(i)
					if !f.Exported() {
						unexported = append(unexported, f.Name())
						continue
					}
					jn := f.Name()
					if tag, ok := reflect.StructTag(st.Tag(i)).Lookup("json"); ok {
						nm := strings.Split(tag, ",")[0]
						if nm == "-" {
							unexported = append(unexported, f.Name()+" (json:\"-\")")
							continue
						}
						if nm != "" {
							jn = nm
						}
					}
					names[jn] = append(names[jn], f.Name())
					visit(f.Type())
				}
				var clashes []string
				for jn, fs := range names {
					if len(fs) > 1 {
						sort.Strings(fs)
						clashes = append(clashes, fmt.Sprintf("%s share the name %q", strings.Join(fs, " and "), jn))
					}
				}
				sort.Strings(clashes)
				var probs []string
				if len(clashes) > 0 {
					probs = append(probs, strings.Join(clashes, "; ")+" (encoding/json drops every field of a name clash without an error)")
				}
				if len(unexported) > 0 {
					probs = append(probs, "fields "+strings.Join(unexported, ", ")+" are not encoded at all")
				}
				c.Check(len(probs) == 0, rule, "token."+x.Obj().Name(), p.Pos(x.Obj().Pos()), "all fields exported, encoding names distinct", "serialized struct token."+x.Obj().Name()+": "+strings.Join(probs, "; ")+": positions restored from the serialized file set lose that data")
			}
		}
		visit(root.Type())
		c.Min(rule, "serialized struct types", n, 3)
	}
}

func c23PanicSites(c *Ctx, p *Prog, sp *packages.Package) {
	const rule = "panic-position-per-site"
	info := sp.TypesInfo
	n := 0
	for _, f := range sp.Syntax {
		for _, d := range f.Decls {
			fd, ok := d.(*ast.FuncDecl)
			if !ok || fd.Body == nil || fd.Recv != nil {
				continue
			}
			// emitters with a position parameter that create a Panic
			var posParam types.Object
			for _, fl := range fd.Type.Params.List {
				if strings.HasSuffix(types.ExprString(fl.Type), "token.Pos") {
					for _, nm := range fl.Names {
						posParam = info.ObjectOf(nm)
					}
				}
			}
			if posParam == nil {
				continue
			}
			// top-level statements only: `x := &Panic{...}` and `x.pos = pos`
			var panicVar types.Object
			created, positioned, nested := false, false, false
			for _, s := range fd.Body.List {
				if as, ok := s.(*ast.AssignStmt); ok && len(as.Lhs) == 1 && len(as.Rhs) == 1 {
					if u, ok := as.Rhs[0].(*ast.UnaryExpr); ok {
						if cl, ok := u.X.(*ast.CompositeLit); ok && namedTypeName(info.TypeOf(cl)) == "Panic" {
							created = true
							if id, ok := as.Lhs[0].(*ast.Ident); ok {
								panicVar = info.ObjectOf(id)
							}
						}
					}
					if se, ok := as.Lhs[0].(*ast.SelectorExpr); ok && se.Sel.Name == "pos" {
						if id, ok := se.X.(*ast.Ident); ok && panicVar != nil && info.ObjectOf(id) == panicVar {
							if rid, ok := as.Rhs[0].(*ast.Ident); ok && info.ObjectOf(rid) == posParam {
								positioned = true
							}
						}
					}
				}
			}
			// a Panic created anywhere deeper (under a condition)?
			ast.Inspect(fd.Body, func(nd ast.Node) bool {
				if cl, ok := nd.(*ast.CompositeLit); ok && namedTypeName(info.TypeOf(cl)) == "Panic" && !created {
					nested = true
				}
				return true
			})
			if !created && !nested {
				continue
			}
			n++
			c.Check(created && positioned, rule, short(sp.PkgPath)+"."+fd.Name.Name, p.Pos(fd.Pos()), "a fresh Panic per call, positioned with the call's pos",
				fd.Name.Name+" does not create its Panic instruction unconditionally with the position it was called with (created at top level: "+fmt.Sprint(created)+", pos assigned from the parameter: "+fmt.Sprint(positioned)+"): several checks then share one Panic, whose message names the position of the first check of the function instead of the failing one")
		}
	}
	c.Min(rule, "implicit-check panic emitters", n, 1)
}
