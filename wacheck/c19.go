package main

import (
	"fmt"
	"go/ast"
	"go/token"
	"go/types"
	"sort"
	"strings"

	"golang.org/x/tools/go/packages"
)

func init() {
	register(&Property{ID: "C19", Run: runC19, Mutants: []Mutant{
		{Name: "signed encoder's more-groups test off by one at -64", File: "internal/wasm/leb128/encode.go", Old: "if (v != -1 || s == 0) && (v != 0 || s != 0) {", New: "if (v != -1 || s == 0 || c == 0x40) && (v != 0 || s != 0) {", Expect: "encoder-iteration"},
		{Name: "unsigned encoder keeps 8 bits per group", File: "internal/wasm/leb128/encode.go", Old: "\t\tc = uint8(v & 0x7f)\n\t\tv >>= 7\n\t\tif v != 0 {", New: "\t\tc = uint8(v & 0x7f)\n\t\tv >>= 8\n\t\tif v != 0 {", Expect: "encoder-iteration"},
		{Name: "EncodeInt32 zero-extends", File: "internal/wasm/leb128/encode.go", Old: "n := encodeInt64(int64(v), dst)\n\treturn dst[:n]\n}\n\n// EncodeInt64", New: "n := encodeInt64(int64(uint32(v)), dst)\n\treturn dst[:n]\n}\n\n// EncodeInt64", Expect: "wrapper-delegation"},
		{Name: "decodeUint32 fifth-byte mask 0xe0", File: "internal/wasm/leb128/leb128.go", Old: "(b&0xf0) > 0", New: "(b&0xe0) > 0", Expect: "decoder-final-byte"},
		{Name: "decodeInt32 ignores bit 6 of the last byte", File: "internal/wasm/leb128/leb128.go", Old: "unused := b & 0b01110000; bytesRead == maxVarintLen32 && ret < 0 && unused != 0b01110000", New: "unused := b & 0b00110000; bytesRead == maxVarintLen32 && ret < 0 && unused != 0b00110000", Expect: "decoder-final-byte"},
		{Name: "int33 decoder accepts a fifth byte with the continuation bit", File: "internal/wasm/leb128/leb128.go", Old: "if bytesRead > maxVarintLen33 || b&int33Mask != 0 {", New: "if bytesRead > maxVarintLen33 {", Expect: "decoder-length"},
		{Name: "decodeInt64 length check off by one", File: "internal/wasm/leb128/leb128.go", Old: "if bytesRead > maxVarintLen64 {", New: "if bytesRead > maxVarintLen64+1 {", Expect: "decoder-length"},
		{Name: "decodeInt32 sign extension tests the wrong bit", File: "internal/wasm/leb128/leb128.go", Old: "if shift < 32 && (b&0x40) != 0 {", New: "if shift < 32 && (b&0x20) != 0 {", Expect: "decoder-accumulate"},
		{Name: "decodeInt64 payload keeps the continuation bit", File: "internal/wasm/leb128/leb128.go", Old: "ret |= (int64(b) & 0x7f) << shift", New: "ret |= (int64(b) & 0xff) << shift", Expect: "decoder-accumulate"},
		{Name: "int33 sign bit constant", File: "internal/wasm/leb128/leb128.go", Old: "int33Mask5       = 1 << 32", New: "int33Mask5       = 1 << 31", Expect: "int33-translation"},
		{Name: "byteSliceNext reads one past the end", File: "internal/wasm/leb128/leb128.go", Old: "if i >= len(n) {", New: "if i > len(n) {", Expect: "reader-bounds"},
	}})
}

type lebCodec struct {
	Fn     string
	W      int
	Signed bool
}

var lebDecoders = []lebCodec{
	{"decodeUint32", 32, false},
	{"decodeInt32", 32, true},
	{"DecodeInt33AsInt64", 33, true},
	{"decodeInt64", 64, true},
}

var lebEncoders = []lebCodec{
	{"encodeUint64", 64, false},
	{"encodeInt64", 64, true},
}

func runC19(c *Ctx) {
	c.Explain = "Decides structural clauses of the LEB128 codec by finite evaluation of the per-iteration decision structure the source spells (the functions are never run): " +
		"(decoders) for byte position k in 1..L+3 and every byte value b, with the shift/count variables in closed form as induction variables and the decoded value abstracted to its sign, " +
		"the walk of the loop body and the statements after the loop accepts a terminating byte exactly when k < L, or k = L and the unused bits of b agree with the sign (zero for unsigned), " +
		"never accepts a sequence whose L-th byte continues, and ORs exactly (b&0x7f)<<7(k-1) plus the sign extension -1<<7k into the value; " +
		"(encoders) one loop iteration evaluated on boundary representatives of v emits (v&0x7f)|more<<7 at dst[0], advances dst and the length by one, leaves v>>7, and continues exactly when v is outside the 7-bit range; " +
		"(wrappers) every exported function delegates to the core codec of its width and signedness with a plain widening conversion. " +
		"NOT decided: the round trip for all 2^32 / 2^64 values as a whole (the per-iteration clauses are necessary for it, and the encoder samples are representatives, not the full domain), nor the byte readers behind io.ByteReader."
	c.Trusted = []string{"go/packages, go/types (x/tools v0.29.0)", "the finite evaluator of wacheck (finite.go, iterEval.go)"}
	p := c.Load(LoadOpt{Light: true}, "./internal/wasm/leb128")
	pk := p.MustPkg("decoder-final-byte", "internal/wasm/leb128")
	if pk == nil {
		return
	}
	for _, d := range lebDecoders {
		c19Decoder(c, p, pk, d)
	}
	for _, e := range lebEncoders {
		c19Encoder(c, p, pk, e)
	}
	c19Wrappers(c, p, pk)
	c19ReaderBounds(c, p, pk)
	c.Min("decoder-final-byte", "decoders evaluated", len(lebDecoders), 4)
}

// loopOf returns the single top-level for statement of fd with the statements before and after it.
func loopOf(fd *ast.FuncDecl) (pre []ast.Stmt, loop *ast.ForStmt, post []ast.Stmt) {
	for i, s := range fd.Body.List {
		if fs, ok := s.(*ast.ForStmt); ok {
			if loop != nil {
				return nil, nil, nil
			}
			pre, loop, post = fd.Body.List[:i], fs, fd.Body.List[i+1:]
		}
	}
	return
}

func resultObjs(info *types.Info, fd *ast.FuncDecl) (first, errObj types.Object, errIndex int) {
	errIndex = -1
	if fd.Type.Results == nil {
		return
	}
	i := 0
	for _, f := range fd.Type.Results.List {
		isErr := isErrorType(info.TypeOf(f.Type))
		if len(f.Names) == 0 {
			if isErr {
				errIndex = i
			}
			i++
			continue
		}
		for _, nm := range f.Names {
			if i == 0 {
				first = info.ObjectOf(nm)
			}
			if isErr {
				errObj, errIndex = info.ObjectOf(nm), i
			}
			i++
		}
	}
	return
}

func c19Decoder(c *Ctx, p *Prog, pk *packages.Package, d lebCodec) {
	const rFinal, rLen, rAcc, rTr = "decoder-final-byte", "decoder-length", "decoder-accumulate", "int33-translation"
	info := pk.TypesInfo
	fd := p.MustFunc(rFinal, pk, d.Fn)
	if fd == nil {
		return
	}
	_, loop, post := loopOf(fd)
	acc, errObj, errIndex := resultObjs(info, fd)
	if loop == nil || acc == nil || errIndex < 0 {
		c.Undecided(rFinal, d.Fn, p.Pos(fd.Pos()), "expected one top-level loop, a named value result and an error result")
		return
	}
	ind := findInduction(info, fd, loop)
	L := (d.W + 6) / 7
	n := d.W - 7*(L-1) // value bits carried by the last byte
	c.Count("leb128_decoder_positions_evaluated", (L+3)*256)

	type result struct {
		out    iterOutcome
		events []iterEvent
	}
	evaluate := func(k int, b int64, accVal *int64) result {
		env := &fenv{info: info, vars: map[types.Object]fval{}}
		for o, iv := range ind {
			env.vars[o] = fInt(fTrunc(iv.Init+iv.Step*int64(k-1), o.Type()))
		}
		if accVal != nil {
			env.vars[acc] = fInt(*accVal)
		}
		env.hook = func(e ast.Expr) (fval, bool) {
			be, ok := e.(*ast.BinaryExpr)
			if !ok || identObj(info, be.X) != acc {
				return fval{}, false
			}
			if _, concrete := env.vars[acc]; concrete {
				return fval{}, false
			}
			if z, ok := constIntOf(info, be.Y); !ok || z != 0 || !d.Signed {
				return fval{}, false
			}
			if k != L {
				return fUnknown, true
			}
			neg := b&(int64(1)<<uint(n-1)) != 0
			switch be.Op {
			case token.LSS:
				return fBool(neg), true
			case token.GEQ:
				return fBool(!neg), true
			}
			return fval{}, false
		}
		it := &iterEval{env: env, info: info, byteVal: b, acc: acc, errObj: errObj, errIndex: errIndex}
		if loop.Cond != nil {
			cv := env.eval(loop.Cond)
			if !cv.OK {
				return result{out: iterOutcome{Kind: "undecided", Why: "loop condition not decided", Pos: loop.Cond.Pos()}}
			}
			if !cv.B {
				return result{out: iterOutcome{Kind: "unreachable"}}
			}
		}
		out, done := it.run(loop.Body.List)
		if done && out.Kind == "break" {
			out, done = it.run(post)
			if !done {
				out = iterOutcome{Kind: "undecided", Why: "control falls off the end of the function"}
			}
			return result{out, it.events}
		}
		if done && out.Kind != "fall" {
			return result{out, it.events}
		}
		if loop.Post != nil {
			if o, dn := it.run([]ast.Stmt{loop.Post}); dn {
				return result{o, it.events}
			}
		}
		if loop.Cond != nil {
			cv := env.eval(loop.Cond)
			if !cv.OK {
				return result{out: iterOutcome{Kind: "undecided", Why: "loop condition not decided", Pos: loop.Cond.Pos()}}
			}
			if !cv.B {
				out, done = it.run(post)
				if !done {
					out = iterOutcome{Kind: "undecided", Why: "control falls off the end of the function"}
				}
				return result{out, it.events}
			}
		}
		return result{iterOutcome{Kind: "continue"}, it.events}
	}

	maskW := func(v int64) int64 {
		if d.W >= 64 {
			return v
		}
		return v & (int64(1)<<uint(d.W) - 1)
	}
	var badFinal, badLen, badAcc, undecided []string
	note := func(list *[]string, s string) {
		if len(*list) < 6 {
			*list = append(*list, s)
		} else if len(*list) == 6 {
			*list = append(*list, "…")
		}
	}
	for k := 1; k <= L+3; k++ {
		for b := int64(0); b < 256; b++ {
			r := evaluate(k, b, nil)
			at := fmt.Sprintf("byte %d = 0x%02x", k, b)
			if r.out.Kind == "undecided" {
				note(&undecided, at+": "+r.out.Why+" ("+p.Pos(r.out.Pos)+")")
				continue
			}
			if r.out.Kind == "unreachable" {
				continue // the loop bound keeps this position from being read
			}
			term := b < 128
			switch {
			case term && k < L:
				if r.out.Kind != "accept" {
					note(&badFinal, at+": a terminating byte before the last position is "+r.out.Kind+"ed")
				}
			case term && k == L:
				var ok bool
				if d.Signed {
					ok = b < int64(1)<<uint(n-1) || b >= 128-int64(1)<<uint(n-1)
				} else {
					ok = b < int64(1)<<uint(n)
				}
				if ok != (r.out.Kind == "accept") {
					if ok {
						note(&badFinal, at+": rejected although its unused bits are consistent")
					} else {
						note(&badFinal, at+": accepted although its unused bits are inconsistent with the value")
					}
				}
			case term && k > L:
				if r.out.Kind != "reject" {
					note(&badLen, at+": a sequence longer than "+fmt.Sprint(L)+" bytes is "+r.out.Kind+"ed")
				}
			case !term && k < L:
				if r.out.Kind != "continue" {
					note(&badFinal, at+": a continuing byte does not continue ("+r.out.Kind+")")
				}
			default: // continuation at or beyond the last position
				if r.out.Kind == "accept" {
					note(&badLen, at+": accepted although the continuation bit says the sequence is longer than "+fmt.Sprint(L)+" bytes")
				}
			}
			// what is ORed into the value
			if k <= L && r.out.Kind != "reject" {
				got, plain := int64(0), false
				for _, ev := range r.events {
					switch ev.Kind {
					case "|=", "return-or":
						if !ev.Val.OK {
							note(&undecided, at+": value ORed at "+p.Pos(ev.Pos)+" not decided")
						}
						got |= ev.Val.I
					case "=", ":=":
						plain = true
					default:
						note(&badAcc, at+": the value is updated with "+ev.Kind+" at "+p.Pos(ev.Pos))
					}
				}
				if plain && d.W%8 == 0 {
					note(&badAcc, at+": the value is overwritten instead of ORed")
				}
				want := int64(0)
				if 7*(k-1) < 64 {
					want = fTrunc((b&0x7f)<<uint(7*(k-1)), acc.Type())
				}
				if d.Signed && term && b&0x40 != 0 && 7*k < d.W {
					want |= int64(-1) << uint(7*k)
				}
				if maskW(got) != maskW(want) {
					note(&badAcc, fmt.Sprintf("%s: ORs %#x into the value, the format says %#x", at, uint64(maskW(got)), uint64(maskW(want))))
				}
			}
		}
	}
	loc := p.Pos(fd.Pos())
	if len(undecided) > 0 {
		c.Undecided(rFinal, d.Fn, loc, strings.Join(undecided, "; "))
		return
	}
	kind := "unsigned"
	if d.Signed {
		kind = "signed"
	}
	c.Check(len(badFinal) == 0, rFinal, d.Fn, loc, fmt.Sprintf("%s %d-bit: terminating bytes accepted exactly as the binary format says (positions 1..%d × 256 byte values)", kind, d.W, L),
		d.Fn+" decides the last byte of a sequence differently from the WebAssembly binary format: "+strings.Join(badFinal, "; "))
	c.Check(len(badLen) == 0, rLen, d.Fn, loc, fmt.Sprintf("no sequence longer than %d bytes is accepted", L),
		d.Fn+" accepts an over-long sequence: "+strings.Join(badLen, "; "))
	c.Check(len(badAcc) == 0, rAcc, d.Fn, loc, "each byte contributes (b&0x7f)<<7(k-1), plus the sign extension on a terminating byte with bit 6",
		d.Fn+" accumulates the wrong bits: "+strings.Join(badAcc, "; "))

	if d.W%8 != 0 {
		// the two's-complement translation after the loop, evaluated with a concrete accumulator and a one-byte sequence
		var bad []string
		reps := []int64{0, 1, 0x3f, 0xffffffff, 0x100000000, 0x100000001, 0x1ffffffff, 0x17fffffff, 0x7fffffff, 0x80000000, 0x3_0000_0005, -1, int64(-1) << 33}
		for _, r0 := range reps {
			v := r0
			r := evaluate(1, 0, &v)
			want := r0 & (int64(1)<<uint(d.W) - 1)
			if want&(int64(1)<<uint(d.W-1)) != 0 {
				want -= int64(1) << uint(d.W)
			}
			if r.out.Kind != "accept" || !r.out.RetVal.OK {
				bad = append(bad, fmt.Sprintf("accumulated bits %#x: not decided (%s %s)", uint64(r0), r.out.Kind, r.out.Why))
			} else if r.out.RetVal.I != want {
				bad = append(bad, fmt.Sprintf("accumulated bits %#x are returned as %d, the %d-bit two's-complement value is %d", uint64(r0), r.out.RetVal.I, d.W, want))
			}
		}
		c.Check(len(bad) == 0, rTr, d.Fn, loc, fmt.Sprintf("the accumulated bits are reduced to %d bits and sign-extended (%d representatives)", d.W, len(reps)),
			d.Fn+" translates the accumulated bits wrongly: "+strings.Join(bad, "; "))
	}
}

func lebSamples(signed bool) []int64 {
	set := map[int64]bool{}
	for v := int64(-20000); v <= 20000; v++ {
		set[v] = true
	}
	for k := uint(0); k < 64; k++ {
		for d := int64(-2); d <= 2; d++ {
			set[int64(1)<<k+d] = true
			set[-(int64(1)<<k)+d] = true
		}
	}
	set[int64(^uint64(0)>>1)] = true
	set[-int64(^uint64(0)>>1)-1] = true
	out := make([]int64, 0, len(set))
	for v := range set {
		out = append(out, v)
	}
	sort.Slice(out, func(i, j int) bool { return out[i] < out[j] })
	return out
}

func c19Encoder(c *Ctx, p *Prog, pk *packages.Package, e lebCodec) {
	const rule, rRes = "encoder-iteration", "encoder-result"
	info := pk.TypesInfo
	fd := p.MustFunc(rule, pk, e.Fn)
	if fd == nil {
		return
	}
	pre, loop, post := loopOf(fd)
	loc := p.Pos(fd.Pos())
	if loop == nil || fd.Type.Params == nil || len(fd.Type.Params.List) < 2 || len(fd.Type.Params.List[0].Names) != 1 {
		c.Undecided(rule, e.Fn, loc, "expected (v, dst) parameters and one top-level loop")
		return
	}
	vObj := info.ObjectOf(fd.Type.Params.List[0].Names[0])
	dstObj := info.ObjectOf(fd.Type.Params.List[1].Names[0])
	// the returned counter
	// (returned after the loop, or from inside it when the last group has been written)
	var lenObj types.Object
	counterOf := func(n ast.Node) {
		ast.Inspect(n, func(m ast.Node) bool {
			if _, isLit := m.(*ast.FuncLit); isLit {
				return false
			}
			if rs, ok := m.(*ast.ReturnStmt); ok && len(rs.Results) == 1 {
				r := ast.Unparen(rs.Results[0])
				if call, ok := r.(*ast.CallExpr); ok && len(call.Args) == 1 {
					r = call.Args[0]
				}
				if o := identObj(info, r); o != nil {
					lenObj = o
				}
			}
			return true
		})
	}
	for _, s := range post {
		counterOf(s)
	}
	if lenObj == nil {
		counterOf(loop.Body)
	}
	if lenObj == nil {
		c.Undecided(rRes, e.Fn, loc, "the function does not return a counter variable")
		return
	}
	// the buffer advances by one after the store
	advances := false
	ast.Inspect(loop.Body, func(n ast.Node) bool {
		as, ok := n.(*ast.AssignStmt)
		if !ok || len(as.Lhs) != 1 || identObj(info, as.Lhs[0]) != dstObj {
			return true
		}
		if se, ok := as.Rhs[0].(*ast.SliceExpr); ok && identObj(info, se.X) == dstObj && se.High == nil && se.Low != nil {
			if k, ok := constIntOf(info, se.Low); ok && k == 1 {
				advances = true
			}
		}
		return true
	})
	// Two ways of moving through the buffer: re-slicing (`dst = dst[1:]`, every store at index 0) or indexing with the
	// byte counter (`dst[n] = c`). Which one holds is decided per evaluated iteration below (the counter is started at 2
	// so that the two cannot be confused).
	indexedByCounter := true

	var bad, undecided []string
	note := func(list *[]string, s string) {
		if len(*list) < 6 {
			*list = append(*list, s)
		} else if len(*list) == 6 {
			*list = append(*list, "…")
		}
	}
	samples := lebSamples(e.Signed)
	c.Count("leb128_encoder_values_evaluated", len(samples))
	for _, v := range samples {
		env := &fenv{info: info, vars: map[types.Object]fval{vObj: fInt(v)}}
		env.hook = func(x ast.Expr) (fval, bool) {
			be, ok := x.(*ast.BinaryExpr)
			if !ok || identObj(info, be.X) != dstObj {
				return fval{}, false
			}
			if tv, ok := info.Types[be.Y]; !ok || !tv.IsNil() {
				return fval{}, false
			}
			switch be.Op {
			case token.NEQ:
				return fBool(true), true // evaluated for the case where a buffer is present
			case token.EQL:
				return fBool(false), true
			}
			return fval{}, false
		}
		it := &iterEval{env: env, info: info, errIndex: -1}
		if o, done := it.run(pre); done {
			note(&undecided, "statements before the loop: "+o.Kind+" "+o.Why)
			continue
		}
		if s0 := env.vars[lenObj]; !s0.OK || s0.I != 0 {
			note(&bad, "the byte counter does not start at 0")
		}
		env.vars[lenObj] = fInt(2)
		start := env.vars[lenObj]
		out, done := it.run(loop.Body.List)
		at := fmt.Sprintf("v = %d", v)
		if !e.Signed {
			at = fmt.Sprintf("v = %d", uint64(v))
		}
		if done && out.Kind == "undecided" {
			note(&undecided, at+": "+out.Why+" ("+p.Pos(out.Pos)+")")
			continue
		}
		more := !(done && (out.Kind == "break" || out.Kind == "accept"))
		if done && out.Kind != "break" && out.Kind != "fall" && out.Kind != "accept" {
			note(&bad, at+": the iteration ends in "+out.Kind)
			continue
		}
		if done && out.Kind == "accept" && (!out.RetVal.OK || out.RetVal.I != start.I+1) {
			note(&bad, at+": the value returned from inside the loop is not the number of bytes written")
		}
		wantMore := uint64(v) > 127
		next := int64(uint64(v) >> 7)
		if e.Signed {
			wantMore = v < -64 || v > 63
			next = v >> 7
		}
		wantByte := v & 0x7f
		if wantMore {
			wantByte |= 0x80
		}
		var stores []iterEvent
		for _, ev := range it.events {
			if ev.Kind == "store" && ev.Target == dstObj {
				stores = append(stores, ev)
			}
		}
		switch {
		case len(stores) != 1:
			note(&bad, fmt.Sprintf("%s: %d stores into the buffer in one iteration", at, len(stores)))
		case !stores[0].Val.OK || !stores[0].Index.OK:
			note(&undecided, at+": the stored byte is not decided ("+p.Pos(stores[0].Pos)+")")
		case advances && stores[0].Index.I != 0:
			note(&bad, fmt.Sprintf("%s: the group is stored at dst[%d] although the buffer is re-sliced after every store", at, stores[0].Index.I))
		case !advances && stores[0].Index.I != start.I:
			indexedByCounter = false
			note(&bad, fmt.Sprintf("%s: the group is stored at dst[%d] with %d bytes already written and the buffer not re-sliced: later groups overwrite or skip positions", at, stores[0].Index.I, start.I))
		case stores[0].Val.I&0xff != wantByte:
			note(&bad, fmt.Sprintf("%s: emits 0x%02x, LEB128 says 0x%02x", at, stores[0].Val.I&0xff, wantByte))
		}
		if more != wantMore {
			if more {
				note(&bad, at+": another group follows although the value fits the group just emitted (non-minimal encoding)")
			} else {
				note(&bad, at+": the encoding stops although bits remain")
			}
		}
		if nv := env.vars[vObj]; more && (!nv.OK || nv.I != next) {
			note(&bad, fmt.Sprintf("%s: the next iteration sees %d, not v>>7 = %d", at, nv.I, next))
		}
		if ln := env.vars[lenObj]; !start.OK || !ln.OK || ln.I != start.I+1 {
			note(&bad, at+": the byte counter does not advance by one")
		}
	}
	c.Check(advances || indexedByCounter, rRes, e.Fn, loc, "returns the counter of emitted bytes; the buffer position advances by one per emitted byte",
		e.Fn+" neither re-slices the output buffer after each store (dst = dst[1:]) nor indexes it with the byte counter: later groups overwrite or skip positions")
	if len(undecided) > 0 {
		c.Undecided(rule, e.Fn, loc, strings.Join(undecided, "; "))
		return
	}
	c.Check(len(bad) == 0, rule, e.Fn, loc, fmt.Sprintf("one iteration emits (v&0x7f)|more<<7, leaves v>>7 and continues exactly outside the 7-bit range (%d boundary representatives)", len(samples)),
		e.Fn+": "+strings.Join(bad, "; "))
}

// c19Wrappers: the exported functions only select a core codec.
func c19Wrappers(c *Ctx, p *Prog, pk *packages.Package) {
	const rule = "wrapper-delegation"
	info := pk.TypesInfo
	n := 0
	for _, f := range pk.Syntax {
		for _, dcl := range f.Decls {
			fd, ok := dcl.(*ast.FuncDecl)
			if !ok || fd.Recv != nil || fd.Body == nil || !fd.Name.IsExported() || fd.Name.Name == "DecodeInt33AsInt64" {
				continue
			}
			name := fd.Name.Name
			loc := p.Pos(fd.Pos())
			var want string
			switch {
			case strings.HasPrefix(name, "Decode"):
				want = "decode" + strings.TrimPrefix(name, "Decode")
			case strings.HasPrefix(name, "Load"):
				want = "decode" + strings.TrimPrefix(name, "Load")
			case strings.HasPrefix(name, "EncodeUint"):
				want = "encodeUint64"
			case strings.HasPrefix(name, "EncodeInt"):
				want = "encodeInt64"
			default:
				c.Undecided(rule, name, loc, "exported function outside the Decode*/Load*/Encode* families")
				continue
			}
			n++
			param := info.ObjectOf(fd.Type.Params.List[0].Names[0])
			// the single call to the core codec
			var call *ast.CallExpr
			calls := 0
			ast.Inspect(fd.Body, func(nd ast.Node) bool {
				if ce, ok := nd.(*ast.CallExpr); ok {
					if fn := CalleeOf(info, ce); fn != nil && fn.Pkg() == pk.Types {
						calls++
						call = ce
					}
				}
				return true
			})
			if calls != 1 || CalleeOf(info, call).Name() != want {
				c.Fail(rule, name, loc, name+" does not delegate to "+want+" exactly once")
				continue
			}
			if strings.HasPrefix(name, "Encode") {
				// arg 0: T(v) with T the 64-bit type of v's signedness, or v itself
				arg := ast.Unparen(call.Args[0])
				ok := identObj(info, arg) == param
				if ce, isCall := arg.(*ast.CallExpr); isCall && len(ce.Args) == 1 {
					if tv, isT := info.Types[ce.Fun]; isT && tv.IsType() && identObj(info, ce.Args[0]) == param {
						w, s1 := typeWidth(tv.Type)
						_, s2 := typeWidth(param.Type())
						ok = w == 64 && s1 == s2
					}
				}
				// result: dst[:n] of the buffer passed
				resOK := false
				if len(fd.Body.List) > 0 {
					if rs, isRet := fd.Body.List[len(fd.Body.List)-1].(*ast.ReturnStmt); isRet && len(rs.Results) == 1 {
						if se, isSl := rs.Results[0].(*ast.SliceExpr); isSl && se.Low == nil && se.High != nil && len(call.Args) == 2 &&
							identObj(info, se.X) != nil && identObj(info, se.X) == identObj(info, call.Args[1]) {
							// High is the variable holding the call's result
							hi := identObj(info, se.High)
							ast.Inspect(fd.Body, func(nd ast.Node) bool {
								if as, isAs := nd.(*ast.AssignStmt); isAs && len(as.Lhs) == 1 && len(as.Rhs) == 1 && as.Rhs[0] == ast.Expr(call) && identObj(info, as.Lhs[0]) == hi && hi != nil {
									resOK = true
								}
								return true
							})
						}
					}
				}
				// buffer large enough for 64 bits
				bufOK := false
				ast.Inspect(fd.Body, func(nd ast.Node) bool {
					if ce, isCall := nd.(*ast.CallExpr); isCall && types.ExprString(ce.Fun) == "make" && len(ce.Args) >= 2 {
						if k, isK := constIntOf(info, ce.Args[1]); isK && k >= 10 {
							bufOK = true
						}
					}
					return true
				})
				c.Check(ok && resOK && bufOK, rule, name, loc, "widens the parameter with its own signedness, encodes into a 10-byte buffer and returns the emitted prefix",
					fmt.Sprintf("%s: widening conversion plain and sign-preserving=%v, returns dst[:n] of the call=%v, buffer of at least 10 bytes=%v — a 32-bit value extended with the wrong signedness encodes to a different (non-minimal) sequence", name, ok, resOK, bufOK))
				continue
			}
			// decoders: `return core(wrap(param))`
			ok = len(fd.Body.List) == 1
			if ok {
				rs, isRet := fd.Body.List[0].(*ast.ReturnStmt)
				ok = isRet && len(rs.Results) == 1 && rs.Results[0] == ast.Expr(call) && len(call.Args) == 1
			}
			if ok {
				arg := ast.Unparen(call.Args[0])
				switch a := arg.(type) {
				case *ast.CompositeLit:
					ok = len(a.Elts) == 1 && identObj(info, a.Elts[0]) == param
				case *ast.CallExpr:
					ok = len(a.Args) == 1 && identObj(info, a.Args[0]) == param
				default:
					ok = identObj(info, arg) == param
				}
			}
			c.Check(ok, rule, name, loc, "returns the core decoder's results for its own reader",
				name+" does not return "+want+"(<its reader>) unchanged")
		}
	}
	c.Min(rule, "exported wrappers", n, 10)
}

// c19ReaderBounds: byteSliceNext.next returns io.EOF for every index outside the slice.
func c19ReaderBounds(c *Ctx, p *Prog, pk *packages.Package) {
	const rule = "reader-bounds"
	info := pk.TypesInfo
	// the slice-backed byte source: the method with a []byte receiver, one int parameter and results (byte, error)
	var fd *ast.FuncDecl
	for _, f := range pk.Syntax {
		for _, d := range f.Decls {
			m, ok := d.(*ast.FuncDecl)
			if !ok || m.Recv == nil || m.Body == nil || len(m.Recv.List) != 1 {
				continue
			}
			rt := info.TypeOf(m.Recv.List[0].Type)
			if rt == nil {
				continue
			}
			sl, ok := rt.Underlying().(*types.Slice)
			if !ok {
				continue
			}
			if b, ok := sl.Elem().Underlying().(*types.Basic); !ok || b.Kind() != types.Uint8 {
				continue
			}
			sig, ok := info.Defs[m.Name].Type().(*types.Signature)
			if !ok || sig.Params().Len() != 1 || sig.Results().Len() != 2 || !isErrorType(sig.Results().At(1).Type()) {
				continue
			}
			fd = m
		}
	}
	if fd == nil {
		c.Undecided(rule, "anchor:slice-backed byte source", "", "no method with a []byte receiver and signature (int) (byte, error) in "+pk.PkgPath)
		return
	}
	loc := p.Pos(fd.Pos())
	if len(fd.Recv.List[0].Names) != 1 || len(fd.Type.Params.List[0].Names) != 1 {
		c.Undecided(rule, "byteSliceNext.next", loc, "receiver or index parameter unnamed")
		return
	}
	recv := info.ObjectOf(fd.Recv.List[0].Names[0])
	idx := info.ObjectOf(fd.Type.Params.List[0].Names[0])
	// evaluate the guard for len in 0..4 and i in 0..6: every i >= len must take the EOF return
	var bad []string
	for ln := int64(0); ln <= 4; ln++ {
		for i := int64(0); i <= 6; i++ {
			env := &fenv{info: info, vars: map[types.Object]fval{idx: fInt(i)}}
			env.hook = func(e ast.Expr) (fval, bool) {
				if call, ok := e.(*ast.CallExpr); ok && types.ExprString(call.Fun) == "len" && len(call.Args) == 1 && identObj(info, call.Args[0]) == recv {
					return fInt(ln), true
				}
				return fval{}, false
			}
			it := &iterEval{env: env, info: info, errIndex: 1}
			out, done := it.run(fd.Body.List)
			switch {
			case !done || out.Kind == "undecided":
				bad = append(bad, fmt.Sprintf("len=%d i=%d: not decided %s", ln, i, out.Why))
			case i >= ln && out.Kind != "reject":
				bad = append(bad, fmt.Sprintf("len=%d i=%d: indexes past the end instead of returning io.EOF", ln, i))
			case i < ln && out.Kind != "accept":
				bad = append(bad, fmt.Sprintf("len=%d i=%d: reports EOF inside the slice", ln, i))
			}
		}
	}
	c.Check(len(bad) == 0, rule, "byteSliceNext.next", loc, "EOF exactly for i >= len (guard evaluated for len 0..4, i 0..6)",
		"byteSliceNext.next: "+strings.Join(bad, "; "))
}
