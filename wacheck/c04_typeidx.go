package main

import (
	"go/ast"
	"go/types"
	"strings"

	"golang.org/x/tools/go/packages"
)

// C04 rule numeric-index-through-merge (added after a defect found by probing: `call_indirect (type 2)` in a module
// whose first two type definitions are equal was assembled with type index 2 although the assembler had merged the
// two definitions — the binary named a type that does not exist, or another one).
//
// A section builder *merges* when the function that registers an entry can return before it appends (an equal entry
// was found). For such a section a numeric reference written in the text counts the text's definitions, not the
// binary's entries: the lookup function's numeric branch (strconv.Atoi succeeded) must go through the same search
// the named branch uses, not hand the number through.
func c04NumericThroughMerge(c *Ctx, p *Prog, wu *packages.Package) {
	const rule = "numeric-index-through-merge"
	info := wu.TypesInfo
	// (1) which register functions merge: an append to a p.mWasm.<X>Section preceded by a loop that returns
	merging := map[string]string{} // section field -> register function
	for _, name := range sortedDeclNames(wu) {
		fd := AllFuncDecls(wu)[name]
		if fd.Body == nil {
			continue
		}
		var loopReturns bool
		for _, s := range fd.Body.List {
			switch x := s.(type) {
			case *ast.RangeStmt:
				hasRet := false
				ast.Inspect(x.Body, func(m ast.Node) bool {
					if _, ok := m.(*ast.ReturnStmt); ok {
						hasRet = true
					}
					return true
				})
				if hasRet && strings.Contains(types.ExprString(x.X), "Section") {
					loopReturns = true
				}
			case *ast.AssignStmt:
				if len(x.Lhs) == 1 && len(x.Rhs) == 1 && loopReturns {
					if call, ok := x.Rhs[0].(*ast.CallExpr); ok {
						if id, ok := call.Fun.(*ast.Ident); ok && id.Name == "append" && strings.Contains(types.ExprString(x.Lhs[0]), "Section") {
							merging[types.ExprString(x.Lhs[0])] = name
						}
					}
				}
			}
		}
	}
	if len(merging) == 0 {
		c.Undecided(rule, "anchor:merging register function", "", "no section builder that merges equal entries was recognised")
		return
	}
	n := 0
	// (2) lookup functions with a numeric branch whose named branch searches a merging section
	for _, name := range sortedDeclNames(wu) {
		fd := AllFuncDecls(wu)[name]
		if fd.Body == nil || !strings.Contains(name, "IndexByIdent") && !strings.Contains(name, "TypeIndex") {
			continue
		}
		var numeric *ast.IfStmt
		for _, s := range fd.Body.List {
			if ifs, ok := s.(*ast.IfStmt); ok && ifs.Init != nil && strings.Contains(types.ExprString(ifs.Init.(*ast.AssignStmt).Rhs[0]), "strconv.Atoi") {
				numeric = ifs
			}
		}
		if numeric == nil {
			continue
		}
		// the search function the rest of the body calls, and whether that function reads a merging section
		searcher := ""
		for _, s := range fd.Body.List {
			if s == ast.Stmt(numeric) {
				continue
			}
			ast.Inspect(s, func(m ast.Node) bool {
				if call, ok := m.(*ast.CallExpr); ok {
					if fn := CalleeOf(info, call); fn != nil && fn.Pkg() == wu.Types {
						if cd := AllFuncDecls(wu)[funcKey(fn)]; cd != nil {
							for sec := range merging {
								if strings.Contains(selectorText(cd.Body), strings.TrimPrefix(sec, "p.")) {
									searcher = fn.Name()
								}
							}
						}
					}
				}
				return true
			})
		}
		if searcher == "" {
			continue // the section does not merge: numbers pass through
		}
		n++
		calls := false
		ast.Inspect(numeric.Body, func(m ast.Node) bool {
			if call, ok := m.(*ast.CallExpr); ok {
				if fn := CalleeOf(info, call); fn != nil && fn.Name() == searcher {
					calls = true
				}
			}
			return true
		})
		c.Check(calls, rule, name+": numeric branch", p.Pos(numeric.Pos()), "re-resolved through "+searcher,
			"a numeric index is handed through unchanged, but the named branch resolves through "+searcher+", which searches a section whose register function merges equal entries ("+joinVals(merging)+"): after a merge the text's n-th definition is not the binary's n-th entry, so `(type N)` names the wrong type or none")
	}
	c.Min(rule, "lookup functions with a numeric branch over a merging section", n, 1)
}

func joinVals(m map[string]string) string {
	var s []string
	for k, v := range m {
		s = append(s, v+" -> "+k)
	}
	sortStrings(s)
	return strings.Join(s, ", ")
}

func selectorText(n ast.Node) string {
	var sb strings.Builder
	ast.Inspect(n, func(m ast.Node) bool {
		if se, ok := m.(*ast.SelectorExpr); ok {
			sb.WriteString(types.ExprString(se))
			sb.WriteString(" ")
		}
		return true
	})
	return sb.String()
}

// funcKey: the key AllFuncDecls uses for fn ("Recv.Name" for methods).
func funcKey(fn *types.Func) string {
	sig, ok := fn.Type().(*types.Signature)
	if !ok || sig.Recv() == nil {
		return fn.Name()
	}
	t := sig.Recv().Type()
	if pt, ok := t.(*types.Pointer); ok {
		t = pt.Elem()
	}
	if nt, ok := t.(*types.Named); ok {
		return nt.Obj().Name() + "." + fn.Name()
	}
	return fn.Name()
}
