package main

import (
	"go/ast"
	"go/types"
	"strings"

	"golang.org/x/tools/go/packages"
)

// C09 extra rule (added after a seeded change was missed): language-dependent accessors.
//
// Several objects exist once per surface syntax (waUniverseX / wzUniverseX, WaUniverse / WzUniverse ...) and are
// selected by accessors of the shape `if <...>.W2Mode { return A } else { return B }`. The Chinese branch must return
// the wz twin of what the other branch returns: returning the English object in W2Mode makes identity-based matches
// (macro constants such as __行号__) fail silently for .wz programs only.

func c09AccessorPairing(c *Ctx, p *Prog, pks ...*packages.Package) {
	const rule = "language-accessor-pairing"
	n := 0
	for _, pk := range pks {
		if pk == nil {
			continue
		}
		info := pk.TypesInfo
		for _, f := range pk.Syntax {
			for _, d := range f.Decls {
				fd, ok := d.(*ast.FuncDecl)
				if !ok || fd.Body == nil || len(fd.Body.List) == 0 {
					continue
				}
				ifs, ok := fd.Body.List[0].(*ast.IfStmt)
				if !ok || !strings.HasSuffix(strings.ReplaceAll(types.ExprString(ifs.Cond), " ", ""), "W2Mode") {
					continue
				}
				retOf := func(list []ast.Stmt) types.Object {
					if len(list) != 1 {
						return nil
					}
					r, ok := list[0].(*ast.ReturnStmt)
					if !ok || len(r.Results) != 1 {
						return nil
					}
					return ObjOf(info, r.Results[0])
				}
				a := retOf(ifs.Body.List)
				var b types.Object
				switch el := ifs.Else.(type) {
				case *ast.BlockStmt:
					b = retOf(el.List)
				case nil:
					if len(fd.Body.List) == 2 {
						b = retOf(fd.Body.List[1:])
					}
				}
				if a == nil || b == nil {
					continue
				}
				an, bn := a.Name(), b.Name()
				// twin names: wz<S> / wa<S>, Wz<S> / Wa<S>
				var good bool
				switch {
				case strings.HasPrefix(bn, "wa"):
					good = an == "wz"+strings.TrimPrefix(bn, "wa")
				case strings.HasPrefix(bn, "Wa"):
					good = an == "Wz"+strings.TrimPrefix(bn, "Wa")
				default:
					continue // not a per-language object pair
				}
				n++
				c.Check(good, rule, short(pk.PkgPath)+"."+declName(fd), p.Pos(ifs.Pos()), "W2Mode returns "+an+", otherwise "+bn,
					declName(fd)+" returns "+an+" for .wz packages and "+bn+" otherwise; the Chinese branch must return the wz twin of the English object: with the English object, code that recognises the predeclared identifier by identity does not match in .wz programs and they silently behave differently from their .wa twins")
			}
		}
	}
	c.Min(rule, "per-language accessors", n, 8)
}
