package main

import (
	"go/ast"
	"go/token"
	"go/types"
)

// appendAccumulators: the byte-slice variables of body that are built by `x = append(x, …)`.
func appendAccumulators(info *types.Info, body *ast.BlockStmt) map[types.Object]bool {
	out := map[types.Object]bool{}
	ast.Inspect(body, func(n ast.Node) bool {
		as, ok := n.(*ast.AssignStmt)
		if !ok || len(as.Lhs) != 1 || len(as.Rhs) != 1 {
			return true
		}
		call, ok := as.Rhs[0].(*ast.CallExpr)
		if !ok || len(call.Args) < 1 {
			return true
		}
		if id, ok := call.Fun.(*ast.Ident); !ok || id.Name != "append" {
			return true
		}
		l, ok1 := as.Lhs[0].(*ast.Ident)
		a, ok2 := ast.Unparen(call.Args[0]).(*ast.Ident)
		if ok1 && ok2 && info.ObjectOf(l) == info.ObjectOf(a) && isByteSlice(info.TypeOf(l)) {
			out[info.ObjectOf(l)] = true
		}
		return true
	})
	return out
}

// freshBufferDef: is rhs a new, empty buffer (bytes.Buffer or byte slice)?
func freshBufferDef(info *types.Info, rhs ast.Expr) bool {
	rhs = ast.Unparen(rhs)
	switch x := rhs.(type) {
	case *ast.UnaryExpr:
		if x.Op == token.AND {
			if cl, ok := x.X.(*ast.CompositeLit); ok && len(cl.Elts) == 0 {
				return true
			}
		}
	case *ast.CompositeLit:
		return len(x.Elts) == 0
	case *ast.CallExpr:
		if id, ok := x.Fun.(*ast.Ident); ok {
			switch id.Name {
			case "new":
				return true
			case "make":
				// make([]byte, 0, n): empty
				if len(x.Args) >= 2 && isByteSlice(info.TypeOf(x.Args[0])) {
					if v, ok := constIntOf(info, x.Args[1]); ok && v == 0 {
						return true
					}
				}
			}
		}
	}
	return false
}

func isByteSlice(t types.Type) bool {
	if t == nil {
		return false
	}
	sl, ok := t.Underlying().(*types.Slice)
	if !ok {
		return false
	}
	b, ok := sl.Elem().Underlying().(*types.Basic)
	return ok && b.Kind() == types.Uint8
}
