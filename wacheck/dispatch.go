package main

import (
	"go/ast"
	"go/constant"
	"go/token"
	"go/types"
	"strconv"
	"strings"

	"golang.org/x/tools/go/packages"
)

// E3: switch / table extraction on the type-checked AST.

type ArmConst struct {
	Name string // object name of the constant ("INS_I32_ADD"), "" for literals
	Pkg  string // package name of the constant's object
	Val  constant.Value
	Expr ast.Expr
}

type Arm struct {
	Consts  []ArmConst
	Types   []types.Type // for type switches
	Body    []ast.Stmt
	Clause  *ast.CaseClause
	Default bool
}

func (a Arm) Names() string {
	var s []string
	for _, c := range a.Consts {
		if c.Name != "" {
			s = append(s, c.Name)
		} else if c.Val != nil {
			s = append(s, c.Val.ExactString())
		}
	}
	if a.Default {
		return "default"
	}
	return strings.Join(s, ",")
}

func constOfExpr(info *types.Info, e ast.Expr) ArmConst {
	ac := ArmConst{Expr: e}
	if tv, ok := info.Types[e]; ok && tv.Value != nil {
		ac.Val = tv.Value
	}
	if o := ObjOf(info, e); o != nil {
		if _, isConst := o.(*types.Const); isConst {
			ac.Name = o.Name()
			if o.Pkg() != nil {
				ac.Pkg = o.Pkg().Name()
			}
		}
	}
	return ac
}

// SwitchArms extracts the arms of an expression switch.
func SwitchArms(info *types.Info, sw *ast.SwitchStmt) []Arm {
	var arms []Arm
	for _, s := range sw.Body.List {
		cc := s.(*ast.CaseClause)
		a := Arm{Body: cc.Body, Clause: cc, Default: cc.List == nil}
		for _, e := range cc.List {
			a.Consts = append(a.Consts, constOfExpr(info, e))
		}
		arms = append(arms, a)
	}
	return arms
}

// TypeSwitchArms extracts the arms of a type switch.
func TypeSwitchArms(info *types.Info, sw *ast.TypeSwitchStmt) []Arm {
	var arms []Arm
	for _, s := range sw.Body.List {
		cc := s.(*ast.CaseClause)
		a := Arm{Body: cc.Body, Clause: cc, Default: cc.List == nil}
		for _, e := range cc.List {
			if tv, ok := info.Types[e]; ok && tv.IsType() {
				a.Types = append(a.Types, tv.Type)
			} else if tv.IsNil() {
				a.Types = append(a.Types, types.Typ[types.UntypedNil])
			}
		}
		arms = append(arms, a)
	}
	return arms
}

// FindSwitch finds the first expression switch in fd whose tag satisfies pred (outermost first).
func FindSwitches(fd *ast.FuncDecl, pred func(tag ast.Expr) bool) []*ast.SwitchStmt {
	var out []*ast.SwitchStmt
	if fd == nil || fd.Body == nil {
		return nil
	}
	ast.Inspect(fd.Body, func(n ast.Node) bool {
		if sw, ok := n.(*ast.SwitchStmt); ok && sw.Tag != nil && pred(sw.Tag) {
			out = append(out, sw)
		}
		return true
	})
	return out
}

// tagTypeIs reports whether the switch tag has the named type pkgSuffix.TypeName.
func tagTypeIs(info *types.Info, pkgSuffix, typeName string) func(ast.Expr) bool {
	return func(e ast.Expr) bool {
		return typeIsNamed(info.TypeOf(e), pkgSuffix, typeName)
	}
}

func typeIsNamed(t types.Type, pkgSuffix, typeName string) bool {
	if p, ok := t.(*types.Pointer); ok {
		t = p.Elem()
	}
	n, ok := t.(*types.Named)
	if !ok || n.Obj().Name() != typeName || n.Obj().Pkg() == nil {
		return false
	}
	return strings.HasSuffix(n.Obj().Pkg().Path(), pkgSuffix)
}

func namedTypeName(t types.Type) string {
	if p, ok := t.(*types.Pointer); ok {
		t = p.Elem()
	}
	if n, ok := t.(*types.Named); ok {
		return n.Obj().Name()
	}
	return ""
}

// KeyedStringTable reads `var name = [...]string{K: "v", ...}` (or map[K]string) into constName -> string.
func KeyedStringTable(pk *packages.Package, varName string) (map[string]string, map[string]token.Pos) {
	out := map[string]string{}
	pos := map[string]token.Pos{}
	for _, f := range pk.Syntax {
		for _, d := range f.Decls {
			gd, ok := d.(*ast.GenDecl)
			if !ok || gd.Tok != token.VAR {
				continue
			}
			for _, sp := range gd.Specs {
				vs := sp.(*ast.ValueSpec)
				for i, n := range vs.Names {
					if n.Name != varName || i >= len(vs.Values) {
						continue
					}
					cl, ok := vs.Values[i].(*ast.CompositeLit)
					if !ok {
						continue
					}
					for _, el := range cl.Elts {
						kv, ok := el.(*ast.KeyValueExpr)
						if !ok {
							continue
						}
						k := constOfExpr(pk.TypesInfo, kv.Key)
						if tv, ok := pk.TypesInfo.Types[kv.Value]; ok && tv.Value != nil && tv.Value.Kind() == constant.String {
							out[k.Name] = constant.StringVal(tv.Value)
							pos[k.Name] = kv.Pos()
						}
					}
				}
			}
		}
	}
	return out, pos
}

// ConstsOfType lists the declared constants of a named type in a package: name -> value.
func ConstsOfType(pk *packages.Package, typeName string) map[string]constant.Value {
	out := map[string]constant.Value{}
	sc := pk.Types.Scope()
	for _, n := range sc.Names() {
		if c, ok := sc.Lookup(n).(*types.Const); ok {
			if namedTypeName(c.Type()) == typeName {
				out[n] = c.Val()
			}
		}
	}
	return out
}

// ConstsByPrefix lists package-level constants whose name starts with prefix: name -> value.
func ConstsByPrefix(pk *packages.Package, prefix string) map[string]constant.Value {
	out := map[string]constant.Value{}
	sc := pk.Types.Scope()
	for _, n := range sc.Names() {
		if c, ok := sc.Lookup(n).(*types.Const); ok && strings.HasPrefix(n, prefix) {
			out[n] = c.Val()
		}
	}
	return out
}

// appendedConstBytes: for `x = append(x, a, b, c...)` statements returns constant byte args in order
// (stops at the first non-constant arg); recognises the target by its printed expression.
func appendCallArgs(info *types.Info, s ast.Stmt, target string) ([]ast.Expr, bool) {
	as, ok := s.(*ast.AssignStmt)
	if !ok || len(as.Lhs) != 1 || len(as.Rhs) != 1 {
		return nil, false
	}
	call, ok := as.Rhs[0].(*ast.CallExpr)
	if !ok {
		return nil, false
	}
	id, ok := call.Fun.(*ast.Ident)
	if !ok || id.Name != "append" {
		return nil, false
	}
	if _, isBuiltin := info.Uses[id].(*types.Builtin); !isBuiltin {
		return nil, false
	}
	if types.ExprString(as.Lhs[0]) != target || len(call.Args) == 0 || types.ExprString(call.Args[0]) != target {
		return nil, false
	}
	return call.Args[1:], true
}

func constBytesPrefix(info *types.Info, args []ast.Expr) ([]byte, bool) {
	var out []byte
	for _, a := range args {
		tv, ok := info.Types[a]
		if !ok || tv.Value == nil || tv.Value.Kind() != constant.Int {
			return out, false
		}
		v, _ := constant.Int64Val(tv.Value)
		out = append(out, byte(v))
	}
	return out, true
}

// firstAppendSeqs returns the possible constant byte sequences appended to target by the straight-line
// prefix of the statement list: consecutive appends of constants are concatenated until a non-constant
// argument or another statement kind is met; an if/else (or nested switch) forks.
// complete[i] is true when the i-th sequence covers every append in that path of the arm.
func firstAppendSeqs(info *types.Info, stmts []ast.Stmt, target string) (seqs [][]byte, complete []bool) {
	var cur []byte
	for i, s := range stmts {
		if args, ok := appendCallArgs(info, s, target); ok {
			bs, all := constBytesPrefix(info, args)
			cur = append(cur, bs...)
			if !all {
				return [][]byte{cur}, []bool{false}
			}
			continue
		}
		switch x := s.(type) {
		case *ast.IfStmt:
			if len(cur) == 0 && !mentions(x, target) {
				continue
			}
			if len(cur) > 0 {
				return [][]byte{cur}, []bool{false}
			}
			rest := stmts[i+1:]
			var branches [][]ast.Stmt
			branches = append(branches, append(append([]ast.Stmt{}, x.Body.List...), rest...))
			switch e := x.Else.(type) {
			case *ast.BlockStmt:
				branches = append(branches, append(append([]ast.Stmt{}, e.List...), rest...))
			case *ast.IfStmt:
				branches = append(branches, append([]ast.Stmt{e}, rest...))
			case nil:
				branches = append(branches, rest)
			}
			for _, b := range branches {
				s2, c2 := firstAppendSeqs(info, b, target)
				seqs = append(seqs, s2...)
				complete = append(complete, c2...)
			}
			return
		default:
			if mentions(s, target) {
				// some other use of the target (loop, call): the constant prefix ends here
				return [][]byte{cur}, []bool{false}
			}
		}
	}
	return [][]byte{cur}, []bool{true}
}

func mentions(n ast.Node, target string) bool {
	found := false
	ast.Inspect(n, func(m ast.Node) bool {
		if e, ok := m.(ast.Expr); ok && !found {
			if _, isSel := e.(*ast.SelectorExpr); isSel && types.ExprString(e) == target {
				found = true
			}
			if id, isId := e.(*ast.Ident); isId && id.Name == target {
				found = true
			}
		}
		return !found
	})
	return found
}

// typeAssertsIn lists the asserted types `x.(T)` in statements.
func typeAssertsIn(info *types.Info, stmts []ast.Stmt) []types.Type {
	var out []types.Type
	for _, s := range stmts {
		ast.Inspect(s, func(n ast.Node) bool {
			if ta, ok := n.(*ast.TypeAssertExpr); ok && ta.Type != nil {
				if t := info.TypeOf(ta.Type); t != nil {
					out = append(out, t)
				}
			}
			return true
		})
	}
	return out
}

// callsIn lists static callees in statements (in source order).
func callsIn(info *types.Info, stmts []ast.Stmt) []*ast.CallExpr {
	var out []*ast.CallExpr
	for _, s := range stmts {
		ast.Inspect(s, func(n ast.Node) bool {
			if c, ok := n.(*ast.CallExpr); ok {
				out = append(out, c)
			}
			return true
		})
	}
	return out
}

func hexBytes(b []byte) string {
	var s []string
	for _, x := range b {
		s = append(s, "0x"+strconv.FormatInt(int64(x), 16))
	}
	return "[" + strings.Join(s, " ") + "]"
}

func bytesHasPrefix(b, p []byte) bool {
	if len(b) < len(p) {
		return false
	}
	for i := range p {
		if b[i] != p[i] {
			return false
		}
	}
	return true
}

// isPanicOnly: the arm body consists of a single panic(...) call.
func isPanicOnly(info *types.Info, stmts []ast.Stmt) bool {
	if len(stmts) != 1 {
		return false
	}
	es, ok := stmts[0].(*ast.ExprStmt)
	if !ok {
		return false
	}
	call, ok := es.X.(*ast.CallExpr)
	if !ok {
		return false
	}
	id, ok := call.Fun.(*ast.Ident)
	if !ok || id.Name != "panic" {
		return false
	}
	_, isB := info.Uses[id].(*types.Builtin)
	return isB
}
