package main

import (
	"fmt"
	"go/ast"
	"go/token"
	"go/types"
	"strings"

	"golang.org/x/tools/go/packages"
)

// C08 offset-frame (added after a seeded change was missed): the scanners keep absolute offsets into the source
// (s.offset, s.rdOffset, s.lineOffset and everything copied from them) and also cut literals out of the source
// (`lit := string(s.src[offs:s.offset])`). An index into such a literal is relative to its start; an absolute offset
// used there is beyond the literal for every token that does not start the file — an index-out-of-range panic on the
// error path that reports a bad digit. Error positions, the other way round, are absolute.
//
// The rule infers a frame for integer expressions — degree 1 (absolute), degree 0 (relative / a length) — with
// abs-abs = rel, abs±rel = abs, rel±rel = rel, constants neutral, through locals, and through pointer parameters a
// callee stores an absolute offset into (`*invalid = s.offset`). It then checks every index into a literal cut from
// the source (degree 0), every index into s.src (degree 1) and every error position (degree 1). Expressions whose
// frame is not determined are counted, not judged.

type frameWalk struct {
	info    *types.Info
	absFld  map[string]bool
	unit    map[types.Object]int // 1 abs, 0 rel
	sub     map[types.Object]string
	ptrAbs  map[*types.Func]map[int]bool
	scanner string
}

type frameDeg struct {
	d      int
	known  bool // every variable in the expression has a frame
	hasVar bool
}

func (w *frameWalk) deg(e ast.Expr) frameDeg {
	switch x := ast.Unparen(e).(type) {
	case *ast.BasicLit:
		return frameDeg{0, true, false}
	case *ast.Ident:
		if tv, ok := w.info.Types[x]; ok && tv.Value != nil {
			return frameDeg{0, true, false}
		}
		if o := w.info.Uses[x]; o != nil {
			if u, ok := w.unit[o]; ok {
				return frameDeg{u, true, true}
			}
		}
		return frameDeg{0, false, true}
	case *ast.SelectorExpr:
		if tv, ok := w.info.Types[x]; ok && tv.Value != nil {
			return frameDeg{0, true, false}
		}
		if w.absFld[x.Sel.Name] {
			if tv, ok := w.info.Types[x.X]; ok && typeShortName(tv.Type) == w.scanner {
				return frameDeg{1, true, true}
			}
		}
		return frameDeg{0, false, true}
	case *ast.CallExpr:
		// conversions pass through; len() is relative
		if tv, ok := w.info.Types[x.Fun]; ok && tv.IsType() && len(x.Args) == 1 {
			return w.deg(x.Args[0])
		}
		if id, ok := x.Fun.(*ast.Ident); ok && id.Name == "len" && len(x.Args) == 1 {
			return frameDeg{0, true, true}
		}
		// a function that is handed a literal cut from the source answers an index into it
		for _, a := range x.Args {
			if id, ok := ast.Unparen(a).(*ast.Ident); ok {
				if o := w.info.Uses[id]; o != nil && w.sub[o] != "" {
					if t, ok := w.info.Types[x]; ok {
						if b, ok := t.Type.Underlying().(*types.Basic); ok && b.Info()&types.IsInteger != 0 {
							return frameDeg{0, true, true}
						}
					}
				}
			}
		}
		return frameDeg{0, false, true}
	case *ast.BinaryExpr:
		a, b := w.deg(x.X), w.deg(x.Y)
		r := frameDeg{known: a.known && b.known, hasVar: a.hasVar || b.hasVar}
		switch x.Op {
		case token.ADD:
			r.d = a.d + b.d
		case token.SUB:
			r.d = a.d - b.d
		default:
			r.known = false
		}
		return r
	}
	return frameDeg{0, false, true}
}

func c08OffsetFrames(c *Ctx, p *Prog, pk *packages.Package, label string) (judged int) {
	const rule = "offset-frame"
	info := pk.TypesInfo
	// the scanner type: a struct with src []byte and offset int
	scanner := ""
	absFld := map[string]bool{}
	for _, name := range pk.Types.Scope().Names() {
		tn, ok := pk.Types.Scope().Lookup(name).(*types.TypeName)
		if !ok {
			continue
		}
		st, ok := tn.Type().Underlying().(*types.Struct)
		if !ok {
			continue
		}
		has := map[string]bool{}
		for i := 0; i < st.NumFields(); i++ {
			has[st.Field(i).Name()] = true
		}
		if has["src"] && has["offset"] {
			scanner = name
			for _, f := range []string{"offset", "rdOffset", "lineOffset"} {
				if has[f] {
					absFld[f] = true
				}
			}
		}
	}
	if scanner == "" {
		c.Undecided(rule, label+": scanner type", "", "no struct with src and offset fields found")
		return 0
	}
	w := &frameWalk{info: info, absFld: absFld, scanner: scanner, ptrAbs: map[*types.Func]map[int]bool{}}
	var decls []*ast.FuncDecl
	for _, f := range pk.Syntax {
		for _, d := range f.Decls {
			if fd, ok := d.(*ast.FuncDecl); ok && fd.Body != nil {
				decls = append(decls, fd)
			}
		}
	}
	// pass A: pointer parameters that receive an absolute offset
	for _, fd := range decls {
		fobj, _ := info.Defs[fd.Name].(*types.Func)
		if fobj == nil {
			continue
		}
		w.unit, w.sub = map[types.Object]int{}, map[types.Object]string{}
		params := map[types.Object]int{}
		i := 0
		for _, fl := range fd.Type.Params.List {
			for _, n := range fl.Names {
				if o := info.Defs[n]; o != nil {
					params[o] = i
				}
				i++
			}
		}
		ast.Inspect(fd.Body, func(n ast.Node) bool {
			as, ok := n.(*ast.AssignStmt)
			if !ok || len(as.Lhs) != 1 || len(as.Rhs) != 1 {
				return true
			}
			st, ok := as.Lhs[0].(*ast.StarExpr)
			if !ok {
				return true
			}
			id, ok := st.X.(*ast.Ident)
			if !ok {
				return true
			}
			if idx, ok := params[info.Uses[id]]; ok {
				if d := w.deg(as.Rhs[0]); d.known && d.d == 1 {
					if w.ptrAbs[fobj] == nil {
						w.ptrAbs[fobj] = map[int]bool{}
					}
					w.ptrAbs[fobj][idx] = true
				}
			}
			return true
		})
	}
	undetermined := 0
	for _, fd := range decls {
		fname := declName(fd)
		w.unit, w.sub = map[types.Object]int{}, map[types.Object]string{}
		// frames of locals, to a fixed point
		for round := 0; round < 4; round++ {
			ast.Inspect(fd.Body, func(n ast.Node) bool {
				switch x := n.(type) {
				case *ast.AssignStmt:
					if len(x.Lhs) != len(x.Rhs) {
						return true
					}
					for i, l := range x.Lhs {
						id, ok := l.(*ast.Ident)
						if !ok {
							continue
						}
						o := info.Defs[id]
						if o == nil {
							o = info.Uses[id]
						}
						if o == nil {
							continue
						}
						r := ast.Unparen(x.Rhs[i])
						// lit := string(s.src[A:B]) / s.src[A:B]
						inner := r
						if call, ok := inner.(*ast.CallExpr); ok && len(call.Args) == 1 {
							if tv, ok := info.Types[call.Fun]; ok && tv.IsType() {
								inner = ast.Unparen(call.Args[0])
							}
						}
						if sl, ok := inner.(*ast.SliceExpr); ok && sl.Low != nil && strings.HasSuffix(types.ExprString(sl.X), ".src") {
							if d := w.deg(sl.Low); d.known && d.d == 1 {
								w.sub[o] = types.ExprString(sl.Low)
							}
							continue
						}
						if d := w.deg(r); d.known && d.hasVar && (d.d == 0 || d.d == 1) {
							if _, seen := w.unit[o]; !seen || d.d == 1 {
								w.unit[o] = d.d
							}
						}
					}
				case *ast.RangeStmt:
					if id, ok := ast.Unparen(x.X).(*ast.Ident); ok {
						if o := info.Uses[id]; o != nil && w.sub[o] != "" {
							if k, ok := x.Key.(*ast.Ident); ok && info.Defs[k] != nil {
								w.unit[info.Defs[k]] = 0
							}
						}
					}
				case *ast.CallExpr:
					if fn := CalleeOf(info, x); fn != nil && w.ptrAbs[fn] != nil {
						for i, a := range x.Args {
							if !w.ptrAbs[fn][i] {
								continue
							}
							if ue, ok := ast.Unparen(a).(*ast.UnaryExpr); ok && ue.Op == token.AND {
								if id, ok := ue.X.(*ast.Ident); ok && info.Uses[id] != nil {
									w.unit[info.Uses[id]] = 1
								}
							}
						}
					}
				}
				return true
			})
		}
		seq := map[string]int{}
		judge := func(e ast.Expr, want int, construct, wantTxt, bad string) {
			d := w.deg(e)
			if !d.known || !d.hasVar {
				if d.hasVar {
					undetermined++
				}
				return
			}
			judged++
			seq[construct]++
			c.Check(d.d == want, rule, fmt.Sprintf("%s: %s: %s #%d", label, fname, construct, seq[construct]), p.Pos(e.Pos()), wantTxt,
				fmt.Sprintf("%s: `%s` %s", fname, types.ExprString(e), bad))
		}
		ast.Inspect(fd.Body, func(n ast.Node) bool {
			switch x := n.(type) {
			case *ast.IndexExpr:
				if id, ok := ast.Unparen(x.X).(*ast.Ident); ok {
					if o := info.Uses[id]; o != nil && w.sub[o] != "" {
						judge(x.Index, 0, "index into "+id.Name, "relative to the start of the literal",
							fmt.Sprintf("is an absolute source offset used as an index into %s, which was cut from the source at %s: for every literal that does not start at offset 0 the index is beyond the literal (index out of range on the path that reports the error) or picks the wrong byte", id.Name, w.sub[o]))
					}
				}
				if strings.HasSuffix(types.ExprString(x.X), ".src") {
					judge(x.Index, 1, "index into the source", "absolute offset",
						"is relative to a literal but indexes the whole source: it reads a byte near the start of the file instead of the current token")
				}
			case *ast.CallExpr:
				if se, ok := x.Fun.(*ast.SelectorExpr); ok && (se.Sel.Name == "error" || se.Sel.Name == "errorf") && len(x.Args) >= 1 {
					if tv, ok := info.Types[se.X]; ok && typeShortName(tv.Type) == scanner {
						judge(x.Args[0], 1, "error position", "absolute offset",
							"is relative to a literal but is reported as an error position: the message points near the start of the file")
					}
				}
			}
			return true
		})
	}
	c.Count("offset_frame_undetermined_"+label, undetermined)
	return judged
}
