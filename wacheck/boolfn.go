package main

import (
	"fmt"
	"go/ast"
	"go/token"
	"go/types"
	"sort"
	"strings"
)

// boolfn.go — exhaustive evaluation of a small boolean-valued Go function over the truth values of its atomic tests.
//
// The function body may contain if statements (with a defining init), definitions of locals, and returns; conditions
// are built from !, &&, || over atoms. An atom is any other boolean expression; equality atoms `a == b` / `a != b` are
// kept as a pair of terms (locals replaced by their definitions, operands ordered) so that x != y and y == x are the
// same atom, and assignments that contradict the laws of equality (reflexive, symmetric, transitive over the terms that
// occur, distinct literals differ) are discarded as infeasible. Nothing is executed: the atoms are enumerated, not the
// inputs.

type boolAtom struct {
	Key  string
	L, R string // terms of an equality atom ("" otherwise)
}

type boolFnEval struct {
	info   *types.Info
	atoms  map[string]*boolAtom
	order  []string
	undec  string
	locals map[types.Object]ast.Expr
}

// termText prints e with single-definition locals replaced by their defining expression.
func (b *boolFnEval) termText(e ast.Expr) string {
	switch x := e.(type) {
	case *ast.ParenExpr:
		return b.termText(x.X)
	case *ast.Ident:
		if o := b.info.Uses[x]; o != nil {
			if d, ok := b.locals[o]; ok {
				return b.termText(d)
			}
		}
		return x.Name
	case *ast.BasicLit:
		return x.Value
	case *ast.SelectorExpr:
		return b.termText(x.X) + "." + x.Sel.Name
	case *ast.CallExpr:
		var as []string
		for _, a := range x.Args {
			as = append(as, b.termText(a))
		}
		return b.termText(x.Fun) + "(" + strings.Join(as, ", ") + ")"
	case *ast.TypeAssertExpr:
		return b.termText(x.X) + ".(" + types.ExprString(x.Type) + ")"
	case *ast.StarExpr:
		return "*" + b.termText(x.X)
	case *ast.UnaryExpr:
		return x.Op.String() + b.termText(x.X)
	case *ast.BinaryExpr:
		return "(" + b.termText(x.X) + " " + x.Op.String() + " " + b.termText(x.Y) + ")"
	case *ast.IndexExpr:
		return b.termText(x.X) + "[" + b.termText(x.Index) + "]"
	}
	return types.ExprString(e)
}

func (b *boolFnEval) atom(e ast.Expr) (key string, neg bool) {
	if be, ok := e.(*ast.BinaryExpr); ok && (be.Op == token.EQL || be.Op == token.NEQ) {
		l, r := b.termText(be.X), b.termText(be.Y)
		if r < l {
			l, r = r, l
		}
		key = l + " == " + r
		if b.atoms[key] == nil {
			b.atoms[key] = &boolAtom{Key: key, L: l, R: r}
			b.order = append(b.order, key)
		}
		return key, be.Op == token.NEQ
	}
	key = b.termText(e)
	if b.atoms[key] == nil {
		b.atoms[key] = &boolAtom{Key: key}
		b.order = append(b.order, key)
	}
	return key, false
}

func (b *boolFnEval) eval(e ast.Expr, env map[string]bool) bool {
	switch x := e.(type) {
	case *ast.ParenExpr:
		return b.eval(x.X, env)
	case *ast.Ident:
		switch x.Name {
		case "true":
			return true
		case "false":
			return false
		}
		if o := b.info.Uses[x]; o != nil {
			if d, ok := b.locals[o]; ok {
				return b.eval(d, env)
			}
		}
	case *ast.UnaryExpr:
		if x.Op == token.NOT {
			return !b.eval(x.X, env)
		}
	case *ast.BinaryExpr:
		switch x.Op {
		case token.LAND:
			return b.eval(x.X, env) && b.eval(x.Y, env)
		case token.LOR:
			return b.eval(x.X, env) || b.eval(x.Y, env)
		}
	}
	k, neg := b.atom(e)
	return env[k] != neg
}

// run executes the statement list under env; done reports that a return was reached.
func (b *boolFnEval) run(list []ast.Stmt, env map[string]bool) (val, done bool) {
	for _, s := range list {
		switch x := s.(type) {
		case *ast.ReturnStmt:
			if len(x.Results) != 1 {
				b.undec = "return without a single result"
				return false, true
			}
			return b.eval(x.Results[0], env), true
		case *ast.AssignStmt:
			b.define(x)
		case *ast.DeclStmt:
			// var declarations without use in conditions are harmless; with use the ident stays a free term
		case *ast.BlockStmt:
			if v, d := b.run(x.List, env); d {
				return v, true
			}
		case *ast.IfStmt:
			if as, ok := x.Init.(*ast.AssignStmt); ok {
				b.define(as)
			} else if x.Init != nil {
				b.undec = "if-init that is not an assignment"
				return false, true
			}
			if b.eval(x.Cond, env) {
				if v, d := b.run(x.Body.List, env); d {
					return v, true
				}
			} else if x.Else != nil {
				if v, d := b.run([]ast.Stmt{x.Else}, env); d {
					return v, true
				}
			}
		default:
			b.undec = fmt.Sprintf("statement %T is outside the evaluated fragment", s)
			return false, true
		}
	}
	return false, false
}

func (b *boolFnEval) define(as *ast.AssignStmt) {
	if len(as.Lhs) != len(as.Rhs) {
		b.undec = "multi-value assignment"
		return
	}
	for i, l := range as.Lhs {
		id, ok := l.(*ast.Ident)
		if !ok {
			b.undec = "assignment to a non-local"
			return
		}
		o := b.info.Defs[id]
		if o == nil {
			o = b.info.Uses[id]
		}
		if o == nil {
			continue
		}
		// freeze the definition with the locals known now (flow-sensitive)
		b.locals[o] = as.Rhs[i]
	}
}

// feasible applies the laws of equality to the equality atoms of env.
func (b *boolFnEval) feasible(env map[string]bool) bool {
	parent := map[string]string{}
	var find func(string) string
	find = func(x string) string {
		if parent[x] == "" || parent[x] == x {
			parent[x] = x
			return x
		}
		r := find(parent[x])
		parent[x] = r
		return r
	}
	for _, k := range b.order {
		a := b.atoms[k]
		if a.L == "" && a.R == "" {
			continue
		}
		find(a.L)
		find(a.R)
		if env[k] {
			parent[find(a.L)] = find(a.R)
		}
	}
	isLit := func(t string) bool {
		return t == "nil" || strings.HasPrefix(t, "\"") || strings.HasPrefix(t, "'") || (t != "" && t[0] >= '0' && t[0] <= '9')
	}
	lits := map[string]string{}
	for t := range parent {
		if isLit(t) {
			r := find(t)
			if o, ok := lits[r]; ok && o != t {
				return false // two distinct literals made equal
			}
			lits[r] = t
		}
	}
	for _, k := range b.order {
		a := b.atoms[k]
		if (a.L != "" || a.R != "") && !env[k] && find(a.L) == find(a.R) {
			return false
		}
	}
	return true
}

type boolOutcome struct {
	Env map[string]bool
	Val bool
}

// boolFnTable enumerates the feasible truth assignments of the atoms of fd and the value fd returns under each.
func boolFnTable(info *types.Info, fd *ast.FuncDecl) (outs []boolOutcome, atoms []string, undecided string) {
	b := &boolFnEval{info: info, atoms: map[string]*boolAtom{}}
	for {
		n := len(b.order)
		if n > 14 {
			return nil, b.order, "more than 14 atomic tests"
		}
		outs = outs[:0]
		grew := false
		for m := 0; m < 1<<n && !grew; m++ {
			env := map[string]bool{}
			for i := 0; i < n; i++ {
				env[b.order[i]] = m&(1<<i) != 0
			}
			b.locals = map[types.Object]ast.Expr{}
			v, done := b.run(fd.Body.List, env)
			if b.undec != "" {
				return nil, b.order, b.undec
			}
			if len(b.order) != n {
				grew = true
				break
			}
			if !done {
				return nil, b.order, "a path falls off the end without returning"
			}
			if b.feasible(env) {
				outs = append(outs, boolOutcome{Env: env, Val: v})
			}
		}
		if !grew {
			break
		}
	}
	atoms = append(atoms, b.order...)
	sort.Strings(atoms)
	return outs, atoms, ""
}

func envText(env map[string]bool, keys []string) string {
	var parts []string
	for _, k := range keys {
		if strings.Contains(k, " == ") && !env[k] {
			parts = append(parts, strings.Replace(k, " == ", " != ", 1))
		} else if env[k] {
			parts = append(parts, k)
		} else {
			parts = append(parts, "!("+k+")")
		}
	}
	return strings.Join(parts, ", ")
}
