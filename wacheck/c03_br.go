package main

import (
	"fmt"
	"go/ast"
	"go/constant"
	"go/token"
	"go/types"
	"strings"

	"golang.org/x/tools/go/packages"
)

// C03 rule br-result-copy-guard: wat2c keeps the operand stack in numbered C variables R<n>. A branch to a block that
// has results must leave the results in the registers starting at the *target* block's stack base. The code copies
// them there when they are not already in place: `if firstResultOffset > base { R[base+i] = R[top…] }`. The base in the
// guard and the base the copy writes to must be the same variable — comparing against another base (the current
// block's) skips the copy exactly when results sit above the target's base, and the target block then reads stale
// registers.

func c03BrResultCopy(c *Ctx, p *Prog, pk *packages.Package) {
	const rule = "br-result-copy-guard"
	info := pk.TypesInfo
	fd := findBuildFuncIns(pk)
	if fd == nil {
		c.Undecided(rule, "anchor:buildFunc_ins", "", "function not found")
		return
	}
	n := 0
	ast.Inspect(fd.Body, func(nd ast.Node) bool {
		ifs, ok := nd.(*ast.IfStmt)
		if !ok {
			return true
		}
		be, ok := ast.Unparen(ifs.Cond).(*ast.BinaryExpr)
		if !ok || (be.Op != token.GTR && be.Op != token.NEQ && be.Op != token.LSS) {
			return true
		}
		if _, isConst := constIntOf(info, be.X); isConst {
			return true
		}
		if _, isConst := constIntOf(info, be.Y); isConst {
			return true // `len(results) > 0`: not the placement test
		}
		// the copy statements: Fprintf(w, "%sR%d.<t> = R%d.<t>;\n", indent, <dest>+i, <src>)
		var dests []ast.Expr
		ast.Inspect(ifs.Body, func(m ast.Node) bool {
			call, ok := m.(*ast.CallExpr)
			if !ok || len(call.Args) < 4 {
				return true
			}
			if f := CalleeOf(info, call); f == nil || FuncFullName(f) != "fmt.Fprintf" {
				return true
			}
			tv, ok := info.Types[call.Args[1]]
			if !ok || tv.Value == nil || tv.Value.Kind() != constant.String {
				return true
			}
			format := constant.StringVal(tv.Value)
			if strings.Contains(format, "R%d.") && strings.Contains(format, " = R%d.") && strings.Index(format, "R%d.") < strings.Index(format, " = R%d.") {
				dests = append(dests, call.Args[3])
			}
			return true
		})
		if len(dests) == 0 {
			return true
		}
		n++
		// the base the copies write to
		var destBase types.Object
		consistent := true
		for _, dxp := range dests {
			var b types.Object
			if add, ok := ast.Unparen(dxp).(*ast.BinaryExpr); ok && add.Op == token.ADD {
				b = identObj(info, add.X)
			} else {
				b = identObj(info, dxp)
			}
			if destBase == nil {
				destBase = b
			} else if b != destBase {
				consistent = false
			}
		}
		guardBase := identObj(info, be.Y)
		if be.Op == token.LSS {
			guardBase = identObj(info, be.X)
		}
		construct := fmt.Sprintf("buildFunc_ins: result copy #%d", n)
		good := consistent && destBase != nil && guardBase == destBase
		gb, db := "?", "?"
		if guardBase != nil {
			gb = guardBase.Name()
		}
		if destBase != nil {
			db = destBase.Name()
		}
		c.Check(good, rule, construct, p.Pos(ifs.Pos()), "guard and copy use the same stack base ("+db+")",
			fmt.Sprintf("the copy of branch results writes to R[%s+i] but is guarded by a comparison with %s: when the results are above the target block's base but the guard is false they are not moved, and the code after the target block reads registers that were never written", db, gb))
		return true
	})
	c.Min(rule, "guarded result copies in wat2c", n, 2)
}
