package main

import (
	"fmt"
	"go/ast"
	"go/types"
	"strings"

	"golang.org/x/tools/go/cfg"
	"golang.org/x/tools/go/packages"
)

// C30 output-window (added after a seeded change was missed): `wa test` compares what a test or example printed with
// its declared output. Module.RunFunc collects that output in two buffers that outlive the call, and the first call
// also instantiates the module — which runs the package's init functions and global initialisers, and they may print.
// The text compared must be what the function printed, so on every control-flow path from the function entry to the
// guest call both buffers are emptied after the last instantiation (and after the entry, where they still hold the
// previous function's output), and on every path from the guest call to a return the results are read from the buffers.
// Decided by a forward must-analysis over the control-flow graph (go/cfg) of RunFunc.

func c30OutputWindow(c *Ctx, p *Prog, wz *packages.Package) {
	const rule = "output-window"
	info := wz.TypesInfo
	fd := p.MustFunc(rule, wz, "Module.RunFunc")
	if fd == nil {
		return
	}
	g := cfg.New(fd.Body, func(*ast.CallExpr) bool { return true })
	// classify the calls inside a node
	type ev struct {
		kind string // "inst", "reset:<buf>", "call"
		pos  ast.Node
	}
	events := func(n ast.Node) []ev {
		var out []ev
		ast.Inspect(n, func(m ast.Node) bool {
			if _, isLit := m.(*ast.FuncLit); isLit {
				return false
			}
			call, ok := m.(*ast.CallExpr)
			if !ok {
				return true
			}
			se, ok := call.Fun.(*ast.SelectorExpr)
			if !ok {
				return true
			}
			switch se.Sel.Name {
			case "InstantiateModule":
				out = append(out, ev{"inst", call})
			case "Reset":
				if t := info.TypeOf(se.X); t != nil && strings.HasSuffix(strings.TrimPrefix(t.String(), "*"), "bytes.Buffer") {
					out = append(out, ev{"reset:" + types.ExprString(se.X), call})
				}
			case "Call":
				if t := info.TypeOf(se.X); t != nil && strings.Contains(t.String(), "api.Function") {
					out = append(out, ev{"call", call})
				}
			}
			return true
		})
		// evaluation order inside one node: arguments before the call; good enough for statements with one event
		return out
	}
	// the buffers: fields of Module of type bytes.Buffer
	var bufs []string
	if recv := fd.Recv; recv != nil && len(recv.List) == 1 && len(recv.List[0].Names) == 1 {
		rn := recv.List[0].Names[0].Name
		if t := info.TypeOf(recv.List[0].Type); t != nil {
			if pt, ok := t.(*types.Pointer); ok {
				t = pt.Elem()
			}
			if st, ok := t.Underlying().(*types.Struct); ok {
				for i := 0; i < st.NumFields(); i++ {
					if strings.HasSuffix(st.Field(i).Type().String(), "bytes.Buffer") {
						bufs = append(bufs, rn+"."+st.Field(i).Name())
					}
				}
			}
		}
	}
	if len(bufs) < 2 {
		c.Undecided(rule, "Module.RunFunc: output buffers", p.Pos(fd.Pos()), fmt.Sprintf("expected the stdout and stderr buffers among the fields of Module, found %v", bufs))
		return
	}
	// forward must-analysis: in[b] = set of buffers known empty at block entry (nil = not yet reached = top)
	type set map[string]bool
	in := make([]set, len(g.Blocks))
	reached := make([]bool, len(g.Blocks))
	meet := func(a, b set) set {
		o := set{}
		for k := range a {
			if b[k] {
				o[k] = true
			}
		}
		return o
	}
	transfer := func(b *cfg.Block, s set, visit func(e ev, s set)) set {
		cur := set{}
		for k := range s {
			cur[k] = true
		}
		for _, n := range b.Nodes {
			for _, e := range events(n) {
				switch {
				case e.kind == "inst":
					cur = set{}
				case strings.HasPrefix(e.kind, "reset:"):
					cur[strings.TrimPrefix(e.kind, "reset:")] = true
				case e.kind == "call" && visit != nil:
					visit(e, cur)
				}
			}
		}
		return cur
	}
	if len(g.Blocks) == 0 {
		c.Undecided(rule, "Module.RunFunc: control-flow graph", p.Pos(fd.Pos()), "empty graph")
		return
	}
	in[0], reached[0] = set{}, true
	work := []*cfg.Block{g.Blocks[0]}
	for len(work) > 0 {
		b := work[0]
		work = work[1:]
		out := transfer(b, in[b.Index], nil)
		for _, s := range b.Succs {
			var n set
			if !reached[s.Index] {
				n = out
			} else {
				n = meet(in[s.Index], out)
				if len(n) == len(in[s.Index]) {
					continue
				}
			}
			in[s.Index], reached[s.Index] = n, true
			work = append(work, s)
		}
	}
	nCalls := 0
	for _, b := range g.Blocks {
		if !reached[b.Index] {
			continue
		}
		transfer(b, in[b.Index], func(e ev, s set) {
			nCalls++
			var dirty []string
			for _, buf := range bufs {
				if !s[buf] {
					dirty = append(dirty, buf)
				}
			}
			c.Check(len(dirty) == 0, rule, fmt.Sprintf("Module.RunFunc: guest call #%d starts with empty output buffers", nCalls), p.Pos(e.pos.Pos()), "both buffers are reset after the last instantiation on every path",
				fmt.Sprintf("on some path to the guest call %s is not emptied after the module was instantiated (or since the previous call): what init functions and global initialisers print — or what the previous test printed — is attributed to this function, so an example whose own output matches its // Output: comment is reported FAIL (and one that prints nothing but declares the init output passes)", strings.Join(dirty, ", ")))
		})
	}
	c.Min(rule, "guest calls in RunFunc", nCalls, 1)
}
