package main

import (
	"go/token"

	"golang.org/x/tools/go/ssa"
)

// Interprocedural part of E8: which parameters does a function (transitively) write through, and under which
// `param != <package variable>` guards (writes guarded that way do not touch that variable's object).

type pwInfo struct {
	// excluded: package variables G such that every write through this parameter is dominated by `param != G`
	excluded map[*ssa.Global]bool
	init     bool
}

type paramWrites struct {
	memo map[*ssa.Function]map[int]*pwInfo
	busy map[*ssa.Function]bool
}

func newParamWrites() *paramWrites {
	return &paramWrites{memo: map[*ssa.Function]map[int]*pwInfo{}, busy: map[*ssa.Function]bool{}}
}

// rootOf follows address/value derivations back to a Parameter, Global or FreeVar.
func rootOf(v ssa.Value, depth int) ssa.Value {
	return rootOfSeen(v, depth, map[ssa.Value]bool{})
}

func rootOfSeen(v ssa.Value, depth int, seen map[ssa.Value]bool) ssa.Value {
	for i := 0; i < depth; i++ {
		switch x := v.(type) {
		case *ssa.Phi:
			// a loop-carried view of the same storage (`dst = dst[1:]`): any incoming value that has a root
			if seen[x] {
				return nil
			}
			seen[x] = true
			for _, e := range x.Edges {
				if r := rootOfSeen(e, depth-i, seen); r != nil {
					return r
				}
			}
			return nil
		case *ssa.Global, *ssa.Parameter, *ssa.FreeVar:
			return v
		case *ssa.FieldAddr:
			v = x.X
		case *ssa.IndexAddr:
			v = x.X
		case *ssa.Field:
			v = x.X
		case *ssa.Index:
			v = x.X
		case *ssa.UnOp:
			if x.Op != token.MUL {
				return nil
			}
			v = x.X
		case *ssa.Slice:
			v = x.X
		case *ssa.ChangeType:
			v = x.X
		case *ssa.Convert:
			v = x.X
		case *ssa.Lookup:
			v = x.X
		case *ssa.MakeInterface:
			v = x.X
		default:
			return nil
		}
	}
	return nil
}

// guardsOf: package variables G such that block b is dominated by the taken edge of `p != *G` (or the else edge of `p == *G`).
func guardsOf(fn *ssa.Function, b *ssa.BasicBlock, p *ssa.Parameter) map[*ssa.Global]bool {
	out := map[*ssa.Global]bool{}
	for _, blk := range fn.Blocks {
		if len(blk.Instrs) == 0 {
			continue
		}
		ifi, ok := blk.Instrs[len(blk.Instrs)-1].(*ssa.If)
		if !ok {
			continue
		}
		bo, ok := ifi.Cond.(*ssa.BinOp)
		if !ok || (bo.Op != token.NEQ && bo.Op != token.EQL) {
			continue
		}
		var other ssa.Value
		if bo.X == ssa.Value(p) {
			other = bo.Y
		} else if bo.Y == ssa.Value(p) {
			other = bo.X
		} else {
			continue
		}
		ld, ok := other.(*ssa.UnOp)
		if !ok || ld.Op != token.MUL {
			continue
		}
		g, ok := ld.X.(*ssa.Global)
		if !ok {
			continue
		}
		taken := blk.Succs[0]
		if bo.Op == token.EQL {
			taken = blk.Succs[1]
		}
		if len(taken.Preds) == 1 && taken.Dominates(b) {
			out[g] = true
		}
	}
	return out
}

func (pw *paramWrites) of(fn *ssa.Function, depth int) map[int]*pwInfo {
	if m, ok := pw.memo[fn]; ok {
		return m
	}
	out := map[int]*pwInfo{}
	if fn == nil || len(fn.Blocks) == 0 || depth == 0 || pw.busy[fn] {
		return out
	}
	pw.busy[fn] = true
	idx := map[*ssa.Parameter]int{}
	for i, p := range fn.Params {
		idx[p] = i
	}
	mark := func(v ssa.Value, b *ssa.BasicBlock, calleeExcl map[*ssa.Global]bool) {
		p, ok := rootOf(v, 10).(*ssa.Parameter)
		if !ok {
			return
		}
		g := guardsOf(fn, b, p)
		// a write the callee itself guards against G is also guarded here only when the argument is the parameter itself
		if calleeExcl != nil && v == ssa.Value(p) {
			for k := range calleeExcl {
				g[k] = true
			}
		}
		info := out[idx[p]]
		if info == nil {
			out[idx[p]] = &pwInfo{excluded: g, init: true}
			return
		}
		for k := range info.excluded {
			if !g[k] {
				delete(info.excluded, k)
			}
		}
	}
	for _, b := range fn.Blocks {
		for _, ins := range b.Instrs {
			switch x := ins.(type) {
			case *ssa.Store:
				mark(x.Addr, b, nil)
			case *ssa.MapUpdate:
				mark(x.Map, b, nil)
			case ssa.CallInstruction:
				cc := x.Common()
				if bi, ok := cc.Value.(*ssa.Builtin); ok {
					if (bi.Name() == "delete" || bi.Name() == "copy") && len(cc.Args) > 0 {
						mark(cc.Args[0], b, nil)
					}
					continue
				}
				callee := cc.StaticCallee()
				if callee == nil {
					continue
				}
				for i, info := range pw.of(callee, depth-1) {
					if i < len(cc.Args) {
						mark(cc.Args[i], b, info.excluded)
					}
				}
			}
		}
	}
	delete(pw.busy, fn)
	pw.memo[fn] = out
	return out
}
