package main

import (
	"fmt"
	"go/ast"
	"go/constant"
	"go/types"
	"strings"

	"golang.org/x/tools/go/packages"
)

// C16 rule jump-direction: basic blocks are emitted as nested wasm blocks ($Block_0 … ) inside a dispatch loop. A jump
// to a *later* block is a `br` out of the enclosing $Block_<dest-1>; a jump to the block itself or to an earlier one
// has no enclosing label to leave through and must go round the dispatcher (set the selector, `br $BlockDisp`). The
// decision in genJumpID is evaluated for the three orderings of (cur, dest): it must take the dispatcher exactly
// when cur >= dest — a self-loop (`for { f() }`) is the case cur == dest.
//
// C16 rule complex-helper-width: the arithmetic of complex64 / complex128 values is delegated to runtime helpers named
// after the width; a method of the 64-bit type that calls a helper of the 128-bit type passes f32 operands to a
// function declared with f64 parameters, and the module fails validation.

func c16JumpDirection(c *Ctx, p *Prog, bk *packages.Package) {
	const rule = "jump-direction"
	info := bk.TypesInfo
	fd := p.MustFunc(rule, bk, "functionGenerator.genJumpID")
	if fd == nil {
		return
	}
	if fd.Type.Params == nil || fd.Type.Params.NumFields() != 2 {
		c.Undecided(rule, "genJumpID", p.Pos(fd.Pos()), "expected the parameters (cur, dest)")
		return
	}
	var params []types.Object
	for _, f := range fd.Type.Params.List {
		for _, nm := range f.Names {
			params = append(params, info.ObjectOf(nm))
		}
	}
	var ifs *ast.IfStmt
	for _, s := range fd.Body.List {
		if x, ok := s.(*ast.IfStmt); ok && ifs == nil {
			ifs = x
		}
	}
	if ifs == nil || ifs.Else == nil {
		c.Undecided(rule, "genJumpID", p.Pos(fd.Pos()), "expected one if/else on the block indices")
		return
	}
	viaDispatcher := func(n ast.Node) bool {
		found := false
		ast.Inspect(n, func(m ast.Node) bool {
			if call, ok := m.(*ast.CallExpr); ok && strings.HasSuffix(types.ExprString(call.Fun), "NewInstBr") && len(call.Args) == 1 {
				if tv, ok := info.Types[call.Args[0]]; ok && tv.Value != nil && tv.Value.Kind() == constant.String && constant.StringVal(tv.Value) == "$BlockDisp" {
					found = true
				}
			}
			return true
		})
		return found
	}
	thenDisp, elseDisp := viaDispatcher(ifs.Body), viaDispatcher(ifs.Else)
	if thenDisp == elseDisp {
		c.Undecided(rule, "genJumpID", p.Pos(ifs.Pos()), "exactly one arm must go through $BlockDisp")
		return
	}
	var bad []string
	for _, pr := range [][2]int64{{1, 2}, {2, 2}, {3, 2}, {0, 1}, {0, 0}, {7, 0}} {
		env := &fenv{info: info, vars: map[types.Object]fval{params[0]: fInt(pr[0]), params[1]: fInt(pr[1])}}
		v := env.eval(ifs.Cond)
		if !v.OK || !v.IsBool {
			c.Undecided(rule, "genJumpID", p.Pos(ifs.Cond.Pos()), "the condition is not decided by the finite evaluator")
			return
		}
		disp := thenDisp == v.B
		want := pr[0] >= pr[1]
		if disp != want {
			bad = append(bad, fmt.Sprintf("cur=%d dest=%d goes %s", pr[0], pr[1], map[bool]string{true: "round the dispatcher although the target is a later block", false: "to `br $Block_<dest-1>` although no enclosing block with that label exists (the target is the block itself or an earlier one)"}[disp]))
		}
	}
	c.Check(len(bad) == 0, rule, "genJumpID", p.Pos(ifs.Pos()), "dispatcher exactly when cur >= dest (three orderings)", "genJumpID: "+strings.Join(bad, "; ")+": the emitted `br` names a label that is not in scope and the module does not assemble")
}

func c16ComplexHelperWidth(c *Ctx, p *Prog, wp *packages.Package) {
	const rule = "complex-helper-width"
	info := wp.TypesInfo
	n := 0
	for _, f := range wp.Syntax {
		for _, d := range f.Decls {
			fd, ok := d.(*ast.FuncDecl)
			if !ok || fd.Body == nil || fd.Recv == nil {
				continue
			}
			if len(fd.Recv.List) != 1 {
				continue
			}
			recv := recvTypeName(fd.Recv.List[0].Type)
			width := ""
			switch {
			case strings.Contains(strings.ToLower(recv), "complex64"):
				width = "complex64"
			case strings.Contains(strings.ToLower(recv), "complex128"):
				width = "complex128"
			default:
				continue
			}
			ast.Inspect(fd.Body, func(nd ast.Node) bool {
				call, ok := nd.(*ast.CallExpr)
				if !ok || !strings.HasSuffix(types.ExprString(call.Fun), "NewInstCall") || len(call.Args) != 1 {
					return true
				}
				tv, ok := info.Types[call.Args[0]]
				if !ok || tv.Value == nil || tv.Value.Kind() != constant.String {
					return true
				}
				sym := constant.StringVal(tv.Value)
				if !strings.Contains(sym, "complex") {
					return true
				}
				n++
				c.Check(strings.Contains(sym, width+"_") || strings.HasSuffix(sym, width), rule, recv+"."+fd.Name.Name+" -> "+sym, p.Pos(call.Pos()), "helper of the same width",
					fmt.Sprintf("%s.%s calls %s, a helper of the other complex width: its parameters have another float type than the operands pushed here, so the module fails validation", recv, fd.Name.Name, sym))
				return true
			})
		}
	}
	c.Min(rule, "complex arithmetic helper calls", n, 8)
}
