package main

import (
	"fmt"
	"os"
	"path/filepath"
	"sort"
	"strings"

	waast "wa-lang.org/wa/internal/ast"
	"wa-lang.org/wa/internal/ast/astutil"
	"wa-lang.org/wa/internal/loader/buildtag"
	waparser "wa-lang.org/wa/internal/parser"
	watoken "wa-lang.org/wa/internal/token"
)

// E6: the standard library's .wa / .wz sources, parsed with the repository's own parser (front end only; nothing is
// type-checked or executed), plus the per-target file selection the loader applies.

type waFile struct {
	Pkg  string // package path relative to waroot/src ("runtime", "syscall/js")
	Name string // base name
	Rel  string // path relative to the repository root
	AST  *waast.File
	Src  []byte
}

type waFuncDecl struct {
	File    *waFile
	Decl    *waast.FuncDecl
	Name    string
	Recv    string // receiver base type name, "" for functions
	Link    string // #wa:linkname
	Import  [2]string
	Getter  bool
	Setter  bool
	Sizer   bool
	HasBody bool
	Params  []string // type expressions, printed
	Results []string
}

// WatName is the symbol the back end gives the function (without the leading '$' of the text format).
func (f *waFuncDecl) WatName() string {
	if f.Link != "" {
		return f.Link
	}
	pkg := strings.ReplaceAll(f.File.Pkg, "/", "$")
	if f.Recv != "" {
		return pkg + "." + f.Recv + "." + f.Name
	}
	return pkg + "." + f.Name
}

type waStd struct {
	c     *Ctx
	Fset  *watoken.FileSet
	Root  string               // waroot/src, relative to repo
	Pkgs  map[string][]*waFile // package -> all source files (every target)
	Ws    map[string][]string  // package -> .ws file base names
	funcs map[*waFile][]*waFuncDecl
}

func waExprString(e waast.Expr) string {
	switch x := e.(type) {
	case nil:
		return ""
	case *waast.Ident:
		return x.Name
	case *waast.StarExpr:
		return "*" + waExprString(x.X)
	case *waast.ArrayType:
		if x.Len == nil {
			return "[]" + waExprString(x.Elt)
		}
		return "[" + waExprString(x.Len) + "]" + waExprString(x.Elt)
	case *waast.SelectorExpr:
		return waExprString(x.X) + "." + x.Sel.Name
	case *waast.BasicLit:
		return x.Value
	case *waast.Ellipsis:
		return "..." + waExprString(x.Elt)
	case *waast.MapType:
		return "map[" + waExprString(x.Key) + "]" + waExprString(x.Value)
	case *waast.ParenExpr:
		return "(" + waExprString(x.X) + ")"
	case *waast.InterfaceType:
		return "interface{…}"
	case *waast.StructType:
		return "struct{…}"
	case *waast.FuncType:
		return "func(…)"
	}
	return fmt.Sprintf("%T", e)
}

func fieldTypes(fl *waast.FieldList) []string {
	var out []string
	if fl == nil {
		return out
	}
	for _, f := range fl.List {
		n := len(f.Names)
		if n == 0 {
			n = 1
		}
		for i := 0; i < n; i++ {
			out = append(out, waExprString(f.Type))
		}
	}
	return out
}

// LoadWaStd parses every .wa/.wz file under waroot/src. A file the repository's parser rejects is an undecided obligation.
func LoadWaStd(c *Ctx, rule string) *waStd {
	s := &waStd{c: c, Fset: watoken.NewFileSet(), Root: "waroot/src", Pkgs: map[string][]*waFile{}, Ws: map[string][]string{}, funcs: map[*waFile][]*waFuncDecl{}}
	root := filepath.Join(c.Repo, s.Root)
	filepath.Walk(root, func(path string, info os.FileInfo, err error) error {
		if err != nil || info.IsDir() {
			return nil
		}
		rel, _ := filepath.Rel(root, path)
		pkg := filepath.ToSlash(filepath.Dir(rel))
		base := filepath.Base(path)
		if strings.HasPrefix(base, "_") {
			return nil
		}
		switch {
		case strings.HasSuffix(base, ".wat.ws"):
			if pkg != "." {
				s.Ws[pkg] = append(s.Ws[pkg], base)
			}
		case strings.HasSuffix(base, ".wa"), strings.HasSuffix(base, ".wz"):
			if pkg == "." || waPseudoPkgs[pkg] != "" {
				return nil
			}
			src, err := c.ReadFile(filepath.Join(s.Root, rel))
			if err != nil {
				c.Undecided(rule, "read "+rel, "", err.Error())
				return nil
			}
			f, err := waparser.ParseFile(nil, s.Fset, path, src, waparser.ParseComments)
			if err != nil || f == nil {
				c.Undecided(rule, "parse "+filepath.ToSlash(filepath.Join(s.Root, rel)), "", fmt.Sprintf("the repository's parser rejects this standard-library file: %v", err))
				return nil
			}
			s.Pkgs[pkg] = append(s.Pkgs[pkg], &waFile{Pkg: pkg, Name: base, Rel: filepath.ToSlash(filepath.Join(s.Root, rel)), AST: f, Src: src})
		}
		return nil
	})
	return s
}

// waPseudoPkgs are directories under waroot/src that document predeclared identifiers. They are never parsed or compiled
// as packages: the loader answers `import "unsafe"` / "洪荒" from the type checker's built-in package objects and has no
// path to "builtin" / "太初" at all (confirmed: `import "builtin"` fails with "file does not exist").
var waPseudoPkgs = map[string]string{
	"builtin": "documentation of the predeclared identifiers (English)",
	"太初":      "documentation of the predeclared identifiers (Chinese)",
	"unsafe":  "answered by types.WaUnsafe in loader.Import",
	"洪荒":      "answered by types.WzUnsafe in loader.Import; not even parseable by the .wz parser",
}

func isWaTestFile(name string) bool {
	return strings.HasPrefix(name, "test_") || strings.HasSuffix(name, "_test.wa") || strings.HasSuffix(name, "_test.wz") || strings.HasSuffix(name, "_test.wa.go")
}

// selectedByName mirrors loader.isSkipedSouceFile for non-test builds.
func selectedByName(name string, exts []string, osList []string, target string) bool {
	if strings.HasPrefix(name, "_") {
		return false
	}
	has := false
	for _, e := range exts {
		if strings.HasSuffix(name, e) {
			has = true
		}
	}
	if !has || isWaTestFile(name) {
		return false
	}
	isTarget := false
	for _, e := range exts {
		for _, o := range osList {
			if strings.HasSuffix(name, "_"+o+e) {
				isTarget = true
			}
		}
	}
	if isTarget {
		for _, e := range exts {
			if strings.HasSuffix(name, "_"+target+e) {
				return true
			}
		}
		return false
	}
	return true
}

// osSpecific reports whether the file name carries a target suffix.
func osSpecific(name string, exts []string, osList []string) bool {
	for _, e := range exts {
		for _, o := range osList {
			if strings.HasSuffix(name, "_"+o+e) {
				return true
			}
		}
	}
	return false
}

// buildTagOK mirrors loader.isSkipedAstFile: the first #wa:build line decides.
func (s *waStd) buildTagOK(f *waFile, target, arch string) (bool, error) {
	var line string
	scan := func(g *waast.CommentGroup) {
		if g == nil || line != "" {
			return
		}
		for _, x := range g.List {
			if buildtag.IsWaBuild(x.Text) {
				line = x.Text
				return
			}
		}
	}
	scan(f.AST.Doc)
	for _, g := range f.AST.Comments {
		scan(g)
	}
	if line == "" {
		return true, nil
	}
	expr, err := buildtag.Parse(line)
	if err != nil {
		return false, err
	}
	return expr.Eval(func(tag string) bool { return tag == target || tag == arch }), nil
}

// Files returns the files of pkg that a build for target selects.
func (s *waStd) Files(pkg string, osList []string, target string) []*waFile {
	var out []*waFile
	for _, f := range s.Pkgs[pkg] {
		if !selectedByName(f.Name, []string{".wa", ".wz"}, osList, target) {
			continue
		}
		ok, err := s.buildTagOK(f, target, "wasm")
		if err != nil || !ok {
			continue
		}
		out = append(out, f)
	}
	return out
}

func (s *waStd) WsFiles(pkg string, osList []string, target string) []string {
	var out []string
	for _, n := range s.Ws[pkg] {
		if selectedByName(n, []string{".wat.ws"}, osList, target) {
			out = append(out, n)
		}
	}
	sort.Strings(out)
	return out
}

func recvBase(fl *waast.FieldList) string {
	if fl == nil || len(fl.List) == 0 {
		return ""
	}
	t := fl.List[0].Type
	for {
		switch x := t.(type) {
		case *waast.StarExpr:
			t = x.X
			continue
		case *waast.ParenExpr:
			t = x.X
			continue
		case *waast.Ident:
			return x.Name
		}
		return waExprString(t)
	}
}

// Funcs lists the function declarations of a file.
func (s *waStd) Funcs(f *waFile) []*waFuncDecl {
	if v, ok := s.funcs[f]; ok {
		return v
	}
	var out []*waFuncDecl
	for _, d := range f.AST.Decls {
		fd, ok := d.(*waast.FuncDecl)
		if !ok || fd.Name == nil {
			continue
		}
		info := astutil.ParseCommentInfo(fd.Doc)
		w := &waFuncDecl{File: f, Decl: fd, Name: fd.Name.Name, Recv: recvBase(fd.Recv), Link: info.LinkName, Import: info.ImportName,
			Getter: info.RuntimeGetter, Setter: info.RuntimeSetter, Sizer: info.RuntimeSizer, HasBody: fd.Body != nil}
		if fd.Type != nil {
			w.Params = fieldTypes(fd.Type.Params)
			w.Results = fieldTypes(fd.Type.Results)
		}
		// a method written as `func T.M(...)` carries the receiver in the name
		if w.Recv == "" && strings.Contains(w.Name, ".") {
			i := strings.LastIndex(w.Name, ".")
			w.Recv, w.Name = strings.TrimPrefix(w.Name[:i], "*"), w.Name[i+1:]
		}
		out = append(out, w)
	}
	s.funcs[f] = out
	return out
}

// Imports lists the import paths of a file.
func waImports(f *waFile) []string {
	var out []string
	for _, im := range f.AST.Imports {
		if im.Path != nil {
			out = append(out, strings.Trim(im.Path.Value, "\"`"))
		}
	}
	return out
}

func (s *waStd) Pos(f *waFile, p watoken.Pos) string {
	pos := s.Fset.Position(p)
	return fmt.Sprintf("%s:%d", f.Rel, pos.Line)
}
