package main

import (
	"fmt"
	"go/ast"
	"go/constant"
	"go/token"
	"go/types"
	"strings"

	"golang.org/x/tools/go/packages"
)

// C03 extra rule (added after a seeded change was missed): data segments are emitted as C string literals by a
// per-byte switch with one bit of state ("the previous byte was written as a \x escape", which is greedy in C).
// The switch is evaluated for all 256 byte values in both states — a finite domain — and the emitted text is
// decoded by the C rules for string literals; the decoded bytes must be the original byte (and must not merge into
// the preceding escape).

type cEmitState struct {
	prev bool
	out  strings.Builder
}

// cDecode decodes the body of a C string literal (adjacent literals `""` concatenate).
func cDecode(s string) ([]byte, bool) {
	var out []byte
	for i := 0; i < len(s); {
		ch := s[i]
		switch {
		case ch == '"':
			// `""`: end of one literal, start of the next
			if i+1 < len(s) && s[i+1] == '"' {
				i += 2
				continue
			}
			return nil, false // an unescaped quote ends the literal early
		case ch == '\\':
			if i+1 >= len(s) {
				return nil, false
			}
			e := s[i+1]
			switch e {
			case 'x':
				j := i + 2
				v := 0
				for j < len(s) && strings.IndexByte("0123456789abcdefABCDEF", s[j]) >= 0 {
					d := strings.IndexByte("0123456789abcdef", strings.ToLower(s[j : j+1])[0])
					v = v*16 + d
					j++
				}
				if j == i+2 || v > 255 {
					return nil, false
				}
				out = append(out, byte(v))
				i = j
			case 'n':
				out = append(out, '\n')
				i += 2
			case 't':
				out = append(out, '\t')
				i += 2
			case 'r':
				out = append(out, '\r')
				i += 2
			case '\\', '"', '\'', '?':
				out = append(out, e)
				i += 2
			case '0', '1', '2', '3', '4', '5', '6', '7':
				j := i + 1
				v := 0
				for j < len(s) && j < i+4 && s[j] >= '0' && s[j] <= '7' {
					v = v*8 + int(s[j]-'0')
					j++
				}
				out = append(out, byte(v))
				i = j
			default:
				return nil, false // unknown escape: undefined behaviour / compiler error
			}
		default:
			out = append(out, ch)
			i++
		}
	}
	return out, true
}

// cTrigraphs applies ISO C translation phase 1 to source text.
func cTrigraphs(s string) string {
	r := strings.NewReplacer("??=", "#", "??(", "[", "??/", "\\", "??)", "]", "??'", "^", "??<", "{", "??!", "|", "??>", "}", "??-", "~")
	return r.Replace(s)
}

func c03DataLiteral(c *Ctx, p *Prog, pk *packages.Package) {
	const rule = "c-data-literal"
	info := pk.TypesInfo
	fd := p.MustFunc(rule, pk, "wat2cWorker.buildMemory_data")
	if fd == nil {
		return
	}
	// the per-byte switch: a tagless switch inside `for _, x := range d.Value`
	var sw *ast.SwitchStmt
	var xObj, prevObj types.Object
	ast.Inspect(fd.Body, func(n ast.Node) bool {
		rs, ok := n.(*ast.RangeStmt)
		if !ok || sw != nil {
			return true
		}
		if id, ok := rs.Value.(*ast.Ident); ok && len(rs.Body.List) == 1 {
			if s, ok := rs.Body.List[0].(*ast.SwitchStmt); ok && s.Tag == nil {
				sw = s
				xObj = info.ObjectOf(id)
			}
		}
		return true
	})
	ast.Inspect(fd.Body, func(n ast.Node) bool {
		if as, ok := n.(*ast.AssignStmt); ok && as.Tok == token.DEFINE && len(as.Lhs) == 1 && prevObj == nil {
			if id, ok := as.Lhs[0].(*ast.Ident); ok && strings.Contains(strings.ToLower(id.Name), "hex") {
				prevObj = info.ObjectOf(id)
			}
		}
		return true
	})
	if sw == nil || xObj == nil || prevObj == nil {
		c.Undecided(rule, "buildMemory_data: per-byte switch", p.Pos(fd.Pos()), "the per-byte emission switch and its hex-escape state variable were not recognised")
		return
	}
	// evaluator
	var evalInt func(e ast.Expr, x int) (int, bool)
	var evalBool func(e ast.Expr, x int, prev bool) (bool, bool)
	evalInt = func(e ast.Expr, x int) (int, bool) {
		e = ast.Unparen(e)
		if tv, ok := info.Types[e]; ok && tv.Value != nil && tv.Value.Kind() == constant.Int {
			v, ok := constant.Int64Val(tv.Value)
			return int(v), ok
		}
		switch n := e.(type) {
		case *ast.Ident:
			if info.ObjectOf(n) == xObj {
				return x, true
			}
		case *ast.CallExpr:
			if len(n.Args) == 1 {
				if tv, ok := info.Types[n.Fun]; ok && tv.IsType() {
					return evalInt(n.Args[0], x)
				}
			}
		}
		return 0, false
	}
	evalBool = func(e ast.Expr, x int, prev bool) (bool, bool) {
		e = ast.Unparen(e)
		switch n := e.(type) {
		case *ast.Ident:
			if info.ObjectOf(n) == prevObj {
				return prev, true
			}
		case *ast.UnaryExpr:
			if n.Op == token.NOT {
				b, ok := evalBool(n.X, x, prev)
				return !b, ok
			}
		case *ast.BinaryExpr:
			switch n.Op {
			case token.LAND, token.LOR:
				a, ok1 := evalBool(n.X, x, prev)
				b, ok2 := evalBool(n.Y, x, prev)
				if n.Op == token.LAND {
					return a && b, ok1 && ok2
				}
				return a || b, ok1 && ok2
			case token.EQL, token.NEQ, token.LSS, token.LEQ, token.GTR, token.GEQ:
				a, ok1 := evalInt(n.X, x)
				b, ok2 := evalInt(n.Y, x)
				if !ok1 || !ok2 {
					return false, false
				}
				switch n.Op {
				case token.EQL:
					return a == b, true
				case token.NEQ:
					return a != b, true
				case token.LSS:
					return a < b, true
				case token.LEQ:
					return a <= b, true
				case token.GTR:
					return a > b, true
				default:
					return a >= b, true
				}
			}
		case *ast.CallExpr:
			if fn := CalleeOf(info, n); fn != nil && FuncFullName(fn) == "strings.ContainsRune" && len(n.Args) == 2 {
				if tv, ok := info.Types[n.Args[0]]; ok && tv.Value != nil && tv.Value.Kind() == constant.String {
					v, ok := evalInt(n.Args[1], x)
					return ok && strings.ContainsRune(constant.StringVal(tv.Value), rune(v)), ok
				}
			}
		}
		return false, false
	}
	var exec func(list []ast.Stmt, x int, st *cEmitState) bool
	exec = func(list []ast.Stmt, x int, st *cEmitState) bool {
		for _, s := range list {
			switch n := s.(type) {
			case *ast.AssignStmt:
				if len(n.Lhs) == 1 && len(n.Rhs) == 1 {
					if id, ok := n.Lhs[0].(*ast.Ident); ok && info.ObjectOf(id) == prevObj {
						b, ok := evalBool(n.Rhs[0], x, st.prev)
						if tv, isC := info.Types[n.Rhs[0]]; isC && tv.Value != nil && tv.Value.Kind() == constant.Bool {
							b, ok = constant.BoolVal(tv.Value), true
						}
						if !ok {
							return false
						}
						st.prev = b
						continue
					}
				}
				return false
			case *ast.IfStmt:
				if n.Init != nil || n.Else != nil {
					return false
				}
				b, ok := evalBool(n.Cond, x, st.prev)
				if !ok {
					return false
				}
				if b && !exec(n.Body.List, x, st) {
					return false
				}
			case *ast.ExprStmt:
				call, ok := n.X.(*ast.CallExpr)
				if !ok || len(call.Args) != 1 {
					return false
				}
				se, ok := call.Fun.(*ast.SelectorExpr)
				if !ok || se.Sel.Name != "WriteString" {
					return false
				}
				arg := ast.Unparen(call.Args[0])
				if tv, ok := info.Types[arg]; ok && tv.Value != nil && tv.Value.Kind() == constant.String {
					st.out.WriteString(constant.StringVal(tv.Value))
					continue
				}
				if sp, ok := arg.(*ast.CallExpr); ok {
					if fn := CalleeOf(info, sp); fn != nil && FuncFullName(fn) == "fmt.Sprintf" && len(sp.Args) == 2 {
						ftv, ok1 := info.Types[sp.Args[0]]
						v, ok2 := evalInt(sp.Args[1], x)
						if ok1 && ftv.Value != nil && ok2 {
							st.out.WriteString(fmt.Sprintf(constant.StringVal(ftv.Value), v))
							continue
						}
					}
				}
				return false
			default:
				return false
			}
		}
		return true
	}
	var bad []string
	undecided := ""
	// emit: what the switch writes for byte x in state st (the state is carried on)
	emit := func(x int, st *cEmitState) bool {
		for _, cc := range sw.Body.List {
			cl := cc.(*ast.CaseClause)
			take := cl.List == nil
			for _, e := range cl.List {
				b, ok := evalBool(e, x, st.prev)
				if !ok {
					undecided = "case condition " + types.ExprString(e)
				}
				take = take || b
			}
			if take {
				if !exec(cl.Body, x, st) {
					undecided = "statements of the arm for byte " + fmt.Sprint(x)
				}
				return true
			}
		}
		return false
	}
	for _, prev := range []bool{false, true} {
		for x := 0; x < 256; x++ {
			st := &cEmitState{prev: prev}
			matched := emit(x, st)
			if undecided != "" {
				break
			}
			if !matched {
				bad = append(bad, fmt.Sprintf("byte %#02x: no arm", x))
				continue
			}
			prefix, wantPrefix := "a", []byte{'a'}
			if prev {
				prefix, wantPrefix = `\x00`, []byte{0}
			}
			got, ok := cDecode(prefix + st.out.String())
			want := append(append([]byte{}, wantPrefix...), byte(x))
			if (!ok || string(got) != string(want)) && len(bad) < 6 {
				after := "a plain character"
				if prev {
					after = `a \x escape`
				}
				bad = append(bad, fmt.Sprintf("byte %#02x after %s is written as %q, which a C compiler reads as % x", x, after, st.out.String(), got))
			}
		}
	}
	// three-byte contexts: a standard C compiler replaces the nine trigraphs `??x` before it reads the literal
	var badTri []string
	if undecided == "" {
		for _, third := range []byte("=(/)'<!>-") {
			for _, prev := range []bool{false, true} {
				st := &cEmitState{prev: prev}
				ok := emit('?', st) && emit('?', st) && emit(int(third), st)
				if undecided != "" || !ok {
					break
				}
				prefix, want := "a", []byte{'a', '?', '?', third}
				if prev {
					prefix, want = `\x00`, []byte{0, '?', '?', third}
				}
				got, okd := cDecode(cTrigraphs(prefix + st.out.String()))
				if (!okd || string(got) != string(want)) && len(badTri) < 4 {
					badTri = append(badTri, fmt.Sprintf("the bytes `??%c` are written as %q, which a standard C compiler (trigraph replacement, ISO C translation phase 1) reads as % x", third, st.out.String(), got))
				}
			}
		}
	}
	if undecided != "" {
		c.Undecided(rule, "buildMemory_data: per-byte switch", p.Pos(sw.Pos()), "the finite evaluator does not model the "+undecided)
		return
	}
	c.Check(len(badTri) == 0, rule, "buildMemory_data: `??x` sequences survive trigraph replacement", p.Pos(sw.Pos()), "18 cases decode to the original bytes",
		"the C string literal written for a data segment does not decode to the segment's bytes: "+strings.Join(badTri, "; ")+": under -std=c99/-std=c11 linear memory of the C build differs from the module's")
	c.Check(len(bad) == 0, rule, "buildMemory_data: every byte value in both escape states", p.Pos(sw.Pos()), "512 cases decode to the original byte",
		"the C string literal written for a data segment does not decode to the segment's bytes: "+strings.Join(bad, "; ")+": linear memory of the C build differs from the module's")
}
